/-
Shared TOC model (core Lean only): the two interpreters of an eStargz table of contents.

  * `memTree` mirrors `estargz.(*Reader).initFields` + `getSource` + `getOrCreateDir` +
    `ChunkEntryForOffset` (estargz/estargz.go) and the id-free part of
    `metadata/memory/reader.go` (`attrFromTOCEntry`, `OpenFile`, `GetOffset`, `ForeachChild`).
  * `dbTree` mirrors the streaming `(*reader).initNodes`, `getIDByName`, `getOrCreateDir`,
    `setChild` (cmd/containerd-stargz-grpc/db/reader.go) and `writeAttr`/`readAttr`/`readNumLink`/
    `readChunks`/`file.ChunkEntryForOffset` (db/db.go, db/reader.go).

Both produce a `Tree`; `view` walks a tree exactly like the harness walks a `metadata.Reader`
(sorted children, FUSE-normalised attributes as in fs/layer/node.go `entryToAttr`, chunk triple
at every probe offset) and yields the canonical `View` the driver prints.

Node identities are abstract (`Key`): the numeric ids of the Go stores never reach a caller in a
way that survives canonicalisation, a node is named by the TOC entry (or implicit directory) that
created it.  JSON decoding, compression, SHA-256 and bolt are outside the model.
-/
namespace SV.Toc

/-! ## Entry names -/

abbrev Path := List String

/-- split a name at '/' (like `strings.Split(s, "/")`). -/
def splitSlash : List Char → List (List Char)
  | [] => [[]]
  | c :: cs =>
    if c = '/' then [] :: splitSlash cs
    else match splitSlash cs with
      | [] => [[c]]
      | x :: xs => (c :: x) :: xs

/-- `path.Clean("/" + name)` on component lists, stack kept reversed: empty and `.` components
are dropped, `..` pops (never above the root). -/
def cleanComps : List (List Char) → List (List Char) → List (List Char)
  | [], acc => acc.reverse
  | c :: cs, acc =>
    if c = [] ∨ c = ['.'] then cleanComps cs acc
    else if c = ['.', '.'] then cleanComps cs acc.tail
    else cleanComps cs (c :: acc)

/-- Go `cleanEntryName`: `strings.TrimPrefix(path.Clean("/"+name), "/")`, as components. -/
def cleanChars (cs : List Char) : List (List Char) := cleanComps (splitSlash cs) []

def cleanName (s : String) : Path := (cleanChars s.toList).map String.ofList

/-- join with '/' -/
def joinSlash : List (List Char) → List Char
  | [] => []
  | [x] => x
  | x :: y :: rest => x ++ '/' :: joinSlash (y :: rest)

/-- the string a cleaned name stands for -/
def renderPath (p : Path) : String := String.ofList (joinSlash (p.map String.toList))

/-- Go `parentDir`: `path.Split` + trim of the trailing slash. -/
def parentDir (p : Path) : Path := p.dropLast

/-- Go `path.Base` of a non-empty cleaned name. -/
def baseName (p : Path) : String := p.getLast?.getD ""

/-! ## TOC entries -/

structure Entry where
  name : String
  type : String
  size : Int := 0
  linkName : String := ""
  mode : Int := 0
  uid : Int := 0
  gid : Int := 0
  devMajor : Int := 0
  devMinor : Int := 0
  offset : Int := 0
  innerOffset : Int := 0
  chunkOffset : Int := 0
  chunkSize : Int := 0
  digest : String := ""
  chunkDigest : String := ""
  /-- modification time as an instant (`none` = zero time / unparsable) -/
  mtime : Option Int := none
  /-- decoded JSON object, keys unique -/
  xattrs : List (String × String) := []
  deriving Repr, DecidableEq, Inhabited

def Entry.isData (e : Entry) : Bool := e.type = "reg" ∨ e.type = "chunk"

/-! ## File modes (`os.FileMode`) -/

def modeDir : Nat := 2 ^ 31
def modeSymlink : Nat := 2 ^ 27
def modeDevice : Nat := 2 ^ 26
def modeNamedPipe : Nat := 2 ^ 25
def modeSocket : Nat := 2 ^ 24
def modeSetuid : Nat := 2 ^ 23
def modeSetgid : Nat := 2 ^ 22
def modeCharDevice : Nat := 2 ^ 21
def modeSticky : Nat := 2 ^ 20
def modeIrregular : Nat := 2 ^ 19

def bit (n k : Nat) : Bool := n / 2 ^ k % 2 = 1

/-- `TOCEntry.Stat().Mode()` (estargz/types.go `fileInfo.Mode`): permission and
setuid/setgid/sticky bits of the tar mode, type bits from the entry type. -/
def goFileMode (type : String) (mode : Int) : Nat :=
  let m := (mode % 4096).toNat
  let perm := m % 512
  let fl := (if bit m 11 then modeSetuid else 0) + (if bit m 10 then modeSetgid else 0)
            + (if bit m 9 then modeSticky else 0)
  let ty := if type = "dir" then modeDir
            else if type = "symlink" then modeSymlink
            else if type = "char" then modeDevice + modeCharDevice
            else if type = "block" then modeDevice
            else if type = "fifo" then modeNamedPipe
            else 0
  perm + fl + ty

/-- the `ModeType` part, as a tag -/
def modeTypeBits (fm : Nat) : Nat :=
  (if bit fm 31 then modeDir else 0) + (if bit fm 27 then modeSymlink else 0)
  + (if bit fm 26 then modeDevice else 0) + (if bit fm 25 then modeNamedPipe else 0)
  + (if bit fm 24 then modeSocket else 0) + (if bit fm 21 then modeCharDevice else 0)
  + (if bit fm 19 then modeIrregular else 0)

def fmIsRegular (fm : Nat) : Bool := modeTypeBits fm = 0
def fmIsDir (fm : Nat) : Bool := bit fm 31

/-- fs/layer/node.go `fileModeToSystemMode`. -/
def sysMode (fm : Nat) : Nat :=
  let perm := fm % 512
  let t := modeTypeBits fm
  let ty := if t = modeDevice then 0o60000
            else if t = modeDevice + modeCharDevice then 0o20000
            else if t = modeDir then 0o40000
            else if t = modeNamedPipe then 0o10000
            else if t = modeSymlink then 0o120000
            else if t = modeSocket then 0o140000
            else 0o100000
  perm + ty + (if bit fm 23 then 0o4000 else 0) + (if bit fm 22 then 0o2000 else 0)
    + (if bit fm 20 then 0o1000 else 0)

/-- type letter of a directory listing line (harness `verifTypeChar`). -/
def typeChar (fm : Nat) : Char :=
  if fmIsDir fm then 'd' else if bit fm 27 then 'l' else if bit fm 21 then 'c'
  else if bit fm 26 then 'b' else if bit fm 25 then 'p' else 'f'

/-! ## Attributes -/

/-- `metadata.Attr` -/
structure Attr where
  size : Int := 0
  mtime : Option Int := none
  linkName : String := ""
  mode : Nat := 0
  uid : Int := 0
  gid : Int := 0
  devMajor : Int := 0
  devMinor : Int := 0
  xattrs : List (String × String) := []
  numLink : Int := 0
  deriving Repr, DecidableEq, Inhabited

/-- `attrFromTOCEntry` (identical in both packages); `numLink` is passed separately because the
two stores compute it differently. -/
def attrOfEntry (e : Entry) (numLink : Int) : Attr :=
  { size := e.size, mtime := e.mtime, linkName := e.linkName, mode := goFileMode e.type e.mode,
    uid := e.uid, gid := e.gid, devMajor := e.devMajor, devMinor := e.devMinor,
    xattrs := e.xattrs, numLink := numLink }

/-- insertion sort of xattrs by key (a Go map has no order; the view prints them sorted). -/
def insertKV (kv : String × String) : List (String × String) → List (String × String)
  | [] => [kv]
  | x :: xs => if kv.1 ≤ x.1 then kv :: x :: xs else x :: insertKV kv xs

def sortKV (l : List (String × String)) : List (String × String) := l.foldr insertKV []

/-- What a container can observe of an `Attr` (fs/layer/node.go `entryToAttr`): symlink size is
the length of the target, `Nlink` is `uint32(NumLink)` with 0 meaning 1, system mode bits. -/
structure NAttr where
  mode : Nat
  size : Int
  uid : Int
  gid : Int
  devMajor : Int
  devMinor : Int
  nlink : Int
  linkName : String
  mtime : Option Int
  xattrs : List (String × String)
  deriving Repr, DecidableEq, Inhabited

def normNlink (n : Int) : Int :=
  let u := n % 4294967296
  if u = 0 then 1 else u

def normalise (a : Attr) : NAttr :=
  { mode := sysMode a.mode,
    size := if bit a.mode 27 then (a.linkName.utf8ByteSize : Int) else a.size,
    uid := a.uid, gid := a.gid, devMajor := a.devMajor, devMinor := a.devMinor,
    nlink := normNlink a.numLink, linkName := a.linkName, mtime := a.mtime,
    xattrs := sortKV a.xattrs }

/-! ## The db encoding of attributes (`writeAttr` / `readAttr`) -/

/-- one node bucket: a key is absent when its field is `none`. -/
structure DbAttr where
  size : Option Int := none
  uid : Option Int := none
  gid : Option Int := none
  devMajor : Option Int := none
  devMinor : Option Int := none
  /-- stored value is `NumLink - 1` -/
  numLink : Option Int := none
  mtime : Option Int := none
  linkName : Option String := none
  mode : Option Nat := none
  /-- first xattr (`xattrKey` / `xattrValue`) -/
  xFirst : Option (String × String) := none
  /-- the `xattrsExtra` bucket -/
  xExtra : Option (List (String × String)) := none
  deriving Repr, DecidableEq, Inhabited

def putNZ (old : Option Int) (v : Int) : Option Int := if v ≠ 0 then some v else old

/-- replace the value of a key in a bucket (bolt `Put`) -/
def bucketPut (kv : String × String) : List (String × String) → List (String × String)
  | [] => [kv]
  | x :: xs => if x.1 = kv.1 then kv :: xs else x :: bucketPut kv xs

/-- `writeAttr` into an existing bucket `b` (fresh bucket = `{}`): only non-zero values are put,
the first xattr goes to `xattrKey`/`xattrValue`, the others to a freshly reset `xattrsExtra`
bucket (reset only when there is at least one other xattr).  The Go code takes "first" from map
iteration order; the result of `readAttr` does not depend on the choice for a fresh bucket. -/
def writeAttr (b : DbAttr) (a : Attr) : DbAttr :=
  let b := { b with
    size := putNZ b.size a.size, uid := putNZ b.uid a.uid, gid := putNZ b.gid a.gid,
    devMajor := putNZ b.devMajor a.devMajor, devMinor := putNZ b.devMinor a.devMinor,
    numLink := putNZ b.numLink (a.numLink - 1),
    mtime := match a.mtime with | some t => some t | none => b.mtime,
    linkName := if a.linkName ≠ "" then some a.linkName else b.linkName,
    mode := if a.mode ≠ 0 then some a.mode else b.mode }
  match a.xattrs with
  | [] => b
  | first :: rest =>
    let b := { b with xFirst := some first }
    match rest with
    | [] => b
    | _ => { b with xExtra := some (rest.foldl (fun acc kv => bucketPut kv acc) []) }

/-- `readAttr`: absent keys leave the zero value; `numLink` present means `stored + 1`. -/
def readAttr (b : DbAttr) : Attr :=
  { size := b.size.getD 0, mtime := b.mtime, linkName := b.linkName.getD "",
    mode := (b.mode.getD 0) % 4294967296,
    uid := b.uid.getD 0, gid := b.gid.getD 0, devMajor := b.devMajor.getD 0,
    devMinor := b.devMinor.getD 0,
    numLink := match b.numLink with | some n => n + 1 | none => 0,
    xattrs := (match b.xFirst with | some kv => [kv] | none => []) ++ b.xExtra.getD [] }

/-- `readNumLink` -/
def readNumLink (b : DbAttr) : Int := b.numLink.getD 0 + 1

/-- `putInt(b, numLink, numLink+1)` where numLink is the raw stored value -/
def bumpNumLink (b : DbAttr) : DbAttr := { b with numLink := some (b.numLink.getD 0 + 1) }

/-! ## `sort.Search` and the chunk tables -/

/-- Go `sort.Search(n, f)`: the loop, with the interval as termination measure. -/
def searchLoop (f : Nat → Bool) (i j : Nat) : Nat :=
  if h : i < j then
    let m := (i + j) / 2
    if f m then searchLoop f i m else searchLoop f (m + 1) j
  else i
termination_by j - i
decreasing_by all_goals omega

def searchFirst (n : Nat) (f : Nat → Bool) : Nat := searchLoop f 0 n

/-- a row of a chunk table as both lookups see it -/
structure Chunk where
  chunkOffset : Int
  chunkSize : Int
  digest : String
  offset : Int := 0
  deriving Repr, DecidableEq, Inhabited

/-- the predicate both `ChunkEntryForOffset`s hand to `sort.Search` -/
def chunkPred (tab : List Chunk) (x : Int) (i : Nat) : Bool :=
  match tab[i]? with
  | some e => e.chunkOffset ≥ x ∨ (x > e.chunkOffset ∧ x < e.chunkOffset + e.chunkSize)
  | none => true

def searchChunk (tab : List Chunk) (x : Int) : Option (Int × Int × String) :=
  match tab[searchFirst tab.length (chunkPred tab x)]? with
  | some e => some (e.chunkOffset, e.chunkSize, e.digest)
  | none => none

/-- memory store: the digest reported for a data entry -/
def memDigest (e : Entry) : String := if e.chunkDigest ≠ "" then e.chunkDigest else e.digest

/-- What a store needs to answer `ChunkEntryForOffset` for one node. -/
inductive ChunkTab where
  /-- not a data node: every lookup fails -/
  | none
  /-- memory store, `len(ents) < 2`: the entry itself, bounded by its ChunkSize only -/
  | single (chunkOffset chunkSize : Int) (digest : String)
  /-- binary search over a table (memory store with >= 2 rows, db store always) -/
  | table (rows : List Chunk)
  deriving Repr, DecidableEq, Inhabited

def ChunkTab.lookup : ChunkTab → Int → Option (Int × Int × String)
  | .none, _ => Option.none
  | .single co cs d, x => if x ≥ cs then Option.none else some (co, cs, d)
  | .table rows, x => searchChunk rows x

/-- insertion sort by chunkOffset (stable), for `readChunks` -/
def insertChunk (c : Chunk) : List Chunk → List Chunk
  | [] => [c]
  | x :: xs => if c.chunkOffset < x.chunkOffset then c :: x :: xs else x :: insertChunk c xs

def sortChunks (l : List Chunk) : List Chunk := l.foldr insertChunk []

/-- chunksExtra bucket: keyed by chunkOffset, a later Put replaces an earlier one -/
def putChunk (c : Chunk) : List Chunk → List Chunk
  | [] => [c]
  | x :: xs => if x.chunkOffset = c.chunkOffset then c :: xs else x :: putChunk c xs

/-- sizes recomputed from the neighbouring chunk offsets, back to front -/
def resize (size : Int) : List Chunk → List Chunk × Int
  | [] => ([], size)
  | c :: cs =>
    let (cs', next) := resize size cs
    ({ c with chunkSize := next - c.chunkOffset } :: cs', c.chunkOffset)

/-- db `readChunks(b, size)` over what `writeMetadataEntry` stored for the rows `chunks`. -/
def readChunks (chunks : List Chunk) (size : Int) : List Chunk :=
  match chunks with
  | [] => []
  | first :: rest =>
    let extra := rest.foldl (fun acc c => putChunk c acc) []
    let all := if extra.isEmpty then [first] else sortChunks (first :: sortChunks extra)
    (resize size all).1

/-! ## Trees -/

/-- Abstract node identity: the root bucket / implicit root, the TOC entry that created the
node, or the implicit directory of a cleaned name. -/
inductive Key where
  | root
  | ent (i : Nat)
  | imp (p : Path)
  deriving Repr, DecidableEq, Inhabited

abbrev Kids := List (String × Key)

/-- Go map assignment `children[base] = child` -/
def setKid (base : String) (k : Key) : Kids → Kids
  | [] => [(base, k)]
  | x :: xs => if x.1 = base then (base, k) :: xs else x :: setKid base k xs

def getKid (base : String) : Kids → Option Key
  | [] => none
  | x :: xs => if x.1 = base then some x.2 else getKid base xs

/-- What `GetAttr`, `GetOffset`, `OpenFile`, `ChunkEntryForOffset`, `ForeachChild` return for a
node; `ok = false` models a node whose bucket is missing (every call fails). -/
structure Node where
  ok : Bool := true
  attr : Attr := {}
  offset : Int := 0
  openOk : Bool := false
  chunks : ChunkTab := .none
  kids : Kids := []
  /-- `ForeachChild` / `GetChild` fail as a whole (a child bucket is missing) -/
  kidsErr : Bool := false
  deriving Repr, Inhabited

structure Tree where
  root : Key
  node : Key → Node

inductive Outcome (α : Type) where
  | accept (t : α)
  | reject

/-! ## Memory store -/

/-- Pass 1 of `initFields`, per entry: cleaned name (chunks take the name of the last non-chunk
entry), normalised ChunkSize, initial NumLink. -/
structure MEnt where
  e : Entry
  path : Path
  chunkSize : Int
  deriving Repr, Inhabited

/-- one iteration of the first loop of `initFields`: `lastPath` / `lastRegSize` are the loop's
`lastPath` and `lastRegEnt.Size`. -/
def pass1Ent (lastPath : Path) (lastRegSize : Option Int) (e : Entry) : MEnt × Path × Option Int :=
  let name := cleanName e.name
  let lastReg := if e.type = "reg" then some e.size else lastRegSize
  let path := if e.type = "chunk" then lastPath else name
  let cs := if e.type = "chunk" ∧ e.chunkSize = 0 then
              (match lastReg with | some sz => sz - e.chunkOffset | none => 0)
            else e.chunkSize
  let cs := if cs = 0 ∧ e.size ≠ 0 then e.size else cs
  ({ e := e, path := path, chunkSize := cs }, path, lastReg)

def pass1Go (lastPath : Path) (lastRegSize : Option Int) : List Entry → List MEnt
  | [] => []
  | e :: es =>
    let r := pass1Ent lastPath lastRegSize e
    r.1 :: pass1Go r.2.1 r.2.2 es

def pass1 (es : List Entry) : List MEnt := pass1Go [] none es

/-- `r.m[name]` restricted to TOC entries: index of the last non-chunk entry with that name. -/
def lastIdxFrom (ms : List MEnt) (p : Path) (i : Nat) : Option Nat :=
  match ms with
  | [] => none
  | m :: rest =>
    match lastIdxFrom rest p (i + 1) with
    | some j => some j
    | none => if m.e.type ≠ "chunk" ∧ m.path = p then some i else none

def lastIdx (ms : List MEnt) (p : Path) : Option Nat := lastIdxFrom ms p 0

/-- `r.chunks[name]`: replayed over the entries in order. -/
def memChunkIdxs (ms : List MEnt) (p : Path) : List Nat :=
  let rec go (l : List MEnt) (i : Nat) (acc : List Nat) : List Nat :=
    match l with
    | [] => acc
    | m :: rest =>
      let acc := if m.e.type = "chunk" ∧ m.path = p then acc ++ [i] else acc
      let acc := if m.e.type = "reg" ∧ m.path = p ∧ m.e.chunkSize > 0 ∧ m.e.chunkSize < m.e.size
                 then [i] else acc
      go rest (i + 1) acc
  go ms 0 []

/-- number of distinct names among the non-chunk entries (`len(r.m)` without implicit dirs) -/
def distinctNames (ms : List MEnt) : Nat :=
  let names := (ms.filter fun m => m.e.type ≠ "chunk").map (·.path)
  names.eraseDups.length

/-- State of pass 2. -/
structure MState where
  /-- implicit directories created so far (they are in `r.m`) -/
  imps : List Path := []
  kids : Key → Kids := fun _ => []
  /-- NumLink of every node -/
  nl : Key → Int := fun _ => 0
  /-- `hardlinkSources`: the entries other names were linked to -/
  hlSources : List Key := []

def impKey (p : Path) : Key := if p = [] then .root else .imp p

/-- `r.m[p]` -/
def mLookup (ms : List MEnt) (s : MState) (p : Path) : Option Key :=
  match lastIdx ms p with
  | some i => some (.ent i)
  | none => if p ∈ s.imps then some (impKey p) else none

def keyType (ms : List MEnt) : Key → String
  | .ent i => (ms[i]?.map (·.e.type)).getD ""
  | _ => "dir"

/-- `addChild` -/
def mAddChild (ms : List MEnt) (s : MState) (parent : Key) (base : String) (child : Key) : MState :=
  { s with
    nl := if keyType ms child = "dir" then fun k => if k = parent then s.nl k + 1 else s.nl k else s.nl,
    kids := fun k => if k = parent then setKid base child (s.kids k) else s.kids k }

/-- `getOrCreateDir`, on the reversed name (innermost component first). -/
def mGetOrCreateDir (ms : List MEnt) (s : MState) : (rev : List String) → MState × Key
  | [] =>
    match mLookup ms s [] with
    | some k => (s, k)
    | none => ({ s with imps := [] :: s.imps, nl := fun k => if k = .root then 2 else s.nl k }, .root)
  | b :: rest =>
    let d := (b :: rest).reverse
    match mLookup ms s d with
    | some k => (s, k)
    | none =>
      let s := { s with imps := d :: s.imps, nl := fun k => if k = .imp d then 2 else s.nl k }
      let (s, pk) := mGetOrCreateDir ms s rest
      (mAddChild ms s pk b (.imp d), .imp d)

/-- `getSource`: follow `r.m[clean(LinkName)]` while the entry is a hardlink; the loop gives up
after `len(r.m) + 1` steps. -/
def mGetSource (ms : List MEnt) (s : MState) (bound : Nat) : Nat → Key → Option Key
  | n, k =>
    if keyType ms k ≠ "hardlink" then some k
    else if n > bound then none
    else match k with
      | .ent i =>
        match ms[i]? with
        | some m =>
          (match mLookup ms s (cleanName m.e.linkName) with
           | some k' => if h : n ≤ bound then mGetSource ms s bound (n + 1) k' else none
           | none => none)
        | none => none
      | _ => some k
termination_by n _ => bound + 1 - n
decreasing_by omega

def lenM (ms : List MEnt) (s : MState) : Nat := distinctNames ms + s.imps.length

/-- Pass 2 for entry `i`. `none` = `initFields` fails. -/
def pass2Step (ms : List MEnt) (s : MState) (i : Nat) (m : MEnt) : Option MState :=
  if m.e.type = "chunk" then some s
  else if m.path = [] then some s          -- name == parentDir(name): skipped
  else
    let (s, pk) := mGetOrCreateDir ms s (parentDir m.path).reverse
    let s := { s with nl := fun k => if k = .ent i then s.nl k + 1 else s.nl k }
    if m.e.type = "hardlink" then
      match mGetSource ms s (lenM ms s) 0 (.ent i) with
      | none => none
      | some org =>
        if keyType ms org = "dir" then none
        else
          let s := { s with nl := fun k => if k = org then s.nl k + 1 else s.nl k,
                            hlSources := org :: s.hlSources }
          some (mAddChild ms s pk (baseName m.path) org)
    else some (mAddChild ms s pk (baseName m.path) (.ent i))

def pass2 (ms : List MEnt) : List (Nat × MEnt) → MState → Option MState
  | [], s => some s
  | (i, m) :: rest, s =>
    match pass2Step ms s i m with
    | some s' => pass2 ms rest s'
    | none => none

def enumFrom' {α : Type} : Nat → List α → List (Nat × α)
  | _, [] => []
  | i, x :: xs => (i, x) :: enumFrom' (i + 1) xs

/-- initial NumLink after pass 1: `NumLink++` for directories -/
def initNl (ms : List MEnt) : Key → Int
  | .ent i => if (ms[i]?.map (·.e.type)).getD "" = "dir" then 1 else 0
  | _ => 0

/-- `Lookup(name)`: `r.m[name]` followed through `getSource`. -/
def mLookupResolved (ms : List MEnt) (s : MState) (p : Path) : Option Key :=
  match mLookup ms s p with
  | some k => mGetSource ms s (lenM ms s) 0 k
  | none => none

def keyPath (ms : List MEnt) : Key → Path
  | .root => []
  | .ent i => (ms[i]?.map (·.path)).getD []
  | .imp p => p

/-- rows of `r.chunks[name]` -/
def memRows (ms : List MEnt) (idxs : List Nat) : List Chunk :=
  idxs.filterMap fun i => ms[i]?.map fun m =>
    { chunkOffset := m.e.chunkOffset, chunkSize := m.chunkSize, digest := memDigest m.e,
      offset := m.e.offset }

/-- `(*Reader).ChunkEntryForOffset(name, ·)` for the node `k` (the memory reader passes the
node's own `Name`). -/
def memChunkTab (ms : List MEnt) (s : MState) (k : Key) : ChunkTab :=
  let name := keyPath ms k
  match mLookupResolved ms s name with
  | some (.ent j) =>
    (match ms[j]? with
     | some m =>
       if m.e.isData then
         let idxs := memChunkIdxs ms name
         if idxs.length < 2 then .single m.e.chunkOffset m.chunkSize (memDigest m.e)
         else .table (memRows ms idxs)
       else .none
     | none => .none)
  | _ => .none

def memNode (ms : List MEnt) (s : MState) (k : Key) : Node :=
  match k with
  | .ent i =>
    match ms[i]? with
    | some m =>
      { attr := attrOfEntry m.e (s.nl k), offset := m.e.offset,
        openOk := (match mLookupResolved ms s m.path with
                   | some k' => keyType ms k' = "reg"
                   | none => false),
        chunks := memChunkTab ms s k, kids := s.kids k }
    | none => { ok := false }
  | _ =>
    -- implicit directory: &TOCEntry{Name: d, Type: "dir", Mode: 0755, NumLink: ...}
    { attr := { mode := goFileMode "dir" 0o755, numLink := s.nl k }, offset := 0,
      openOk := false, chunks := memChunkTab ms s k, kids := s.kids k }

/-- `memory.NewReader`: `estargz.Open` (TOC already decoded) + root lookup. -/
def memTree (es : List Entry) : Outcome Tree :=
  let ms := pass1 es
  match pass2 ms (enumFrom' 0 ms) { nl := initNl ms } with
  | none => .reject
  | some s =>
    -- "is a source of a hardlink but is used as a directory": an entry reachable through
    -- several names must not have children
    if s.hlSources.any (fun org => ¬ (s.kids org).isEmpty) then .reject else
    -- `if len(r.m) == 0 { r.m[""] = &TOCEntry{Type: "dir", Mode: 0755, NumLink: 1} }`
    let s := if lenM ms s = 0 then { s with imps := [[]], nl := fun k => if k = .root then 1 else s.nl k } else s
    match mLookupResolved ms s [] with
    | some r => .accept { root := r, node := memNode ms s }
    | none => .reject

/-! ## DB store -/

structure DState where
  /-- node buckets -/
  nodes : Key → Option DbAttr := fun _ => none
  /-- the in-memory `md` map, children part (`md[id] == nil` and an empty children map both make
  `getIDByName` fail, so they are not distinguished) -/
  kids : Key → Kids := fun _ => []
  /-- the in-memory `md` map, chunks part -/
  chunks : Key → List Chunk := fun _ => []
  -- locals of the Batch closure
  lastEnt : Option Key := none
  lastEntSize : Int := 0

def rootAttr : Attr := { mode := modeDir + 0o755, numLink := 2 }

def dInit : DState := { nodes := fun k => if k = .root then some (writeAttr {} rootAttr) else none }

/-- walk children maps from a node (shared by both stores' models) -/
def walkKids (kids : Key → Kids) : Key → Path → Option Key
  | k, [] => some k
  | k, b :: rest =>
    match getKid b (kids k) with
    | some c => walkKids kids c rest
    | none => none

/-- `getIDByName(md, name, rootID)`: walk the children maps from the root. -/
def dGetIDByName (s : DState) (p : Path) : Option Key := walkKids s.kids .root p

def setNode (s : DState) (k : Key) (b : DbAttr) : DState :=
  { s with nodes := fun k' => if k' = k then some b else s.nodes k' }

/-- `setChild` (the parent bucket exists: callers obtained it) -/
def dSetChild (s : DState) (pid : Key) (base : String) (id : Key) (isDir : Bool) : DState :=
  let s := { s with kids := fun k => if k = pid then setKid base id (s.kids k) else s.kids k }
  if isDir then
    match s.nodes pid with
    | some b => setNode s pid (bumpNumLink b)
    | none => s
  else s

/-- db `getOrCreateDir`, on the reversed name. `none` = error. -/
def dGetOrCreateDir (s : DState) : (rev : List String) → Option (DState × Key)
  | [] =>
    -- getIDByName("") is the root id; its bucket always exists
    match s.nodes .root with
    | some _ => some (s, .root)
    | none => none
  | b :: rest =>
    let d := (b :: rest).reverse
    match dGetIDByName s d with
    | some k =>
      (match s.nodes k with
       | some _ => some (s, k)
       | none => none)
    | none =>
      let s := setNode s (.imp d) (writeAttr {} rootAttr)
      match dGetOrCreateDir s rest with
      | some (s, pk) => some (dSetChild s pk b (.imp d) true, .imp d)
      | none => none

def addChunk (s : DState) (k : Key) (c : Chunk) : DState :=
  { s with chunks := fun k' => if k' = k then s.chunks k ++ [c] else s.chunks k' }

/-- One iteration of the decode loop of `initNodes`. `none` = the closure returns an error. -/
def dStep (s : DState) (i : Nat) (e : Entry) : Option DState :=
  let name := cleanName e.name
  if e.type = "chunk" ∧ s.lastEnt.isNone then none   -- "chunk entry must not be the topmost"
  else
    let cs := if e.type = "chunk" ∧ e.chunkSize = 0 then s.lastEntSize - e.chunkOffset else e.chunkSize
    let cs := if cs = 0 ∧ e.size ≠ 0 then e.size else cs
    let r : Option DState :=
      if e.type = "chunk" then some s
      else
        let r1 : Option (DState × Key) :=
          if e.type = "hardlink" then
            match dGetIDByName s (cleanName e.linkName) with
            | none => none
            | some id =>
              match s.nodes id with
              | none => none
              | some b =>
                -- "is a hardlink to the directory": the stored mode of the target
                if fmIsDir ((b.mode.getD 0) % 4294967296) then none
                else some (setNode s id (bumpNumLink b), id)
          else
            let found : Option (Option (Key × DbAttr)) :=
              if e.type = "dir" then
                match dGetIDByName s name with
                | some id =>
                  (match s.nodes id with
                   | some b => some (some (id, b))
                   | none => none)               -- "failed to get directory bucket"
                | none => some none
              else some none
            match found with
            | none => none
            | some (some (id, b)) =>
              some (setNode s id (writeAttr b (attrOfEntry e (readNumLink b))), id)
            | some none =>
              let nl : Int := if e.type = "dir" then 2 else 1
              some (setNode s (.ent i) (writeAttr {} (attrOfEntry e nl)), .ent i)
        match r1 with
        | none => none
        | some (s, id) =>
          let r2 : Option DState :=
            if name = [] then some s      -- the root directory itself is not a child
            else
              match dGetOrCreateDir s (parentDir name).reverse with
              | none => none
              | some (s, pid) => some (dSetChild s pid (baseName name) id (e.type = "dir"))
          match r2 with
          | none => none
          | some s => some { s with lastEnt := some id, lastEntSize := e.size }
    match r with
    | none => none
    | some s =>
      if (e.type = "reg" ∧ e.size > 0) ∨ (e.type = "chunk" ∧ cs > 0) then
        match s.lastEnt with
        | some k => some (addChunk s k { chunkOffset := e.chunkOffset, chunkSize := cs,
                                         digest := e.chunkDigest, offset := e.offset })
        | none => some s
      else some s

/-- run the loop; on failure report the index of the failing entry and the state reached -/
def dRun : List (Nat × Entry) → DState → DState ⊕ (Nat × DState)
  | [], s => .inl s
  | (i, e) :: rest, s =>
    match dStep s i e with
    | some s' => dRun rest s'
    | none => .inr (i, s)

/-- `initNodes` runs its decode loop inside `db.Batch`.  When the closure fails, bolt rolls the
transaction back and runs the closure once more on its own.  Since a0e1c6d the closure remembers
its first error (`initErr`) and returns it again, so the failure is reported: `batchRerun = false`.
Before that fix (`batchRerun = true`) the second run continued with the entries after the failing
one — the JSON decoder had already consumed it — on fresh closure locals, with every node bucket of
the first run gone (only the root bucket, committed by `initRootNode`, survived) but the `md` map
kept, and only a failure of the second run was reported. -/
def batchRerun : Bool := false

def dInitNodes (es : List Entry) : Option DState :=
  match dRun (enumFrom' 0 es) dInit with
  | .inl s => some s
  | .inr (i, s) =>
    if batchRerun then
      let s2 : DState := { nodes := dInit.nodes, kids := s.kids, chunks := s.chunks, lastEnt := none, lastEntSize := 0 }
      match dRun ((enumFrom' 0 es).drop (i + 1)) s2 with
      | .inl s => some s
      | .inr _ => none
    else none

def dbNode (s : DState) (k : Key) : Node :=
  match s.nodes k with
  | none => { ok := false }
  | some b =>
    let a := readAttr b
    let rows := readChunks (s.chunks k) a.size
    { attr := a,
      offset := (rows.head?.map (·.offset)).getD 0,
      openOk := fmIsRegular a.mode,
      chunks := .table rows,
      kids := s.kids k,
      kidsErr := (s.kids k).any fun kv => (s.nodes kv.2).isNone }

/-- `db.NewReader` + `waitInit`. -/
def dbTree (es : List Entry) : Outcome Tree :=
  match dInitNodes es with
  | some s => .accept { root := .root, node := dbNode s }
  | none => .reject

/-! ## The canonical view -/

/-- insertion sort of children by name -/
def insertKid (kv : String × Key) : Kids → Kids
  | [] => [kv]
  | x :: xs => if kv.1 ≤ x.1 then kv :: x :: xs else x :: insertKid kv xs

def sortKids (l : Kids) : Kids := l.foldr insertKid []

def maxDepth : Nat := 40

/-- Pre-order walk with sorted children, as the harness does it: a node already seen under an
earlier path is listed but not descended into; at `maxDepth` the walk stops. -/
def listing (t : Tree) : Nat → Path → Key → List Key → List (Path × Key) × List Key
  | 0, p, k, seen => ([(p, k)], if (t.node k).ok then k :: seen else seen)
  | fuel + 1, p, k, seen =>
    let n := t.node k
    if ¬ n.ok then ([(p, k)], seen)
    else if k ∈ seen then ([(p, k)], seen)
    else if n.kidsErr then ([(p, k)], k :: seen)
    else
      let r := (sortKids n.kids).foldl
        (fun (acc : List (Path × Key) × List Key) (bc : String × Key) =>
          let r := listing t fuel (p ++ [bc.1]) bc.2 acc.2
          (acc.1 ++ r.1, r.2))
        ([], k :: seen)
      ((p, k) :: r.1, r.2)

/-- offsets probed for a file of the given size whose table starts the walk at 0 -/
def probeOffsets (tab : ChunkTab) (size : Int) : List Int :=
  let rec walk (fuel : Nat) (off : Int) (acc : List Int) : List Int :=
    match fuel with
    | 0 => acc
    | fuel + 1 =>
      match tab.lookup off with
      | none => acc
      | some (co, cs, _) =>
        let acc := acc ++ [co - 1, co, co + 1, co + cs - 1, co + cs, co + cs + 1]
        if cs ≤ 0 ∨ co + cs ≤ off then acc else walk fuel (co + cs) acc
  walk 2000 0 [0, 1, size - 1, size, size + 1]

def insertInt (x : Int) : List Int → List Int
  | [] => [x]
  | y :: ys => if x < y then x :: y :: ys else if x = y then y :: ys else y :: insertInt x ys

def sortDedupInts (l : List Int) : List Int := l.foldr insertInt []

structure NodeView where
  path : Path
  /-- first path (in listing order) reaching the same node -/
  same : Path
  ok : Bool
  attr : NAttr
  offset : Int
  /-- `none`: not listed (described under `same`); `some none`: ForeachChild fails;
  `some (some l)`: sorted names with type letter -/
  ls : Option (Option (List (String × Char)))
  deep : Bool
  openOk : Bool
  probes : List (Int × Option (Int × Int × String))
  deriving Repr, DecidableEq

abbrev View := List NodeView

def firstPathOf (l : List (Path × Key)) (k : Key) : Path :=
  match l.find? (fun pk => pk.2 = k) with
  | some pk => pk.1
  | none => []

def nodeView (t : Tree) (all : List (Path × Key)) (pk : Path × Key) : NodeView :=
  let (p, k) := pk
  let n := t.node k
  let same := firstPathOf all k
  let first := same = p
  let na := normalise n.attr
  let hasLs := n.ok ∧ first ∧ (n.kidsErr ∨ ¬ n.kids.isEmpty ∨ fmIsDir n.attr.mode)
  let deep := hasLs ∧ ¬ n.kidsErr ∧ p.length ≥ maxDepth
  let opened := n.ok ∧ first ∧ ¬ deep ∧ n.openOk
  { path := p, same := same, ok := n.ok, attr := na, offset := n.offset,
    ls := if hasLs then
            some (if n.kidsErr then none
                  else some ((sortKids n.kids).map fun kv => (kv.1, typeChar (t.node kv.2).attr.mode)))
          else none,
    deep := deep,
    openOk := opened,
    probes := if opened then
                -- file offsets only: a negative number is not an offset of the file
                ((sortDedupInts (probeOffsets n.chunks n.attr.size)).filter (· ≥ 0)).map
                  fun x => (x, n.chunks.lookup x)
              else [] }

def view (t : Tree) : View :=
  let all := (listing t maxDepth [] t.root []).1
  all.map (nodeView t all)

def viewOf : Outcome Tree → Option View
  | .accept t => some (view t)
  | .reject => none

/-! ## TOC digest span -/

inductive Compression where
  | gzip | zstd | ext
  deriving Repr, DecidableEq

inductive Store where
  | mem | db
  deriving Repr, DecidableEq

/-- Number of bytes of the TOC stream (`jsonLen` bytes of JSON followed by `trailing` bytes) that
enter the TOC digest.  The db store hashes the whole stream while spooling it; the memory store
hashes what the JSON decoder consumed and, for gzip and externaltoc, drains the rest afterwards.
For zstd:chunked the memory store stops where the decoder's read-ahead stopped: `none`
(unspecified) when something follows the JSON value. -/
def tocDigestSpan (c : Compression) (s : Store) (jsonLen trailing : Nat) : Option Nat :=
  match s, c with
  | .db, _ => some (jsonLen + trailing)
  | .mem, .zstd => if trailing = 0 then some jsonLen else none
  | .mem, _ => some (jsonLen + trailing)

/-! ## Several layers in one bolt file -/

/-- `filesystems/<fsID>` buckets -/
abbrev Bolt := List (Nat × Tree)

def Bolt.get (b : Bolt) (fs : Nat) : Option Tree :=
  match b with
  | [] => none
  | (i, t) :: rest => if i = fs then some t else Bolt.get rest fs

/-- `NewReader` under a fresh fs id (`initRootNode` retries until `CreateBucket` succeeds) -/
def Bolt.openFs (b : Bolt) (fs : Nat) (t : Tree) : Bolt := (fs, t) :: b.filter (·.1 ≠ fs)

/-- `Close`: `filesystems.DeleteBucket(fsID)` -/
def Bolt.closeFs (b : Bolt) (fs : Nat) : Bolt := b.filter (·.1 ≠ fs)

/-- what a caller can do to one layer of the shared database -/
inductive BoltOp where
  | openFs (fs : Nat) (t : Tree)
  | closeFs (fs : Nat)
  /-- any read-only call (`GetAttr`, `GetChild`, `ForeachChild`, `OpenFile`, ...) -/
  | query (fs : Nat)

def BoltOp.target : BoltOp → Nat
  | .openFs fs _ => fs
  | .closeFs fs => fs
  | .query fs => fs

def applyOp (b : Bolt) : BoltOp → Bolt
  | .openFs fs t => b.openFs fs t
  | .closeFs fs => b.closeFs fs
  | .query _ => b

/-! ## The decidable fragment on which the two stores are proved to agree -/

/-- is not a `chunk` entry -/
def ncB (m : MEnt) : Bool := m.e.type ≠ "chunk"

def namesOf (ms : List MEnt) : List Path := (ms.filter ncB).map (·.path)

def validTypes : List String := ["dir", "reg", "symlink", "hardlink", "char", "block", "fifo", "chunk"]

/-- a data entry names its chunk by `chunkDigest`, or carries no digest at all (then both stores
report the empty digest) -/
def digestOK (e : Entry) : Bool := e.chunkDigest ≠ "" || e.digest = ""

/-- the size a chunk row stands for: `chunkSize`, or "up to the end of the file" when it is 0 -/
def effSize (size : Int) (c : Entry) : Int := if c.chunkSize = 0 then size - c.chunkOffset else c.chunkSize

/-- the `chunk` entries of a file tile `[start, size)` in order -/
def contigOK (size : Int) : Int → List Entry → Bool
  | start, [] => start = size
  | start, c :: cs =>
    c.chunkOffset = start && c.size = 0 && digestOK c && effSize size c > 0 &&
      contigOK size (start + effSize size c) cs

/-- the size the first row (the `reg` entry itself) stands for -/
def regEff (e : Entry) : Int := if e.chunkSize = 0 then e.size else e.chunkSize

/-- a regular file and the chunk entries filed under its name -/
def fileOK (e : Entry) (run : List Entry) : Bool :=
  e.size ≥ 0 &&
    (if e.size = 0 then run.isEmpty && e.chunkSize = 0 && e.offset = 0
     else digestOK e && e.chunkOffset = 0 && regEff e > 0 && contigOK e.size (regEff e) run)

/-- the chunk entries filed under the name `p` (pass 1 gives a chunk the name of the entry it
follows) -/
def chunksOf (ms : List MEnt) (p : Path) : List Entry :=
  (ms.filter fun m => m.e.type = "chunk" ∧ m.path = p).map (·.e)

/-- every proper, non-empty prefix of the name `p` of entry `i` is either no entry's name, or the
name of a directory entry placed before `i` -/
def ancestorsOK (ms : List MEnt) (i : Nat) (p : Path) : Prop :=
  ∀ n (_ : n < p.length), 0 < n → ∀ j (hj : j < ms.length), ms[j].e.type ≠ "chunk" →
    ms[j].path = p.take n → ms[j].e.type = "dir" ∧ j < i

instance (ms : List MEnt) (i : Nat) (p : Path) : Decidable (ancestorsOK ms i p) := by
  unfold ancestorsOK; infer_instance

/-- The TOCs without repeated names on which the two stores are proved to agree (a sub-fragment
of `SpecConformingR` below, kept because C02's bridge is stated on it).  Everything is decidable.
  * known entry types only;
  * no entry for the root directory itself, at least one entry;
  * names (after cleaning: `./`, `../`, `//` spellings are fine) are used once;
  * a directory entry precedes everything below it, any other ancestor is implicit;
  * hardlinks point (by any spelling) at an earlier entry that is not a directory — possibly
    itself a hardlink;
  * `chunk` entries directly follow their file, and together with the `reg` entry tile the file;
    per-file digests may be missing; entries without data carry no offset;
  * xattr keys are unique (any values, also empty ones). -/
structure SpecConforming (es : List Entry) : Prop where
  types : ∀ i (h : i < es.length), es[i].type ∈ validTypes
  nonEmpty : ∃ i, ∃ h : i < es.length, es[i].type ≠ "chunk"
  noRoot : ∀ i (h : i < (pass1 es).length), (pass1 es)[i].e.type ≠ "chunk" → (pass1 es)[i].path ≠ []
  names : (namesOf (pass1 es)).Nodup
  parents : ∀ i (hi : i < (pass1 es).length), (pass1 es)[i].e.type ≠ "chunk" →
    ancestorsOK (pass1 es) i (pass1 es)[i].path
  hardlinks : ∀ i (hi : i < (pass1 es).length), (pass1 es)[i].e.type = "hardlink" →
    ∃ j, ∃ hj : j < (pass1 es).length, j < i ∧ (pass1 es)[j].e.type ≠ "chunk" ∧
      (pass1 es)[j].path = cleanName (pass1 es)[i].e.linkName ∧ (pass1 es)[j].e.type ≠ "dir"
  chunkAfterData : ∀ i (h : i < es.length), es[i].type = "chunk" →
    ∃ h0 : 0 < i, es[i - 1].type = "reg" ∨ es[i - 1].type = "chunk"
  files : ∀ i (hi : i < (pass1 es).length), (pass1 es)[i].e.type = "reg" →
    fileOK (pass1 es)[i].e (chunksOf (pass1 es) (pass1 es)[i].path) = true
  noOffset : ∀ i (h : i < es.length), es[i].type ≠ "reg" → es[i].type ≠ "chunk" → es[i].offset = 0
  xattrs : ∀ i (h : i < es.length), (es[i].xattrs.map Prod.fst).Nodup

instance (es : List Entry) : Decidable (SpecConforming es) := by
  exact decidable_of_iff
    ((∀ i (h : i < es.length), es[i].type ∈ validTypes) ∧
     (∃ i, ∃ h : i < es.length, es[i].type ≠ "chunk") ∧
     (∀ i (h : i < (pass1 es).length), (pass1 es)[i].e.type ≠ "chunk" → (pass1 es)[i].path ≠ []) ∧
     (namesOf (pass1 es)).Nodup ∧
     (∀ i (hi : i < (pass1 es).length), (pass1 es)[i].e.type ≠ "chunk" →
        ancestorsOK (pass1 es) i (pass1 es)[i].path) ∧
     (∀ i (hi : i < (pass1 es).length), (pass1 es)[i].e.type = "hardlink" →
        ∃ j, ∃ hj : j < (pass1 es).length, j < i ∧ (pass1 es)[j].e.type ≠ "chunk" ∧
          (pass1 es)[j].path = cleanName (pass1 es)[i].e.linkName ∧ (pass1 es)[j].e.type ≠ "dir") ∧
     (∀ i (h : i < es.length), es[i].type = "chunk" →
        ∃ h0 : 0 < i, es[i - 1].type = "reg" ∨ es[i - 1].type = "chunk") ∧
     (∀ i (hi : i < (pass1 es).length), (pass1 es)[i].e.type = "reg" →
        fileOK (pass1 es)[i].e (chunksOf (pass1 es) (pass1 es)[i].path) = true) ∧
     (∀ i (h : i < es.length), es[i].type ≠ "reg" → es[i].type ≠ "chunk" → es[i].offset = 0) ∧
     (∀ i (h : i < es.length), (es[i].xattrs.map Prod.fst).Nodup))
    ⟨fun ⟨a, b, c, d, e, f, g, h, i, j⟩ => ⟨a, b, c, d, e, f, g, h, i, j⟩,
     fun ⟨a, b, c, d, e, f, g, h, i, j⟩ => ⟨a, b, c, d, e, f, g, h, i, j⟩⟩

/-! ### The larger fragment: directories may be announced more than once -/

/-- the name `q` (a proper, non-empty prefix of the name of entry `i`) is either no entry's name,
or the name of directory entries only, the first of which is placed before `i` -/
def ancestorOKR (ms : List MEnt) (i : Nat) (q : Path) : Prop :=
  ∀ j (hj : j < ms.length), ms[j].e.type ≠ "chunk" → ms[j].path = q → ms[j].e.type = "dir" ∧
    ∃ f, ∃ hf : f < ms.length, f < i ∧ ms[f].e.type ≠ "chunk" ∧ ms[f].path = q

instance (ms : List MEnt) (i : Nat) (q : Path) : Decidable (ancestorOKR ms i q) := by
  unfold ancestorOKR; infer_instance

def ancestorsOKR (ms : List MEnt) (i : Nat) (p : Path) : Prop :=
  ∀ n (_ : n < p.length), 0 < n → ancestorOKR ms i (p.take n)

instance (ms : List MEnt) (i : Nat) (p : Path) : Decidable (ancestorsOKR ms i p) := by
  unfold ancestorsOKR; infer_instance

/-- two entries of the same name are the same entry, or both announce a directory with the same
attributes (everything `attrFromTOCEntry` reads: mode, owner, times, xattrs, …) -/
def namesOK (ms : List MEnt) : Prop :=
  ∀ i (hi : i < ms.length) j (hj : j < ms.length), ms[i].e.type ≠ "chunk" → ms[j].e.type ≠ "chunk" →
    ms[i].path = ms[j].path →
      i = j ∨ (ms[i].e.type = "dir" ∧ ms[j].e.type = "dir" ∧ attrOfEntry ms[i].e 0 = attrOfEntry ms[j].e 0)

instance (ms : List MEnt) : Decidable (namesOK ms) := by
  unfold namesOK; infer_instance

/-- The TOCs on which the two stores are proved to agree.  Everything is decidable.  As
`SpecConforming`, except that
  * a name may be used again, any number of times and anywhere after the first use, by entries
    that all announce a directory with the same attributes (the memory store keeps the last
    such entry as the node, the db store the node made for the first one);
  * the FIRST entry of a directory precedes everything below it. -/
structure SpecConformingR (es : List Entry) : Prop where
  types : ∀ i (h : i < es.length), es[i].type ∈ validTypes
  nonEmpty : ∃ i, ∃ h : i < es.length, es[i].type ≠ "chunk"
  noRoot : ∀ i (h : i < (pass1 es).length), (pass1 es)[i].e.type ≠ "chunk" → (pass1 es)[i].path ≠ []
  names : namesOK (pass1 es)
  parents : ∀ i (hi : i < (pass1 es).length), (pass1 es)[i].e.type ≠ "chunk" →
    ancestorsOKR (pass1 es) i (pass1 es)[i].path
  hardlinks : ∀ i (hi : i < (pass1 es).length), (pass1 es)[i].e.type = "hardlink" →
    ∃ j, ∃ hj : j < (pass1 es).length, j < i ∧ (pass1 es)[j].e.type ≠ "chunk" ∧
      (pass1 es)[j].path = cleanName (pass1 es)[i].e.linkName ∧ (pass1 es)[j].e.type ≠ "dir"
  chunkAfterData : ∀ i (h : i < es.length), es[i].type = "chunk" →
    ∃ h0 : 0 < i, es[i - 1].type = "reg" ∨ es[i - 1].type = "chunk"
  files : ∀ i (hi : i < (pass1 es).length), (pass1 es)[i].e.type = "reg" →
    fileOK (pass1 es)[i].e (chunksOf (pass1 es) (pass1 es)[i].path) = true
  noOffset : ∀ i (h : i < es.length), es[i].type ≠ "reg" → es[i].type ≠ "chunk" → es[i].offset = 0
  xattrs : ∀ i (h : i < es.length), (es[i].xattrs.map Prod.fst).Nodup

instance (es : List Entry) : Decidable (SpecConformingR es) := by
  exact decidable_of_iff
    ((∀ i (h : i < es.length), es[i].type ∈ validTypes) ∧
     (∃ i, ∃ h : i < es.length, es[i].type ≠ "chunk") ∧
     (∀ i (h : i < (pass1 es).length), (pass1 es)[i].e.type ≠ "chunk" → (pass1 es)[i].path ≠ []) ∧
     namesOK (pass1 es) ∧
     (∀ i (hi : i < (pass1 es).length), (pass1 es)[i].e.type ≠ "chunk" →
        ancestorsOKR (pass1 es) i (pass1 es)[i].path) ∧
     (∀ i (hi : i < (pass1 es).length), (pass1 es)[i].e.type = "hardlink" →
        ∃ j, ∃ hj : j < (pass1 es).length, j < i ∧ (pass1 es)[j].e.type ≠ "chunk" ∧
          (pass1 es)[j].path = cleanName (pass1 es)[i].e.linkName ∧ (pass1 es)[j].e.type ≠ "dir") ∧
     (∀ i (h : i < es.length), es[i].type = "chunk" →
        ∃ h0 : 0 < i, es[i - 1].type = "reg" ∨ es[i - 1].type = "chunk") ∧
     (∀ i (hi : i < (pass1 es).length), (pass1 es)[i].e.type = "reg" →
        fileOK (pass1 es)[i].e (chunksOf (pass1 es) (pass1 es)[i].path) = true) ∧
     (∀ i (h : i < es.length), es[i].type ≠ "reg" → es[i].type ≠ "chunk" → es[i].offset = 0) ∧
     (∀ i (h : i < es.length), (es[i].xattrs.map Prod.fst).Nodup))
    ⟨fun ⟨a, b, c, d, e, f, g, h, i, j⟩ => ⟨a, b, c, d, e, f, g, h, i, j⟩,
     fun ⟨a, b, c, d, e, f, g, h, i, j⟩ => ⟨a, b, c, d, e, f, g, h, i, j⟩⟩

end SV.Toc
