/-
Model of the chunk caches of /repo/cache/cache.go:

* `directoryCache` (`NewDirectoryCache`, `Get`, `Add`, the writers' `Write`/`Commit`/`Abort`/`Close`,
  the readers' `ReadAt`/`Close`) over two refcounted LRU caches (`util/cacheutil/lrucache.go` on top of
  groupcache/lru): the memory LRU `cache` of `*bytes.Buffer` (OnEvicted = `Reset` + `bufPool.Put`) and
  the descriptor LRU `fileCache` of `*os.File` (OnEvicted = `file.Close`);
* `MemoryCache` (one map, one mutex) — section `MemCache` at the end.

Core-only (no Mathlib) so that the driver links as a `lean_exe`.

Granularity.  A *step* is a piece of code during which no other goroutine can observe or change the
state the step touches: one critical section of an LRU mutex (`LRUCache.Get/Add`, a `done` closure,
including the `OnEvicted` callback, which runs under that mutex), one file-system call whose atomicity is
assumed of the OS (`open`, `rename`, `unlink`), or code that only touches objects private to the calling
goroutine (the writer's own buffer / wip file before `Commit`).  One Go method is a *sequence* of steps
(`Commit` = `commitMemPublish; commitDiskWrite; commitRename; commitDone`), and other goroutines' steps
may come in between — with `SyncAdd = false` even the caller's own later operations.  A statement proved
for every step sequence therefore holds for every interleaving at this granularity.  Every step is a
partial function (`Option State`); a step that is not enabled leaves the state unchanged.
The guards are of two kinds: (i) facts of Go/OS semantics (an LRU lookup hits or misses, `open` fails
on a missing path), (ii) the API protocol every caller in /repo follows: on a writer `Write*` then
exactly one of `Commit`/`Abort` (never `Write` after them), on a reader no `ReadAt` after `Close` and one
`Close`.  (Outside the protocol the cache is not safe: a second `Commit` of the same writer would `Reset`
the very buffer it published.)

Identities.  Buffers, inodes, `*os.File`s, refCounters, writers and readers are indices into
append-only lists.  `Owner`/`IState`/`FOwner` are ghost tags that say who may reach the object; the Go
code has no such field.  `Writer.written` and `State.committed` are ghost too: what the client wrote
through `Write`, and per key every value whose writer has *called* `Commit`.
-/
namespace SV.ChunkCache

abbrev Bytes := List UInt8

/-! ## Refcounted LRU (`cacheutil.LRUCache` over groupcache `lru.Cache`) -/

/-- `refCounter` (lrucache.go): `key`, `v`, `refCounts`, `finalizeOnce` (`initializeOnce` fires inside
`LRUCache.Add`, before the counter is shared). -/
structure RC where
  key : Nat
  val : Nat
  refs : Int
  fin : Bool
deriving Repr, DecidableEq, Inhabited

/-- `LRUCache`: `cap` = `MaxEntries` (0 = unbounded), `order` = `lru.Cache.ll` front to back with
entries `(key, refCounter id)`, `rcs` = every refCounter ever created. -/
structure LRU where
  cap : Nat
  order : List (Nat × Nat) := []
  rcs : List RC := []
deriving Repr, Inhabited

/-- `lru.Cache.cache[key]`. -/
def find (k : Nat) : List (Nat × Nat) → Option Nat
  | [] => none
  | (k', id) :: rest => if k' = k then some id else find k rest

/-- `ll.Back()` and the list without it. -/
def popLast {α : Type} : List α → Option (List α × α)
  | [] => none
  | [x] => some ([], x)
  | x :: y :: t =>
    match popLast (y :: t) with
    | some (l, z) => some (x :: l, z)
    | none => none

/-- `ll.MoveToFront(ele)` for the element holding refCounter `id`. -/
def touch (order : List (Nat × Nat)) (k id : Nat) : List (Nat × Nat) :=
  (k, id) :: order.filter (fun e => e.2 != id)

/-- `rc.inc()`. -/
def LRU.inc (l : LRU) (id : Nat) : LRU :=
  match l.rcs[id]? with
  | some r => { l with rcs := l.rcs.set id { r with refs := r.refs + 1 } }
  | none => l

/-- `rc.dec()`: `refCounts--; if refCounts <= 0 && onEvicted != nil { onEvicted(key, v) }`.
Returns the value handed to `OnEvicted` if the callback ran.  The condition is `<= 0` as coded. -/
def LRU.dec (l : LRU) (id : Nat) : LRU × Option Nat :=
  match l.rcs[id]? with
  | some r =>
    ({ l with rcs := l.rcs.set id { r with refs := r.refs - 1 } },
     if r.refs - 1 ≤ 0 then some r.val else none)
  | none => (l, none)

/-- `rc.finalize()`: `finalizeOnce.Do(dec)` — the inner cache's `OnEvicted`. -/
def LRU.finalize (l : LRU) (id : Nat) : LRU × Option Nat :=
  match l.rcs[id]? with
  | some r =>
    if r.fin then (l, none)
    else
      ({ l with rcs := l.rcs.set id { r with refs := r.refs - 1, fin := true } },
       if r.refs - 1 ≤ 0 then some r.val else none)
  | none => (l, none)

/-- `LRUCache.Get`: hit ⇒ move to front, `rc.inc()`, hand out a `done` closure for `rc`. -/
def LRU.get (l : LRU) (k : Nat) : Option (LRU × Nat) :=
  match find k l.order with
  | some id => some (({ l with order := touch l.order k id }).inc id, id)
  | none => none

/-- `LRUCache.Add`: `(cached refCounter, added, value finalised by a capacity eviction)`.
Existing key ⇒ the cached refCounter is returned (incremented), nothing is replaced.
Otherwise a new refCounter with `refCounts = 2` (`initialize` + the caller's reference) is pushed to the
front and, if `MaxEntries != 0 && Len() > MaxEntries`, the oldest element is removed and finalised. -/
def LRU.add (l : LRU) (k v : Nat) : LRU × Nat × Bool × Option Nat :=
  match l.get k with
  | some (l', id) => (l', id, false, none)
  | none =>
    let id := l.rcs.length
    let rcs := l.rcs ++ [{ key := k, val := v, refs := 2, fin := false }]
    let o := (k, id) :: l.order
    if l.cap ≠ 0 ∧ o.length > l.cap then
      match popLast o with
      | some (o', e) =>
        let r := ({ l with order := o', rcs := rcs }).finalize e.2
        (r.1, id, true, r.2)
      | none => ({ l with order := o, rcs := rcs }, id, true, none)
    else ({ l with order := o, rcs := rcs }, id, true, none)

/-! ## Objects -/

inductive Owner where
  | pooled                -- in `dc.bufPool`
  | writer (w : Nat)      -- taken by `Add`, private to writer `w` until `Commit`/`Abort`
  | cached (rc : Nat)     -- value of refCounter `rc` of the memory LRU (cached and/or held)
deriving Repr, DecidableEq, Inhabited

/-- a `*bytes.Buffer`. -/
structure Buf where
  data : Bytes
  owner : Owner
deriving Repr, DecidableEq, Inhabited

inductive IState where
  | wip (w : Nat)         -- created by `wipFile` for writer `w`; reachable only through `w`
  | pub (k : Nat)         -- has been renamed to `cachePath(k)`
deriving Repr, DecidableEq, Inhabited

/-- a file (inode); it outlives its directory entry while descriptors are open. -/
structure Inode where
  data : Bytes
  st : IState
deriving Repr, DecidableEq, Inhabited

inductive FOwner where
  | reader (r : Nat)      -- opened by reader `r`'s `Get`, private to it
  | cached (rc : Nat)     -- value of refCounter `rc` of the descriptor LRU
deriving Repr, DecidableEq, Inhabited

/-- an `*os.File` returned by `os.Open(dc.cachePath(key))`. -/
structure FileObj where
  key : Nat
  inode : Nat
  closed : Bool
  owner : FOwner
deriving Repr, DecidableEq, Inhabited

inductive WPhase where
  | opened                -- after `Add`: `Write`, `Commit`, `Abort` allowed
  | published (rc : Nat)  -- memory writer: `dc.cache.Add(key, b)` done, `done` of `rc` held; next `w.Write(cached.Bytes())`
  | written (rc : Nat)    -- cached bytes are in the wip file; next `w.Commit()` (rename)
  | finishing (rc : Nat)  -- only the deferred `w.Close(); done()` remain
  | committed
  | aborted
deriving Repr, DecidableEq, Inhabited

structure Writer where
  key : Nat
  direct : Bool           -- `dc.direct || opt.direct`: the writer is the wip file itself
  wip : Nat               -- inode of the wip file
  buf : Nat               -- the pooled buffer (memory writers only)
  closed : Bool           -- `Close` was called
  phase : WPhase
  written : Bytes         -- ghost: concatenation of the `Write` calls
deriving Repr, DecidableEq, Inhabited

inductive Src where
  | mem (b rc : Nat)             -- `bytes.NewReader(b.Bytes())`, holding `done` of memory refCounter `rc`
  | fdc (f rc : Nat)             -- cached `*os.File` `f`, holding `done` of descriptor refCounter `rc`
  | own (f : Nat) (direct : Bool) -- freshly opened file; `Close` = `file.Close()` (direct) or `fileCache.Add`
deriving Repr, DecidableEq, Inhabited

inductive RPhase where
  | opened
  | closing (rc : Nat)    -- inside `Close` of an `own` reader: `fileCache.Add` done, deferred `done()` pending
  | closed
deriving Repr, DecidableEq, Inhabited

structure Reader where
  key : Nat
  src : Src
  phase : RPhase
deriving Repr, DecidableEq, Inhabited

/-- `cacheOpt`.  `passThrough` is recorded by `PassThrough()` but never read in cache.go: the callers
use `Reader.GetReaderAt()` for FUSE passthrough; it is carried here to mirror that it has no effect. -/
structure Opts where
  direct : Bool := false
  passThrough : Bool := false
deriving Repr, DecidableEq, Inhabited

/-- `DirectoryCacheConfig` (the parts that matter): `MaxLRUCacheEntry`, `MaxCacheFds` (0 ⇒ default 10),
`Direct`, `SyncAdd`, `FadvDontNeed` (page-cache advice only; no effect on the model). -/
structure Config where
  direct : Bool := false
  syncAdd : Bool := true
  fadvDontNeed : Bool := false
deriving Repr, DecidableEq, Inhabited

structure State where
  cfg : Config
  mem : LRU                          -- `dc.cache`
  fd : LRU                           -- `dc.fileCache`
  bufs : List Buf := []
  inodes : List Inode := []
  files : List FileObj := []
  disk : Nat → Option Nat := fun _ => none   -- `cachePath(key)` ↦ inode
  writers : List Writer := []
  readers : List Reader := []
  committed : Nat → List Bytes := fun _ => [] -- ghost

/-- `NewDirectoryCache`: `maxEntry == 0 ⇒ default` for both LRUs. -/
def State.new (memCap fdCap : Nat) (cfg : Config) : State :=
  { cfg := cfg,
    mem := { cap := if memCap = 0 then 10 else memCap },
    fd := { cap := if fdCap = 0 then 10 else fdCap } }

/-- `OnEvicted` of the memory LRU: `value.(*bytes.Buffer).Reset(); bufPool.Put(value)`. -/
def evictBuf (bufs : List Buf) : Option Nat → List Buf
  | some b => bufs.set b { data := [], owner := .pooled }
  | none => bufs

/-- `OnEvicted` of the descriptor LRU: `value.(*os.File).Close()`. -/
def evictFile (files : List FileObj) : Option Nat → List FileObj
  | some f =>
    match files[f]? with
    | some fo => files.set f { fo with closed := true }
    | none => files
  | none => files

def setWPhase (ws : List Writer) (w : Nat) (wr : Writer) (p : WPhase) : List Writer :=
  ws.set w { wr with phase := p }

def setRPhase (rs : List Reader) (r : Nat) (rd : Reader) (p : RPhase) : List Reader :=
  rs.set r { rd with phase := p }

def addCommitted (c : Nat → List Bytes) (k : Nat) (v : Bytes) : Nat → List Bytes :=
  fun k' => if k' = k then c k' ++ [v] else c k'

/-! ## Steps of `directoryCache` -/

/-- `Add(key, opts)`: `wipFile(key)` (fresh empty inode under `wip/`), and unless direct
`bufPool.Get()` — `reuse = some b` when `sync.Pool` hands back pooled buffer `b`, `none` when it calls
`New` (which one happens is not determined by the program). -/
def State.addOpen (s : State) (k : Nat) (o : Opts) (reuse : Option Nat) : Option State :=
  let w := s.writers.length
  let i := s.inodes.length
  let inodes := s.inodes ++ [{ data := [], st := .wip w }]
  if s.cfg.direct || o.direct then
    some { s with inodes := inodes,
                  writers := s.writers ++ [{ key := k, direct := true, wip := i, buf := 0, closed := false,
                                             phase := .opened, written := [] }] }
  else
    match reuse with
    | none =>
      some { s with inodes := inodes,
                    bufs := s.bufs ++ [{ data := [], owner := .writer w }],
                    writers := s.writers ++ [{ key := k, direct := false, wip := i, buf := s.bufs.length,
                                               closed := false, phase := .opened, written := [] }] }
    | some b =>
      match s.bufs[b]? with
      | some bf =>
        if bf.owner = .pooled then
          some { s with inodes := inodes,
                        bufs := s.bufs.set b { bf with owner := .writer w },
                        writers := s.writers ++ [{ key := k, direct := false, wip := i, buf := b,
                                                   closed := false, phase := .opened, written := [] }] }
        else none
      | none => none

/-- `Write(p)` on an open writer: `b.Write(p)` (memory writer) or `wip.Write(p)` (direct writer). -/
def State.write (s : State) (w : Nat) (p : Bytes) : Option State :=
  match s.writers[w]? with
  | some wr =>
    if wr.phase = .opened ∧ wr.closed = false then
      let ws := s.writers.set w { wr with written := wr.written ++ p }
      if wr.direct then
        match s.inodes[wr.wip]? with
        | some ino => some { s with writers := ws, inodes := s.inodes.set wr.wip { ino with data := ino.data ++ p } }
        | none => none
      else
        match s.bufs[wr.buf]? with
        | some bf => some { s with writers := ws, bufs := s.bufs.set wr.buf { bf with data := bf.data ++ p } }
        | none => none
    else none
  | none => none

/-- First step of a memory writer's `Commit`: `cached, done, added := dc.cache.Add(key, b)`;
`if !added { dc.putBuffer(b) }`.  From here on the value counts as committed (ghost). -/
def State.commitMemPublish (s : State) (w : Nat) : Option State :=
  match s.writers[w]? with
  | some wr =>
    if wr.phase = .opened ∧ wr.direct = false then
      match s.bufs[wr.buf]? with
      | some bf =>
        let a := s.mem.add wr.key wr.buf
        let bufs :=
          if a.2.2.1 then evictBuf (s.bufs.set wr.buf { bf with owner := .cached a.2.1 }) a.2.2.2
          else s.bufs.set wr.buf { data := [], owner := .pooled }          -- putBuffer(b)
        some { s with mem := a.1, bufs := bufs,
                      writers := setWPhase s.writers w wr (.published a.2.1),
                      committed := addCommitted s.committed wr.key wr.written }
      | none => none
    else none
  | none => none

/-- `n, err := w.Write(cached.(*bytes.Buffer).Bytes())` into the (empty) wip file.
`fail = some n`: the OS wrote only `n` bytes and reported an error (`err != nil || n != Len()`), so
`w.Abort()` unlinks the wip file and only the deferred calls remain. -/
def State.commitDiskWrite (s : State) (w : Nat) (fail : Option Nat) : Option State :=
  match s.writers[w]? with
  | some wr =>
    match wr.phase with
    | .published rc =>
      match s.mem.rcs[rc]? with
      | some r =>
        match s.bufs[r.val]?, s.inodes[wr.wip]? with
        | some bf, some ino =>
          match fail with
          | none =>
            some { s with inodes := s.inodes.set wr.wip { ino with data := ino.data ++ bf.data },
                          writers := setWPhase s.writers w wr (.written rc) }
          | some n =>
            some { s with inodes := s.inodes.set wr.wip { ino with data := ino.data ++ bf.data.take n },
                          writers := setWPhase s.writers w wr (.finishing rc) }
        | _, _ => none
      | none => none
    | _ => none
  | none => none

/-- `w.Commit()` of the file writer: `os.Rename(wip.Name(), dc.cachePath(key))`.  For a direct writer
this is the whole `Commit`. -/
def State.commitRename (s : State) (w : Nat) : Option State :=
  match s.writers[w]? with
  | some wr =>
    match s.inodes[wr.wip]? with
    | some ino =>
      let inodes := s.inodes.set wr.wip { ino with st := .pub wr.key }
      let disk := fun k => if k = wr.key then some wr.wip else s.disk k
      match wr.phase with
      | .written rc =>
        some { s with inodes := inodes, disk := disk, writers := setWPhase s.writers w wr (.finishing rc) }
      | .opened =>
        if wr.direct then
          some { s with inodes := inodes, disk := disk, writers := setWPhase s.writers w wr .committed,
                        committed := addCommitted s.committed wr.key wr.written }
        else none
      | _ => none
    | none => none
  | none => none

/-- the deferred `w.Close(); done()` of `commit`. -/
def State.commitDone (s : State) (w : Nat) : Option State :=
  match s.writers[w]? with
  | some wr =>
    match wr.phase with
    | .finishing rc =>
      let d := s.mem.dec rc
      some { s with mem := d.1, bufs := evictBuf s.bufs d.2, writers := setWPhase s.writers w wr .committed }
    | _ => none
  | none => none

/-- `Abort()`: memory writer `dc.putBuffer(b); w.Abort(); w.Close()`, direct writer `os.Remove(wip)`. -/
def State.abort (s : State) (w : Nat) : Option State :=
  match s.writers[w]? with
  | some wr =>
    if wr.phase = .opened then
      if wr.direct then some { s with writers := setWPhase s.writers w wr .aborted }
      else
        some { s with bufs := s.bufs.set wr.buf { data := [], owner := .pooled },
                      writers := setWPhase s.writers w wr .aborted }
    else none
  | none => none

/-- `Close()` of a writer: a no-op on a memory writer, `wip.Close()` on a direct one. -/
def State.closeWriter (s : State) (w : Nat) : Option State :=
  match s.writers[w]? with
  | some wr => some { s with writers := s.writers.set w { wr with closed := true } }
  | none => none

/-- `Get`, memory hit: `dc.cache.Get(key)`. -/
def State.getMem (s : State) (k : Nat) (o : Opts) : Option State :=
  if s.cfg.direct || o.direct then none
  else
    match s.mem.get k with
    | some (m, id) =>
      match m.rcs[id]? with
      | some r => some { s with mem := m, readers := s.readers ++ [{ key := k, src := .mem r.val id, phase := .opened }] }
      | none => none
    | none => none

/-- `Get`, descriptor hit: `dc.fileCache.Get(key)` (the memory lookup before it missed, which changes
nothing). -/
def State.getFd (s : State) (k : Nat) (o : Opts) : Option State :=
  if s.cfg.direct || o.direct then none
  else
    match s.fd.get k with
    | some (m, id) =>
      match m.rcs[id]? with
      | some r => some { s with fd := m, readers := s.readers ++ [{ key := k, src := .fdc r.val id, phase := .opened }] }
      | none => none
    | none => none

/-- `Get`, `os.Open(dc.cachePath(key))` succeeded. -/
def State.getOpen (s : State) (k : Nat) (o : Opts) : Option State :=
  match s.disk k with
  | some i =>
    some { s with files := s.files ++ [{ key := k, inode := i, closed := false, owner := .reader s.readers.length }],
                  readers := s.readers ++ [{ key := k, src := .own s.files.length (s.cfg.direct || o.direct),
                                             phase := .opened }] }
  | none => none

/-- `ReadAt` on an open reader: no state change; what it sees is `State.visible`. -/
def State.read (s : State) (r : Nat) : Option State :=
  match s.readers[r]? with
  | some rd => if rd.phase = .opened then some s else none
  | none => none

/-- `Close()` of a reader.  Memory / descriptor hit: `done()`.  Direct: `file.Close()`.
Otherwise `_, done, added := dc.fileCache.Add(key, file); if !added { file.Close() }` (the deferred
`done()` is the separate step `closeReaderDone`). -/
def State.closeReader (s : State) (r : Nat) : Option State :=
  match s.readers[r]? with
  | some rd =>
    if rd.phase = .opened then
      match rd.src with
      | .mem _ rc =>
        let d := s.mem.dec rc
        some { s with mem := d.1, bufs := evictBuf s.bufs d.2, readers := setRPhase s.readers r rd .closed }
      | .fdc _ rc =>
        let d := s.fd.dec rc
        some { s with fd := d.1, files := evictFile s.files d.2, readers := setRPhase s.readers r rd .closed }
      | .own f true =>
        some { s with files := evictFile s.files (some f), readers := setRPhase s.readers r rd .closed }
      | .own f false =>
        match s.files[f]? with
        | some fo =>
          let a := s.fd.add rd.key f
          let files :=
            if a.2.2.1 then evictFile (s.files.set f { fo with owner := .cached a.2.1 }) a.2.2.2
            else s.files.set f { fo with closed := true }                  -- already cached: file.Close()
          some { s with fd := a.1, files := files, readers := setRPhase s.readers r rd (.closing a.2.1) }
        | none => none
    else none
  | none => none

/-- the deferred `done()` of an `own` reader's `Close`. -/
def State.closeReaderDone (s : State) (r : Nat) : Option State :=
  match s.readers[r]? with
  | some rd =>
    match rd.phase with
    | .closing rc =>
      let d := s.fd.dec rc
      some { s with fd := d.1, files := evictFile s.files d.2, readers := setRPhase s.readers r rd .closed }
    | _ => none
  | none => none

inductive Step where
  | addOpen (k : Nat) (o : Opts) (reuse : Option Nat)
  | write (w : Nat) (p : Bytes)
  | commitMemPublish (w : Nat)
  | commitDiskWrite (w : Nat) (fail : Option Nat)
  | commitRename (w : Nat)
  | commitDone (w : Nat)
  | abort (w : Nat)
  | closeWriter (w : Nat)
  | getMem (k : Nat) (o : Opts)
  | getFd (k : Nat) (o : Opts)
  | getOpen (k : Nat) (o : Opts)
  | read (r : Nat)
  | closeReader (r : Nat)
  | closeReaderDone (r : Nat)
deriving Repr, DecidableEq, Inhabited

def State.step? (s : State) : Step → Option State
  | .addOpen k o reuse => s.addOpen k o reuse
  | .write w p => s.write w p
  | .commitMemPublish w => s.commitMemPublish w
  | .commitDiskWrite w f => s.commitDiskWrite w f
  | .commitRename w => s.commitRename w
  | .commitDone w => s.commitDone w
  | .abort w => s.abort w
  | .closeWriter w => s.closeWriter w
  | .getMem k o => s.getMem k o
  | .getFd k o => s.getFd k o
  | .getOpen k o => s.getOpen k o
  | .read r => s.read r
  | .closeReader r => s.closeReader r
  | .closeReaderDone r => s.closeReaderDone r

/-- A step that is not enabled does not happen. -/
def State.step (s : State) (a : Step) : State := (s.step? a).getD s

/-- State after any sequence of steps of any number of goroutines. -/
def State.run (s : State) (steps : List Step) : State := steps.foldl State.step s

/-- What `ReadAt` on reader `rd` can see *now*: the whole byte string behind it.
`none`: the buffer/file does not exist or the descriptor is closed (`ReadAt` fails). -/
def State.visible (s : State) (rd : Reader) : Option Bytes :=
  match rd.src with
  | .mem b _ => s.bufs[b]?.map (·.data)
  | .fdc f _ | .own f _ =>
    match s.files[f]? with
    | some fo => if fo.closed then none else s.inodes[fo.inode]?.map (·.data)
    | none => none

/-- `ReadAt(p, off)` with `len(p) = n` on a byte string. -/
def readAt (v : Bytes) (off n : Nat) : Bytes := (v.drop off).take n

/-! ## Whole API calls of one goroutine with nothing in between (what the sequential driver runs) -/

/-- `Commit()` with `SyncAdd = true`. -/
def State.commitSync (s : State) (w : Nat) (fail : Option Nat) : Option State :=
  match s.writers[w]? with
  | some wr =>
    if wr.direct then s.commitRename w
    else do
      let s1 ← s.commitMemPublish w
      let s2 ← s1.commitDiskWrite w fail
      let s3 ← if fail.isSome then some s2 else s2.commitRename w
      s3.commitDone w
  | none => none

/-- `Commit()` of a memory writer with `SyncAdd = true` while the file system refuses to extend any file
(`RLIMIT_FSIZE = 0`): `w.Write(cached.Bytes())` fails after 0 bytes unless there is nothing to write.
Returns whether `Commit` reported success.  The value is in the memory LRU either way. -/
def State.commitSyncNoSpace (s : State) (w : Nat) : Option (State × Bool) :=
  match s.writers[w]? with
  | some wr =>
    if wr.direct then none
    else do
      let s1 ← s.commitMemPublish w
      let wr1 ← s1.writers[w]?
      match wr1.phase with
      | .published rc =>
        let r ← s1.mem.rcs[rc]?
        let bf ← s1.bufs[r.val]?
        if bf.data.isEmpty then do
          let s2 ← s1.commitDiskWrite w none
          let s3 ← s2.commitRename w
          let s4 ← s3.commitDone w
          some (s4, true)
        else do
          let s2 ← s1.commitDiskWrite w (some 0)
          let s3 ← s2.commitDone w
          some (s3, false)
      | _ => none
  | none => none

/-- `bufPool.Get()` as the sequential driver resolves it: the pooled buffer with the smallest index, `New`
if the pool is empty (which buffer is handed out is not observable). -/
def firstPooled (bufs : List Buf) : Option Nat :=
  let rec go : Nat → List Buf → Option Nat
    | _, [] => none
    | i, b :: t => if b.owner = .pooled then some i else go (i + 1) t
  go 0 bufs

/-- `Get(key, opts)`: memory, then descriptor cache, then `os.Open`. -/
def State.get (s : State) (k : Nat) (o : Opts) : Option State :=
  match s.getMem k o with
  | some s' => some s'
  | none =>
    match s.getFd k o with
    | some s' => some s'
    | none => s.getOpen k o

/-- `Reader.Close()`. -/
def State.closeReaderFull (s : State) (r : Nat) : Option State :=
  match s.closeReader r with
  | some s1 =>
    match s1.closeReaderDone r with
    | some s2 => some s2
    | none => some s1
  | none => none

/-! ## `MemoryCache`: one map under one mutex, no pool, no eviction -/

namespace MemCache

structure MWriter where
  key : Nat
  buf : Nat
  opened : Bool          -- neither `Commit` nor `Abort` yet
  written : Bytes        -- ghost
deriving Repr, DecidableEq, Inhabited

structure MReader where
  key : Nat
  buf : Nat              -- `bytes.NewReader(b.Bytes())`
deriving Repr, DecidableEq, Inhabited

/-- a `new(bytes.Buffer)`; `owner = some w` (ghost): still private to writer `w`. -/
structure MBuf where
  data : Bytes
  owner : Option Nat
deriving Repr, DecidableEq, Inhabited

structure MState where
  bufs : List MBuf := []                        -- every `new(bytes.Buffer)`; garbage collected, never recycled
  membuf : Nat → Option Nat := fun _ => none     -- `mc.Membuf`
  writers : List MWriter := []
  readers : List MReader := []
  committed : Nat → List Bytes := fun _ => []    -- ghost

/-- `Add`: `b := new(bytes.Buffer)`. -/
def MState.add (s : MState) (k : Nat) : Option MState :=
  some { s with bufs := s.bufs ++ [{ data := [], owner := some s.writers.length }],
                writers := s.writers ++ [{ key := k, buf := s.bufs.length, opened := true, written := [] }] }

/-- `Write`. -/
def MState.write (s : MState) (w : Nat) (p : Bytes) : Option MState :=
  match s.writers[w]? with
  | some wr =>
    if wr.opened then
      match s.bufs[wr.buf]? with
      | some d => some { s with bufs := s.bufs.set wr.buf { d with data := d.data ++ p },
                                writers := s.writers.set w { wr with written := wr.written ++ p } }
      | none => none
    else none
  | none => none

/-- `Commit`: `mc.Membuf[key] = b` under `mc.mu` — a later commit of the same key REPLACES the entry. -/
def MState.commit (s : MState) (w : Nat) : Option MState :=
  match s.writers[w]? with
  | some wr =>
    if wr.opened then
      match s.bufs[wr.buf]? with
      | some d =>
        some { s with membuf := fun k => if k = wr.key then some wr.buf else s.membuf k,
                      bufs := s.bufs.set wr.buf { d with owner := none },
                      writers := s.writers.set w { wr with opened := false },
                      committed := addCommitted s.committed wr.key wr.written }
      | none => none
    else none
  | none => none

/-- `Abort`: nothing (the buffer becomes garbage). -/
def MState.abort (s : MState) (w : Nat) : Option MState :=
  match s.writers[w]? with
  | some wr => if wr.opened then some { s with writers := s.writers.set w { wr with opened := false } } else none
  | none => none

/-- `Get` under `mc.mu`. -/
def MState.get (s : MState) (k : Nat) : Option MState :=
  match s.membuf k with
  | some b => some { s with readers := s.readers ++ [{ key := k, buf := b }] }
  | none => none

inductive MStep where
  | add (k : Nat)
  | write (w : Nat) (p : Bytes)
  | commit (w : Nat)
  | abort (w : Nat)
  | get (k : Nat)
deriving Repr, DecidableEq, Inhabited

def MState.step? (s : MState) : MStep → Option MState
  | .add k => s.add k
  | .write w p => s.write w p
  | .commit w => s.commit w
  | .abort w => s.abort w
  | .get k => s.get k

def MState.step (s : MState) (a : MStep) : MState := (s.step? a).getD s

def MState.run (s : MState) (steps : List MStep) : MState := steps.foldl MState.step s

def MState.visible (s : MState) (rd : MReader) : Option Bytes := s.bufs[rd.buf]?.map (·.data)

end MemCache

end SV.ChunkCache
