/-
End-to-end glue (C02 x C03 x C06): the `Under` parameter of the lazy-read model, made concrete.

Three separately proved models meet here:
  * `SV.Writer`   (C03) what `estargz.Writer`/`Build` emit: member table, TOC;
  * `SV.Blob`     (C06) `fs/remote/blob.go` `ReadAt` over a chunk cache and a server reply;
  * `SV.LazyRead` (C02) `fs/reader` `file.ReadAt` over the uncompressed chunk cache, with the
                        parameter `Under : ChunkId -> Option Bytes` ("what decompressing a chunk out
                        of the blob yields").

This module defines that `Under` from the first two: look the chunk up in the TOC the Writer
emitted (`Offset`, `InnerOffset`, `ChunkSize`) -> `Blob.readAt` of the member's byte range over the
remote chunk cache and a server reply -> decompress -> skip `InnerOffset`, take the chunk
(`estargz.fileReader.ReadAt` + `Reader.OpenFile`, docs/estargz.md reading rule).

Thin abstraction maps only:
  * the Writer's members are `(payload, clen)`; a `Codec` gives them bytes (`enc`) and a
    decompressor (`dec`); the premise tying both is `CodecInverse` (stated in Lemmas/E2E.lean);
  * LazyRead's file ids are naturals, the Writer's files are tar entries: file id `j` = index of
    the entry among the kept (not TOC-named) tar entries = index of its TOC group (`groupsOf`).

Core-only (no Mathlib).
-/
import SV.Model.Writer
import SV.Model.Blob
import SV.Model.LazyRead

namespace SV.E2E
open SV.Writer (Member TocEnt TarEnt Kind)

abbrev Bytes := List UInt8

/-- Compression made concrete: the bytes of a member and the decompressor of one member range. -/
structure Codec where
  enc : Member → Bytes
  dec : Bytes → Option Bytes

/-- A built layer as the snapshotter meets it: the blob (members + whatever follows them: TOC
bytes not counted as a member, footer), its TOC, and the chunk size of the remote blob cache. -/
structure Layer where
  codec : Codec
  members : List Member
  toc : List TocEnt
  footer : Bytes
  blobChunk : Nat

/-- The bytes of the blob in the registry. -/
def Layer.bytes (L : Layer) : Bytes := L.members.flatMap L.codec.enc ++ L.footer

/-- `fs/remote` parameters of that blob. -/
def Layer.params (L : Layer) : Blob.Params := ⟨L.bytes.length, L.blobChunk⟩

/-- The layer of a blob the Writer model produced. -/
def layerOf (C : Codec) (b : Writer.Blob) (footer : Bytes) (blobChunk : Nat) : Layer :=
  ⟨C, b.members, b.toc, footer, blobChunk⟩

/-! ## TOC groups = files -/

/-- Right-to-left split of a TOC: (leading run of `chunk` entries, groups).  A group is one
non-`chunk` entry followed by the `chunk` entries up to the next non-`chunk` entry - how
`estargz.Reader.initFields` attaches chunks to `lastRegEnt`. -/
def splitGo : List TocEnt → List TocEnt × List (List TocEnt)
  | [] => ([], [])
  | x :: xs =>
    let r := splitGo xs
    if x.typ = .chunk then (x :: r.1, r.2) else ([], (x :: r.1) :: r.2)

def groupsOf (toc : List TocEnt) : List (List TocEnt) := (splitGo toc).2

/-- The data entries of file `j` (empty for anything but a non-empty regular file). -/
def fileGroup (toc : List TocEnt) (j : Nat) : List TocEnt :=
  match (groupsOf toc)[j]? with
  | some (x :: xs) => if x.typ = .reg ∧ 0 < x.size then x :: xs else []
  | _ => []

def fileSize (toc : List TocEnt) (j : Nat) : Nat :=
  match fileGroup toc j with
  | x :: _ => x.size
  | [] => 0

/-- `(ChunkOffset, ChunkSize)` as the metadata store hands it out (`ChunkSize = 0` resolved). -/
def chunkOf (total : Nat) (x : TocEnt) : LazyRead.Chunk := ⟨x.chunkOffset, Writer.effSize x total⟩

def fileTable (toc : List TocEnt) (j : Nat) : List LazyRead.Chunk :=
  (fileGroup toc j).map (chunkOf (fileSize toc j))

/-- The regular file `j` as `fs/reader` sees it. -/
def fileInfo (v : LazyRead.Variant) (toc : List TocEnt) (j : Nat) : LazyRead.FileInfo :=
  { id := j, variant := v, table := fileTable toc j, size := fileSize toc j,
    firstOff := match fileGroup toc j with | x :: _ => x.offset | [] => 0 }

/-- What the source tar says file `j` contains (`[]` for anything but a regular file). -/
def content (ents : List TarEnt) (j : Nat) : Bytes :=
  match (ents.filter (fun e => !e.isToc))[j]? with
  | some e => if e.typ = .reg then e.data else []
  | none => []

/-! ## The concrete `Under` -/

/-- The TOC entry of a chunk id. -/
def findEnt (toc : List TocEnt) (id : LazyRead.ChunkId) : Option TocEnt :=
  (fileGroup toc id.file).find? (fun x =>
    decide (x.chunkOffset = id.off) && decide (Writer.effSize x (fileSize toc id.file) = id.size))

/-- `io.NewSectionReader(blob, o, n)` read in full: all `n` bytes or an error. -/
def blobRange (P : Blob.Params) (s : Blob.St) (reply : Blob.Reply) (o n : Nat) :
    Blob.St × Option Bytes :=
  match Blob.readAt P s o n reply with
  | (s', some (k, buf)) => if k = n then (s', some (buf.take k)) else (s', none)
  | (s', none) => (s', none)

/-- Decompress chunk `id` out of the blob, the remote cache being in state `s` and the registry
answering `reply`: TOC lookup -> member range -> `blob.ReadAt` -> decompress -> skip/take.
Also returns the new state of the remote cache. -/
def underSt (L : Layer) (s : Blob.St) (reply : Blob.Reply) (id : LazyRead.ChunkId) :
    Blob.St × Option Bytes :=
  match findEnt L.toc id with
  | none => (s, none)
  | some x =>
    match Writer.findMember L.members 0 x.offset with
    | none => (s, none)
    | some m =>
      match blobRange L.params s reply x.offset m.clen with
      | (s', none) => (s', none)
      | (s', some cb) =>
        match L.codec.dec cb with
        | none => (s', none)
        | some p => (s', some ((p.drop x.innerOffset).take id.size))

def under (L : Layer) (s : Blob.St) (reply : Blob.Reply) (id : LazyRead.ChunkId) : Option Bytes :=
  (underSt L s reply id).2

/-- The `Under` of one lazy-read operation: each chunk fetch of the operation meets the remote
cache in some state and gets some reply (`env id`). -/
def underOf (L : Layer) (env : LazyRead.ChunkId → Blob.St × Blob.Reply) : LazyRead.Under :=
  fun id => under L (env id).1 (env id).2 id

end SV.E2E
