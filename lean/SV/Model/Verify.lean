/-
Model of the verification gate of one layer object (C01).  Core-only (no Mathlib) so that the
driver links as a `lean_exe`.

Go code mirrored (current tree, i.e. after 843bce5):
  fs/reader/reader.go   VerifiableReader.{VerifyTOC, SkipVerify, readAndCache}, reader.verify,
                        reader.OpenFile (pre-reader), file.ReadAt, verifyAndCache / verifyOneChunk /
                        verifyChunk, file.GetPassthroughFd / prefetchEntireFile* / processBatchChunks
  fs/layer/layer.go     layer.{Verify, SkipVerify, RootNode}, the `verified` flag
  fs/fs.go              filesystem.Mount, the verification ladder
  store/fs.go           layernode.Lookup (Verify(<dirname digest>))

`H : β → δ` (SHA-256 on byte strings) is an uninterpreted parameter: every claim is a digest
EQUALITY, so no collision assumption is needed.  `β` is the type of byte strings, `δ` of digests.
The adversary (registry, mirror, http cache) chooses the bytes of the TOC and the bytes every
compressed read yields (`none` = the read / the decoder failed).

`metadata.Reader.Clone` (used by `Cache(WithReader(sr))`, i.e. `layer.backgroundFetch`): the db store's
clone keeps the TOC stored at open time; the memory store's clone RE-PARSES the TOC from `sr`
(adversary's bytes `tb'`).  Since a094525 `Cache` refuses a clone whose TOC digest differs from the
TOC digest of the layer object (`prefetchBeginClone c reply tb'`: error unless `H tb' = H tocBytes`,
then the chunk digest handed to `readAndCache` is the one `parse tb'` records).  The behaviour before
that commit — no comparison, the chunk digest is whatever the clone's TOC says — is kept as the
variant `prefetchBeginWith` / `prefetchWith` with an arbitrary digest `dg` (not an `Op`).

Atomicity premises (recorded as assumptions of the check):
 * `VerifyTOC` sets `prohibitVerifyFailure` and loads `lastVerifyErr` while holding the write side of
   `prohibitVerifyFailureMu`; `readAndCache` tests `prohibitVerifyFailure` and stores `lastVerifyErr`
   while holding its read side.  So the two critical sections are atomic steps (`verifyTOC`,
   `prefetchDecide`); what `readAndCache` does after its critical section (Commit) is a separate
   step (`prefetchCommit`), any number of writers may be in flight (`St.pending`).
 * `layer.Verify` / `layer.SkipVerify` calls reaching one layer object are serialised.
 * the chunk cache returns what was committed under a key (C11).
-/
namespace SV.Verify

/-- The TOC as parsed: which chunks a file consists of (in order) and the chunk digest recorded for
a chunk (`none`: the digest string is empty / unparsable, `digestVerifier` fails). -/
structure Toc (δ : Type) where
  chunksOf : Nat → List Nat
  dig : Nat → Option δ

/-- `layer.r` / `layer.verified`: no reader yet, reader acquired through `VerifyTOC`, reader acquired
through `SkipVerify`. -/
inductive LayerR where
  | none | verified | skipped
deriving DecidableEq, Repr, Inhabited

/-- Cache keys (`genID(id, offset, size)`): one per chunk and one per entire file (passthrough). -/
inductive Key where
  | chunk (c : Nat)
  | whole (f : Nat)
deriving DecidableEq, Repr, Inhabited

/-- A cache entry: the payload as a list of (chunk, bytes of that chunk) and the GHOST bit "every
piece was compared with its recorded digest before the entry was written". -/
structure Entry (β : Type) where
  pieces : List (Nat × β)
  ver : Bool

abbrev Cache (β : Type) := List (Key × Entry β)

structure Cfg where
  disableVerification : Bool := false
  allowNoVerification : Bool := false
deriving DecidableEq, Repr, Inhabited

/-- The labels `filesystem.Mount` looks at: the TOC digest label (absent / present but rejected by
`digest.Parse` / a digest) and the skip-verify label. -/
structure Labels (δ : Type) where
  toc : Option (Option δ)
  skip : Bool

/-- One chunk of a read: the chunk, what the compressed read yields for it, and the neighbours in
the same compressed stream that `estargz.fileReader.ReadAt` hands to the pre-reader on a miss. -/
structure Step (β : Type) where
  c : Nat
  reply : Option β
  pre : List (Nat × Option β) := []

inductive Res (β : Type) where
  | ok
  | err
  | data (ps : List (Nat × β))

structure St (β δ : Type) where
  cfg : Cfg
  tocBytes : β                      -- the TOC JSON bytes that were hashed when the blob was opened
  toc : Toc δ                       -- the TOC as parsed from them
  verifyFlag : Bool := false        -- reader.verify
  prohibit : Bool := false          -- VerifiableReader.prohibitVerifyFailure
  lastVerifyErr : Bool := false     -- VerifiableReader.lastVerifyErr != nil
  layerR : LayerR := .none          -- layer.r / layer.verified
  cache : Cache β := []
  pending : List (Nat × Entry β) := []   -- readAndCache writers past the decision, not yet committed

section
variable {β δ : Type} [DecidableEq δ] (H : β → δ)

/-! ## cache primitives -/

def cget (c : Cache β) (k : Key) : Option (Entry β) :=
  match c with
  | [] => none
  | (k', e) :: rest => if k' = k then some e else cget rest k

def cput (c : Cache β) (k : Key) (e : Entry β) : Cache β := (k, e) :: c

/-- `digest.Verifier` of the digest string `dg` fed with `b`: `Verified()`. A missing / unparsable
digest is a verifier error. -/
def digOk (dg : Option δ) (b : β) : Bool :=
  match dg with
  | some d => decide (H b = d)
  | none => false

/-- ... for the digest the TOC records for chunk `c`. -/
def chunkOk (t : Toc δ) (c : Nat) (b : β) : Bool := digOk H (t.dig c) b

/-- `reader.verifyAndCache` (also the pre-reader callback of `reader.OpenFile` after its own cache
check): `verifyChunk` compares only when `reader.verify` is set; then `cacheData`. -/
def fetchOne (t : Toc δ) (vf : Bool) (ca : Cache β) (c : Nat) (reply : Option β) : Option (Cache β × β) :=
  match reply with
  | none => none
  | some b =>
    if vf && !chunkOk H t c b then none
    else some (cput ca (.chunk c) ⟨[(c, b)], vf⟩, b)

/-- The pre-reader of `reader.OpenFile` over the neighbours of the chunk being read: cached ones
are skipped, the others are read, verified (iff `reader.verify`) and cached. `false` = error. -/
def preReads (t : Toc δ) (vf : Bool) (ca : Cache β) : List (Nat × Option β) → Cache β × Bool
  | [] => (ca, true)
  | (c, r) :: rest =>
    match cget ca (.chunk c) with
    | some _ => preReads t vf ca rest
    | none =>
      match fetchOne H t vf ca c r with
      | none => (ca, false)
      | some (ca', _) => preReads t vf ca' rest

/-- One iteration of the loop of `file.ReadAt`: cache hit ⇒ the cached bytes; miss ⇒ the underlying
read (with pre-reads), `verifyAndCache`. -/
def readChunk (t : Toc δ) (vf : Bool) (ca : Cache β) (st : Step β) : Cache β × Option (List (Nat × β)) :=
  match cget ca (.chunk st.c) with
  | some e => (ca, some e.pieces)
  | none =>
    match preReads H t vf ca st.pre with
    | (ca1, false) => (ca1, none)
    | (ca1, true) =>
      match fetchOne H t vf ca1 st.c st.reply with
      | none => (ca1, none)
      | some (ca2, b) => (ca2, some [(st.c, b)])

/-- `file.ReadAt` over the chunks a request touches. An error returns no data (`n = 0`); what
was cached before the error stays cached. -/
def readSteps (t : Toc δ) (vf : Bool) (ca : Cache β) : List (Step β) → Cache β × Option (List (Nat × β))
  | [] => (ca, some [])
  | st :: rest =>
    match readChunk H t vf ca st with
    | (ca1, none) => (ca1, none)
    | (ca1, some ps) =>
      match readSteps t vf ca1 rest with
      | (ca2, none) => (ca2, none)
      | (ca2, some qs) => (ca2, some (ps ++ qs))

/-- `prefetchEntireFile` / `prefetchEntireFileSequential` / `processBatchChunks`: per chunk, a cache
hit is copied, a miss is read and passed to `verifyOneChunk`; the chunk itself is not cached.
The result is the entry of the whole file (`none` = `w.Abort()`). -/
def mergeChunks (t : Toc δ) (vf : Bool) (adv : Nat → Option β) (pre : Nat → List (Nat × Option β))
    (ca : Cache β) : List Nat → Cache β × Option (Entry β)
  | [] => (ca, some ⟨[], true⟩)
  | c :: rest =>
    match cget ca (.chunk c) with
    | some e =>
      match mergeChunks t vf adv pre ca rest with
      | (ca1, none) => (ca1, none)
      | (ca1, some e') => (ca1, some ⟨e.pieces ++ e'.pieces, e.ver && e'.ver⟩)
    | none =>
      match preReads H t vf ca (pre c) with
      | (ca1, false) => (ca1, none)
      | (ca1, true) =>
        match adv c with
        | none => (ca1, none)
        | some b =>
          if vf && !chunkOk H t c b then (ca1, none)
          else
            match mergeChunks t vf adv pre ca1 rest with
            | (ca2, none) => (ca2, none)
            | (ca2, some e') => (ca2, some ⟨(c, b) :: e'.pieces, vf && e'.ver⟩)

/-- `genID(id, 0, totalSize)`: for a file of exactly one chunk this IS the key of that chunk. -/
def wholeKey (t : Toc δ) (f : Nat) : Key :=
  match t.chunksOf f with
  | [c] => .chunk c
  | _ => .whole f

/-! ## reader level (`VerifiableReader` / `reader`) -/

/-- A fresh layer object: `Resolver.Resolve` opened the blob (`parse` = the metadata store), made a
fresh chunk cache and `reader.NewReader`. -/
def init (parse : β → Toc δ) (cfg : Cfg) (tocBytes : β) : St β δ :=
  { cfg := cfg, tocBytes := tocBytes, toc := parse tocBytes }

/-- `metadata.Reader.TOCDigest()`. -/
def St.tocActual (s : St β δ) : δ := H s.tocBytes

/-- `VerifiableReader.readAndCache` up to and including its critical section: cache check, read
(`Peek`), verifier lookup for the chunk digest `dg` handed over by the metadata reader that walks
the blob, comparison, record-or-abort. Returns the entry left to be committed.  The ghost bit says
"compared with `dg` and equal" — whether `dg` is the digest of the TOC of this layer object is the
caller's business (see `prefetchBeginWith`). -/
def prefetchDecideWith (s : St β δ) (c : Nat) (reply : Option β) (dg : Option δ) :
    St β δ × Res β × Option (Entry β) :=
  match cget s.cache (.chunk c) with
  | some _ => (s, .ok, none)
  | none =>
    match reply with
    | none => (s, .err, none)
    | some b =>
      if digOk H dg b then (s, .ok, some ⟨[(c, b)], true⟩)
      else if s.prohibit then (s, .err, none)
      else ({ s with lastVerifyErr := true }, .ok, some ⟨[(c, b)], false⟩)

/-- `readAndCache` reached from `Cache()` over the metadata reader of this layer object: the chunk
digest is the one of the TOC parsed when the blob was opened. -/
def prefetchDecide (s : St β δ) (c : Nat) (reply : Option β) : St β δ × Res β × Option (Entry β) :=
  prefetchDecideWith H s c reply (s.toc.dig c)

/-- `readAndCache` as ONE step (decision immediately followed by `w.Commit()`): what a sequential
caller of `Cache()` observes. -/
def prefetch (s : St β δ) (c : Nat) (reply : Option β) : St β δ × Res β :=
  match prefetchDecide H s c reply with
  | (s1, r, some e) => ({ s1 with cache := cput s1.cache (.chunk c) e }, r)
  | (s1, r, none) => (s1, r)

/-- `readAndCache` up to the decision; the writer stays in flight. -/
def prefetchBegin (s : St β δ) (c : Nat) (reply : Option β) : St β δ × Res β :=
  match prefetchDecide H s c reply with
  | (s1, r, some e) => ({ s1 with pending := s1.pending ++ [(c, e)] }, r)
  | (s1, r, none) => (s1, r)

/-- VARIANT (code before a094525): `readAndCache` reached from `Cache(WithReader(sr))` over a clone
whose TOC nobody compared: `dg` is whatever the blob source serves at that moment. -/
def prefetchBeginWith (s : St β δ) (c : Nat) (reply : Option β) (dg : Option δ) : St β δ × Res β :=
  match prefetchDecideWith H s c reply dg with
  | (s1, r, some e) => ({ s1 with pending := s1.pending ++ [(c, e)] }, r)
  | (s1, r, none) => (s1, r)

/-- ... as ONE step (decision immediately followed by `w.Commit()`). -/
def prefetchWith (s : St β δ) (c : Nat) (reply : Option β) (dg : Option δ) : St β δ × Res β :=
  match prefetchDecideWith H s c reply dg with
  | (s1, r, some e) => ({ s1 with cache := cput s1.cache (.chunk c) e }, r)
  | (s1, r, none) => (s1, r)

/-- `readAndCache` reached from `Cache(WithReader(sr))` (`layer.backgroundFetch`), current code: the
walk goes over `metadata.Reader.Clone(sr)` whose TOC bytes are `tb'` (db store: the stored ones;
memory store: re-parsed from `sr`); `Cache` refuses the clone unless its TOC digest equals the TOC
digest of this layer object. -/
def prefetchBeginClone (parse : β → Toc δ) (s : St β δ) (c : Nat) (reply : Option β) (tb' : β) :
    St β δ × Res β :=
  if H tb' = H s.tocBytes then prefetchBeginWith H s c reply ((parse tb').dig c) else (s, .err)

def removeNth {α : Type} : List α → Nat → List α
  | [], _ => []
  | _ :: xs, 0 => xs
  | x :: xs, n + 1 => x :: removeNth xs n

/-- `w.Commit()` of the `i`-th writer in flight. -/
def prefetchCommit (s : St β δ) (i : Nat) : St β δ × Res β :=
  match s.pending[i]? with
  | none => (s, .err)
  | some (c, e) =>
    ({ s with pending := removeNth s.pending i, cache := cput s.cache (.chunk c) e }, .ok)

/-- `VerifiableReader.VerifyTOC`. -/
def verifyTOC (s : St β δ) (D : δ) : St β δ × Res β :=
  let s1 := { s with prohibit := true }
  if s.lastVerifyErr then (s1, .err)
  else if H s.tocBytes ≠ D then (s1, .err)
  else ({ s1 with verifyFlag := true }, .ok)

/-- `Reader.OpenFile(id).ReadAt` on the reader object, whoever holds it. -/
def rawRead (s : St β δ) (steps : List (Step β)) : St β δ × Res β :=
  match readSteps H s.toc s.verifyFlag s.cache steps with
  | (ca, none) => ({ s with cache := ca }, .err)
  | (ca, some ps) => ({ s with cache := ca }, .data ps)

/-- `file.GetPassthroughFd`. `fileBacked` = the cache hands out an `*os.File` (directory cache in
direct mode); otherwise the merged entry is still written but the call fails. -/
def rawPassthrough (s : St β δ) (f : Nat) (adv : Nat → Option β) (pre : Nat → List (Nat × Option β))
    (fileBacked : Bool) : St β δ × Res β :=
  let k := wholeKey s.toc f
  match cget s.cache k with
  | some _ => (s, if fileBacked then .ok else .err)
  | none =>
    match mergeChunks H s.toc s.verifyFlag adv pre s.cache (s.toc.chunksOf f) with
    | (ca, none) => ({ s with cache := ca }, .err)
    | (ca, some e) => ({ s with cache := cput ca k e }, if fileBacked then .ok else .err)

/-- A read through the passthrough fd: the kernel serves the bytes of the cached whole-file entry. -/
def rawReadFd (s : St β δ) (f : Nat) : St β δ × Res β :=
  match cget s.cache (wholeKey s.toc f) with
  | some e => (s, .data e.pieces)
  | none => (s, .err)

/-! ## layer level (`layer`) -/

/-- `layer.Verify` (current code): refuse a layer already served unverified, otherwise compare the
digest on every call. -/
def layerVerify (s : St β δ) (D : δ) : St β δ × Res β :=
  match s.layerR with
  | .skipped => (s, .err)
  | _ =>
    match verifyTOC H s D with
    | (s1, .ok) => ({ s1 with layerR := .verified }, .ok)
    | (s1, _) => (s1, .err)

/-- `layer.Verify` as it was before 843bce5: a no-op once a reader exists. -/
def verifyBuggy (s : St β δ) (D : δ) : St β δ × Res β :=
  match s.layerR with
  | .none =>
    match verifyTOC H s D with
    | (s1, .ok) => ({ s1 with layerR := .verified }, .ok)
    | (s1, _) => (s1, .err)
  | _ => (s, .ok)

/-- `layer.SkipVerify`: no-op once a reader exists (a verified reader is kept). -/
def layerSkip (s : St β δ) : St β δ :=
  match s.layerR with
  | .none => { s with layerR := .skipped }
  | _ => s

/-- `layer.RootNode`: needs `l.r`. -/
def rootNode (s : St β δ) : Res β :=
  match s.layerR with
  | .none => .err
  | _ => .ok

/-- The verification ladder of `filesystem.Mount` followed by `RootNode`. -/
def mount (s : St β δ) (l : Labels δ) : St β δ × Res β :=
  if s.cfg.disableVerification then
    let s1 := layerSkip s
    (s1, rootNode s1)
  else
    match l.toc with
    | some none => (s, .err)
    | some (some D) =>
      match layerVerify H s D with
      | (s1, .ok) => (s1, rootNode s1)
      | (s1, _) => (s1, .err)
    | none =>
      if l.skip && s.cfg.allowNoVerification then
        let s1 := layerSkip s
        (s1, rootNode s1)
      else (s, .err)

/-- `layernode.Lookup` of the stargz store: `Verify(<digest in the directory name>)`, `RootNode`. -/
def storeLookup (s : St β δ) (D : δ) : St β δ × Res β :=
  match layerVerify H s D with
  | (s1, .ok) => (s1, rootNode s1)
  | (s1, _) => (s1, .err)

/-- Reads need the reader of the layer (`l.r`, handed to the nodes by `RootNode`). -/
def read (s : St β δ) (steps : List (Step β)) : St β δ × Res β :=
  match s.layerR with
  | .none => (s, .err)
  | _ => rawRead H s steps

def passthrough (s : St β δ) (f : Nat) (adv : Nat → Option β) (pre : Nat → List (Nat × Option β))
    (fileBacked : Bool) : St β δ × Res β :=
  match s.layerR with
  | .none => (s, .err)
  | _ => rawPassthrough H s f adv pre fileBacked

def readFd (s : St β δ) (f : Nat) : St β δ × Res β :=
  match s.layerR with
  | .none => (s, .err)
  | _ => rawReadFd s f

/-- The layer object is dropped from the resolver cache and resolved again: new TOC bytes (the
adversary serves what it likes), a fresh chunk cache, fresh flags; the configuration stays. -/
def evict (parse : β → Toc δ) (s : St β δ) (tocBytes : β) : St β δ := init parse s.cfg tocBytes

/-- Everything that can reach one layer object. -/
inductive Op (β δ : Type) where
  | prefetchBegin (c : Nat) (reply : Option β)
  | prefetchBeginClone (c : Nat) (reply : Option β) (tb' : β)
  | prefetchCommit (i : Nat)
  | layerVerify (D : δ)
  | layerSkip
  | mount (l : Labels δ)
  | storeLookup (D : δ)
  | read (steps : List (Step β))
  | passthrough (f : Nat) (adv : Nat → Option β) (pre : Nat → List (Nat × Option β)) (fileBacked : Bool)
  | readFd (f : Nat)
  | evict (tocBytes : β)

def step (parse : β → Toc δ) (s : St β δ) : Op β δ → St β δ × Res β
  | .prefetchBegin c r => prefetchBegin H s c r
  | .prefetchBeginClone c r tb' => prefetchBeginClone H parse s c r tb'
  | .prefetchCommit i => prefetchCommit s i
  | .layerVerify D => layerVerify H s D
  | .layerSkip => (layerSkip s, .ok)
  | .mount l => mount H s l
  | .storeLookup D => storeLookup H s D
  | .read steps => read H s steps
  | .passthrough f adv pre fb => passthrough H s f adv pre fb
  | .readFd f => readFd s f
  | .evict tb => (evict parse s tb, .ok)

def run (parse : β → Toc δ) (s : St β δ) : List (Op β δ) → St β δ
  | [] => s
  | o :: rest => run parse (step H parse s o).1 rest

/-- The same machine with the old `layer.Verify` in every place that calls it. -/
def mountBuggy (s : St β δ) (l : Labels δ) : St β δ × Res β :=
  if s.cfg.disableVerification then
    let s1 := layerSkip s
    (s1, rootNode s1)
  else
    match l.toc with
    | some none => (s, .err)
    | some (some D) =>
      match verifyBuggy H s D with
      | (s1, .ok) => (s1, rootNode s1)
      | (s1, _) => (s1, .err)
    | none =>
      if l.skip && s.cfg.allowNoVerification then
        let s1 := layerSkip s
        (s1, rootNode s1)
      else (s, .err)

end
end SV.Verify
