/-
Model of the snapshot-label protocol between the pull-side image handlers and the snapshotter.

  /repo/fs/source/source.go    AppendDefaultLabelsHandlerWrapper, appendWithValidation,
                               AppendExtraLabelsHandler, layerFromDigest, FromDefaultLabels
  /repo/service/cri.go         sourceFromCRILabels
  /repo/service/service.go     sources (first reader that succeeds)
  /repo/fs/fs.go               Mount: prefetch-size label, neighboringLayers
  containerd v2 pkg/labels     Validate            (len(k)+len(v) > 4096 is an error)
  containerd v2 pkg/snapshotters AppendInfoHandlerWrapper, getLayers   (the CRI labels)
  go-digest v1.0.0             Parse / Validate    (sha256 / sha384 / sha512, lower-case hex)

Core-only (no Mathlib) so that the driver links as a `lean_exe`.

A Go `string` is a byte sequence; it is modelled as `List Char` with ONE `Char` PER BYTE
(the driver maps byte b to `Char.ofNat b`), so `List.length` is Go's `len` and splitting at
`','` is `strings.Split(s, ",")`.  `reference.Parse` (net/url based) is a parameter `parseRef`.
-/
namespace SV.Labels

abbrev Str := List Char

/-- Go `map[string]string`; `set` shadows, `get` returns the first binding. -/
abbrev Labels := List (Str × Str)

def get : Labels → Str → Option Str
  | [], _ => none
  | (k', v) :: m, k => if k = k' then some v else get m k

def set (m : Labels) (k v : Str) : Labels := (k, v) :: m

/-! ### containerd `labels.Validate` -/

def maxSize : Nat := 4096

/-- `labels.Validate(k, v) == nil`  (`total := len(k)+len(v); if total > maxSize {error}`). -/
def validate (k v : Str) : Bool := decide (k.length + v.length ≤ maxSize)

/-! ### label keys
Written as explicit character lists (kernel evaluation of `String.toList` on literals is slow);
the driver's `keys` op is compared with the Go constants on every run. -/

/-- `"containerd.io/snapshot/remote/stargz.reference"` -/
def kRef : Str :=
  ['c', 'o', 'n', 't', 'a', 'i', 'n', 'e', 'r', 'd', '.', 'i', 'o', '/', 's', 'n', 'a', 'p', 's', 'h', 'o', 't', '/', 'r', 'e', 'm', 'o', 't', 'e', '/', 's', 't', 'a', 'r', 'g', 'z', '.', 'r', 'e', 'f', 'e', 'r', 'e', 'n', 'c', 'e']
/-- `"containerd.io/snapshot/remote/stargz.digest"` -/
def kDigest : Str :=
  ['c', 'o', 'n', 't', 'a', 'i', 'n', 'e', 'r', 'd', '.', 'i', 'o', '/', 's', 'n', 'a', 'p', 's', 'h', 'o', 't', '/', 'r', 'e', 'm', 'o', 't', 'e', '/', 's', 't', 'a', 'r', 'g', 'z', '.', 'd', 'i', 'g', 'e', 's', 't']
/-- `"containerd.io/snapshot/remote/stargz.layers"` -/
def kLayers : Str :=
  ['c', 'o', 'n', 't', 'a', 'i', 'n', 'e', 'r', 'd', '.', 'i', 'o', '/', 's', 'n', 'a', 'p', 's', 'h', 'o', 't', '/', 'r', 'e', 'm', 'o', 't', 'e', '/', 's', 't', 'a', 'r', 'g', 'z', '.', 'l', 'a', 'y', 'e', 'r', 's']
/-- `"containerd.io/snapshot/remote/urls."` -/
def kURLsPrefix : Str :=
  ['c', 'o', 'n', 't', 'a', 'i', 'n', 'e', 'r', 'd', '.', 'i', 'o', '/', 's', 'n', 'a', 'p', 's', 'h', 'o', 't', '/', 'r', 'e', 'm', 'o', 't', 'e', '/', 'u', 'r', 'l', 's', '.']
/-- `"containerd.io/snapshot/remote/urls"` -/
def kURLs : Str :=
  ['c', 'o', 'n', 't', 'a', 'i', 'n', 'e', 'r', 'd', '.', 'i', 'o', '/', 's', 'n', 'a', 'p', 's', 'h', 'o', 't', '/', 'r', 'e', 'm', 'o', 't', 'e', '/', 'u', 'r', 'l', 's']
/-- `"containerd.io/snapshot/remote/stargz.prefetch"` -/
def kPrefetch : Str :=
  ['c', 'o', 'n', 't', 'a', 'i', 'n', 'e', 'r', 'd', '.', 'i', 'o', '/', 's', 'n', 'a', 'p', 's', 'h', 'o', 't', '/', 'r', 'e', 'm', 'o', 't', 'e', '/', 's', 't', 'a', 'r', 'g', 'z', '.', 'p', 'r', 'e', 'f', 'e', 't', 'c', 'h']
/-- `"containerd.io/snapshot/cri.image-ref"` -/
def kCriRef : Str :=
  ['c', 'o', 'n', 't', 'a', 'i', 'n', 'e', 'r', 'd', '.', 'i', 'o', '/', 's', 'n', 'a', 'p', 's', 'h', 'o', 't', '/', 'c', 'r', 'i', '.', 'i', 'm', 'a', 'g', 'e', '-', 'r', 'e', 'f']
/-- `"containerd.io/snapshot/cri.layer-digest"` -/
def kCriDigest : Str :=
  ['c', 'o', 'n', 't', 'a', 'i', 'n', 'e', 'r', 'd', '.', 'i', 'o', '/', 's', 'n', 'a', 'p', 's', 'h', 'o', 't', '/', 'c', 'r', 'i', '.', 'l', 'a', 'y', 'e', 'r', '-', 'd', 'i', 'g', 'e', 's', 't']
/-- `"containerd.io/snapshot/cri.image-layers"` -/
def kCriLayers : Str :=
  ['c', 'o', 'n', 't', 'a', 'i', 'n', 'e', 'r', 'd', '.', 'i', 'o', '/', 's', 'n', 'a', 'p', 's', 'h', 'o', 't', '/', 'c', 'r', 'i', '.', 'i', 'm', 'a', 'g', 'e', '-', 'l', 'a', 'y', 'e', 'r', 's']
/-- `"containerd.io/snapshot/cri.manifest-digest"` -/
def kCriManifest : Str :=
  ['c', 'o', 'n', 't', 'a', 'i', 'n', 'e', 'r', 'd', '.', 'i', 'o', '/', 's', 'n', 'a', 'p', 's', 'h', 'o', 't', '/', 'c', 'r', 'i', '.', 'm', 'a', 'n', 'i', 'f', 'e', 's', 't', '-', 'd', 'i', 'g', 'e', 's', 't']

/-- `fmt.Sprintf("%d", i)` for `i ≥ 0`. -/
def natDec (n : Nat) : Str := Nat.toDigits 10 n

/-- `fmt.Sprintf("%d", n)` for an `int64`. -/
def intDec (n : Int) : Str := if n < 0 then '-' :: natDec n.natAbs else natDec n.natAbs

/-- `targetImageURLsLabelPrefix + fmt.Sprintf("%d", j)`. -/
def urlsKey (j : Nat) : Str := kURLsPrefix ++ natDec j

/-! ### `strings.Split(s, ",")`, `strings.TrimSuffix(s, ",")` -/

/-- `strings.Split(s, ",")`; note `Split("") = [""]`. -/
def splitComma : Str → List Str
  | [] => [[]]
  | c :: cs =>
    if c = ',' then [] :: splitComma cs
    else match splitComma cs with
      | [] => [[c]]
      | h :: t => (c :: h) :: t

/-- `strings.TrimSuffix(s, ",")`: drops ONE trailing comma if there is one. -/
def trimSuffixComma : Str → Str
  | [] => []
  | [c] => if c = ',' then [] else [c]
  | c :: d :: r => c :: trimSuffixComma (d :: r)

/-- `strings.Join(xs, ",")` (specification side only). -/
def joinComma : List Str → Str
  | [] => []
  | [x] => x
  | x :: y :: r => x ++ ',' :: joinComma (y :: r)

/-- `x0 + "," + x1 + "," + …` — every element followed by a comma (the writers' accumulator). -/
def catComma : List Str → Str
  | [] => []
  | x :: xs => x ++ ',' :: catComma xs

/-! ### go-digest `Parse` -/

def isLowerHex (c : Char) : Bool := ('0' ≤ c && c ≤ '9') || ('a' ≤ c && c ≤ 'f')

/-- Hex length required by `Algorithm.Validate` for the available algorithms; 0 = not available. -/
def algHexLen (alg : Str) : Nat :=
  if alg = ['s', 'h', 'a', '2', '5', '6'] then 64
  else if alg = ['s', 'h', 'a', '3', '8', '4'] then 96
  else if alg = ['s', 'h', 'a', '5', '1', '2'] then 128
  else 0

/-- `digest.Parse(s)` succeeds.  (`i := strings.Index(s, ":")`; `i <= 0 || i+1 == len(s)` is an
error; the algorithm must be available; the encoded part must be lower-case hex of exactly
`2*Size()` characters.) -/
def digestValid (s : Str) : Bool :=
  match s.dropWhile (· ≠ ':') with
  | [] => false
  | _ :: enc =>
    let n := algHexLen (s.takeWhile (· ≠ ':'))
    n != 0 && enc.length == n && enc.all isLowerHex

/-! ### descriptors -/

/-- `ocispec.Descriptor` as far as the handlers look at it.  `isLayer` is
`images.IsLayerType(MediaType)`; `ann = none` is a nil `Annotations` map. -/
structure Desc where
  isLayer : Bool
  digest : Str
  urls : List Str
  ann : Option Labels
deriving DecidableEq, Repr, Inhabited

/-- Result of a handler: children, an error return, or a Go panic (write to a nil map). -/
inductive Outcome (α : Type) where
  | ok (a : α)
  | err
  | panic
deriving DecidableEq, Repr

/-! ### writer side, shared: `appendWithValidation` -/

/-- The loop of `appendWithValidation`: `v` is the accumulator, `break` at the first value that
does not validate. -/
def appendLoop (key : Str) : Str → List Str → Str
  | v, [] => v
  | v, u :: us =>
    if validate key (v ++ (u ++ [','])) then appendLoop key (v ++ (u ++ [','])) us else v

/-- `appendWithValidation(key, values)`. -/
def appendWithValidation (key : Str) (values : List Str) : Str :=
  trimSuffixComma (appendLoop key [] values)

/-! ### writer, default flavour: `AppendDefaultLabelsHandlerWrapper` -/

/-- Inner loop `for i, l := range children[i:]` of the default writer.  `j` is the inner index
(it counts EVERY child of the tail, layer or not), `layers` the accumulated string. -/
def defaultInner : Nat → List Desc → Str → Labels → Str × Labels
  | _, [], layers, ann => (layers, ann)
  | j, l :: ls, layers, ann =>
    if l.isLayer then
      if validate kLayers (layers ++ (l.digest ++ [','])) then
        defaultInner (j + 1) ls (layers ++ (l.digest ++ [',']))
          (set ann (urlsKey j) (appendWithValidation (urlsKey j) l.urls))
      else (layers, ann)                                        -- break
    else defaultInner (j + 1) ls layers ann

/-- Labels of one layer child `c`; `tail` is `children[i:]` (so `tail` starts with `c`). -/
def defaultLabels (ref : Str) (prefetch : Int) (c : Desc) (tail : List Desc) : Labels :=
  let a := set (set (c.ann.getD []) kRef ref) kDigest c.digest
  let r := defaultInner 0 tail [] a
  let a := set r.2 kLayers (trimSuffixComma r.1)
  let a := set a kPrefetch (intDec prefetch)
  set a kURLs (appendWithValidation kURLs c.urls)

def defaultChildren (ref : Str) (prefetch : Int) : List Desc → List Desc
  | [] => []
  | c :: rest =>
    (if c.isLayer then { c with ann := some (defaultLabels ref prefetch c (c :: rest)) } else c)
      :: defaultChildren ref prefetch rest

/-- The handler returned by `AppendDefaultLabelsHandlerWrapper(ref, prefetchSize)` applied to the
children of a descriptor; `isManifest` = the parent's media type is an OCI / Docker-v2 manifest. -/
def defaultWriter (isManifest : Bool) (ref : Str) (prefetch : Int) (children : List Desc) : List Desc :=
  if isManifest then defaultChildren ref prefetch children else children

/-! ### containerd `snapshotters.AppendInfoHandlerWrapper` (CRI labels) -/

/-- `getLayers(ctx, key, descs, labels.Validate)`. -/
def criGetLayers (key : Str) : List Desc → Str → Str
  | [], layers => layers
  | l :: ls, layers =>
    if l.isLayer then
      let item := if layers ≠ [] then ',' :: l.digest else l.digest
      if validate key (layers ++ item) then criGetLayers key ls (layers ++ item) else layers
    else criGetLayers key ls layers

def criLabels (ref manifestDigest : Str) (c : Desc) (tail : List Desc) : Labels :=
  let a := set (c.ann.getD []) kCriRef ref
  let a := set a kCriDigest c.digest
  let a := set a kCriLayers (criGetLayers kCriLayers tail [])
  set a kCriManifest manifestDigest

def criChildren (ref manifestDigest : Str) : List Desc → List Desc
  | [] => []
  | c :: rest =>
    (if c.isLayer then { c with ann := some (criLabels ref manifestDigest c (c :: rest)) } else c)
      :: criChildren ref manifestDigest rest

def criWriter (isManifest : Bool) (ref manifestDigest : Str) (children : List Desc) : List Desc :=
  if isManifest then criChildren ref manifestDigest children else children

/-! ### writer, extra flavour: `AppendExtraLabelsHandler` -/

/-- `layerFromDigest(children, d)`: the FIRST child with that digest, accepted only if it is a layer. -/
def layerFromDigest : List Desc → Str → Option Desc
  | [], _ => none
  | l :: ls, d => if l.digest = d then (if l.isLayer then some l else none) else layerFromDigest ls d

/-- Loop over `strings.Split(nlayers, ",")`; `none` = `digest.Parse` failed (handler returns the error). -/
def extraInner (children : List Desc) : Nat → List Str → Labels → Option Labels
  | _, [], a => some a
  | j, d :: ds, a =>
    if digestValid d then
      match layerFromDigest children d with
      | none => extraInner children (j + 1) ds a
      | some l =>
        extraInner children (j + 1) ds
          (if (get a (urlsKey j)).isNone then set a (urlsKey j) (appendWithValidation (urlsKey j) l.urls)
           else a)
    else none

/-- Body of the loop for one child.  Writing to a nil annotation map panics. -/
def extraChild (children : List Desc) (prefetch : Int) (c : Desc) : Outcome Desc :=
  if !c.isLayer then .ok c else
  match c.ann with
  | none => .panic
  | some a =>
    let a := if (get a kURLs).isNone then set a kURLs (appendWithValidation kURLs c.urls) else a
    let a := if (get a kPrefetch).isNone then set a kPrefetch (intDec prefetch) else a
    match get a kCriLayers with
    | none => .ok { c with ann := some a }
    | some nl =>
      match extraInner children 0 (splitComma nl) a with
      | none => .err
      | some a => .ok { c with ann := some a }

def extraChildren (all : List Desc) (prefetch : Int) : List Desc → Outcome (List Desc)
  | [] => .ok []
  | c :: cs =>
    match extraChild all prefetch c with
    | .ok c' =>
      match extraChildren all prefetch cs with
      | .ok r => .ok (c' :: r)
      | .err => .err
      | .panic => .panic
    | .err => .err
    | .panic => .panic

/-- `AppendExtraLabelsHandler(prefetchSize, wrapper)(f).Handle`, where `wrapped` is what
`wrapper(f).Handle` returned. -/
def extraWriter (isManifest : Bool) (prefetch : Int) (wrapped : List Desc) : Outcome (List Desc) :=
  if isManifest then extraChildren wrapped prefetch wrapped else .ok wrapped

/-- The flavour used by `ctr-remote rpull --use-containerd-labels`:
`AppendExtraLabelsHandler(prefetchSize, snapshotters.AppendInfoHandlerWrapper(ref))`. -/
def extraOnCri (isManifest : Bool) (ref manifestDigest : Str) (prefetch : Int) (children : List Desc) :
    Outcome (List Desc) :=
  extraWriter isManifest prefetch (criWriter isManifest ref manifestDigest children)

/-! ### reader side -/

structure ReaderKeys where
  ref : Str
  digest : Str
  layers : Str

/-- `source.FromDefaultLabels`. -/
def defaultKeys : ReaderKeys := ⟨kRef, kDigest, kLayers⟩
/-- `service.sourceFromCRILabels` — same code, other keys. -/
def criKeys : ReaderKeys := ⟨kCriRef, kCriDigest, kCriLayers⟩

/-- What the reader reconstructs: `Name`, `Target.Digest`, `Target.URLs`, and
`Manifest.Layers[1:]` as (digest, URLs) pairs (`Manifest.Layers[0]` is the target). -/
structure Source (R : Type) where
  name : R
  target : Str
  urls : List Str
  neighbours : List (Str × List Str)
deriving DecidableEq, Repr

/-- `labels[prefix+strconv.Itoa(i)]` split at commas; a nil URL list when the label is absent. -/
def urlsAt (labels : Labels) (j : Nat) : List Str :=
  match get labels (urlsKey j) with
  | some u => splitComma u
  | none => []

/-- `for i, l := range layersStr`: any unparsable entry is an error, entries equal to the target
are skipped, the others are paired with the URL label of their OWN index `i`. -/
def neighboursLoop (labels : Labels) (target : Str) : Nat → List Str → Option (List (Str × List Str))
  | _, [] => some []
  | j, l :: ls =>
    if digestValid l then
      match neighboursLoop labels target (j + 1) ls with
      | none => none
      | some rest => if l ≠ target then some ((l, urlsAt labels j) :: rest) else some rest
    else none

def readSource {R : Type} (parseRef : Str → Option R) (ks : ReaderKeys) (labels : Labels) :
    Option (Source R) :=
  match get labels ks.ref with
  | none => none                                   -- "reference hasn't been passed"
  | some refStr =>
    match parseRef refStr with
    | none => none
    | some name =>
      match get labels ks.digest with
      | none => none                               -- "digest hasn't been passed"
      | some d =>
        if digestValid d then
          match (match get labels ks.layers with
                 | some l => neighboursLoop labels d 0 (splitComma l)
                 | none => some []) with
          | none => none
          | some nb =>
            some { name := name, target := d,
                   urls := (match get labels kURLs with
                            | some u => splitComma u
                            | none => []),
                   neighbours := nb }
        else none

/-- `service.sources(sourceFromCRILabels, source.FromDefaultLabels)`: the first reader that succeeds. -/
def readBoth {R : Type} (parseRef : Str → Option R) (labels : Labels) : Option (Source R) :=
  match readSource parseRef criKeys labels with
  | some s => some s
  | none => readSource parseRef defaultKeys labels

/-- fs.go `neighboringLayers(src.Manifest, src.Target)`: `Manifest.Layers` minus the target digest. -/
def mountNeighbours {R : Type} (s : Source R) : List (Str × List Str) :=
  ((s.target, s.urls) :: s.neighbours).filter (fun p => p.1 ≠ s.target)

/-! ### prefetch-size label at mount time -/

/-- `strconv.ParseUint(s, 10, 64)` restricted to what `ParseInt` needs (range is checked by the caller). -/
def parseUint (s : Str) : Option Nat :=
  if s = [] then none
  else if s.all Char.isDigit then some (Nat.ofDigitChars 10 s 0)
  else none

/-- `strconv.ParseInt(s, 10, 64)` with `err == nil`. -/
def parseInt64 (s : Str) : Option Int :=
  match s with
  | [] => none
  | '+' :: r => (parseUint r).bind fun n => if n < 2 ^ 63 then some (n : Int) else none
  | '-' :: r => (parseUint r).bind fun n => if n ≤ 2 ^ 63 then some (-(n : Int)) else none
  | _ => (parseUint s).bind fun n => if n < 2 ^ 63 then some (n : Int) else none

/-- fs.go Mount: `defaultPrefetchSize := fs.prefetchSize; if psStr, ok := labels[…]; ok { if ps, err :=
strconv.ParseInt(psStr, 10, 64); err == nil { defaultPrefetchSize = ps } }`. -/
def mountPrefetch (dflt : Int) (labels : Labels) : Int :=
  match get labels kPrefetch with
  | none => dflt
  | some s =>
    match parseInt64 s with
    | some n => n
    | none => dflt

/-- What `fs.Mount` hands on: `src[0]` of `getSources(labels)` is resolved (name, target descriptor
with its URLs), `neighboringLayers(src[0].Manifest, src[0].Target)` are pre-resolved, and target and
neighbours are prefetched with the size taken from the label (else the configured default).
`none`: Mount returns the readers' error without resolving anything. -/
structure MountView (R : Type) where
  name : R
  target : Str
  urls : List Str
  preResolve : List (Str × List Str)
  prefetch : Int
deriving DecidableEq, Repr

def mountView {R : Type} (parseRef : Str → Option R) (dflt : Int) (labels : Labels) : Option (MountView R) :=
  (readBoth parseRef labels).map fun s =>
    { name := s.name, target := s.target, urls := s.urls, preResolve := mountNeighbours s,
      prefetch := mountPrefetch dflt labels }

end SV.Labels
