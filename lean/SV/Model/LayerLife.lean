import SV.Model.Refcount
/-
Model of the layer life cycle behind `fs/layer.Resolver` (fs/layer/layer.go): the two TTL caches
created by `NewResolver` (`layerCache`, `blobCache`, both `cacheutil.TTLCache` — the C10 model
`SV.Refcount.TTL` is reused unchanged), their `OnEvicted` callbacks (`layer.close`, `Blob.Close`),
`Resolver.Resolve` / `resolveBlob`, `layerRef.Done` / `Close`, the timer expiry of both caches,
`layer.Refresh` and reads by a holder.  Core-only (no Mathlib) so that the driver links.

Identities.  A `*layer` object is its index in `State.layers`, a `remote.Blob` its index in
`State.blobs`.  The payload stored in a cache entry (`RC.val`) is that index.  A holder of a layer
(`*layerRef`) is the `done` closure it carries = a token index of the layer cache; the `blobRef` a
layer carries is a token index of the blob cache (`Layer.blobTok`).  Cache keys (`refspec + "/" +
digest`) are abstracted to `Nat` names; both caches use the same key for one layer.

Premises (recorded in the manifest):
* `Resolve` holds `resolveLock.Lock(name)` for its whole body, so two resolves of one name never
  overlap; every cache access inside it is atomic under the cache mutex (C10) and commutes with the
  `done`/timer operations of other goroutines, so `resolve` is one atomic operation here.
* `newCache`/`MkdirTemp` do not fail (local disk); the only failures are the connectivity checks,
  the registry during `remote.Resolver.Resolve` and the metadata (TOC) read — all oracle inputs.
* Directories are ghost counters: `newCache` = +1, `Close` of an open handle = -1.
-/
namespace SV.LayerLife
open SV.Refcount

/-- `*layer` (fs/layer/layer.go:413) as far as its life cycle goes. -/
structure Layer where
  name : Nat
  blobTok : Nat                    -- `l.blob.done`: closure of the blob cache
  closed : Bool := false           -- `l.closed`
  readerClosed : Bool := false     -- `verifiableReader.Close()` / `reader.Close()` (fs/reader)
  metadataClosed : Bool := false   -- `gr.r.Close()` (metadata.Reader)
  cachesClosed : Bool := false     -- `gr.cache.Close()`: the layer's `fscache/<tmp>` directory is removed
  blobDone : Nat := 0              -- ghost: how often `l.blob.done(true)` was called by `close`
deriving Repr, DecidableEq, Inhabited

/-- `remote.Blob` (fs/remote/blob.go:60) as far as its life cycle goes. -/
structure Blob where
  name : Nat
  closed : Bool := false           -- `b.closed`
  cacheClosed : Bool := false      -- `b.cache.Close()`: the blob's `httpcache/<tmp>` directory is removed
deriving Repr, DecidableEq, Inhabited

structure State where
  lc : TTL := {}                   -- Resolver.layerCache
  bc : TTL := {}                   -- Resolver.blobCache
  layers : List Layer := []
  blobs : List Blob := []
  fsDirs : Int := 0                -- ghost: number of directories under `<root>/fscache`
  httpDirs : Int := 0              -- ghost: number of directories under `<root>/httpcache`

/-- How often `onEvicted` has run for refCounter `id`. -/
def callsOf (c : Core) (id : Nat) : Nat := (c.rcs[id]?.map (·.calls)).getD 0

/-! ## blob cache and its callback -/

/-- `blob.Close` (blob.go:95): idempotent through `b.closed`; closes the http cache. -/
def closeBlob (s : State) (bid : Nat) : State :=
  match s.blobs[bid]? with
  | none => s
  | some b =>
    if b.closed then s
    else { s with blobs := s.blobs.set bid { b with closed := true, cacheClosed := true },
                  httpDirs := s.httpDirs - 1 }

/-- `blobCache.OnEvicted` (layer.go:172) runs inside `refCounter.dec` under the cache mutex: it has
run during the cache operation just performed iff the callback counter of refCounter `id` grew
from `c0` (core before the operation).  `Close` is idempotent, so one execution stands for all. -/
def bcFire (s : State) (c0 : Core) (id : Nat) : State :=
  if callsOf c0 id < callsOf s.bc.core id then closeBlob s (s.bc.core.valOf id) else s

/-- A `blobRef.done(evict)` closure of the blob cache. -/
def bcDone (s : State) (tok : Nat) (evict : Bool) : State :=
  match s.bc.core.toks[tok]? with
  | none => s
  | some t => bcFire { s with bc := (s.bc.done tok evict).1 } s.bc.core t.rc

/-- `blobCache.Remove(name)` and the blob cache's timer function (lock; `evictLocked`). -/
def bcEvict (s : State) (k : Nat) : State :=
  match s.bc.m k with
  | none => s
  | some id => bcFire { s with bc := s.bc.evictLocked k } s.bc.core id

/-! ## layer cache and its callback -/

/-- `layer.close` (layer.go:645): idempotent through `l.closed`; closes the verifiable reader (which
closes the reader, its fs cache and the metadata reader), then — deferred — releases the blob
reference with `done(true)`. -/
def closeLayer (s : State) (lid : Nat) : State :=
  match s.layers[lid]? with
  | none => s
  | some l =>
    if l.closed then s
    else
      let l' := { l with closed := true, readerClosed := true, cachesClosed := true,
                         metadataClosed := true, blobDone := l.blobDone + 1 }
      bcDone { s with layers := s.layers.set lid l', fsDirs := s.fsDirs - 1 } l.blobTok true

/-- `layerCache.OnEvicted` (layer.go:161), see `bcFire`. -/
def lcFire (s : State) (c0 : Core) (id : Nat) : State :=
  if callsOf c0 id < callsOf s.lc.core id then closeLayer s (s.lc.core.valOf id) else s

/-- A `layerRef.done(evict)` closure: `Done()` = `done(false)`, `Close()` = `done(true)`. -/
def lcDone (s : State) (tok : Nat) (evict : Bool) : State :=
  match s.lc.core.toks[tok]? with
  | none => s
  | some t => lcFire { s with lc := (s.lc.done tok evict).1 } s.lc.core t.rc

/-- `layerCache.Remove(name)` and the layer cache's timer function. -/
def lcEvict (s : State) (k : Nat) : State :=
  match s.lc.m k with
  | none => s
  | some id => lcFire { s with lc := s.lc.evictLocked k } s.lc.core id

/-! ## connectivity checks -/

/-- The blob object behind a closure of the blob cache. -/
def blobOfTok (s : State) (btok : Nat) : Option Nat :=
  (s.bc.core.toks[btok]?).map (fun t => s.bc.core.valOf t.rc)

def blobClosed (s : State) (bid : Nat) : Bool := ((s.blobs[bid]?).map (·.closed)).getD true

/-- `blob.Check` (blob.go:137) with `CheckAlways`: error if closed, else the probe's outcome. -/
def blobCheck (s : State) (bid : Nat) (probe : Bool) : Bool := !blobClosed s bid && probe

/-- `blobRef.Check` through the embedded `remote.Blob`. -/
def blobRefCheck (s : State) (btok : Nat) (probe : Bool) : Bool :=
  match blobOfTok s btok with
  | none => false
  | some bid => blobCheck s bid probe

/-- `layer.Check` (layer.go:458): closed ⇒ error, else `l.blob.Check()`. -/
def layerCheck (s : State) (lid : Nat) (probe : Bool) : Bool :=
  match s.layers[lid]? with
  | none => false
  | some l => !l.closed && blobRefCheck s l.blobTok probe

/-! ## Resolve -/

/-- Failure oracle of one `Resolve` call; `true` = that step succeeds.  A component is consulted
only if the control flow reaches the step. -/
structure Oracle where
  lchk : Bool      -- connectivity probe of `l.Check()` on a layer-cache hit
  bchk : Bool      -- connectivity probe of `blob.Check()` on a blob-cache hit
  bres : Bool      -- `r.resolver.Resolve` (registry: redirect + size)
  mres : Bool      -- `r.metadataStore(sr, …)` (footer/TOC read through the blob)
deriving Repr, DecidableEq, Inhabited

inductive Out where
  | hit (lid tok : Nat)        -- layer-cache hit, check ok: `&layerRef{l, done}`
  | fresh (lid tok : Nat)      -- resolved afresh and added
  | existing (lid tok : Nat)   -- `Add` found an entry: the fresh layer was closed, the cached one returned
  | errBlob                    -- "failed to resolve the blob"
  | errMeta                    -- metadata store error
  | unit                       -- Done / Close / timers
  | ok
  | err
  | badTok                     -- no such holder (impossible in Go)
deriving Repr, DecidableEq, Inhabited

/-- `resolveBlob` after a miss (or after discarding an invalid cached blob), layer.go:370-391. -/
def resolveBlobFresh (s : State) (name : Nat) (o : Oracle) : State × Option Nat :=
  let s1 := { s with httpDirs := s.httpDirs + 1 }            -- newCache(<root>/httpcache)
  if !o.bres then
    ({ s1 with httpDirs := s1.httpDirs - 1 }, none)          -- deferred httpCache.Close()
  else
    let bid := s1.blobs.length                               -- b := makeBlob(…, httpCache, …)
    let s2 := { s1 with blobs := s1.blobs ++ [({ name := name } : Blob)] }
    match s2.bc.add name bid with                            -- blobCache.Add(name, b)
    | (bc', .got _ tok added) =>
      let s3 := { s2 with bc := bc' }
      (if added then s3 else closeBlob s3 bid, some tok)     -- `if !added { b.Close() }`
    | (_, _) => (s2, none)                                   -- unreachable: Add always returns `got`

/-- `Resolver.resolveBlob` (layer.go:352). Returns the new `blobRef` (its closure). -/
def resolveBlob (s : State) (name : Nat) (o : Oracle) : State × Option Nat :=
  match s.bc.get name with                                   -- blobCache.Get(name)
  | (bc1, .got bid tok _) =>
    let s1 := { s with bc := bc1 }
    if blobCheck s1 bid o.bchk then (s1, some tok)           -- `blob.Check() == nil`
    else
      let s2 := bcDone s1 tok true                           -- invalid blob: done(true)
      let s3 := bcEvict s2 name                              -- blobCache.Remove(name)
      resolveBlobFresh s3 name o
  | (_, _) => resolveBlobFresh s name o

/-- `Resolve` after a layer-cache miss (or after discarding an invalid cached layer),
layer.go:277-348. -/
def resolveFresh (s : State) (name : Nat) (o : Oracle) : State × Out :=
  match resolveBlob s name o with
  | (s1, none) => (s1, .errBlob)
  | (s1, some btok) =>
    let s2 := { s1 with fsDirs := s1.fsDirs + 1 }            -- newCache(<root>/fscache)
    if !o.mres then
      -- deferred, LIFO: fsCache.Close(); blobR.done(true)
      (bcDone { s2 with fsDirs := s2.fsDirs - 1 } btok true, .errMeta)
    else
      let lid := s2.layers.length                            -- l := newLayer(r, desc, blobR, vr, …)
      let s3 := { s2 with layers := s2.layers ++ [({ name := name, blobTok := btok } : Layer)] }
      match s3.lc.add name lid with                          -- layerCache.Add(name, l)
      | (lc', .got v tok added) =>
        let s4 := { s3 with lc := lc' }
        if added then (s4, .fresh v tok)
        else (closeLayer s4 lid, .existing v tok)            -- `if !added { l.close() }`
      | (_, _) => (s3, .err)                                 -- unreachable

/-- `Resolver.Resolve` (layer.go:249), atomic per name under `resolveLock`. -/
def resolve (s : State) (name : Nat) (o : Oracle) : State × Out :=
  match s.lc.get name with                                   -- layerCache.Get(name)
  | (lc1, .got lid tok _) =>
    let s1 := { s with lc := lc1 }
    if layerCheck s1 lid o.lchk then (s1, .hit lid tok)      -- `l.Check() == nil`
    else
      let s2 := lcDone s1 tok true                           -- cached layer is invalid: done(true)
      let s3 := lcEvict s2 name                              -- layerCache.Remove(name)
      resolveFresh s3 name o
  | (_, _) => resolveFresh s name o

/-! ## what a holder can do with its layer -/

/-- The `*layer` behind a holder's closure. -/
def layerOfTok (s : State) (tok : Nat) : Option Nat :=
  (s.lc.core.toks[tok]?).map (fun t => s.lc.core.valOf t.rc)

/-- `layer.Refresh` (layer.go:465): closed ⇒ error; `blob.Refresh`: closed ⇒ error, else the
registry's answer (`resolveFetcher`).  Changes nothing the model tracks. -/
def refreshRes (s : State) (tok : Nat) (reg : Bool) : Out :=
  match layerOfTok s tok with
  | none => .badTok
  | some lid =>
    match s.layers[lid]? with
    | none => .badTok
    | some l =>
      if l.closed then .err
      else match blobOfTok s l.blobTok with
        | none => .err
        | some bid => if blobClosed s bid then .err else if reg then .ok else .err

/-- A read through the layer: `RootNode` (closed ⇒ error), `node.Open` → `reader.OpenFile`
(reader closed ⇒ error), data from the fs cache or `blob.ReadAt` (blob closed ⇒ error);
the registry is up. -/
def readRes (s : State) (tok : Nat) : Out :=
  match layerOfTok s tok with
  | none => .badTok
  | some lid =>
    match s.layers[lid]? with
    | none => .badTok
    | some l =>
      if l.closed || l.readerClosed then .err
      else match blobOfTok s l.blobTok with
        | none => .err
        | some bid => if blobClosed s bid then .err else .ok

/-- A read through a root node the holder obtained earlier (no `RootNode` call, hence no look at
`l.closed`): `node.Open` → `reader.OpenFile`, then the data. -/
def readOldRes (s : State) (tok : Nat) : Out :=
  match layerOfTok s tok with
  | none => .badTok
  | some lid =>
    match s.layers[lid]? with
    | none => .badTok
    | some l =>
      if l.readerClosed then .err
      else match blobOfTok s l.blobTok with
        | none => .err
        | some bid => if blobClosed s bid then .err else .ok

/-! ## operations -/

inductive Op where
  | resolve (name : Nat) (o : Oracle)
  | done (tok : Nat) (evict : Bool)     -- `layerRef.Done()` (false) / `layerRef.Close()` (true)
  | expireL (name : Nat)                -- layer cache timer fires for `name`
  | expireB (name : Nat)                -- blob cache timer fires for `name`
  | refresh (tok : Nat) (reg : Bool)
  | read (tok : Nat)
  | readOld (tok : Nat)
deriving Repr, DecidableEq, Inhabited

def step (s : State) : Op → State × Out
  | .resolve n o => resolve s n o
  | .done tok e =>
    match s.lc.core.toks[tok]? with
    | none => (s, .badTok)
    | some _ => (lcDone s tok e, .unit)
  | .expireL n => (lcEvict s n, .unit)
  | .expireB n => (bcEvict s n, .unit)
  | .refresh tok reg => (s, refreshRes s tok reg)
  | .read tok => (s, readRes s tok)
  | .readOld tok => (s, readOldRes s tok)

def runFrom (s : State) (ops : List Op) : State := ops.foldl (fun s o => (step s o).1) s

/-- State after a history, from `NewResolver`. -/
def run (ops : List Op) : State := runFrom {} ops

end SV.LayerLife
