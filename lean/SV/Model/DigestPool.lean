/-
Model of the per-chunk digester of `Writer.appendTar` across the SESSIONS of one process (C03, seeded
change C03-E).

  estargz/estargz.go appendTar, chunk loop:
      chunkDigest := digest.Canonical.Digester()          -- a FRESH state per chunk
      teeChunk := io.TeeReader(tee, chunkDigest.Hash())
      io.CopyN(out, teeChunk, chunkSize)                  -- may fail after k bytes (truncated tar,
                                                          --  write error): the session is aborted
      ent.ChunkDigest = chunkDigest.Digest().String()

A digester state is modelled FREELY as the bytes absorbed since its last Reset: every real hash is a
function of that list, so "the recorded chunkDigest is the SHA-256 of the chunk" is "the state at
`Digest()` is exactly the chunk's bytes".  The process-wide state is a pool of digester states
(`sync.Pool`: `Get` hands out an arbitrary pooled object or a new one - the oracle `pick`).  A history is
an arbitrary interleaving of chunk copies of arbitrary sessions (`sess` only names the session), each
succeeding or failing after `failAt` bytes.  Three disciplines:

  `fresh`          the code of /repo: no pool
  `pooled true`    a pool whose objects are Reset before EVERY put (also on the error paths)
  `pooled false`   the seeded change: on the error path the object goes back dirty

Core-only (no Mathlib) so that the driver links.
-/
namespace SV.DigestPool

abbrev Bytes := List UInt8

/-- One `io.CopyN` of the chunk loop. -/
structure ChunkOp where
  sess : Nat := 0                 -- the session (Writer) it belongs to
  data : Bytes                    -- the chunk's bytes
  failAt : Option Nat := none     -- `some k`: the copy fails after k bytes went through the tee
  pick : Nat := 0                 -- sync.Pool oracle: 0 = New(), i+1 = the i-th pooled object (mod length)
deriving Repr, Inhabited

inductive Disc
  | fresh
  | pooled (resetOnErr : Bool)
deriving DecidableEq, Repr, Inhabited

/-- `Get`: the digester handed out and the pool that remains. -/
def poolGet (d : Disc) (pool : List Bytes) (pick : Nat) : Bytes × List Bytes :=
  match d with
  | .fresh => ([], pool)
  | .pooled _ =>
    if pick = 0 ∨ pool = [] then ([], pool)
    else ((pool[(pick - 1) % pool.length]?).getD [], pool.eraseIdx ((pick - 1) % pool.length))

/-- One chunk copy: the state `Digest()` is taken from (none = the session aborts) and the pool afterwards. -/
def chunkStep (d : Disc) (pool : List Bytes) (c : ChunkOp) : Option Bytes × List Bytes :=
  let g := poolGet d pool c.pick
  match c.failAt with
  | none =>
    (some (g.1 ++ c.data),
     match d with
     | .fresh => g.2
     | .pooled _ => [] :: g.2)                             -- Reset(); Put
  | some k =>
    (none,
     match d with
     | .fresh => g.2
     | .pooled true => [] :: g.2                           -- Reset(); Put
     | .pooled false => (g.1 ++ c.data.take k) :: g.2)     -- Put of the dirty object

/-- A history: per chunk copy what `Digest()` was computed over. -/
def runHist (d : Disc) : List Bytes → List ChunkOp → List (Nat × Option Bytes) × List Bytes
  | pool, [] => ([], pool)
  | pool, c :: cs =>
    let r := chunkStep d pool c
    let rest := runHist d r.2 cs
    ((c.sess, r.1) :: rest.1, rest.2)

/-- What the property demands of one chunk copy: the digest is over exactly the chunk's bytes. -/
def expected (c : ChunkOp) : Nat × Option Bytes :=
  (c.sess, match c.failAt with | none => some c.data | some _ => none)

/-- Every pooled digester is in its initial state. -/
def Clean (pool : List Bytes) : Prop := ∀ p ∈ pool, p = []

end SV.DigestPool
