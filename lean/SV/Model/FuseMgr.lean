/-
Model of the FUSE manager: fusemanager/service.go (`Server.Init/Mount/Check/Unmount/Close`,
`Server.mount`) and fusemanager/fusestore.go (`storeFuseInfo/removeFuseInfo/restoreFuseInfo`).
Core-only (no Mathlib) so that the driver links as a `lean_exe`.

Atomicity premise: `Init` and `Close` hold `fm.lock` exclusively for their whole body; `Mount`,
`Check`, `Unmount` hold it shared.  The model treats every RPC as one atomic operation
(concurrent Mount/Unmount of *different* mountpoints commute on `sync.Map`/bolt; concurrent RPCs
on the *same* mountpoint are outside the model).

Identities.  A mountpoint is a number whose order is the byte order of the path (bolt iterates a
bucket in key order).  A filesystem instance is the index of its construction by
`service.NewFileSystem` (a global counter, never reused, also across manager restarts).
Labels and configurations are opaque numbers.

External behaviour is an oracle carried by every operation: at which stage `Init` fails
(config JSON, a registered configFunc, filesystem construction), which `fs.Mount` calls fail,
whether `fs.Check` / `fs.Unmount` fails, and whether an unknown mountpoint is an OS mountpoint
(`mountinfo.GetMounts`).  Not modelled: a corrupt bolt record (json.Unmarshal failure in
restore), bolt I/O errors on an open database, empty / oversized mountpoint keys.
-/
namespace SV.FuseMgr

abbrev Mp := Nat
abbrev FsId := Nat
abbrev Lab := Nat
abbrev Cfg := Nat

/-! ## finite maps as association lists (ascending keys: bolt bucket order) -/

/-- lookup (`sync.Map.Load`, `bucket.Get`). -/
def aget {β : Type} (k : Nat) : List (Nat × β) → Option β
  | [] => none
  | (k', v) :: t => if k' = k then some v else aget k t

/-- insert-or-replace keeping ascending key order (`sync.Map.Store`, `bucket.Put`). -/
def ains {β : Type} (k : Nat) (v : β) : List (Nat × β) → List (Nat × β)
  | [] => [(k, v)]
  | (k', v') :: t =>
    if k < k' then (k, v) :: (k', v') :: t
    else if k = k' then (k, v) :: t
    else (k', v') :: ains k v t

/-- delete (`sync.Map.Delete`, `bucket.Delete`). -/
def adel {β : Type} (k : Nat) (l : List (Nat × β)) : List (Nat × β) :=
  l.filter (fun e => e.1 != k)

/-- `FuseManagerWaitInit / FuseManagerReady / FuseManagerNotReady`. -/
inductive Status where
  | waitInit | ready | notReady
deriving DecidableEq, Repr, Inhabited

/-- What an RPC returns; `panic` = the Go code would dereference nil (`fm.curFs.Mount`,
`fm.config.Config`). -/
inductive Resp where
  | ok | err | panic
deriving DecidableEq, Repr, Inhabited

/-- How far `Init` gets before the restore phase: `parse` = `json.Unmarshal(req.Config)` fails,
`cfgfunc` = a registered configFunc fails, `construct` = `service.NewFileSystem` fails,
`ok` = the filesystem is constructed and restore runs. -/
inductive Stage where
  | ok | parse | cfgfunc | construct
deriving DecidableEq, Repr, Inhabited

/-- The persisted `fuseInfo` (labels and the config current at record time; `Root` is constant). -/
structure Rec where
  labels : Lab
  cfg : Cfg
deriving DecidableEq, Repr, Inhabited

/-- Calls the manager makes on its environment during one RPC, in order. -/
inductive Call where
  | cfgFunc (cfg : Cfg) (ok : Bool)               -- configFunc(cc) saw config `cfg`
  | newFs (fs : FsId) (cfg : Cfg)                 -- service.NewFileSystem succeeded: instance `fs`
  | newFsFail (cfg : Cfg)                         -- service.NewFileSystem failed
  | mount (fs : FsId) (mp : Mp) (lab : Lab) (ok : Bool)
  | check (fs : FsId) (mp : Mp) (lab : Lab) (ok : Bool)
  | unmount (fs : FsId) (mp : Mp) (ok : Bool)
deriving DecidableEq, Repr, Inhabited

structure St where
  status : Status := .waitInit
  curFs : Option FsId := none                    -- fm.curFs (nil until a filesystem was built)
  cfg : Option Cfg := none                       -- fm.config (nil until a config was parsed)
  fsMap : List (Mp × FsId) := []                 -- fm.fsMap
  store : List (Mp × Rec) := []                  -- the bolt file; survives a manager restart
  closed : Bool := false                         -- fm.ms was closed and the file removed (Close)
  live : List (FsId × Mp) := []                  -- backend: one entry per successful fs.Mount
                                                 --   not yet undone by a successful fs.Unmount
  nextFs : FsId := 0                             -- construction counter
  fsCfg : List (FsId × Cfg) := []                -- config each instance was built from
  lastInit : Option Resp := none                 -- ghost: result of the last Init of this process
deriving DecidableEq, Repr, Inhabited

/-- Result of one RPC. -/
structure Out where
  st : St
  resp : Resp
  calls : List Call
deriving DecidableEq, Repr, Inhabited

/-- live mounts of instance `f`. -/
def St.liveOf (s : St) (f : FsId) : List Mp := (s.live.filter (fun e => e.1 == f)).map Prod.snd

/-- `storeFuseInfo` (its error is ignored by `Mount`; on a closed database it is "database not
open" and nothing is written). -/
def putRec (s : St) (mp : Mp) (r : Rec) : St :=
  if s.closed then s else { s with store := ains mp r s.store }

/-- `removeFuseInfo` (error ignored likewise). -/
def delRec (s : St) (mp : Mp) : St :=
  if s.closed then s else { s with store := adel mp s.store }

/-- State after a successful `fs.Mount(mp)` on instance `f` followed by `fm.fsMap.Store(mp, f)`. -/
def St.mounted (s : St) (mp : Mp) (f : FsId) : St :=
  { s with fsMap := ains mp f s.fsMap, live := (f, mp) :: s.live }

/-- `Server.mount`: skip when the mountpoint is in `fsMap`, else `fm.curFs.Mount` and register
`fm.curFs` as the owner. -/
def mountCore (s : St) (mp : Mp) (lab : Lab) (ok : Bool) : Out :=
  match aget mp s.fsMap with
  | some _ => ⟨s, .ok, []⟩
  | none =>
    match s.curFs with
    | none => ⟨s, .panic, []⟩
    | some f =>
      if ok then ⟨s.mounted mp f, .ok, [.mount f mp lab true]⟩
      else ⟨s, .err, [.mount f mp lab false]⟩

/-- `restoreFuseInfo`: `bucket.ForEach` in key order, `fm.mount` each record, stop at the first
error.  `failMp mp` says that `fs.Mount` of `mp` fails during this Init. -/
def restore (failMp : Mp → Bool) : List (Mp × Rec) → St → Out
  | [], s => ⟨s, .ok, []⟩
  | (mp, r) :: rest, s =>
    let o := mountCore s mp r.labels (!failMp mp)
    match o.resp with
    | .ok =>
      let o2 := restore failMp rest o.st
      ⟨o2.st, o2.resp, o.calls ++ o2.calls⟩
    | _ => o

/-- The deferred function of `Init`.  Current code: `if fm.curFs != nil { status = Ready }`.
`buggy = true` is the code before commit d17aed2: `status = Ready` unconditionally. -/
def finishInit (buggy : Bool) (s : St) (r : Resp) (calls : List Call) : Out :=
  ⟨{ s with status := if buggy || s.curFs.isSome then .ready else s.status, lastInit := some r }, r, calls⟩

/-- `Init` after `json.Unmarshal` succeeded: `fm.config = config` (status is WaitInit). -/
def St.withCfg (s : St) (cfg : Cfg) : St := { s with status := .waitInit, cfg := some cfg }

/-- `Init` after `service.NewFileSystem` succeeded: `fm.curFs = fs`, a fresh instance. -/
def St.installed (s : St) (cfg : Cfg) : St :=
  { s with status := .waitInit, cfg := some cfg, curFs := some s.nextFs, nextFs := s.nextFs + 1,
           fsCfg := ains s.nextFs cfg s.fsCfg }

/-- `Server.Init`. -/
def initWith (buggy : Bool) (s : St) (cfg : Cfg) (stage : Stage) (failMp : Mp → Bool) : Out :=
  match stage with
  | .parse => finishInit buggy { s with status := .waitInit } .err []         -- fm.config untouched
  | .cfgfunc => finishInit buggy (s.withCfg cfg) .err [.cfgFunc cfg false]
  | .construct => finishInit buggy (s.withCfg cfg) .err [.cfgFunc cfg true, .newFsFail cfg]
  | .ok =>
    let pre := [Call.cfgFunc cfg true, Call.newFs s.nextFs cfg]
    if s.closed then finishInit buggy (s.installed cfg) .err pre               -- ms.View: database not open
    else
      let o := restore failMp s.store (s.installed cfg)
      finishInit buggy o.st o.resp (pre ++ o.calls)

def init := initWith false
def initBuggy := initWith true

/-- `Server.Mount`. -/
def mount (s : St) (mp : Mp) (lab : Lab) (ok : Bool) : Out :=
  if s.status ≠ .ready then ⟨s, .err, []⟩ else
  let o := mountCore s mp lab ok
  match o.resp with
  | .ok =>
    match o.st.cfg with
    | none => ⟨o.st, .panic, o.calls⟩                                           -- fm.config.Config
    | some c => ⟨putRec o.st mp ⟨lab, c⟩, .ok, o.calls⟩
  | _ => o

/-- `Server.Check`. -/
def check (s : St) (mp : Mp) (lab : Lab) (ok : Bool) : Out :=
  if s.status ≠ .ready then ⟨s, .err, []⟩ else
  match aget mp s.fsMap with
  | none => ⟨s, .err, []⟩
  | some f => ⟨s, if ok then .ok else .err, [.check f mp lab ok]⟩

/-- `Server.Unmount`; `isOs`: `mountinfo` lists the path as a mountpoint. -/
def unmount (s : St) (mp : Mp) (ok : Bool) (isOs : Bool) : Out :=
  if s.status ≠ .ready then ⟨s, .err, []⟩ else
  match aget mp s.fsMap with
  | none => ⟨s, if isOs then .err else .ok, []⟩
  | some f =>
    if ok then
      ⟨delRec { s with fsMap := adel mp s.fsMap, live := s.live.filter (fun e => e != (f, mp)) } mp,
        .ok, [.unmount f mp true]⟩
    else ⟨s, .err, [.unmount f mp false]⟩

/-- `Server.Close`: NotReady, close the database, remove the store file (`os.Remove` fails when
the file is already gone).  Nothing is unmounted. -/
def close (s : St) : Out :=
  let s1 := { s with status := .notReady }
  if s.closed then ⟨s1, .err, []⟩ else ⟨{ s1 with closed := true, store := [] }, .ok, []⟩

/-- The manager process dies and a new one is started on the same store path
(`NewFuseManager`): everything volatile is gone, backend mounts die with the process, a missing
store file is created empty. -/
def restartManager (s : St) : Out :=
  ⟨{ store := s.store, nextFs := s.nextFs, fsCfg := s.fsCfg }, .ok, []⟩

inductive Op where
  | init (cfg : Cfg) (stage : Stage) (failMp : Mp → Bool)
  | mount (mp : Mp) (lab : Lab) (ok : Bool)
  | check (mp : Mp) (lab : Lab) (ok : Bool)
  | unmount (mp : Mp) (ok : Bool) (isOs : Bool)
  | close
  | restart

/-- One operation; `buggy` selects the pre-d17aed2 `Init`. -/
def stepWith (buggy : Bool) (s : St) : Op → Out
  | .init c st fm => initWith buggy s c st fm
  | .mount mp l ok => mount s mp l ok
  | .check mp l ok => check s mp l ok
  | .unmount mp ok os => unmount s mp ok os
  | .close => close s
  | .restart => restartManager s

def step := stepWith false

def runWith (buggy : Bool) (s : St) (ops : List Op) : St := ops.foldl (fun s op => (stepWith buggy s op).st) s
def run := runWith false

/-- A state the current code can reach from a freshly started manager with an empty store. -/
def Reachable (s : St) : Prop := ∃ ops, s = run {} ops

end SV.FuseMgr
