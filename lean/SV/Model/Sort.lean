/-
Model of the eStargz builder's entry ordering (C14).

  estargz/build.go   : cleanEntryName users, tarFile{add,remove,get,dump}, importTar, moveRec/moveRecVisiting, sortEntries
  estargz/estargz.go : cleanEntryName, the stream-boundary rule of the chunk loop in appendTar
                       (`needsOpenGz(ent) || w.cw.n-prevOffset >= MinChunkSize`), closeWithCombine's offset shift

Core-only (no Mathlib) so that the driver links as a `lean_exe`.
-/
namespace SV.Sort

/-! ## Names -/

/-- A cleaned entry name, as the list of its path components (`[]` is the root directory).
This is `cleanEntryName(name)` of the Go code, which is a `/`-joined string without leading slash. -/
abbrev Name := List String

def prefetchLandmark : String := ".prefetch.landmark"
def noPrefetchLandmark : String := ".no.prefetch.landmark"
def tocTarName : String := "stargz.index.json"

/-- Split at every `/` (like `strings.Split(s, "/")`); structural, so the kernel can evaluate it. -/
def splitSlash : List Char → List Char → List (List Char)
  | [], cur => [cur.reverse]
  | c :: cs, cur => if c = '/' then cur.reverse :: splitSlash cs [] else splitSlash cs (c :: cur)

/-- One component of `path.Clean` on a rooted path; `stack` is the cleaned prefix, reversed.
Empty and `.` components vanish, `..` pops (and is dropped at the root: "/.." ⇒ "/"). -/
def cleanStep (stack : List String) (c : String) : List String :=
  if c = "" ∨ c = "." then stack
  else if c = ".." then stack.drop 1
  else c :: stack

/-- `cleanEntryName(name) = strings.TrimPrefix(path.Clean("/"+name), "/")`, as components. -/
def cleanEntryName (s : String) : Name :=
  (((splitSlash s.toList []).map String.ofList).foldl cleanStep []).reverse

/-! ## Tar entries and `tarFile` -/

/-- What sorting looks at in a `tar.Header` (plus what the writer needs to lay out data).
`id` is an identity tag carried along (the harness uses the position in the input tar, 1-based;
the landmark created by `sortEntries` has 0); no function below inspects it. -/
structure Entry where
  id : Nat
  name : String      -- header.Name, raw
  isLink : Bool      -- header.Typeflag == tar.TypeLink
  linkName : String  -- header.Linkname, raw
  isReg : Bool       -- header.Typeflag == tar.TypeReg
  size : Nat         -- header.Size
deriving DecidableEq, Repr, Inhabited

def Entry.key (e : Entry) : Name := cleanEntryName e.name

def isLandmarkKey (k : Name) : Bool := k == [prefetchLandmark] || k == [noPrefetchLandmark]

/-- `tarFile.get`.  A `tarFile` is modelled by its `stream`; the `index` map of the Go code is the
lookup by cleaned name.  (`importTar` removes an old entry before adding one of the same cleaned
name and `moveRec` adds only unpicked names, so a stream never holds two entries with the same
key and map and stream agree — `importTar_nodup_keys`, `Inv`.) -/
def get (tf : List Entry) (k : Name) : Option Entry := tf.find? (fun e => e.key == k)

/-- `tarFile.remove`. -/
def remove (tf : List Entry) (k : Name) : List Entry := tf.filter (fun e => !(e.key == k))

/-- `tarFile.dump(skip)`; `len(skip) == 0` returns the stream itself. -/
def dump (stream : List Entry) (skip : List Name) : List Entry :=
  if skip.isEmpty then stream else stream.filter (fun e => !skip.contains e.key)

/-- Body of the loop of `importTar` for one header. -/
def importStep (tf : List Entry) (e : Entry) : List Entry :=
  if isLandmarkKey e.key then tf                       -- "Ignore existing landmark"
  else (if (get tf e.key).isSome then remove tf e.key else tf) ++ [e]

/-- `importTar`: `es` are the headers in the order `tar.Reader.Next` returns them. -/
def importTar (es : List Entry) : List Entry := es.foldl importStep []

/-! ## `moveRec` -/

inductive Status where
  | ok          -- nil
  | notFound    -- an error wrapping errNotFound
  | cycle       -- "hardlinks make a cycle" (not errNotFound)
  | diverge     -- the model ran out of fuel (never happens for the current code: `moveRec_terminates`)
deriving DecidableEq, Repr, Inhabited

/-- `sorted` (its stream) and `picked`. -/
structure MState where
  out : List Entry
  picked : List Name
deriving DecidableEq, Repr, Inhabited

/-- `out.add(e); picked[name] = struct{}{}`. -/
def MState.add (st : MState) (k : Name) (e : Entry) : MState :=
  { out := st.out ++ [e], picked := k :: st.picked }

/-- `moveRecVisiting(name, in, out, picked, visiting)` on the cleaned `name`.  `vis` is the set of
names on the current recursion path (`visiting[name] = …; defer delete(visiting, name)` = pass
`k :: vis` down and forget it on return).  The recursion follows hardlink names, so it is not
structural and takes fuel; `moveRec_terminates` shows that `inp.length + 1` is always enough
(every name on the path is a different entry of the tar), i.e. `diverge` is never returned.
The state is returned on every path because the Go code mutates `out`/`picked` in place and
`sortEntries` keeps going after a not-found error when that is allowed. -/
def moveRecVisiting (inp : List Entry) : Nat → Name → MState → List Name → MState × Status
  | 0, _, st, _ => (st, .diverge)
  | fuel + 1, k, st, vis =>
    if k = [] then                                     -- root directory: stop recursion
      match get inp k with
      | some e => if st.picked.contains k then (st, .ok) else (st.add k e, .ok)
      | none => (st, .ok)
    else if (get inp k).isNone && (get st.out k).isNone && !st.picked.contains k then
      (st, .notFound)
    else if vis.contains k then                        -- if _, ok := visiting[name]; ok { return cycle error }
      (st, .cycle)
    else
      -- parent, _ := path.Split(strings.TrimSuffix(name, "/")); if err := moveRecVisiting(parent, …); err != nil { return err }
      let r1 := moveRecVisiting inp fuel k.dropLast st (k :: vis)
      if r1.2 ≠ .ok then r1 else
      -- if e, ok := in.get(name); ok && e.header.Typeflag == tar.TypeLink { if err := moveRecVisiting(e.header.Linkname, …) … }
      let r2 :=
        match get inp k with
        | some e => if e.isLink then moveRecVisiting inp fuel (cleanEntryName e.linkName) r1.1 (k :: vis) else (r1.1, .ok)
        | none => (r1.1, .ok)
      if r2.2 ≠ .ok then r2 else
      if r2.1.picked.contains k then (r2.1, .ok)       -- if _, done := picked[name]; done { return nil }
      else
        match get inp k with
        | some e => (r2.1.add k e, .ok)
        | none => (r2.1, .ok)

/-- `moveRec(name, in, out, picked)`: starts with an empty `visiting` set. -/
def moveRec (inp : List Entry) (fuel : Nat) (k : Name) (st : MState) : MState × Status :=
  moveRecVisiting inp fuel k st []

/-- `moveRec` as it was BEFORE the repair (no `visiting` set): kept as the documented
counterexample — on a cycle of hardlinks it exhausts any fuel (`cycle_diverges_witness`; the Go
code overflowed its stack). -/
def moveRecOld (inp : List Entry) : Nat → Name → MState → MState × Status
  | 0, _, st => (st, .diverge)
  | fuel + 1, k, st =>
    if k = [] then
      match get inp k with
      | some e => if st.picked.contains k then (st, .ok) else (st.add k e, .ok)
      | none => (st, .ok)
    else if (get inp k).isNone && (get st.out k).isNone && !st.picked.contains k then
      (st, .notFound)
    else
      let r1 := moveRecOld inp fuel k.dropLast st
      if r1.2 ≠ .ok then r1 else
      let r2 :=
        match get inp k with
        | some e => if e.isLink then moveRecOld inp fuel (cleanEntryName e.linkName) r1.1 else (r1.1, .ok)
        | none => (r1.1, .ok)
      if r2.2 ≠ .ok then r2 else
      if r2.1.picked.contains k then (r2.1, .ok)
      else
        match get inp k with
        | some e => (r2.1.add k e, .ok)
        | none => (r2.1, .ok)

/-! ## `sortEntries` -/

/-- The landmark entry `sortEntries` creates (`Typeflag: tar.TypeReg, Size: 1`). -/
def landmarkEntry (nm : String) : Entry :=
  { id := 0, name := nm, isLink := false, linkName := "", isReg := true, size := 1 }

inductive LoopRes where
  | done (st : MState) (missed : List String)
  | err
  | diverge
deriving DecidableEq, Repr, Inhabited

/-- `for _, l := range prioritized { moveRec … }` with the allow-not-found handling. -/
def sortLoop (inp : List Entry) (fuel : Nat) (allow : Bool) :
    List String → MState → List String → LoopRes
  | [], st, missed => .done st missed
  | l :: ls, st, missed =>
    match moveRec inp fuel (cleanEntryName l) st with
    | (st', .ok) => sortLoop inp fuel allow ls st' missed
    | (st', .notFound) =>                              -- errors.Is(err, errNotFound) && missedPrioritized != nil
      if allow then sortLoop inp fuel allow ls st' (missed ++ [l]) else .err
    | (_, .cycle) => .err                              -- any other error aborts, allowed or not
    | (_, .diverge) => .diverge

inductive Outcome where
  | ok (entries : List Entry) (missed : List String)
  | err
  | diverge
deriving DecidableEq, Repr, Inhabited

/-- Which landmark `sortEntries` adds. -/
def landmarkFor (prioritized : List String) : Entry :=
  if prioritized.isEmpty then landmarkEntry noPrefetchLandmark else landmarkEntry prefetchLandmark

def moveFuel (inp : List Entry) : Nat := inp.length + 1

/-- `sortEntries(in, prioritized, missedPrioritized)`; `allow` = `missedPrioritized != nil`. -/
def sortEntries (es : List Entry) (prioritized : List String) (allow : Bool) : Outcome :=
  let inp := importTar es
  match sortLoop inp (moveFuel inp) allow prioritized ⟨[], []⟩ [] with
  | .done st missed =>
    .ok (dump (st.out ++ [landmarkFor prioritized]) [] ++ dump inp st.picked) missed
  | .err => .err
  | .diverge => .diverge

/-! ## What reaches the blob -/

/-- `appendTar` skips entries named `stargz.index.json` (reserved). -/
def emitted (sorted : List Entry) : List Entry :=
  sorted.filter (fun e => !(e.key == [tocTarName]))

/-- `Writer.chunkSize()`. -/
def effChunkSize (chunkSize : Int) : Nat := if chunkSize ≤ 0 then 4 * 1024 * 1024 else chunkSize.toNat

/-- `ChunkOffset`s of a regular file of `size` bytes: 0, cs, 2cs, … (none for an empty file). -/
def chunkOffsets (cs : Nat) (size : Nat) : List Nat :=
  if cs = 0 then [] else (List.range ((size + cs - 1) / cs)).map (· * cs)

/-- `needsOpenGz(ent)` with `needsOpenGzEntries = {PrefetchLandmark, NoPrefetchLandmark}` as set
by `Build`; it compares the RAW header name. -/
def needsOpenGz (e : Entry) : Bool :=
  e.isReg && (e.name == prefetchLandmark || e.name == noPrefetchLandmark)

/-- One chunk as the writer sees it: which entry it belongs to, whether the entry forces a fresh
stream, and the compressor's behaviour (an oracle, NOT modelled): `a` = compressed bytes that
reached the counter `w.cw.n` between the previous decision and `flushGz` of this one, `b` = bytes
`closeGz` adds when this chunk begins a new stream. -/
structure ChunkIn (τ : Type) where
  tag : τ
  force : Bool
  a : Nat
  b : Nat

structure WState where
  cwN : Nat          -- w.cw.n
  prevOffset : Nat
deriving Repr

structure ChunkOut (τ : Type) where
  tag : τ
  force : Bool
  off : Nat          -- TOCEntry.Offset
  fresh : Bool       -- the chunk opened its own stream (InnerOffset = 0 by construction)

/-- One iteration of `for written < totalSize` in `appendTar`: flush, decide, maybe close. -/
def chunkStep (minChunk : Int) (w : WState) (force : Bool) (a b : Nat) : WState × Nat × Bool :=
  let n1 := w.cwN + a
  if force || decide (minChunk ≤ (n1 : Int) - (w.prevOffset : Int)) then
    let n2 := n1 + b
    ({ cwN := n2, prevOffset := n2 }, n2, true)
  else
    ({ cwN := n1, prevOffset := w.prevOffset }, w.prevOffset, false)

/-- All chunks one `Writer` is fed. -/
def runPart {τ : Type} (minChunk : Int) : WState → List (ChunkIn τ) → List (ChunkOut τ) × WState
  | w, [] => ([], w)
  | w, c :: cs =>
    let r := chunkStep minChunk w c.force c.a c.b
    let rest := runPart minChunk r.1 cs
    ({ tag := c.tag, force := c.force, off := r.2.1, fresh := r.2.2 } :: rest.1, rest.2)

/-- `closeWithCombine`: every sub-writer starts counting at 0, its offsets are shifted by the
total compressed size of the writers before it.  `tail` = bytes the final `closeGz` (and
whatever else is written after the last chunk) adds to that writer. -/
def combine {τ : Type} (minChunk : Int) : Nat → List (List (ChunkIn τ) × Nat) → List (ChunkOut τ)
  | _, [] => []
  | base, (cs, tail) :: ps =>
    let r := runPart minChunk ⟨0, 0⟩ cs
    r.1.map (fun o => { o with off := o.off + base }) ++ combine minChunk (base + r.2.cwN + tail) ps

/-- The chunk sequence of a sorted entry list for chunk size `cs`. -/
def chunkTags (cs : Nat) (sorted : List Entry) : List (Entry × Bool) :=
  (emitted sorted).flatMap fun e =>
    if e.isReg then (chunkOffsets cs e.size).map (fun _ => (e, needsOpenGz e)) else []

end SV.Sort
