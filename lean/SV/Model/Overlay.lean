/-
Model of the overlayfs translation done by the FUSE layer (C07).

  fs/layer/node.go   : readdir, Lookup, isOpaque, Getxattr, Listxattr, inodeOf*, whiteout, state, statFile
  fs/layer/layer.go  : RootNode (newNode with the resolver's OverlayOpaqueType)
  estargz/build.go   : importTar / estargz.go AppendTar (root landmarks and the root TOC entry of the
                       source tar never reach the TOC; one landmark is added to the root)

Core-only (no Mathlib) so that the driver links as a `lean_exe`.

Names are `List Char` (not `String`): the prefix test `strings.HasPrefix(name, ".wh.")` and the slice
`name[len(".wh."):]` become one structural pattern match, which the kernel evaluates and `simp` unfolds.

Two levels:
  * directory level (`Dir`, `readdir`, `lookup`, `getxattr`, …) mirrors node.go call by call, including the
    memoised listing (`entsCached`) and go-fuse's child map (`Inode.GetChild`);
  * tree level (`Tree`, `serve`, `ociApply`, `overlayMerge`) composes whole layers.
-/
namespace SV.Overlay

abbrev Str := List Char

/-! ## Constants of node.go / estargz -/

/-- `strings.HasPrefix(n, whiteoutPrefix)` together with `n[len(whiteoutPrefix):]`. -/
def whTarget? : Str → Option Str
  | '.' :: 'w' :: 'h' :: '.' :: t => some t
  | _ => none

/-- `whiteoutPrefix + t` (`fmt.Sprintf("%s%s", whiteoutPrefix, name)` in Lookup). -/
def mkWh (t : Str) : Str := '.' :: 'w' :: 'h' :: '.' :: t

def isWh (n : Str) : Bool := (whTarget? n).isSome

def whiteoutPrefix : Str := ".wh.".toList
def opaqueMarker : Str := ".wh..wh..opq".toList        -- whiteoutOpaqueDir
def opaqueXattrValue : Str := "y".toList
def stateDirName : Str := ".stargz-snapshotter".toList
def prefetchLandmark : Str := ".prefetch.landmark".toList
def noPrefetchLandmark : Str := ".no.prefetch.landmark".toList
def tocTarName : Str := "stargz.index.json".toList
def dot : Str := ['.']
def dotdot : Str := ['.', '.']

def isLandmark (n : Str) : Bool := n == prefetchLandmark || n == noPrefetchLandmark
def isDots (n : Str) : Bool := n == dot || n == dotdot

def S_IFMT : Nat := 0o170000
def S_IFCHR : Nat := 0o020000
def S_IFDIR : Nat := 0o040000
def S_IFREG : Nat := 0o100000
def statFileMode : Nat := S_IFREG ||| 0o400
def stateDirMode : Nat := S_IFDIR ||| 0o500

inductive OpaqueMode | all | trusted | user
deriving DecidableEq, Repr, Inhabited

def xTrusted : Str := "trusted.overlay.opaque".toList
def xUser : Str := "user.overlay.opaque".toList

/-- `opaqueXattrs[opaque]`. -/
def opaqueXattrs : OpaqueMode → List Str
  | .all => [xTrusted, xUser]
  | .trusted => [xTrusted]
  | .user => [xUser]

/-! ## Inode numbers -/

def maxU32 : Nat := 4294967295

/-- `fs.inodeOfID`: `none` is the "too many inodes" error (callers answer EIO). -/
def inodeOfID (base id : Nat) : Option Nat :=
  if id > maxU32 - 3 then none else some ((base <<< 32) ||| (3 + id))

def inodeOfState (base : Nat) : Nat := (base <<< 32) ||| 1
def inodeOfStatFile (base : Nat) : Nat := (base <<< 32) ||| 2

/-! ## One directory as the metadata reader shows it -/

/-- One `(name, id, mode)` triple of `Metadata().ForeachChild`, plus the `rdev` that `GetChild`'s attr
would give (`unix.Mkdev(DevMajor, DevMinor)`). `mode` is already `fileModeToSystemMode(mode)`. -/
structure Child where
  name : Str
  id : Nat
  mode : Nat
  rdev : Nat
deriving DecidableEq, Repr, Inhabited

/-- A `node` of node.go: its own id/attr and what the metadata reader lists below it. -/
structure Dir where
  isRoot : Bool
  base : Nat                  -- fs.baseInode
  id : Nat
  mode : Nat
  rdev : Nat
  xattrs : List (Str × Str)   -- attr.Xattrs (a Go map: keys unique)
  children : List Child       -- ForeachChild, any order
deriving Repr, Inhabited

structure DirEnt where
  name : Str
  mode : Nat
  ino : Nat
deriving DecidableEq, Repr, Inhabited

inductive Errno | enoent | eio | erange | enodata
deriving DecidableEq, Repr

/-- `Metadata().GetChild(n.id, name)`. -/
def getChild : List Child → Str → Option Child
  | [], _ => none
  | c :: cs, n => if c.name = n then some c else getChild cs n

/-- The branch taken by the `ForeachChild` callback of `readdir` for one child name. -/
inductive CC | skip | wh (tgt : Str) | normal
deriving DecidableEq, Repr

def classifyChild (isRoot : Bool) (n : Str) : CC :=
  if isDots n then .skip                       -- "." and ".." will be added later
  else if isRoot && isLandmark n then .skip    -- no prefetch landmarks in "/"
  else match whTarget? n with
    | some t => if n = opaqueMarker then .skip else .wh t
    | none => .normal

def isNormal (isRoot : Bool) (n : Str) : Bool :=
  match classifyChild isRoot n with | .normal => true | _ => false

/-- The target of a whiteout child that `readdir` puts into its `whiteouts` map. -/
def whOf (isRoot : Bool) (n : Str) : Option Str :=
  match classifyChild isRoot n with | .wh t => some t | _ => none

def mapOpt {α β} (f : α → Option β) : List α → Option (List β)
  | [] => some []
  | a :: as =>
    match f a, mapOpt f as with
    | some b, some bs => some (b :: bs)
    | _, _ => none

def normalEnt (base : Nat) (c : Child) : Option DirEnt :=
  (inodeOfID base c.id).map fun ino => ⟨c.name, c.mode, ino⟩

def whEnt (base : Nat) (tgt : Str) (c : Child) : Option DirEnt :=
  (inodeOfID base c.id).map fun ino => ⟨tgt, S_IFCHR, ino⟩

def normals (d : Dir) : List Child := d.children.filter fun c => isNormal d.isRoot c.name

/-- `normalEnts[name]`. -/
def hasNormal (d : Dir) (n : Str) : Bool := (normals d).any fun c => c.name == n

/-- Targets `Lookup` never resolves (`readdir`'s whiteout loop skips them since 545b9cc): the empty name,
`.`, `..`, any name that itself begins with `.wh.`, and — in the root — the two landmark names. -/
def badTarget (isRoot : Bool) (t : Str) : Bool :=
  t == [] || isDots t || isWh t || (isRoot && isLandmark t)

/-- The whiteout loop before 545b9cc: `(target, .wh. child)` for every whiteout whose target is not the
name of a normal entry.  Kept as a model variant for the documented counterexamples. -/
def liveWhsOld (d : Dir) : List (Str × Child) :=
  d.children.filterMap fun c =>
    match whOf d.isRoot c.name with
    | some t => if hasNormal d t then none else some (t, c)
    | none => none

/-- Whiteouts that are listed: the target can be looked up and no entry replaces it. -/
def liveWhs (d : Dir) : List (Str × Child) :=
  d.children.filterMap fun c =>
    match whOf d.isRoot c.name with
    | some t => if badTarget d.isRoot t then none else if hasNormal d t then none else some (t, c)
    | none => none

/-- Total order used to make the listing canonical.  Go sorts by name only (`sort.Slice`, unstable);
entries of equal name are ordered by (mode, ino) here and in the harness' canonical form. -/
def strLe : Str → Str → Bool
  | [], _ => true
  | _ :: _, [] => false
  | a :: as, b :: bs => if a.toNat < b.toNat then true else if b.toNat < a.toNat then false else strLe as bs

def entLe (a b : DirEnt) : Bool :=
  if a.name = b.name then (if a.mode = b.mode then a.ino ≤ b.ino else a.mode ≤ b.mode) else strLe a.name b.name

def insertBy {α} (le : α → α → Bool) (x : α) : List α → List α
  | [] => [x]
  | y :: ys => if le x y then x :: y :: ys else y :: insertBy le x ys

def sortBy {α} (le : α → α → Bool) (l : List α) : List α := l.foldr (insertBy le) []

def dotEnts : List DirEnt := [⟨dot, S_IFDIR, 0⟩, ⟨dotdot, S_IFDIR, 0⟩]

def readdirWith (d : Dir) (whs : List (Str × Child)) : Option (List DirEnt) :=
  match mapOpt (normalEnt d.base) (normals d), mapOpt (fun p => whEnt d.base p.1 p.2) whs with
  | some ns, some ws => some (sortBy entLe (ns ++ dotEnts ++ ws))
  | _, _ => none

/-- `node.readdir` when nothing is memoised (`none` = EIO). -/
def readdir (d : Dir) : Option (List DirEnt) := readdirWith d (liveWhs d)

/-- `node.readdir` as it was before 545b9cc (every whiteout target listed). -/
def readdirOld (d : Dir) : Option (List DirEnt) := readdirWith d (liveWhsOld d)

/-! ## Lookup with its two caches -/

inductive LRes
  | enoent
  | eio
  /-- the state directory -/
  | state (mode ino : Nat)
  /-- a `*node`; `mode`/`rdev` as written by `entryToAttr` -/
  | node (id mode ino rdev : Nat)
  /-- a `*whiteout` (StableAttr mode S_IFCHR); `amode`/`rdev` are what this Lookup call wrote into
  `out.Attr`: `entryToWhAttr` for a fresh one, `entryToAttr` of the `.wh.` entry for a cached child -/
  | whiteout (id amode ino rdev : Nat)
deriving DecidableEq, Repr, Inhabited

def LRes.ok : LRes → Bool
  | .enoent | .eio => false
  | _ => true

/-- The type the kernel sees: go-fuse's `setEntryOut` forces the StableAttr type bits. -/
def LRes.stype : LRes → Nat
  | .state _ _ => S_IFDIR
  | .node _ mode _ _ => mode &&& S_IFMT
  | .whiteout _ _ _ _ => S_IFCHR
  | _ => 0

def LRes.ino? : LRes → Option Nat
  | .state _ i => some i
  | .node _ _ i _ => some i
  | .whiteout _ _ i _ => some i
  | _ => none

/-- What Lookup's caches remember about one node. -/
structure NodeSt where
  memo : Option (List DirEnt) := none   -- n.ents / n.entsCached
  kids : List (Str × Child × Bool) := []  -- go-fuse children: name ↦ (attr source, isWhiteout)
deriving Repr, Inhabited

def lookupKid {β} : List (Str × β) → Str → Option β
  | [], _ => none
  | (n, t) :: rest, x => if n = x then some t else lookupKid rest x

def hasName {β} (l : List (Str × β)) (x : Str) : Bool := (lookupKid l x).isSome

def entNamed (ents : List DirEnt) (n : Str) : Bool := ents.any fun e => e.name == n

/-- `node.readdir` with the memo. -/
def readdirSt (d : Dir) (s : NodeSt) : NodeSt × Option (List DirEnt) :=
  match s.memo with
  | some ents => (s, some ents)
  | none =>
    match readdir d with
    | some ents => ({ s with memo := some ents }, some ents)
    | none => (s, none)

def nodeRes (base : Nat) (c : Child) : LRes :=
  match inodeOfID base c.id with
  | some ino => .node c.id c.mode ino c.rdev
  | none => .eio

/-- `node.Lookup`, in the order of the Go code. -/
def lookupSt (d : Dir) (s : NodeSt) (name : Str) : NodeSt × LRes :=
  -- We don't want to show prefetch landmarks in "/".
  if d.isRoot && isLandmark name then (s, .enoent)
  -- We don't want to show whiteouts.
  else if isWh name then (s, .enoent)
  -- state directory
  else if d.isRoot && name == stateDirName then (s, .state stateDirMode (inodeOfState d.base))
  else
  -- lookup on memory nodes
  match lookupKid s.kids name with
  | some (c, false) => (s, nodeRes d.base c)
  | some (c, true) =>
    (s, match inodeOfID d.base c.id with
        | some ino => .whiteout c.id c.mode ino c.rdev   -- entryToAttr(ino, tn.attr, …) of the `.wh.` entry
        | none => .eio)
  | none =>
  -- early return if this entry doesn't exist
  if (match s.memo with | some ents => !entNamed ents name | none => false) then (s, .enoent)
  else
  match getChild d.children name with
  | some c => (s, nodeRes d.base c)
  | none =>
    -- If the entry exists as a whiteout, show an overlayfs-styled whiteout node.
    match getChild d.children (mkWh name) with
    | some w =>
      (s, match inodeOfID d.base w.id with
          | some ino => .whiteout w.id S_IFCHR ino 0     -- entryToWhAttr
          | none => .eio)
    | none => ((readdirSt d s).1, .enoent)               -- n.readdir() caches the listing

/-- go-fuse's bridge registers the inode returned by a successful Lookup as a child of the parent
(`rawBridge.addNewChild`); later Lookups of that name take the `n.GetChild(name)` branch. -/
def adopt (d : Dir) (s : NodeSt) (name : Str) (r : LRes) : NodeSt :=
  match r with
  | .node id _ _ _ =>
    match getChild d.children name with
    | some c => if c.id = id then { s with kids := (name, c, false) :: s.kids } else s
    | none => s
  | .whiteout id _ _ _ =>
    match getChild d.children name, getChild d.children (mkWh name) with
    | none, some w => if w.id = id then { s with kids := (name, w, true) :: s.kids } else s
    | _, _ => s
  | _ => s

/-- `node.Getattr` / `whiteout.Getattr` of the inode a Lookup returned. -/
def getattrOf : LRes → Option (Nat × Nat × Nat)
  | .node _ mode ino rdev => some (mode, ino, rdev)
  | .whiteout _ _ ino _ => some (S_IFCHR, ino, 0)
  | .state mode ino => some (mode, ino, 0)
  | _ => none

/-- `node.Getattr` on the directory itself. -/
def getattr (d : Dir) : Option (Nat × Nat × Nat) :=
  (inodeOfID d.base d.id).map fun ino => (d.mode, ino, d.rdev)

/-! ## Opaque directories -/

def isOpaque (d : Dir) : Bool := (getChild d.children opaqueMarker).isSome

/-- `len(s)` in bytes. -/
def blen (s : Str) : Nat := s.foldl (fun n c => n + c.utf8Size) 0

inductive XRes
  | ok (n : Nat) (v : Str)
  | erange (n : Nat)
  | enodata
deriving DecidableEq, Repr

def xlookup : List (Str × Str) → Str → Option Str := lookupKid

/-- `node.Getxattr`. -/
def getxattr (om : OpaqueMode) (d : Dir) (attr : Str) (destLen : Nat) : XRes :=
  if (opaqueXattrs om).contains attr && isOpaque d then
    if destLen < blen opaqueXattrValue then .erange (blen opaqueXattrValue)
    else .ok (blen opaqueXattrValue) opaqueXattrValue
  else match xlookup d.xattrs attr with
    | some v => if destLen < blen v then .erange (blen v) else .ok (blen v) v
    | none => .enodata

/-- `node.Listxattr`: the names (Go appends the entry's own xattrs in map order; the canonical form
sorts the whole list). -/
def listxattrNames (om : OpaqueMode) (d : Dir) : List Str :=
  (if isOpaque d then opaqueXattrs om else []) ++ d.xattrs.map (·.1)

inductive LXRes
  | ok (n : Nat) (names : List Str)
  | erange (n : Nat)
deriving DecidableEq, Repr

def listxattr (om : OpaqueMode) (d : Dir) (destLen : Nat) : LXRes :=
  let names := listxattrNames om d
  let total := (names.map fun s => blen s + 1).sum
  if destLen < total then .erange total else .ok total (sortBy strLe names)

/-! ## State directory and stat file -/

structure LayerInfo where
  base : Nat
  om : OpaqueMode
  digest : Str      -- layerDigest.String()
  size : Nat        -- blob.Size()
  fetched : Nat     -- blob.FetchedSize()
  err : Str := []   -- statJSON.Error (last `report`)
deriving Repr, Inhabited

def statFileName (l : LayerInfo) : Str := l.digest ++ ".json".toList

/-- `state.Readdir`. -/
def stateReaddir (l : LayerInfo) : List DirEnt := [⟨statFileName l, statFileMode, inodeOfStatFile l.base⟩]

inductive JV
  | str (s : Str)
  | int (n : Nat)
  | float           -- fetchedPercent; its decimal rendering is not modelled
deriving DecidableEq, Repr

/-- `updateStatUnlocked`: the fields `json.Marshal(&statJSON)` writes, in order; `none` when Marshal
fails (FetchedPercent is NaN or ±Inf exactly when `Size` is 0). -/
def statFields (l : LayerInfo) : Option (List (Str × JV)) :=
  if l.size = 0 then none else
  some ((if l.err = [] then [] else [("error".toList, JV.str l.err)]) ++
    [("digest".toList, .str l.digest), ("size".toList, .int l.size),
     ("fetchedSize".toList, .int l.fetched), ("fetchedPercent".toList, .float)])

/-- `state.Lookup`: `some (mode, ino)`; EIO when the JSON cannot be produced. -/
def stateLookup (l : LayerInfo) (name : Str) : Except Errno (Nat × Nat) :=
  if name ≠ statFileName l then .error .enoent
  else match statFields l with
    | some _ => .ok (statFileMode, inodeOfStatFile l.base)
    | none => .error .eio

/-! ## Whole layers -/

/-- What is observable about one TOC entry. `tag` stands for everything the overlay rules never look
at (content digest, owner, times, link target). -/
structure Attr where
  id : Nat
  mode : Nat
  rdev : Nat
  xattrs : List (Str × Str)
  tag : Nat
deriving DecidableEq, Repr, Inhabited

/-- A layer as the TOC describes it, and also a root filesystem. -/
inductive Tree where
  | file (a : Attr)
  | dir (a : Attr) (kids : List (Str × Tree))
deriving Repr, Inhabited

/-- What the FUSE layer serves: `opq` are the xattr names `Getxattr` answers with "y". -/
inductive Lower where
  | file (a : Attr)
  | dir (a : Attr) (opq : List Str) (kids : List (Str × Lower))
deriving Repr, Inhabited

def Tree.attr : Tree → Attr
  | .file a => a
  | .dir a _ => a

def Tree.isDir : Tree → Bool
  | .dir _ _ => true
  | _ => false

/-- `entryToWhAttr`: S_IFCHR, device 0/0, owner 0/0, size 0. -/
def whAttr (id : Nat) : Attr := ⟨id, S_IFCHR, 0, [], 0⟩

/-- overlayfs' `IS_WHITEOUT`: a character device with device number 0/0. -/
def isWhiteoutDev (a : Attr) : Bool := (a.mode &&& S_IFMT) == S_IFCHR && a.rdev == 0

/-- `normalEnts[x]` on tree children: a child named `x` that is not itself a `.wh.` name. -/
def hasReal {β} (all : List (Str × β)) (x : Str) : Bool := !isWh x && hasName all x

def lookupReal {β} (all : List (Str × β)) (x : Str) : Option β := if isWh x then none else lookupKid all x

/-- `.wh.x` is present and is a whiteout (not the opaque marker). -/
def hasWhiteoutFor {β} (all : List (Str × β)) (x : Str) : Bool :=
  hasName all (mkWh x) && mkWh x != opaqueMarker

mutual
/-- The tree the node API serves for a (non-root) TOC subtree: `readdir` at every directory. -/
def serve (om : OpaqueMode) : Tree → Lower
  | .file a => .file a
  | .dir a kids =>
    .dir a (if hasName kids opaqueMarker then opaqueXattrs om else []) (serveKids om false kids kids)
def serveKids (om : OpaqueMode) (isRoot : Bool) (all : List (Str × Tree)) :
    List (Str × Tree) → List (Str × Lower)
  | [] => []
  | (n, t) :: rest =>
    match whTarget? n with
    | some tgt =>
      if n = opaqueMarker ∨ badTarget isRoot tgt ∨ hasReal all tgt then serveKids om isRoot all rest
      else (tgt, .file (whAttr t.attr.id)) :: serveKids om isRoot all rest
    | none => (n, serve om t) :: serveKids om isRoot all rest
end

/-- Landmarks are hidden in "/" only. -/
def stripRoot : Tree → Tree
  | .file a => .file a
  | .dir a kids => .dir a (kids.filter fun p => !isLandmark p.1)

/-- `Layer.RootNode` seen through `Readdir`/`Lookup`. -/
def serveRoot (om : OpaqueMode) (t : Tree) : Lower :=
  match stripRoot t with
  | .file a => .file a
  | .dir a kids =>
    .dir a (if hasName kids opaqueMarker then opaqueXattrs om else []) (serveKids om true kids kids)

mutual
/-- OCI layer application of the subtree `t` on top of what is there (`acc`): whiteouts remove names,
an opaque marker removes all lower children, then additions / replacements; directories merge. -/
def ociApplyNode : Tree → Option Tree → Tree
  | .file a, _ => .file a
  | .dir a kids, acc =>
    let base : List (Str × Tree) :=
      match acc with
      | some (.dir _ K) => if hasName kids opaqueMarker then [] else K
      | _ => []
    .dir a ((base.filter fun p => !hasWhiteoutFor kids p.1 && !hasReal kids p.1) ++ applyKids base kids kids)
def applyKids (K : List (Str × Tree)) (all : List (Str × Tree)) : List (Str × Tree) → List (Str × Tree)
  | [] => []
  | (n, t) :: rest =>
    if isWh n then applyKids K all rest
    else (n, ociApplyNode t (if hasWhiteoutFor all n then none else lookupKid K n)) :: applyKids K all rest
end

def emptyFs : Tree := .dir ⟨0, S_IFDIR ||| 0o755, 0, [], 0⟩ []

/-- Apply one layer tar (root landmarks are not content). -/
def ociApply (fs : Tree) (layer : Tree) : Tree := ociApplyNode (stripRoot layer) (some fs)

/-! ### The overlayfs side (kernel documentation, "Merged directories", "whiteouts and opaque directories",
"Non-directories", "Multiple lower layers") -/

/-- What a path resolves to. -/
inductive Node
  | file (a : Attr)
  | dir (a : Attr)
deriving DecidableEq, Repr

/-- A root filesystem as a finite map from paths. -/
abbrev RootFs := List Str → Option Node

def Tree.node : Tree → Node
  | .file a => .file a
  | .dir a _ => .dir a

def resolve : Tree → List Str → Option Node
  | t, [] => some t.node
  | .file _, _ :: _ => none
  | .dir _ kids, x :: p =>
    match lookupKid kids x with
    | some c => resolve c p
    | none => none

def resolveOpt : Option Tree → RootFs
  | some t, p => resolve t p
  | none, _ => none

abbrev DirT := Attr × List (Str × Tree)
abbrev LowerDir := Attr × List Str × List (Str × Lower)

/-- Which overlay xattr namespace the kernel mount reads (`userxattr` mount option or not). -/
inductive KX | trusted | user
deriving DecidableEq, Repr

def kxName : KX → Str
  | .trusted => xTrusted
  | .user => xUser

/-- `Getxattr` of a served directory: the synthesised names first, then the entry's own xattrs. -/
def lowerGetxattr (opq : List Str) (a : Attr) (name : Str) : Option Str :=
  if opq.contains name then some opaqueXattrValue else xlookup a.xattrs name

def lowerOpaque (kx : KX) (d : LowerDir) : Bool :=
  lowerGetxattr d.2.1 d.1 (kxName kx) == some opaqueXattrValue

/-- The outcome of looking one name up through a stack of merged directories. -/
inductive LSub
  | absent
  | file (a : Attr)
  | dirs (ds : List LowerDir)   -- the directories that merge, top first

/-- Name lookup in a merged directory, top layer first: a whiteout hides everything below and is not
shown; a non-directory is presented from the topmost layer that has the name; directories merge with
the directories of the same name below them until an opaque one (or a non-directory / whiteout) is met. -/
def descend (kx : KX) (x : Str) : List LowerDir → LSub
  | [] => .absent
  | d :: rest =>
    match lookupKid d.2.2 x with
    | some (.file a) => if isWhiteoutDev a then .absent else .file a
    | some (.dir a o k) =>
      .dirs ((a, o, k) :: (if lowerOpaque kx d then [] else
        match descend kx x rest with
        | .dirs ds => ds
        | _ => []))
    | none => if lowerOpaque kx d then .absent else descend kx x rest

/-- Path resolution in the overlay mount of a stack of lower directories (top first).  A merged
directory shows the attributes of its topmost member. -/
def ovlResolve (kx : KX) : List LowerDir → RootFs
  | [], _ => none
  | d :: _, [] => some (.dir d.1)
  | d :: rest, x :: p =>
    match descend kx x (d :: rest) with
    | .absent => none
    | .file a => if p = [] then some (.file a) else none
    | .dirs ds => ovlResolve kx ds p

def Lower.dir? : Lower → Option LowerDir
  | .dir a o k => some (a, o, k)
  | .file _ => none

/-- The overlay mount `lowerdir=lₙ:…:l₁` of the served layers `[l₁, …, lₙ]` (bottom first). -/
def overlayMerge (kx : KX) (lowers : List Lower) : RootFs :=
  ovlResolve kx (lowers.reverse.filterMap Lower.dir?)

/-- The root filesystem obtained by applying the layer tars in order. -/
def ociRootFs (layers : List Tree) : RootFs := resolve (layers.foldl ociApply emptyFs)

/-! ### The builder's root filter (estargz/build.go importTar, estargz.go AppendTar) -/

/-- Root names of the TOC for a source tar with root names `src`: landmarks and the TOC name of the
source are dropped, one landmark is added. -/
def builderRootNames (prioritized : Bool) (src : List Str) : List Str :=
  (if prioritized then prefetchLandmark else noPrefetchLandmark) ::
    src.filter fun n => !isLandmark n && n != tocTarName

/-! ## Call histories on one node -/

/-- One call on a directory node; `adopt` says whether go-fuse's bridge registered the returned
inode as a child afterwards. -/
inductive Op
  | readdir
  | lookup (name : Str) (adopt : Bool)
deriving Repr

inductive Ans
  | list (r : Option (List DirEnt))
  | res (r : LRes)
deriving Repr

/-- A FUSE LOOKUP never carries the empty name.  (With a child named exactly `.wh.`, `Lookup("")` would
find that whiteout before the listing is memoised and answer ENOENT afterwards.) -/
def Op.valid : Op → Bool
  | .lookup n _ => n != []
  | .readdir => true

def stepOp (d : Dir) (s : NodeSt) : Op → NodeSt × Ans
  | .readdir => ((readdirSt d s).1, .list (readdirSt d s).2)
  | .lookup name ad =>
    let r := lookupSt d s name
    ((if ad then adopt d r.1 name r.2 else r.1), .res r.2)

def run (d : Dir) : NodeSt → List Op → List Ans
  | _, [] => []
  | s, o :: os => (stepOp d s o).2 :: run d (stepOp d s o).1 os

/-- A Lookup answer without the two attribute fields that differ between a fresh whiteout
(`entryToWhAttr`) and one found in go-fuse's child map (`entryToAttr` of the `.wh.` entry); the
kernel-visible type is the StableAttr type (S_IFCHR) in both cases. -/
def LRes.stable : LRes → LRes
  | .whiteout id _ ino _ => .whiteout id S_IFCHR ino 0
  | r => r

def Ans.stable : Ans → Ans
  | .res r => .res r.stable
  | a => a

/-- The answer of a call on a node nobody has touched yet. -/
def pureAns (d : Dir) : Op → Ans
  | .readdir => .list (readdir d)
  | .lookup name _ => .res (lookupSt d {} name).2

/-- The caches only hold what the metadata says. -/
def Inv (d : Dir) (s : NodeSt) : Prop :=
  (∀ ents, s.memo = some ents → readdir d = some ents) ∧
  (∀ n c w, lookupKid s.kids n = some (c, w) →
    (w = false → getChild d.children n = some c) ∧
    (w = true → getChild d.children n = none ∧ getChild d.children (mkWh n) = some c))

/-- The metadata reader never lists a name twice (children come from a Go map). -/
def NoDupNames (d : Dir) : Prop := (d.children.map (·.name)).Nodup

def lookupPure (d : Dir) (n : Str) : LRes := (lookupSt d {} n).2

/-- The names `listing_lookup_agree` talks about: a name (non-empty) other than `.`/`..` and other than the
state directory of the root. -/
def Plain (d : Dir) (n : Str) : Prop :=
  n ≠ [] ∧ isDots n = false ∧ (d.isRoot && n == stateDirName) = false

/-! ### Name-level view of one layer directory, and the domain of the composition theorem -/

/-- What a layer directory says about the name `x`. -/
inductive Cls
  | whiteout
  | file (a : Attr)
  | dir (a : Attr) (k : List (Str × Tree))
  | absent

def classify (all : List (Str × Tree)) (x : Str) : Cls :=
  match lookupReal all x with
  | some (.file a) => .file a
  | some (.dir a k) => .dir a k
  | none => if hasWhiteoutFor all x then .whiteout else .absent

/-- The outcome of applying a stack of layer directories (top first) at the name `x`. -/
inductive Sub
  | absent
  | file (a : Attr)
  | dirs (ds : List DirT)

/-- OCI application, name by name: the topmost layer that mentions `x` decides; a directory keeps
merging with what the layers below leave at `x` unless its parent is opaque. -/
def sub (x : Str) : List DirT → Sub
  | [] => .absent
  | d :: rest =>
    match classify d.2 x with
    | .whiteout => .absent
    | .file f => .file f
    | .dir a' k' =>
      .dirs ((a', k') :: (if hasName d.2 opaqueMarker then [] else
        match sub x rest with
        | .dirs ds => ds
        | _ => []))
    | .absent => if hasName d.2 opaqueMarker then .absent else sub x rest

/-- The directory obtained by applying the layer directories `tl` (top first) in order, bottom up. -/
def appliedOf : List DirT → Option Tree
  | [] => none
  | d :: rest => some (ociApplyNode (.dir d.1 d.2) (appliedOf rest))

def serveDir (om : OpaqueMode) (isRoot : Bool) (d : DirT) : LowerDir :=
  (d.1, (if hasName d.2 opaqueMarker then opaqueXattrs om else []), serveKids om isRoot d.2 d.2)

/-- The served mode covers the xattr namespace the kernel reads. -/
def compat (om : OpaqueMode) (kx : KX) : Bool := (opaqueXattrs om).contains (kxName kx)

/-- A path component: not empty, not `.` or `..` (TOC names are cleaned paths). -/
def validName (n : Str) : Bool := n != [] && !isDots n

mutual
/-- The domain of `overlay_equals_oci`, checked at every directory of the layer:
  * real entries are named by path components (`validName`);
  * no directory has both a whiteout `.wh.x` and a real directory `x` (the property's exclusion);
  * no real entry is a 0/0 character device, no real directory carries the kernel's opaque xattr
    itself (overlayfs would read both as whiteout / opaque: plain lower directories cannot express them). -/
def okTree (kx : KX) : Tree → Bool
  | .file a => !isWhiteoutDev a
  | .dir a kids => (xlookup a.xattrs (kxName kx) != some opaqueXattrValue) && okKids kx kids kids
def okKids (kx : KX) (all : List (Str × Tree)) : List (Str × Tree) → Bool
  | [] => true
  | (n, t) :: rest =>
    (isWh n || (validName n && okTree kx t && !(t.isDir && hasWhiteoutFor all n))) && okKids kx all rest
end

def stripD (d : DirT) : DirT := (d.1, d.2.filter fun p => !isLandmark p.1)

def DirT.tree (d : DirT) : Tree := .dir d.1 d.2

/-- A layer (given by its root directory) is in the domain. -/
def LayerOK (kx : KX) (d : DirT) : Prop := okTree kx (stripD d).tree = true

/-- The children of an applied directory. -/
def kidsOf : Option Tree → List (Str × Tree)
  | some (.dir _ k) => k
  | _ => []

/-- The served form of a name-level outcome. -/
def Sub.serve (om : OpaqueMode) : Sub → LSub
  | .absent => .absent
  | .file a => .file a
  | .dirs ds => .dirs (ds.map (serveDir om false))

/-- The tree a name-level outcome stands for. -/
def Sub.tree : Sub → Option Tree
  | .absent => none
  | .file f => some (.file f)
  | .dirs ds => appliedOf ds

/-- At the root level (`isRoot`) the directories are already stripped of landmark entries. -/
def NoLandmarkKids (isRoot : Bool) (tl : List DirT) : Prop :=
  isRoot = true → ∀ d ∈ tl, ∀ p ∈ d.2, isLandmark p.1 = false

/-- Every directory of the stack is in the domain. -/
def OkDirs (kx : KX) (tl : List DirT) : Prop := ∀ d ∈ tl, okTree kx d.tree = true

/-! ### The node of node.go that stands for a directory of a layer tree -/

def childOf (p : Str × Tree) : Child := ⟨p.1, p.2.attr.id, p.2.attr.mode, p.2.attr.rdev⟩

def dirOfTree (isRoot : Bool) (base : Nat) (a : Attr) (kids : List (Str × Tree)) : Dir :=
  ⟨isRoot, base, a.id, a.mode, a.rdev, a.xattrs, kids.map childOf⟩

/-- The children `serve` works on: `serveRoot` drops the landmarks of the root first. -/
def servedKidsOf (isRoot : Bool) (kids : List (Str × Tree)) : List (Str × Tree) :=
  if isRoot then kids.filter fun p => !isLandmark p.1 else kids

def Lower.attr : Lower → Attr
  | .file a => a
  | .dir a _ _ => a

end SV.Overlay
