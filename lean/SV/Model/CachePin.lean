/-
C01x — a variant of `directoryCache.Get` used as a counterexample model.

`SV/Model/ChunkCache.lean` mirrors cache/cache.go: a memory hit of `Get` keeps the reference of the LRU
entry (`done`) until the returned Reader is closed, so `OnEvicted` (buffer `Reset()` + `bufPool.Put`)
cannot run while somebody can still read through the Reader.

`getMemUnpinned` is the variant in which the reference is released before `Get` returns
(`b, done, ok := dc.cache.Get(key); defer done(); return b.Bytes()`; the Reader's `Close` is a no-op):
the reader stays open and keeps aliasing the buffer.  `Props/C01x.lean` proves that this variant serves
bytes of another chunk, and that the mirrored code never does, for every interleaving.

Core Lean only.
-/
import SV.Model.ChunkCache

namespace SV.ChunkCache

/-- `Get`, memory hit, reference dropped inside `Get`. -/
def State.getMemUnpinned (s : State) (k : Nat) (o : Opts) : Option State :=
  match s.getMem k o with
  | some s1 =>
    match s1.readers.getLast? with
    | some rd =>
      match rd.src with
      | .mem _ rc =>
        let d := s1.mem.dec rc
        some { s1 with mem := d.1, bufs := evictBuf s1.bufs d.2 }
      | _ => none
    | none => none
  | none => none

/-- steps of the variant cache: every step of the mirrored cache, plus the unpinned `Get`. -/
inductive UStep where
  | std (a : Step)
  | getMemUnpinned (k : Nat) (o : Opts)
deriving Repr, DecidableEq, Inhabited

def State.ustep (s : State) : UStep → State
  | .std a => s.step a
  | .getMemUnpinned k o => (s.getMemUnpinned k o).getD s

def State.urun (s : State) (steps : List UStep) : State := steps.foldl State.ustep s

/-- The window history: chunk 0 (`[1]`) is committed and fully written; a reader obtains it (`get`);
inside the window another handle commits chunk 1 (evicting key 0 from the memory LRU of capacity 1) and
starts writing chunk 2 into a buffer taken from the pool. -/
def windowHistory (get : UStep) : List UStep :=
  [ .std (.addOpen 0 {} none), .std (.write 0 [1]), .std (.commitMemPublish 0),
    .std (.commitDiskWrite 0 none), .std (.commitRename 0), .std (.commitDone 0),
    get,
    .std (.addOpen 1 {} none), .std (.write 1 [7]), .std (.commitMemPublish 1),
    .std (.commitDiskWrite 1 none), .std (.commitRename 1), .std (.commitDone 1),
    .std (.addOpen 2 {} (some 0)), .std (.write 2 [9]) ]

end SV.ChunkCache
