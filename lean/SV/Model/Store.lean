/-
Model of store/manager.go (`LayerManager`: getLayer, getLayerInfo, resolveLayer, cacheLayer,
getCachedLayer, use, release) and of the counting part of store/refs.go (`refPool.use/release`,
`loadRef`).  Core-only (no Mathlib) so that the driver links as a `lean_exe`.

Go maps are association lists (`Map`), nested Go maps are nested association lists; every
statement of `use` / `release` that touches a map is one `set` / `erase` below, on the same map
and at the same nesting level as in the Go code.
-/
namespace SV.Store

abbrev Ref := Nat       -- image reference (`refspec.String()`)
abbrev LDigest := Nat   -- layer (blob) digest (`target.Digest` / `l.Info().Digest`)
abbrev Toc := Nat       -- TOC digest (`l.Info().TOCDigest`, the directory name in the store tree)
abbrev LayerId := Nat   -- identity of one resolved `layer.Layer` instance

/-! ### Go maps -/

abbrev Map (V : Type) := List (Nat × V)

namespace Map
variable {V : Type}

/-- `m[k]` (with the `ok` flag). -/
def get : Map V → Nat → Option V
  | [], _ => none
  | (k', v) :: m, k => if k' = k then some v else get m k

/-- `delete(m, k)`. -/
def erase (m : Map V) (k : Nat) : Map V := m.filter (fun p => decide (p.1 ≠ k))

/-- `m[k] = v`. -/
def set (m : Map V) (k : Nat) (v : V) : Map V := (k, v) :: erase m k

/-- the inner map `m[r]` of a nested map (a nil map reads as empty). -/
def inner (m : Map (Map V)) (r : Nat) : Map V := (get m r).getD []

/-- `m[r][t]` (with the `ok` flag). -/
def get2 (m : Map (Map V)) (r t : Nat) : Option V := get (inner m r) t

/-- `m[r][t] = v`, creating `m[r]` when it is nil. -/
def set2 (m : Map (Map V)) (r t : Nat) (v : V) : Map (Map V) := set m r (set (inner m r) t v)

/-- `delete(m[r], t)`: the outer entry stays (possibly with an empty inner map). -/
def del2 (m : Map (Map V)) (r t : Nat) : Map (Map V) :=
  match get m r with
  | none => m
  | some i => set m r (erase i t)

/-- `len(m[r]) == 0`. -/
def emptyAt (m : Map (Map V)) (r : Nat) : Bool := (inner m r).isEmpty

end Map

open Map

/-! ### Registry truth and the failure oracle -/

/-- What the registry holds: for every image reference its manifest layers in order, each with
the layer digest and the TOC digest that the blob really has (`none`: no such image). -/
structure Truth where
  images : Nat → Option (List (Nat × Nat))   -- Ref ↦ [(LDigest, Toc)]

/-- How the registry answers right now; it may answer differently at every operation
(transient errors).  `layer r d = false` also stands for a layer that is not eStargz. -/
structure Oracle where
  manifest : Nat → Bool          -- Ref
  layer : Nat → Nat → Bool       -- Ref, LDigest

def Oracle.healthy : Oracle := ⟨fun _ => true, fun _ _ => true⟩

/-- memoised result of `resolveLayer` (`resolveLayerCache[ref][digest]`: nil error or an error). -/
inductive Outcome where
  | ok | err
deriving DecidableEq, Repr, Inhabited

/-- One resolved `layer.Layer` instance. -/
structure Layer where
  id : Nat       -- LayerId
  digest : Nat   -- LDigest
  toc : Nat      -- Toc
deriving DecidableEq, Repr, Inhabited

/-- `LayerManager` (+ the parts of `refPool` it drives). -/
structure St where
  layer : Map (Map Layer) := []       -- r.layer, keyed by ref and TOC digest
  refcounter : Map (Map Int) := []    -- r.refcounter, keyed by ref and TOC digest
  memo : Map (Map Outcome) := []      -- r.resolveLayerCache, keyed by ref and LAYER digest
  done : List Nat := []               -- instances (LayerId) on which release called Done()
  next : Nat := 0                     -- number of instances cached so far (next LayerId)
  pool : Map Int := []                -- refPool.refcounter[ref].count
  disk : List Nat := []               -- refs whose manifest and config are in the pool directory
deriving Repr, Inhabited

def init : St := {}

inductive Res where
  | layer (l : Layer)          -- getLayer returned this instance
  | err                        -- an error was returned
  | count (n : Int)            -- use / release returned this count
  | info (idx : Option Nat)    -- getLayerInfo: diff id of manifest layer idx / bare TOC digest
deriving DecidableEq, Repr, Inhabited

def Res.isOk : Res → Bool
  | .err => false
  | _ => true

/-! ### refPool -/

/-- `refPool.use`. -/
def poolUse (p : Map Int) (r : Ref) : Map Int :=
  match get p r with
  | none => set p r 1
  | some c => set p r (c + 1)

/-- `refPool.release` (its results are ignored by `LayerManager.release`). -/
def poolRelease (p : Map Int) (r : Ref) : Map Int :=
  match get p r with
  | none => p
  | some c => if c - 1 ≤ 0 then erase p r else set p r (c - 1)

/-- `refPool.loadRef`: the manifest is read from the pool directory, else fetched and stored. -/
def loadRef (T : Truth) (o : Oracle) (s : St) (r : Ref) : Option (St × List (LDigest × Toc)) :=
  if r ∈ s.disk then
    (T.images r).map fun ls => (s, ls)
  else if o.manifest r then
    (T.images r).map fun ls => ({ s with disk := r :: s.disk }, ls)
  else none

/-! ### LayerManager -/

/-- `getCachedLayer`. -/
def getCached (s : St) (r : Ref) (t : Toc) : Option Layer :=
  match get2 s.layer r t with
  | some l => if l.toc = t then some l else none
  | none => none

/-- `cacheLayer` for a freshly resolved layer of digest `d` whose TOC digest is `t`;
a duplicate of an already cached layer is discarded (its own `Done()` does not concern the
cached instance). -/
def cacheLayer (s : St) (r : Ref) (d : LDigest) (t : Toc) : St :=
  match getCached s r t with
  | some _ => s
  | none => { s with layer := set2 s.layer r t ⟨s.next, d, t⟩, next := s.next + 1 }

/-- `resolveLayer` for manifest layer `(d, t)`. -/
def resolveLayer (o : Oracle) (r : Ref) (s : St) (dt : LDigest × Toc) : St :=
  match get2 s.memo r dt.1 with
  | some _ => s                                         -- "this resolving has already done"
  | none =>
    if o.layer r dt.1 then
      let s := cacheLayer s r dt.1 dt.2
      { s with memo := set2 s.memo r dt.1 .ok }         -- deferred memo write, retErr = nil
    else
      { s with memo := set2 s.memo r dt.1 .err }        -- deferred memo write, retErr ≠ nil

/-- `getLayer` (followed, in `layernode.Lookup`, by `Verify(dirname)`, which succeeds because the
cached layer was found under its own TOC digest). -/
def lookup (T : Truth) (o : Oracle) (s : St) (r : Ref) (t : Toc) : St × Res :=
  match getCached s r t with
  | some l => (s, .layer l)
  | none =>
    match loadRef T o s r with
    | none => (s, .err)                                 -- "failed to get manifest and config"
    | some (s, ls) =>
      let s := ls.foldl (resolveLayer o r) s            -- resolve all layers of the image
      match getCached s r t with
      | some l => (s, .layer l)
      | none => (s, .err)                               -- "layer with TOCDigest … not found"

/-- index of the LAST manifest layer with digest `d` (`genLayerInfo` does not leave its loop). -/
def lastIndexOf (ls : List (LDigest × Toc)) (d : LDigest) : Option Nat :=
  let rec go : List (LDigest × Toc) → Nat → Option Nat → Option Nat
    | [], _, acc => acc
    | p :: ps, i, acc => go ps (i + 1) (if p.1 = d then some i else acc)
  go ls 0 none

/-- `getLayerInfo`. -/
def info (T : Truth) (o : Oracle) (s : St) (r : Ref) (t : Toc) : St × Res :=
  match loadRef T o s r with
  | none => (s, .err)
  | some (s, ls) =>
    match getCached s r t with
    | none => (s, .info none)
    | some l =>
      match lastIndexOf ls l.digest with
      | some i => (s, .info (some i))
      | none => (s, .err)                               -- "layer … not found in the manifest"

/-- `LayerManager.use`. -/
def use (s : St) (r : Ref) (t : Toc) : St × Res :=
  let s := { s with pool := poolUse s.pool r }
  match get2 s.refcounter r t with
  | none => ({ s with refcounter := set2 s.refcounter r t 1 }, .count 1)
  | some c => ({ s with refcounter := set2 s.refcounter r t (c + 1) }, .count (c + 1))

/-- the tail of `release` once the count is `≤ 0`: drop the layer. -/
def dropLayer (s : St) (r : Ref) (t : Toc) (i : Int) : St × Res :=
  if (get s.layer r).isNone then (s, .err)              -- "layer of reference … is not registered"
  else
    match get2 s.layer r t with
    | none => (s, .err)                                 -- "layer of digest … is not registered"
    | some l =>
      let s := { s with memo := del2 s.memo r l.digest }   -- reset the layer's resolve status
      let s := { s with done := l.id :: s.done }           -- l.Done()
      let s := { s with layer := del2 s.layer r t }
      let s := if emptyAt s.layer r then { s with layer := erase s.layer r } else s
      (s, .count i)

/-- `delete(r.refcounter[ref], toc)` and, when that was the image's last entry, the image's
counter map and resolve status. -/
def dropCount (s : St) (r : Ref) (t : Toc) : St :=
  let s := { s with refcounter := del2 s.refcounter r t }
  if emptyAt s.refcounter r then
    { s with refcounter := erase s.refcounter r, memo := erase s.memo r }
  else s

/-- `LayerManager.release` (current code, after the repair b2d0982). -/
def release (s : St) (r : Ref) (t : Toc) : St × Res :=
  let s := { s with pool := poolRelease s.pool r }
  if (get s.refcounter r).isNone then (s, .err)         -- "ref … not tracked"
  else
    match get2 s.refcounter r t with
    | none => (s, .err)                                 -- "layer … not tracked"
    | some c =>
      let i := c - 1
      let s := { s with refcounter := set2 s.refcounter r t i }
      if i ≤ 0 then dropLayer (dropCount s r t) r t i
      else (s, .count i)

/-! ### The defect that b2d0982 repaired (kept to document what the theorems exclude) -/

/-- old tail: the layer is dropped without resetting its resolve status. -/
def dropLayerBuggy (s : St) (r : Ref) (t : Toc) (i : Int) : St × Res :=
  if (get s.layer r).isNone then (s, .err)
  else
    match get2 s.layer r t with
    | none => (s, .err)
    | some l =>
      let s := { s with done := l.id :: s.done }
      let s := { s with layer := del2 s.layer r t }
      let s := if emptyAt s.layer r then { s with layer := erase s.layer r } else s
      (s, .count i)

/-- old `release`: `delete(r.refcounter, tocDigest.String())` addressed the OUTER map with a TOC
digest; no image reference equals a digest string, so nothing was deleted, the inner entry stayed
(at 0, later negative) and `len(r.refcounter[ref])` never became 0. -/
def releaseBuggy (s : St) (r : Ref) (t : Toc) : St × Res :=
  let s := { s with pool := poolRelease s.pool r }
  if (get s.refcounter r).isNone then (s, .err)
  else
    match get2 s.refcounter r t with
    | none => (s, .err)
    | some c =>
      let i := c - 1
      let s := { s with refcounter := set2 s.refcounter r t i }
      if i ≤ 0 then
        let s := if emptyAt s.refcounter r then
            { s with refcounter := erase s.refcounter r, memo := erase s.memo r } else s
        dropLayerBuggy s r t i
      else (s, .count i)

/-! ### Operations and histories -/

inductive Op where
  | lookup (o : Oracle) (r : Ref) (t : Toc)   -- diff / blob of (ref, TOC digest)
  | info (o : Oracle) (r : Ref) (t : Toc)
  | use (r : Ref) (t : Toc)
  | release (r : Ref) (t : Toc)

def step (T : Truth) (s : St) : Op → St × Res
  | .lookup o r t => lookup T o s r t
  | .info o r t => info T o s r t
  | .use r t => use s r t
  | .release r t => release s r t

def stepBuggy (T : Truth) (s : St) : Op → St × Res
  | .release r t => releaseBuggy s r t
  | op => step T s op

/-- state after a history. -/
def run (T : Truth) (s : St) (h : List Op) : St := h.foldl (fun s op => (step T s op).1) s

def runBuggy (T : Truth) (s : St) (h : List Op) : St := h.foldl (fun s op => (stepBuggy T s op).1) s

/-- states the real `LayerManager` can be in. -/
def Reachable (T : Truth) (s : St) : Prop := ∃ h, s = run T init h

/-! ### Views used by the statements -/

/-- the instance cached for (ref, TOC digest). -/
def lay (s : St) (r : Ref) (t : Toc) : Option Layer := get2 s.layer r t
/-- the use count of (ref, TOC digest). -/
def cnt (s : St) (r : Ref) (t : Toc) : Option Int := get2 s.refcounter r t
/-- the memoised resolve status of (ref, layer digest). -/
def mem (s : St) (r : Ref) (d : LDigest) : Option Outcome := get2 s.memo r d

end SV.Store
