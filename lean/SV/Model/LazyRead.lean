/-
Model of the lazy read stack (C02) and of prefetch / background fetch / the prefetch waiter (C15).
Core-only (no Mathlib): the drivers `svdriver_c02` / `svdriver_c15` link against this file.

Go code mirrored here
  * estargz/estargz.go   `Reader.ChunkEntryForOffset` (+ `sort.Search`), the pre-read loop of
                         `fileReader.ReadAt`, `initFields` (chunkTopIndex),
    cmd/containerd-stargz-grpc/db/reader.go  `file.ChunkEntryForOffset`
  * fs/reader/reader.go  `file.ReadAt` (as of 42545b8: chunk validation), the `OpenFile`
                         pre-reader callback, `verifyAndCache`, `VerifiableReader.Cache` /
                         `cacheWithReader` / `readAndCache`
  * fs/layer/node.go     `entryToAttr`, `fileModeToSystemMode`
  * fs/layer/layer.go    `layer.Prefetch` / `prefetch`, `BackgroundFetch`, `waiter`, the two `sync.Once`
  * fs/remote/blob.go    only the region computed by `blob.Cache(0, size)` (the blob itself is C06)

External parts that are parameters, not modelled: gzip/zstd codecs and the blob below them (an
oracle `Under` says what decompressing a chunk yields in one operation), SHA-256 (`Env.verify`),
go-fuse, the cache implementations (a finite map here; C10/C11 are about the real ones), real time
(a timeout is an event).
-/
namespace SV.LazyRead

abbrev Bytes := List UInt8

/-- `b[lo, lo+len)` clipped to the list. -/
def slice (b : Bytes) (lo len : Nat) : Bytes := (b.drop lo).take len

/-! ## 1. Chunk tables and `ChunkEntryForOffset` -/

/-- One chunk of a regular file as the metadata store hands it out: `(ChunkOffset, ChunkSize)`. -/
structure Chunk where
  off : Nat
  size : Nat
deriving DecidableEq, Repr

/-- Sum of the chunk sizes. -/
def total : List Chunk → Nat
  | [] => 0
  | c :: cs => c.size + total cs

/-- The chunks tile `[start, start + total)` in order and none is empty. -/
def Contig : Nat → List Chunk → Prop
  | _, [] => True
  | start, c :: cs => c.off = start ∧ 0 < c.size ∧ Contig (start + c.size) cs

def contigB : Nat → List Chunk → Bool
  | _, [] => true
  | start, c :: cs => c.off == start && decide (0 < c.size) && contigB (start + c.size) cs

/-- The loop of Go's `sort.Search(n, f)`:
`i, j := 0, n; for i < j { h := (i+j)/2; if !f(h) { i = h+1 } else { j = h } }; return i`.
`fuel` bounds the number of iterations (`j - i` shrinks each round, so `n` rounds suffice:
`searchLoop_spec` in the lemmas). -/
def searchLoop (p : Nat → Bool) : Nat → Nat → Nat → Nat
  | 0, i, _ => i
  | fuel + 1, i, j =>
    if i < j then
      let h := (i + j) / 2
      if !p h then searchLoop p fuel (h + 1) j else searchLoop p fuel i h
    else i

def searchFirst (n : Nat) (p : Nat → Bool) : Nat := searchLoop p n 0 n

/-- The predicate handed to `sort.Search` by both stores:
`e.ChunkOffset >= offset || (offset > e.ChunkOffset && offset < e.ChunkOffset+e.ChunkSize)`. -/
def chunkPred (t : List Chunk) (offset i : Nat) : Bool :=
  match t[i]? with
  | some e => decide (e.off ≥ offset) || (decide (offset > e.off) && decide (offset < e.off + e.size))
  | none => true

inductive Variant | mem | db
deriving DecidableEq, Repr

/-- `ChunkEntryForOffset`.
memory store (estargz.go): `ents := r.chunks[name]; if len(ents) < 2 { if offset >= e.ChunkSize
{ none } else e }` and the binary search otherwise.  The table of a single-chunk file is `[⟨0,size⟩]`,
of an empty file `[]` (its `reg` entry has `ChunkSize = 0`, so every offset is `>= ChunkSize`).
db store (db/reader.go): the binary search over whatever chunks are registered. -/
def chunkEntryForOffset (v : Variant) (t : List Chunk) (offset : Nat) : Option Chunk :=
  match v with
  | .mem =>
    if t.length < 2 then
      match t with
      | [e] => if offset ≥ e.size then none else some e
      | _ => none
    else t[searchFirst t.length (chunkPred t offset)]?
  | .db => t[searchFirst t.length (chunkPred t offset)]?

/-! ## 2. The read stack -/

/-- Key of the uncompressed chunk cache: `genID(id, chunkOffset, chunkSize)`. -/
structure ChunkId where
  file : Nat
  off : Nat
  size : Nat
deriving DecidableEq, Hashable, Repr

/-- The uncompressed chunk cache (`reader.cache`). -/
abbrev Cache := ChunkId → Option Bytes

def Cache.empty : Cache := fun _ => none

/-- `cache.Add` + `Write` + `Commit`. -/
def Cache.put (c : Cache) (id : ChunkId) (d : Bytes) : Cache :=
  fun k => if k = id then some d else c k

/-- eviction / loss of one entry. -/
def Cache.evict (c : Cache) (id : ChunkId) : Cache :=
  fun k => if k = id then none else c k

/-- an entry that lost its tail (partially written / truncated cache file). -/
def Cache.truncate (c : Cache) (id : ChunkId) (k : Nat) : Cache :=
  fun key => if key = id then (c key).map (·.take k) else c key

/-- What one operation gets when it decompresses a chunk out of the blob: `none` = the blob read or
the decompression failed, `some b` = the bytes delivered (not necessarily genuine). -/
abbrev Under := ChunkId → Option Bytes

/-- Per-layer parameters of the read path. -/
structure Env where
  /-- `reader.verifyChunk`: digest comparison (constantly `true` when verification is off). -/
  verify : ChunkId → Bytes → Bool
  /-- The other chunks the pre-reader is offered when `id` is decompressed (chunks sharing the
  gzip/zstd member); `none` = the decompression loop itself fails (see `preRun`). -/
  co : ChunkId → Option (List ChunkId)

/-- The pre-reader callback of `reader.OpenFile` (and `readAndCache` when called as pre-reader of
`Cache`): cached ⇒ skip; else `ReadFull`, verify, cache.  Returns the cache and whether every
callback succeeded; entries stored before a failure stay. -/
def preStore (E : Env) (u : Under) : Cache → List ChunkId → Cache × Bool
  | c, [] => (c, true)
  | c, e :: es =>
    match c e with
    | some _ => preStore E u c es
    | none =>
      match u e with
      | none => (c, false)
      | some b =>
        if b.length = e.size ∧ E.verify e b = true then preStore E u (c.put e b) es else (c, false)

/-- `sf.fr.ReadAt(ip, chunkOffset)` for one whole chunk followed by `verifyAndCache`
(= the body shared by both miss branches of `file.ReadAt` and by `readAndCache`). -/
def fetchChunk (E : Env) (u : Under) (c : Cache) (id : ChunkId) : Cache × Option Bytes :=
  match E.co id with
  | none => (c, none)
  | some others =>
    match preStore E u c others with
    | (c1, false) => (c1, none)
    | (c1, true) =>
      match u id with
      | none => (c1, none)
      | some b =>
        if b.length = id.size ∧ E.verify id b = true then (c1.put id b, some b) else (c1, none)

/-- A regular file as the reader sees it. -/
structure FileInfo where
  id : Nat
  variant : Variant
  table : List Chunk
  /-- `Attr.Size`. -/
  size : Nat
  /-- `GetOffset(id)`: compressed offset of the first chunk (0 for an empty file). -/
  firstOff : Nat
deriving Repr

inductive Outcome
  | ok (b : Bytes)
  | err
  | diverge            -- the Go loop would not terminate
deriving DecidableEq, Repr

/-- The loop of `file.ReadAt(p, offset)` with `len(p) = n`; `acc` are the bytes produced so far
(`nr = acc.length`). -/
def readLoop (E : Env) (u : Under) (f : FileInfo) (off n : Nat) :
    Nat → Cache → Bytes → Cache × Outcome
  | 0, c, _ => (c, .diverge)
  | fuel + 1, c, acc =>
    let nr := acc.length
    if nr < n then
      match chunkEntryForOffset f.variant f.table (off + nr) with
      | none => (c, .ok acc)                                  -- `if !ok { break }`
      | some ch =>
        let id : ChunkId := ⟨f.id, ch.off, ch.size⟩
        let lower := off - ch.off                              -- positive(offset - chunkOffset)
        let upper := ch.off + ch.size - (off + n)              -- positive(chunkOffset+chunkSize-(offset+len(p)))
        let expected := ch.size - upper - lower
        if ch.size = 0 ∨ expected = 0 ∨ expected > n - nr then (c, .err)
        else
          -- cache hit: `r.ReadAt(p[nr:nr+expected], lower)` must deliver `expected` bytes
          let hit : Option Bytes :=
            match c id with
            | some d => let s := slice d lower expected; if s.length = expected then some s else none
            | none => none
          match hit with
          | some s => readLoop E u f off n fuel c (acc ++ s)
          | none =>
            match fetchChunk E u c id with
            | (c1, none) => (c1, .err)
            | (c1, some b) =>
              if lower = 0 ∧ upper = 0 then
                -- the chunk is read straight into p[nr:nr+chunkSize]
                readLoop E u f off n fuel c1 (acc ++ b)
              else
                -- copy(p[nr:], ip[lower:chunkSize-upper]) through the temporary buffer
                let s := slice b lower (ch.size - upper - lower)
                if s.length ≠ expected then (c1, .err)
                else readLoop E u f off n fuel c1 (acc ++ s)
    else (c, .ok acc)

/-- `file.ReadAt(p, off)` with `len(p) = n`, i.e. `node.Open` + `file.Read(dest, off)`.
Every round adds at least one byte, so `n + 1` rounds are enough (`fileReadAt_ne_diverge`). -/
def fileReadAt (E : Env) (u : Under) (f : FileInfo) (c : Cache) (off n : Nat) : Cache × Outcome :=
  readLoop E u f off n (n + 1) c []

/-! ### prefetch-stores: `readAndCache` / `cacheWithReader` -/

/-- `readAndCache` for one chunk: cached ⇒ nothing to do. -/
def storeChunk (E : Env) (u : Under) (c : Cache) (id : ChunkId) : Cache × Bool :=
  match c id with
  | some _ => (c, true)
  | none =>
    match fetchChunk E u c id with
    | (c1, some _) => (c1, true)
    | (c1, none) => (c1, false)

/-- `for nr < e.Size { ChunkEntryForOffset(nr); nr += chunkSize; readAndCache }` for one file.
Fuel exhaustion (`false`) = a zero-sized chunk, where the Go loop does not terminate (C04). -/
def cacheFileLoop (E : Env) (u : Under) (f : FileInfo) : Nat → Nat → Cache → Cache × Bool
  | 0, _, c => (c, false)
  | fuel + 1, nr, c =>
    if nr < f.size then
      match chunkEntryForOffset f.variant f.table nr with
      | none => (c, true)
      | some ch =>
        match storeChunk E u c ⟨f.id, ch.off, ch.size⟩ with
        | (c1, true) => cacheFileLoop E u f fuel (nr + ch.size) c1
        | (c1, false) => (c1, false)
    else (c, true)

def cacheFile (E : Env) (u : Under) (f : FileInfo) (c : Cache) : Cache × Bool :=
  cacheFileLoop E u f (f.size + 1) 0 c

/-- `cacheWithReader` over the regular files of the tree with the offset filter. The Go code runs
the chunk stores concurrently and reports the first error; on success the resulting cache is the
one computed here (stores go to distinct keys or store identical bytes). -/
def cacheFiltered (E : Env) (u : Under) (filter : Nat → Bool) : List FileInfo → Cache → Cache × Bool
  | [], c => (c, true)
  | f :: fs, c =>
    if filter f.firstOff then
      match cacheFile E u f c with
      | (c1, true) => cacheFiltered E u filter fs c1
      | (c1, false) => (c1, false)
    else cacheFiltered E u filter fs c

/-! ### histories -/

inductive Op
  | read (f : FileInfo) (off n : Nat) (u : Under)
  | store (id : ChunkId) (u : Under)
  | cacheFiles (filter : Nat → Bool) (fs : List FileInfo) (u : Under)
  | evict (id : ChunkId)
  | truncate (id : ChunkId) (k : Nat)

def step (E : Env) (c : Cache) : Op → Cache × Outcome
  | .read f off n u => fileReadAt E u f c off n
  | .store id u => let r := storeChunk E u c id; (r.1, if r.2 then .ok [] else .err)
  | .cacheFiles fl fs u => let r := cacheFiltered E u fl fs c; (r.1, if r.2 then .ok [] else .err)
  | .evict id => (c.evict id, .ok [])
  | .truncate id k => (c.truncate id k, .ok [])

def runOps (E : Env) : List Op → Cache → Cache
  | [], c => c
  | op :: ops, c => runOps E ops (step E c op).1

/-! ### the pre-read run, as coded (memory store) -/

/-- One TOC entry as far as `initFields`/`fileReader.ReadAt` look at it. -/
structure TocEnt where
  data : Bool            -- `isDataType()`: reg or chunk
  file : Nat
  coff : Nat
  csize : Nat
  offset : Nat           -- `Offset` (0 for entries without payload)
  inner : Nat            -- `InnerOffset`
deriving Repr

/-- `chunkTopIndex` of every entry (`initFields`): for reg/chunk entries
`if ent.Offset != Entries[top].Offset { top = i }`. -/
def topIndices (ents : List TocEnt) : List Nat :=
  let rec go (all : List TocEnt) : List TocEnt → Nat → Nat → List Nat
    | [], _, _ => []
    | e :: es, i, top =>
      let top' := if e.data then
          (match all[top]? with
           | some t => if e.offset ≠ t.offset then i else top
           | none => i)
        else top
      top' :: go all es (i + 1) top'
  go ents ents 0 0

/-- The loop `for _, e := range toc.Entries[ent.chunkTopIndex:]` of `fileReader.ReadAt` for the
target entry at index `ti` (as of 8686934: empty regular files are skipped): the other chunks handed
to the pre-reader, or `none` when an
`io.CopyN(io.Discard, dr, e.InnerOffset-nr)` is asked for a negative count (which it reports as an
error) or the target is not met. `nr` is tracked as in the code assuming every pre-read chunk is
consumed (cached chunks are skipped by the callback without reading; the next discard then skips
them, and the count still works out because `InnerOffset` only grows inside a member). -/
def preRunMemWith (tops : List Nat) (ents : List TocEnt) (ti : Nat) : Option (List ChunkId) :=
  match tops[ti]?, ents[ti]? with
  | some top, some tgt =>
    match ents[top]? with
    | none => none
    | some topE =>
      let rec go : List TocEnt → Nat → Nat → Bool → List ChunkId → Option (List ChunkId)
        | [], _, _, found, acc => if found then some acc.reverse else none
        | e :: es, i, nr, found, acc =>
          if !e.data then go es (i + 1) nr found acc
          -- `if e.Type == "reg" && e.Size == 0 { continue }` (8686934): an empty file has no data in any stream
          else if e.csize = 0 ∧ e.coff = 0 then go es (i + 1) nr found acc
          else if e.offset ≠ topE.offset then (if found then some acc.reverse else none)
          else if e.inner < nr then none
          else if i = ti then go es (i + 1) e.inner true acc
          else go es (i + 1) (e.inner + e.csize) found (⟨e.file, e.coff, e.csize⟩ :: acc)
      let _ := tgt
      go (ents.drop top) top 0 false []
  | _, _ => none

/-- `preRunMemWith` with the `chunkTopIndex` values computed as `initFields` does (the driver
computes them once per layer). -/
def preRunMem (ents : List TocEnt) (ti : Nat) : Option (List ChunkId) :=
  preRunMemWith (topIndices ents) ents ti

/-- db store (`readInnerChunks`): every other non-empty chunk stored under the same stream offset;
a stream holding a single chunk at inner offset 0 is read without pre-reading. -/
def preRunDb (ents : List TocEnt) (ti : Nat) : Option (List ChunkId) :=
  match ents[ti]? with
  | none => none
  | some tgt =>
    let same := (ents.zipIdx).filter fun (e, _) => e.data && e.csize > 0 && e.offset == tgt.offset
    some ((same.filter fun (_, i) => i ≠ ti).map fun (e, _) => ⟨e.file, e.coff, e.csize⟩)

/-! ## 3. `fileModeToSystemMode` / `entryToAttr` -/

/-- Entry types after hardlink resolution. -/
inductive NType | reg | dir | symlink | char | block | fifo | socket
deriving DecidableEq, Repr

/-- `os.FileMode` as far as it is used: type + permission bits + the three special bits. -/
structure FileMode where
  type : NType
  perm : Nat            -- `m & os.ModePerm`, < 512
  setuid : Bool
  setgid : Bool
  sticky : Bool
deriving DecidableEq, Repr

def S_IFREG : Nat := 0o100000
def S_IFDIR : Nat := 0o040000
def S_IFLNK : Nat := 0o120000
def S_IFCHR : Nat := 0o020000
def S_IFBLK : Nat := 0o060000
def S_IFIFO : Nat := 0o010000
def S_IFSOCK : Nat := 0o140000
def S_ISUID : Nat := 0o4000
def S_ISGID : Nat := 0o2000
def S_ISVTX : Nat := 0o1000

def typeBits : NType → Nat
  | .reg => S_IFREG | .dir => S_IFDIR | .symlink => S_IFLNK | .char => S_IFCHR
  | .block => S_IFBLK | .fifo => S_IFIFO | .socket => S_IFSOCK

/-- `fileModeToSystemMode`. The Go code ORs disjoint bit groups, so `+` is `|` here
(`sysMode_bits` in the lemmas). -/
def fileModeToSystemMode (m : FileMode) : Nat :=
  m.perm % 512 + typeBits m.type
    + (if m.setuid then S_ISUID else 0) + (if m.setgid then S_ISGID else 0)
    + (if m.sticky then S_ISVTX else 0)

/-- `metadata.Attr` as far as `entryToAttr` reads it. -/
structure Attr where
  mode : FileMode
  size : Nat
  linkName : String
  uid : Nat
  gid : Nat
  devMajor : Nat
  devMinor : Nat
  numLink : Nat
deriving DecidableEq, Repr

structure FuseAttr where
  ino : Nat
  size : Nat
  blksize : Nat
  blocks : Nat
  mode : Nat
  uid : Nat
  gid : Nat
  rdev : Nat
  nlink : Nat
deriving DecidableEq, Repr

/-- `unix.Mkdev(major, minor)` truncated to `uint32` as `entryToAttr` does. -/
def mkdev (major minor : Nat) : Nat :=
  (((major % 4294967296) &&& 0x00000fff) <<< 8
    ||| ((major % 4294967296) &&& 0xfffff000) <<< 32
    ||| ((minor % 4294967296) &&& 0x000000ff)
    ||| ((minor % 4294967296) &&& 0xffffff00) <<< 12) % 4294967296

/-- `entryToAttr`. -/
def entryToAttr (ino : Nat) (e : Attr) : FuseAttr :=
  let size := if e.mode.type = .symlink then e.linkName.utf8ByteSize else e.size
  { ino := ino
    size := size
    blksize := 4096
    blocks := (size + 4096 - 1) / 4096 * 8
    mode := fileModeToSystemMode e.mode
    uid := e.uid % 4294967296
    gid := e.gid % 4294967296
    rdev := mkdev e.devMajor e.devMinor
    nlink := if e.numLink % 4294967296 = 0 then 1 else e.numLink % 4294967296 }

/-! ## 4. The specification: what a tar archive describes -/

inductive EType | reg | dir | symlink | hardlink | char | block | fifo
deriving DecidableEq, Repr

abbrev Path := List String

/-- One tar header (+ the identity of its payload). -/
structure TarEntry where
  name : Path             -- header name split at '/', not cleaned
  type : EType
  mode : Nat              -- header mode: permission bits + 04000/02000/01000
  uid : Nat
  gid : Nat
  size : Nat
  link : String           -- symlink: target verbatim
  linkPath : Path         -- hardlink: target name split at '/'
  devMajor : Nat
  devMinor : Nat
  xattrs : List (String × Bytes)
  content : Nat           -- which payload (index into the harness' payload table)
deriving Repr

/-- Go `path.Clean("/" + name)` minus the leading slash, on components: drops empty and `.`
components, `..` pops (never above the root). `acc` is reversed. -/
def cleanGo : List String → List String → Path
  | acc, [] => acc.reverse
  | acc, c :: cs =>
    if c = "" ∨ c = "." then cleanGo acc cs
    else if c = ".." then cleanGo acc.tail cs
    else cleanGo (c :: acc) cs

def cleanName (p : Path) : Path := cleanGo [] p

/-- A node of the described filesystem. -/
structure Node where
  type : NType
  mode : Nat              -- header mode &&& 0o7777
  uid : Nat
  gid : Nat
  size : Nat
  link : String
  devMajor : Nat
  devMinor : Nat
  xattrs : List (String × Bytes)
  content : Nat
  nlink : Nat
deriving Repr

def ntypeOf : EType → NType
  | .reg => .reg | .dir => .dir | .symlink => .symlink | .hardlink => .reg
  | .char => .char | .block => .block | .fifo => .fifo

/-- last duplicate wins (and keeps the position of the last occurrence). -/
def dedupLast : List (Path × TarEntry) → List (Path × TarEntry)
  | [] => []
  | x :: xs => if xs.any (fun y => y.1 = x.1) then dedupLast xs else x :: dedupLast xs

def findEntry (es : List (Path × TarEntry)) (p : Path) : Option TarEntry :=
  (es.find? (fun x => x.1 = p)).map (·.2)

/-- Follow hardlinks by name until a real entry is met. -/
def resolve (es : List (Path × TarEntry)) : Nat → Path → Option (Path × TarEntry)
  | 0, _ => none
  | fuel + 1, p =>
    match findEntry es p with
    | none => none
    | some e => if e.type = .hardlink then resolve es fuel (cleanName e.linkPath) else some (p, e)

/-- All proper ancestors of a path (the root `[]` included, the path itself excluded). -/
def ancestors (p : Path) : List Path := (List.range p.length).map fun k => p.take k

structure View where
  /-- every path that exists, without duplicates -/
  paths : List Path
  node : Path → Option Node

def isDirAt (es : List (Path × TarEntry)) (allPaths : List Path) (p : Path) : Bool :=
  allPaths.contains p &&
    match findEntry es p with
    | some e => e.type = .dir
    | none => true          -- implicit directory

/-- The filesystem a tar archive describes (after `Build`): last duplicate wins, missing parents
are directories 0755 root:root, a hardlink is another name of its target, link counts are
`1 + #hardlinks` for non-directories and `2 + #subdirectories` for directories — except that the
code reports one less for a root directory that has its own tar entry (`./`), which is kept here
because C02 compares what is served, and `nlink = 0` never shows (FUSE normalisation `0 ↦ 1`). -/
def tarView (tar : List TarEntry) : View :=
  let es := dedupLast (tar.map fun e => (cleanName e.name, e))
  let named := es.map (·.1)
  let allPaths := (([] : Path) :: named ++ named.flatMap ancestors).eraseDups
  let fuel := es.length + 1
  let node (p : Path) : Option Node :=
    if !allPaths.contains p then none else
    match findEntry es p with
    | none =>
      let subdirs := (allPaths.filter fun q => q ≠ [] ∧ q.dropLast = p ∧ isDirAt es allPaths q).length
      some { type := .dir, mode := 0o755, uid := 0, gid := 0, size := 0, link := "", devMajor := 0,
             devMinor := 0, xattrs := [], content := 0, nlink := 2 + subdirs }
    | some _ =>
      match resolve es fuel p with
      | none => none
      | some (q, e) =>
        let nlink :=
          if e.type = .dir then
            (if q = [] then 1 else 2)
              + (allPaths.filter fun r => r ≠ [] ∧ r.dropLast = q ∧ isDirAt es allPaths r).length
          else
            1 + (es.filter fun x => x.2.type == .hardlink &&
                  (match resolve es fuel x.1 with | some (r, _) => r == q | none => false)).length
        some { type := ntypeOf e.type, mode := e.mode % 4096, uid := e.uid, gid := e.gid,
               size := if e.type = .reg then e.size else 0,
               link := if e.type = .symlink then e.link else "",
               devMajor := if e.type = .char ∨ e.type = .block then e.devMajor else 0,
               devMinor := if e.type = .char ∨ e.type = .block then e.devMinor else 0,
               xattrs := e.xattrs, content := e.content, nlink := nlink }
  { paths := allPaths, node := node }

/-- names directly below `p`. -/
def View.children (v : View) (p : Path) : List String :=
  (v.paths.filter fun q => q ≠ [] ∧ q.dropLast = p).filterMap fun q => q.getLast?

/-- `TOCEntry.Stat().Mode()` + `attrFromTOCEntry` for a node of the view. -/
def Node.toAttr (n : Node) : Attr :=
  { mode := { type := n.type, perm := n.mode % 512,
              setuid := n.mode / 2048 % 2 = 1, setgid := n.mode / 1024 % 2 = 1,
              sticky := n.mode / 512 % 2 = 1 }
    size := n.size, linkName := n.link, uid := n.uid, gid := n.gid,
    devMajor := n.devMajor, devMinor := n.devMinor, numLink := n.nlink }

/-! ## 5. Prefetch, background fetch, waiter, Once (C15) -/

/-- What `layer.prefetch` / `backgroundFetch` know about the layer. -/
structure Layer where
  /-- regular files met by the walk of `cacheWithReader` (TOC JSON excluded, landmarks included) -/
  files : List FileInfo
  /-- root has a child `.no.prefetch.landmark` -/
  noPrefetch : Bool
  /-- `Offset` of the root's child `.prefetch.landmark` -/
  prefetchOff : Option Nat
  blobSize : Nat

/-- The prefetch size chosen by `layer.prefetch`: `none` = "do not prefetch this layer". -/
def prefetchRange (L : Layer) (cfg : Nat) : Option Nat :=
  if L.noPrefetch then none
  else match L.prefetchOff with
    | some o => some o
    | none => some (if cfg > L.blobSize then L.blobSize else cfg)

/-- End (exclusive) of the blob bytes `blob.Cache(0, r)` asks for, chunk granular:
`region{floor(0), ceil(0+r-1) - 1}` walked while `i < size`.  Go's `ceil(-1, chunk)` is `chunk`
(integer division truncates towards zero), so `r = 0` still asks for the first chunk when the
request is not split (`prefetchChunk ≤ chunk`); when it is split the loop body never runs. -/
def cacheRegionEnd (chunk prefetchChunk size r : Nat) : Nat :=
  if r = 0 then (if prefetchChunk ≤ chunk then min size chunk else 0)
  else min size (((r - 1) / chunk + 1) * chunk)

inductive PResult | ok | failed
deriving DecidableEq, Repr

/-- State of one `layer` object as far as C15 is concerned. -/
structure LState where
  cache : Cache
  waiterClosed : Bool := false
  prefetchOnce : Bool := false
  bgOnce : Bool := false
  /-- arguments of the `blob.Cache` calls made so far: `(offset, size)` -/
  cacheCalls : List (Nat × Nat) := []
  /-- blob bytes `[0, e)` asked for by those calls -/
  requested : Nat := 0
  prefetchSize : Nat := 0

/-- Blob configuration. -/
structure BlobCfg where
  chunk : Nat
  prefetchChunk : Nat

/-- `layer.prefetch` (the body run under `prefetchOnce`).  `blobOk` = `l.blob.Cache` succeeded.
`defer l.prefetchWaiter.done()` closes the waiter on every path. -/
def prefetchBody (L : Layer) (E : Env) (B : BlobCfg) (cfg threshold : Nat) (blobOk : Bool)
    (u : Under) (s : LState) : LState × PResult :=
  match prefetchRange L cfg with
  | none => ({ s with waiterClosed := true }, .ok)
  | some r =>
    -- `if threshold > 0 && prefetchSize > threshold { l.prefetchWaiter.done() }`
    let s1 := if threshold > 0 ∧ r > threshold then { s with waiterClosed := true } else s
    let s2 := { s1 with cacheCalls := s1.cacheCalls ++ [(0, r)],
                        requested := max s1.requested (cacheRegionEnd B.chunk B.prefetchChunk L.blobSize r) }
    if !blobOk then ({ s2 with waiterClosed := true }, .failed)
    else
      let s3 := { s2 with prefetchSize := r }
      match cacheFiltered E u (fun o => decide (o < r)) L.files s3.cache with
      | (c, true) => ({ s3 with cache := c, waiterClosed := true }, .ok)
      | (c, false) => ({ s3 with cache := c, waiterClosed := true }, .failed)

/-- `layer.Prefetch`: `prefetchOnce.Do(...)`; a later call returns nil without doing anything. -/
def prefetch (L : Layer) (E : Env) (B : BlobCfg) (cfg threshold : Nat) (blobOk : Bool)
    (u : Under) (s : LState) : LState × PResult :=
  if s.prefetchOnce then (s, .ok)
  else prefetchBody L E B cfg threshold blobOk u { s with prefetchOnce := true }

/-- `layer.BackgroundFetch`: `backgroundFetchOnce.Do(backgroundFetch)`; every file, no filter. -/
def backgroundFetch (L : Layer) (E : Env) (u : Under) (s : LState) : LState × PResult :=
  if s.bgOnce then (s, .ok)
  else
    match cacheFiltered E u (fun _ => true) L.files s.cache with
    | (c, true) => ({ s with cache := c, bgOnce := true }, .ok)
    | (c, false) => ({ s with cache := c, bgOnce := true }, .failed)

/-- What can happen while somebody sits in `waiter.wait(timeout)`. -/
inductive WEvent
  | done       -- `waiter.done()` by prefetch (end, failure or async threshold)
  | timeout    -- `time.After(timeout)` fires
  | other      -- anything else
deriving DecidableEq, Repr

inductive WaitRes | nil | timedOut
deriving DecidableEq, Repr

/-- `waiter.wait`: `select { case <-time.After(timeout): w.done(); return err; case <-w.doneCh: return nil }`.
Returns the new `closed` flag and `none` while still blocked after the given events. -/
def waitOn : Bool → List WEvent → Bool × Option WaitRes
  | true, _ => (true, some .nil)
  | false, [] => (false, none)
  | false, .done :: _ => (true, some .nil)
  | false, .timeout :: _ => (true, some .timedOut)
  | false, .other :: evs => waitOn false evs

/-- `sync.Once`. -/
structure Once where
  done : Bool := false
deriving DecidableEq, Repr

def Once.run {σ : Type} (o : Once) (f : σ → σ) (s : σ) : Once × σ :=
  if o.done then (o, s) else ({ done := true }, f s)

end SV.LazyRead
