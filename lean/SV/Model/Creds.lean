/-
Model for C18 — registry credentials and custom headers reach only their own image and host.
Core-only (the driver links this file).

Part K (keychain)
  service/keychain/cri/cri.go     : instrumentedService.{PullImage, RemoveImage, credentials},
                                    parseReference
  service/resolver/cri.go         : ParseAuth
  service/resolver/registry.go    : multiCredsFuncs
Part F (fetcher headers)
  fs/remote/resolver.go           : newHTTPFetcher, transport.RoundTrip, redirect, getSize,
                                    httpFetcher.{fetch, check, refreshURL}
  fs/remote/blob.go               : blob.Refresh (replaces the fetcher only on success)

What is a PARAMETER, not modelled
  * `norm : String → Option Ref` — `distribution.ParseDockerRef` followed by containerd's
    `reference.Parse(..).String()`.  All keychain definitions and theorems take `norm` as an
    argument.  `normDocker` below is a concrete instance covering the simple grammar
    `[domain/]path[:tag][@sha256:<64 hex>]` (docker.io / index.docker.io aliasing, `library/`
    prefix, default tag, tag dropped when a digest is present, upper-case repository rejected);
    the driver uses it and the correspondence compares it with the real `parseReference` on every
    generated image name.  The validity regular expressions of the distribution grammar are only
    approximated (`validRemote`, `validTag`, `validDigest`): outside the generated grammar
    `normDocker` is not claimed to agree with the library.
  * `urlHost : String → Option String` models `url.Parse(s).Host` (`none` = parse error) for
    strings without `%` in the authority and without IP-literals (`[..]`); both are answered
    `none` here (the library accepts a few of them).
  * base64: `b64decode` is `base64.StdEncoding.Decode` (padded, non-strict, CR/LF ignored).
  * the docker.Authorizer token flow: only its effect on `transport.RoundTrip` is modelled
    (`Authz`): a 401 is answered by one retry of the same request, by an error, or not at all.
  * HTTP bodies (Content-Length / Content-Range / multipart syntax) — a 200/206 is taken to be
    well formed.
-/
namespace SV.Creds

abbrev Bytes := List UInt8
abbrev Ref := String

/-! ## Part K.1 — small string helpers (on `List Char`) -/

def isAlpha (c : Char) : Bool := ('a' ≤ c && c ≤ 'z') || ('A' ≤ c && c ≤ 'Z')
def isLower (c : Char) : Bool := 'a' ≤ c && c ≤ 'z'
def isUpper (c : Char) : Bool := 'A' ≤ c && c ≤ 'Z'
def isDigit (c : Char) : Bool := '0' ≤ c && c ≤ '9'
def isHexLower (c : Char) : Bool := isDigit c || ('a' ≤ c && c ≤ 'f')
def isHex (c : Char) : Bool := isHexLower c || ('A' ≤ c && c ≤ 'F')

/-- `strings.Cut(s, sep)` for a one-character separator. -/
def cut (sep : Char) (s : List Char) : Option (List Char × List Char) :=
  if s.contains sep then
    some (s.takeWhile (· != sep), (s.dropWhile (· != sep)).drop 1)
  else none

/-- Part of `s` before the first `sep` (all of `s` when absent). -/
def before (sep : Char) (s : List Char) : List Char := s.takeWhile (· != sep)

/-- `strings.LastIndex(s, sep)`. -/
def lastIdx (sep : Char) (s : List Char) : Option Nat :=
  let r := s.reverse
  if r.contains sep then some (s.length - 1 - (r.takeWhile (· != sep)).length) else none

def startsWith (p s : List Char) : Bool := s.take p.length == p

/-! ## Part K.2 — `url.Parse(s).Host` -/

/-- `getScheme`: `none` = "missing protocol scheme"; otherwise (scheme, rest). -/
def getScheme (s : List Char) : Option (List Char × List Char) :=
  go s []
where
  go : List Char → List Char → Option (List Char × List Char)
    | [], _ => some ([], s)
    | c :: cs, acc =>
      if isAlpha c then go cs (c :: acc)
      else if isDigit c || c == '+' || c == '-' || c == '.' then
        if acc.isEmpty then some ([], s) else go cs (c :: acc)
      else if c == ':' then
        if acc.isEmpty then none else some (acc.reverse, cs)
      else some ([], s)

/-- `validOptionalPort`. -/
def validOptionalPort : List Char → Bool
  | [] => true
  | ':' :: ds => ds.all isDigit
  | _ => false

/-- `!shouldEscape(c, encodeHost)` for ASCII; non-ASCII passes `unescape` unchanged.
`%` is answered `false` (see the header comment). -/
def hostCharOK (c : Char) : Bool :=
  c.toNat ≥ 0x80 || isAlpha c || isDigit c || "-_.~!$&'()*+,;=:[]<>\"".toList.contains c

/-- `validUserinfo`. -/
def userinfoCharOK (c : Char) : Bool :=
  isAlpha c || isDigit c || "-._:~!$&'()*+,;=%@".toList.contains c

/-- Well-formed `%XX` escapes (the only error of `unescape` in path/fragment/userinfo mode). -/
def escOK : List Char → Bool
  | [] => true
  | '%' :: a :: b :: r => isHex a && isHex b && escOK r
  | '%' :: _ => false
  | _ :: r => escOK r

/-- `parseHost` (without IP-literals). -/
def parseHost (h : List Char) : Option (List Char) :=
  if h.head? == some '[' then none
  else
    let portOK := match lastIdx ':' h with
      | none => true
      | some i => validOptionalPort (h.drop i)
    if !portOK then none
    else if h.all hostCharOK then some h else none

/-- `parseAuthority`. -/
def parseAuthority (a : List Char) : Option (List Char) :=
  match lastIdx '@' a with
  | none => parseHost a
  | some i =>
    match parseHost (a.drop (i + 1)) with
    | none => none
    | some h =>
      let ui := a.take i
      if ui.all userinfoCharOK && escOK ui then some h else none

def isCTL (c : Char) : Bool := c.toNat < 0x20 || c.toNat == 0x7f

/-- `url.Parse(s)`: `none` = error, `some h` = the `Host` field. -/
def urlHostL (s : List Char) : Option (List Char) :=
  let u := before '#' s
  let frag := (s.dropWhile (· != '#')).drop 1
  if u.any isCTL then none
  else if u == ['*'] then (if escOK frag then some [] else none)
  else match getScheme u with
    | none => none
    | some (scheme, rest0) =>
      let rest := before '?' rest0
      let r : Option (List Char) :=
        if rest.head? != some '/' then
          if !scheme.isEmpty then some []                            -- opaque
          else if (before '/' rest).contains ':' then none           -- first path segment has a colon
          else if escOK rest then some [] else none
        else if startsWith ['/', '/'] rest && (!scheme.isEmpty || !startsWith ['/', '/', '/'] rest) then
          let a := rest.drop 2
          match parseAuthority (before '/' a) with
          | none => none
          | some h => if escOK (a.dropWhile (· != '/')) then some h else none
        else if escOK rest then some [] else none
      match r with
      | none => none
      | some h =>
        -- an opaque URL returns before the fragment is looked at only inside `parse`;
        -- `Parse` still calls `setFragment` afterwards.
        if escOK frag then some h else none

def urlHost (s : String) : Option String := (urlHostL s.toList).map String.ofList

/-! ## Part K.3 — base64 (`base64.StdEncoding.Decode`) -/

def b64val (c : UInt8) : Option Nat :=
  let n := c.toNat
  if 65 ≤ n ∧ n ≤ 90 then some (n - 65)
  else if 97 ≤ n ∧ n ≤ 122 then some (n - 97 + 26)
  else if 48 ≤ n ∧ n ≤ 57 then some (n - 48 + 52)
  else if n = 43 then some 62
  else if n = 47 then some 63
  else none

def b64quad (a b c d : Nat) : Bytes :=
  let v := ((a * 64 + b) * 64 + c) * 64 + d
  [UInt8.ofNat (v / 65536 % 256), UInt8.ofNat (v / 256 % 256), UInt8.ofNat (v % 256)]

/-- Quanta of four characters; `=` only in the last quantum (`xx==` or `xxx=`). -/
def b64go : List UInt8 → Option Bytes
  | [] => some []
  | [a, b, c, d] =>
    match b64val a, b64val b with
    | some a, some b =>
      if c == 61 then
        (if d == 61 then some ((b64quad a b 0 0).take 1) else none)
      else match b64val c with
        | none => none
        | some c =>
          if d == 61 then some ((b64quad a b c 0).take 2)
          else match b64val d with
            | none => none
            | some d => some (b64quad a b c d)
    | _, _ => none
  | a :: b :: c :: d :: rest =>
    match b64val a, b64val b, b64val c, b64val d, b64go rest with
    | some a, some b, some c, some d, some r => some (b64quad a b c d ++ r)
    | _, _, _, _, _ => none
  | _ => none

/-- `\r` and `\n` are skipped everywhere by the Go decoder. -/
def b64decode (src : Bytes) : Option Bytes :=
  b64go (src.filter fun c => c != 10 && c != 13)

/-- `strings.Trim(s, "\x00")`. -/
def trimNul (b : Bytes) : Bytes :=
  ((b.dropWhile (· == 0)).reverse.dropWhile (· == 0)).reverse

/-! ## Part K.4 — `ParseAuth` -/

/-- `runtime.AuthConfig`. -/
structure AuthConfig where
  username : Bytes := []
  password : Bytes := []
  auth : Bytes := []
  serverAddress : String := ""
  identityToken : Bytes := []
  registryToken : Bytes := []
deriving DecidableEq, Repr

/-- `(username, secret, error)`; an error always comes with two empty strings. -/
inductive Res
  | ok (user secret : Bytes)
  | err
deriving DecidableEq, Repr

def Res.nonEmpty : Res → Bool
  | .ok u s => !u.isEmpty || !s.isEmpty
  | .err => false

/-- The three auth forms, tried in the order of the Go code, after the address check passed. -/
def parseAuthForms (a : AuthConfig) : Res :=
  if a.username ≠ [] then .ok a.username a.password
  else if a.identityToken ≠ [] then .ok [] a.identityToken
  else if a.auth ≠ [] then
    match b64decode a.auth with
    | none => .err
    | some out =>
      -- decoded := make([]byte, DecodedLen(len(auth))): zero padded
      let decoded := out ++ List.replicate (a.auth.length / 4 * 3 - out.length) 0
      -- strings.SplitN(decoded, ":", 2)
      if decoded.contains 58 then
        .ok (decoded.takeWhile (· != 58)) (trimNul ((decoded.dropWhile (· != 58)).drop 1))
      else .err
  else .ok [] []

/-- `ParseAuth(auth, host)`; `none` is the nil `*AuthConfig`. -/
def parseAuth (auth : Option AuthConfig) (host : String) : Res :=
  match auth with
  | none => .ok [] []
  | some a =>
    if a.serverAddress ≠ "" then
      match urlHost a.serverAddress with
      | none => .err
      | some h => if host ≠ h then .ok [] [] else parseAuthForms a
    else parseAuthForms a

/-! ## Part K.5 — the keychain (`instrumentedService`) -/

structure KState where
  /-- `in.cri != nil` -/
  connected : Bool := false
  /-- `in.config`; the stored value may be the nil pointer (`some none`). -/
  config : Ref → Option (Option AuthConfig) := fun _ => none

inductive KOp
  /-- the connect goroutine of `NewCRIKeychain` stored the client -/
  | connect
  /-- `PullImage`; `backendOK` is the answer of the backing CRI service -/
  | pull (image : String) (auth : Option AuthConfig) (backendOK : Bool)
  /-- `RemoveImage` -/
  | remove (image : String) (backendOK : Bool)

/-- One request to the image service: new state and whether it returned without error. -/
def kstep (norm : String → Option Ref) (s : KState) : KOp → KState × Bool
  | .connect => ({ s with connected := true }, true)
  | .pull image auth backendOK =>
    if !s.connected then (s, false)
    else match norm image with
      | none => (s, false)
      | some k =>
        ({ s with config := fun r => if r = k then some auth else s.config r }, backendOK)
  | .remove image backendOK =>
    if !s.connected then (s, false)
    else match norm image with
      | none => (s, false)
      | some k =>
        ({ s with config := fun r => if r = k then none else s.config r }, backendOK)

def krun (norm : String → Option Ref) (s : KState) (ops : List KOp) : KState :=
  ops.foldl (fun s op => (kstep norm s op).1) s

/-- The host under which docker.io credentials are looked up. -/
def aliasHost (host : String) : String :=
  if host = "docker.io" ∨ host = "registry-1.docker.io" then "index.docker.io" else host

/-- `instrumentedService.credentials(host, refspec)`, `ref = refspec.String()`. -/
def credentials (s : KState) (host : String) (ref : Ref) : Res :=
  match s.config ref with
  | some cfg => parseAuth cfg (aliasHost host)
  | none => .ok [] []

/-- Does the request name exactly the reference `ref`? -/
def touches (norm : String → Option Ref) (ref : Ref) : KOp → Bool
  | .connect => false
  | .pull image _ _ => norm image == some ref
  | .remove image _ => norm image == some ref

/-- `multiCredsFuncs(ref, fs...)(host)`. -/
def multiCreds (fs : List (String → Ref → Res)) (host : String) (ref : Ref) : Res :=
  match fs with
  | [] => .ok [] []
  | f :: rest =>
    match f host ref with
    | .err => .err
    | .ok u s => if u ≠ [] ∨ s ≠ [] then .ok u s else multiCreds rest host ref

/-- `RegistryHostsFromConfig`: which header set each returned host carries.  `mirrors[i]` says
whether mirror `i` has a `header` table; the last host is the registry of the reference itself
(no configured headers). -/
def hostHeadersFrom : Nat → List Bool → List (Option Nat)
  | _, [] => [none]
  | i, h :: hs => (if h then some i else none) :: hostHeadersFrom (i + 1) hs

def hostHeaders (mirrors : List Bool) : List (Option Nat) := hostHeadersFrom 0 mirrors

/-! ## Part K.6 — `normDocker`, a concrete `norm` for the simple grammar -/

def splitDockerDomain (name : List Char) : List Char × List Char :=
  match cut '/' name with
  | none => ("docker.io".toList, "library/".toList ++ name)
  | some (d, r) =>
    let (domain, remote) :=
      if d == "localhost".toList then (d, r)
      else if d == "index.docker.io".toList then ("docker.io".toList, r)
      else if d.any (fun c => c == '.' || c == ':') then (d, r)
      else if d.any isUpper then (d, r)
      else ("docker.io".toList, name)
    if domain == "docker.io".toList && !remote.contains '/' then
      (domain, "library/".toList ++ remote)
    else (domain, remote)

/-- Approximation of the path grammar: `/`-separated non-empty components over `[a-z0-9._-]`
that begin and end with an alphanumeric. -/
def validComponent (c : List Char) : Bool :=
  let alnum := fun ch => isLower ch || isDigit ch
  !c.isEmpty && c.all (fun ch => alnum ch || ch == '.' || ch == '_' || ch == '-') &&
    (c.head?.map alnum).getD false && (c.getLast?.map alnum).getD false

def splitOnChar (sep : Char) (s : List Char) : List (List Char) :=
  go s []
where
  go : List Char → List Char → List (List Char)
    | [], acc => [acc.reverse]
    | c :: cs, acc => if c == sep then acc.reverse :: go cs [] else go cs (c :: acc)

def validRemote (p : List Char) : Bool := (splitOnChar '/' p).all validComponent

/-- `[\w][\w.-]{0,127}` -/
def validTag (t : List Char) : Bool :=
  let w := fun ch => isAlpha ch || isDigit ch || ch == '_'
  (t.head?.map w).getD false && t.all (fun ch => w ch || ch == '.' || ch == '-') && t.length ≤ 128

/-- only `sha256:<64 lower-case hex>` is in the modelled grammar -/
def validDigest (d : List Char) : Bool :=
  startsWith "sha256:".toList d && (d.drop 7).length == 64 && (d.drop 7).all isHexLower

/-- `parseReference(image).String()` for the simple grammar. -/
def normDocker (image : String) : Option Ref :=
  let s := image.toList
  if s.isEmpty then none
  else if s.length == 64 && s.all isHexLower then none     -- anchoredIdentifierRegexp
  else
    let (domain, remainder) := splitDockerDomain s
    -- repository name must be lowercase (checked on the part before the first ':')
    if (before ':' remainder).any isUpper then none
    else
      let nameTag := before '@' remainder
      let digest := (remainder.dropWhile (· != '@')).drop 1
      let hasDigest := remainder.contains '@'
      -- the tag separator is the ':' behind the last '/'
      let lastSeg := match lastIdx '/' nameTag with
        | none => nameTag
        | some i => nameTag.drop (i + 1)
      let hasTag := lastSeg.contains ':'
      let tag := (lastSeg.dropWhile (· != ':')).drop 1
      let path := nameTag.take (nameTag.length - (if hasTag then tag.length + 1 else 0))
      if !validRemote path then none
      else if hasTag && !validTag tag then none
      else if hasDigest && !validDigest digest then none
      else if domain.isEmpty then none
      else
        let name := domain ++ ['/'] ++ path
        -- ParseDockerRef: digest wins over tag; TagNameOnly adds "latest"
        if hasDigest then some (String.ofList (name ++ ['@'] ++ digest))
        else if hasTag then some (String.ofList (name ++ [':'] ++ tag))
        else some (String.ofList (name ++ ":latest".toList))

/-! ## Part F — which request carries which configured header set, and where it goes -/

/-- Where a request goes: to the `i`-th configured registry host, or anywhere else
(a redirect target on a host that is none of the configured ones). -/
inductive Target
  | reg (i : Nat)
  | other
deriving DecidableEq, Repr

/-- The function that builds the request. -/
inductive ReqKind
  | redirect   -- `redirect` (also from `refreshURL`): GET Range 0-1 to blobURL
  | head       -- `getSize`: HEAD
  | sizeGet    -- `getSize`: GET fallback
  | fetch      -- `httpFetcher.fetch`
  | check      -- `httpFetcher.check`
deriving DecidableEq, Repr

/-- One HTTP request as seen on the wire.  `carries = some j`: the header set configured for
registry host `j` was copied into the request. -/
structure Req where
  kind : ReqKind
  target : Target
  carries : Option Nat
deriving DecidableEq, Repr

/-- What the server (or the network) does with one request. -/
inductive Ans
  | ok200
  | partial206
  | redirect (loc : Target)   -- 3xx with a Location header
  | redirectNoLoc             -- 3xx without Location
  | unauth401
  | forbidden403
  | badReq400
  | other                     -- any other status
  | netErr                    -- transport error
deriving DecidableEq, Repr

/-- `transport` wrapper: absent (`host.Authorizer == nil`, or AddResponses answers
"not implemented"), or present with `AddResponses` succeeding / failing on a 401. -/
inductive Authz
  | absent
  | retry
  | fail
deriving DecidableEq, Repr

def Ans.isBody : Ans → Bool
  | .ok200 | .partial206 => true
  | _ => false

/-- `tr.RoundTrip(req)`: the requests put on the wire, the answer the caller sees, the unused
rest of the script.  An exhausted script behaves as a transport error. -/
def roundTrip (az : Authz) (k : ReqKind) (t : Target) (c : Option Nat) (sc : List Ans) :
    List Req × Ans × List Ans :=
  let r : Req := ⟨k, t, c⟩
  match sc with
  | [] => ([r], .netErr, [])
  | a :: rest =>
    if a = .unauth401 then
      match az with
      | .absent => ([r], a, rest)
      | .fail => ([r], .netErr, rest)
      | .retry =>
        -- `roundTrip(req.Clone(ctx))`: same URL, same headers
        match rest with
        | [] => ([r, r], .netErr, [])
        | b :: rest' => ([r, r], b, rest')
    else ([r], a, rest)

/-- The decision of `redirect` on the answer to its request to host `i` carrying `c`:
`none` = error, `some (url, header)` otherwise. -/
def redirectResult (i : Nat) (c : Option Nat) : Ans → Option (Target × Option Nat)
  | .ok200 | .partial206 => some (.reg i, c)
  | .redirect loc => some (loc, none)          -- "Do not pass headers to the redirected location."
  | _ => none

/-- `redirect(ctx, blobURL, tr, timeout, header)` with `blobURL` on host `i`. -/
def redirect (az : Authz) (i : Nat) (c : Option Nat) (sc : List Ans) :
    List Req × Option (Target × Option Nat) × List Ans :=
  let (log, a, rest) := roundTrip az .redirect (.reg i) c sc
  (log, redirectResult i c a, rest)

/-- `getSize(ctx, url, tr, timeout, header)`: HEAD, then GET when the HEAD status is not 200. -/
def getSize (az : Authz) (t : Target) (c : Option Nat) (sc : List Ans) :
    List Req × Bool × List Ans :=
  let (l1, a1, r1) := roundTrip az .head t c sc
  match a1 with
  | .netErr => (l1, false, r1)
  | .ok200 => (l1, true, r1)
  | _ =>
    let (l2, a2, r2) := roundTrip az .sizeGet t c r1
    (l1 ++ l2, a2.isBody, r2)

/-- One entry of `fc.hosts(refspec)`. -/
structure HostCfg where
  /-- `host.Host != "" && !strings.Contains(host.Host, "/")` -/
  valid : Bool
  /-- `host.Header` is non-empty -/
  hasHeader : Bool
deriving DecidableEq, Repr

/-- `httpFetcher`. -/
structure FState where
  /-- index of the host of `blobURL` -/
  host : Nat
  /-- `orgHeader` -/
  org : Option Nat
  /-- host of `url` -/
  url : Target
  /-- `header` -/
  hdr : Option Nat
  single : Bool
deriving DecidableEq, Repr

/-- The `for _, host := range reghosts` loop of `newHTTPFetcher`, from index `i` on. -/
def newFetcherFrom (az : Authz) (force : Bool) : Nat → List HostCfg → List Ans →
    List Req × Option FState × List Ans
  | _, [], sc => ([], none, sc)
  | i, h :: hs, sc =>
    if !h.valid then newFetcherFrom az force (i + 1) hs sc
    else
      let org := if h.hasHeader then some i else none
      match redirect az i org sc with
      | (l1, none, r1) =>
        let (l, f, r) := newFetcherFrom az force (i + 1) hs r1
        (l1 ++ l, f, r)
      | (l1, some (u, hd), r1) =>
        match getSize az u hd r1 with
        | (l2, false, r2) =>
          let (l, f, r) := newFetcherFrom az force (i + 1) hs r2
          (l1 ++ l2 ++ l, f, r)
        | (l2, true, r2) =>
          (l1 ++ l2, some { host := i, org := org, url := u, hdr := hd, single := force }, r2)

/-- `newHTTPFetcher` (+ `ForceSingleRangeMode`). -/
def newFetcher (az : Authz) (force : Bool) (hosts : List HostCfg) (sc : List Ans) :
    List Req × Option FState × List Ans :=
  newFetcherFrom az force 0 hosts sc

/-- `refreshURL`: `none` = error, the fetcher is left as it was. -/
def refreshURL (az : Authz) (st : FState) (sc : List Ans) :
    List Req × Option FState × List Ans :=
  match redirect az st.host st.org sc with
  | (log, some (u, h), rest) => (log, some { st with url := u, hdr := h }, rest)
  | (log, none, rest) => (log, none, rest)

/-- `fetch(ctx, rs, retry = true)`: requests, new fetcher state, whether a body is returned. -/
def fetch (az : Authz) (st : FState) (sc : List Ans) : List Req × FState × Bool × List Ans :=
  let (l1, a, r1) := roundTrip az .fetch st.url st.hdr sc
  match a with
  | .ok200 | .partial206 => (l1, st, true, r1)
  | .forbidden403 =>
    match refreshURL az st r1 with
    | (l2, none, r2) => (l1 ++ l2, st, false, r2)
    | (l2, some st', r2) =>
      -- `f.fetch(ctx, rs, false)`
      let (l3, a3, r3) := roundTrip az .fetch st'.url st'.hdr r2
      (l1 ++ l2 ++ l3, st', a3.isBody, r3)
  | .badReq400 =>
    if st.single then (l1, st, false, r1)
    else
      let st' := { st with single := true }
      let (l3, a3, r3) := roundTrip az .fetch st'.url st'.hdr r1
      (l1 ++ l3, st', a3.isBody, r3)
  | _ => (l1, st, false, r1)

/-- `check()`. -/
def check (az : Authz) (st : FState) (sc : List Ans) : List Req × FState × Bool × List Ans :=
  let (l1, a, r1) := roundTrip az .check st.url st.hdr sc
  match a with
  | .ok200 | .partial206 => (l1, st, true, r1)
  | .forbidden403 =>
    match refreshURL az st r1 with
    | (l2, none, r2) => (l1 ++ l2, st, false, r2)
    | (l2, some st', r2) => (l1 ++ l2, st', true, r2)
  | _ => (l1, st, false, r1)

/-- Operations on a resolved blob.  Each carries the answers of the server to the requests the
operation sends (in order). -/
inductive FOp
  | read (sc : List Ans)      -- `ReadAt` / `Cache` with at least one chunk missing
  | check (sc : List Ans)     -- `Check` (interval elapsed)
  | refresh (sc : List Ans)   -- `Refresh`
deriving Repr

/-- Static configuration of one blob. -/
structure FCfg where
  az : Authz
  force : Bool
  hosts : List HostCfg
deriving Repr

/-- One operation: requests, new fetcher, success flag, unused rest of the script. -/
def fstep (cfg : FCfg) (st : FState) : FOp → List Req × FState × Bool × List Ans
  | .read sc => fetch cfg.az st sc
  | .check sc => check cfg.az st sc
  | .refresh sc =>
    match newFetcher cfg.az cfg.force cfg.hosts sc with
    | (l, some st', r) => (l, st', true, r)
    | (l, none, r) => (l, st, false, r)

/-- All requests of a history of operations, and the final fetcher. -/
def frun (cfg : FCfg) (st : FState) : List FOp → List Req × FState
  | [] => ([], st)
  | op :: ops =>
    let (l, st', _, _) := fstep cfg st op
    let (l', st'') := frun cfg st' ops
    (l ++ l', st'')

/-- A request is confined when the header set it carries belongs to the host it goes to. -/
def Req.confined (r : Req) : Prop := ∀ j, r.carries = some j → r.target = .reg j

/-- Invariant of `httpFetcher`: `orgHeader` is the header set of the host of `blobURL`, and a
non-empty `header` implies that `url` is still on that host. -/
def FState.inv (st : FState) : Prop :=
  (∀ j, st.org = some j → j = st.host) ∧ (∀ j, st.hdr = some j → j = st.host ∧ st.url = .reg st.host)

/-! ### two fetches sharing one fetcher

`fetch` and `check` read `f.url` under `urlMu` but `f.header` without it, while `refreshURL`
writes both under `urlMu`.  A request built by one goroutine can therefore combine the `url` of
the state before a concurrent refresh with the `header` of the state after it. -/

/-- The request a `fetch`/`check` builds when its `url` read saw `s1` and its `header` read
saw `s2`. -/
def splitReq (k : ReqKind) (s1 s2 : FState) : Req := ⟨k, s1.url, s2.hdr⟩

end SV.Creds
