/-
Audit helper: `#audit_module SV.Props.Cxx` prints, for every theorem declared in that module,
one line `AUDIT <name> axioms=[...]`.  The check scripts parse these lines; the number of
theorems is the number of proof obligations of the property.
-/
import Lean
open Lean Elab Command

elab "#audit_module " m:ident : command => do
  let env ← getEnv
  let modName := m.getId
  let some idx := env.getModuleIdx? modName
    | throwError "module {modName} not imported"
  let names := env.header.moduleData[idx.toNat]!.constNames
  for n in names do
    if n.isInternal then continue
    -- skip auto-generated equation / unfolding lemmas of definitions (`f.eq_1`, `f.eq_def`, ...)
    let last := match n with | .str _ s => s | _ => ""
    if (last.startsWith "eq_" || last == "induct" || last.startsWith "match_") && (env.find? n.getPrefix).isSome then continue
    match env.find? n with
    | some (.thmInfo _) =>
      let axs ← liftCoreM (collectAxioms n)
      let axs := axs.qsort Name.lt
      logInfo m!"AUDIT {n} axioms={axs.toList}"
    | _ => pure ()
