import SV.Driver.Util
import SV.Model.Region
/-
svdriver_c06: line protocol for the C06 models.
  rs.reset                 -> ok
  rs.add <b> <e>           -> rs=<b>-<e>,... total=<n>
  rs.super <b>-<e> ...     -> <b>-<e> | panic
-/
namespace SV.Driver.C06
open SV.Driver SV.Region

structure St where
  rs : List Region := []

/-- Canonical form used for comparison: sorted by start, overlapping/adjacent regions merged
(the property speaks about the set of covered bytes, not about the slice layout). -/
def insertSorted (r : Region) : List Region → List Region
  | [] => [r]
  | x :: xs => if r.b ≤ x.b then r :: x :: xs else x :: insertSorted r xs

def mergeSorted : List Region → List Region
  | [] => []
  | [x] => [x]
  | x :: y :: rest =>
    if y.b ≤ x.e + 1 then mergeSorted ({ b := x.b, e := max x.e y.e } :: rest)
    else x :: mergeSorted (y :: rest)
termination_by l => l.length

def normalize (rs : List Region) : List Region :=
  mergeSorted ((rs.filter fun r => r.b ≤ r.e).foldr insertSorted [])

def showRs (rs : List Region) : String :=
  let rs := normalize rs
  if rs.isEmpty then "-" else ",".intercalate (rs.map fun r => s!"{r.b}:{r.e}")

def parseReg? (s : String) : Option Region :=
  match s.splitOn ":" with
  | [b, e] => do
    let b ← parseInt? b
    let e ← parseInt? e
    some ⟨b, e⟩
  | _ => none

def step (s : St) : List String → St × String
  | ["rs.reset"] => ({ s with rs := [] }, "ok")
  | ["rs.add", b, e] =>
    match parseInt? b, parseInt? e with
    | some b, some e =>
      let rs := add s.rs ⟨b, e⟩
      ({ s with rs := rs }, s!"cov={showRs rs} total={totalSize rs}")
    | _, _ => (s, "bad-op")
  | "rs.super" :: regs =>
    match regs.mapM parseReg? with
    | some rs =>
      match superRegion rs with
      | some r => (s, s!"{r.b}:{r.e}")
      | none => (s, "panic")
    | none => (s, "bad-op")
  | _ => (s, "bad-op")

end SV.Driver.C06

def main : IO Unit := SV.Driver.loop SV.Driver.C06.step {}
