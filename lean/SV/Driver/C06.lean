import SV.Driver.Util
import SV.Model.Region
import SV.Model.Blob
import SV.Model.HttpRange
/-
svdriver_c06: line protocol for the C06 models.
  rs.reset                 -> ok
  rs.add <b> <e>           -> rs=<b>-<e>,... total=<n>
  rs.super <b>-<e> ...     -> <b>-<e> | panic
-/
namespace SV.Driver.C06
open SV.Driver SV.Region

structure St where
  rs : List Region := []
  P : SV.Blob.Params := ⟨0, 1⟩
  salt : Nat := 0
  bs : SV.Blob.St := {}
  fs : SV.Blob.FSt := {}

/-- Canonical form used for comparison: sorted by start, overlapping/adjacent regions merged
(the property speaks about the set of covered bytes, not about the slice layout). -/
def insertSorted (r : Region) : List Region → List Region
  | [] => [r]
  | x :: xs => if r.b ≤ x.b then r :: x :: xs else x :: insertSorted r xs

def mergeSorted : List Region → List Region
  | [] => []
  | [x] => [x]
  | x :: y :: rest =>
    if y.b ≤ x.e + 1 then mergeSorted ({ b := x.b, e := max x.e y.e } :: rest)
    else x :: mergeSorted (y :: rest)
termination_by l => l.length

def normalize (rs : List Region) : List Region :=
  mergeSorted ((rs.filter fun r => r.b ≤ r.e).foldr insertSorted [])

def showRs (rs : List Region) : String :=
  let rs := normalize rs
  if rs.isEmpty then "-" else ",".intercalate (rs.map fun r => s!"{r.b}:{r.e}")

def parseReg? (s : String) : Option Region :=
  match s.splitOn ":" with
  | [b, e] => do
    let b ← parseInt? b
    let e ← parseInt? e
    some ⟨b, e⟩
  | _ => none

/-- Blob content shared with the Go harness: `B[i] = (i*131 + salt*17 + i/251) % 251`. -/
def content (size salt : Nat) : SV.Blob.Bytes :=
  (List.range size).map fun i => UInt8.ofNat ((i * 131 + salt * 17 + i / 251) % 251)

/-- FNV-1a 32 over the bytes, the digest both sides print instead of the raw bytes. -/
def fnv (bs : SV.Blob.Bytes) : Nat :=
  bs.foldl (fun h b => ((h ^^^ b.toNat) * 16777619) % 4294967296) 2166136261

def parsePart? (B : SV.Blob.Bytes) (s : String) : Option SV.Blob.Part :=
  match s.splitOn "-" with
  | [b, e, l] => do
    let b ← parseNat? b
    let e ← parseNat? e
    let l ← parseNat? l
    some ⟨b, e, SV.Blob.slice B b l⟩
  | _ => none

def parseReply? (B : SV.Blob.Bytes) (s : String) : Option SV.Blob.Reply :=
  if s = "fail" ∨ s = "none" then some .fail
  else if s.startsWith "parts:" then
    ((s.drop 6).toString.splitOn ",").mapM (parsePart? B) |>.map .parts
  else none

def parseStatus? : String → Option SV.Blob.Status
  | "200" => some .ok200
  | "206" => some .partial206
  | "403" => some .forbidden403
  | "400" => some .badReq400
  | "neterr" => some .netErr
  | _ => some .other

/-! ### http-… ops (SV.Model.HttpRange) -/
open SV.HttpRange in
def parseItem? (w : String) : Option MItem :=
  if w = "x" then some .broken else
  match w.splitOn ":" with
  | ["p", cr, body] => do
    let cr ← unhex? cr
    let body ← unhex? body
    some (.part cr body)
  | _ => none

open SV.HttpRange in
/-- `<status> <ctype b|m|o> <hexContentLength> <hexContentRange> <hexBody> <item>*` -/
def parseWire? : List String → Option Wire
  | status :: ct :: cl :: cr :: body :: items => do
    let status ← parseNat? status
    let ct ← (match ct with | "b" => some CType.bad | "m" => some .multipart | "o" => some .other | _ => none)
    let cl ← unhex? cl
    let cr ← unhex? cr
    let body ← unhex? body
    let items ← items.mapM parseItem?
    some { status := status, ctype := ct, contentLength := cl, contentRange := cr, body := body, items := items }
  | _ => none

open SV.HttpRange in
def showStream : Option (List WPart × Bool) → String
  | none => "err"
  | some (ps, bad) =>
    let body := if ps.isEmpty then "-" else
      ",".intercalate (ps.map fun p => s!"{p.b}:{p.e}:{p.data.length}:{fnv p.data}")
    s!"parts {body} end={if bad then "err" else "eof"}"

open SV.HttpRange in
def showHdr : HdrOut → String
  | .noRequest => "norequest"
  | .panic => "panic"
  | .header h => s!"hdr={hex h}"

def showChunks (cs : List Region) : String := showRs cs

def b2s (b : Bool) : String := if b then "1" else "0"

def step (s : St) : List String → St × String
  | ["blob", size, chunk, salt] =>
    match parseNat? size, parseNat? chunk, parseNat? salt with
    | some size, some chunk, some salt =>
      if chunk = 0 then (s, "bad-op") else
      ({ s with P := ⟨size, chunk⟩, salt := salt, bs := {}, fs := {} }, "ok")
    | _, _, _ => (s, "bad-op")
  | ["read", o, n, single, reply] =>
    let B := content s.P.size s.salt
    match parseNat? o, parseNat? n, parseReply? B reply with
    | some o, some n, some rep =>
      let req := match SV.Blob.missingFor s.P s.bs o n with
        | some ms => showRs (SV.Blob.requestRanges (single = "1") ms)
        | none => "misaligned"
      let (bs', r) := SV.Blob.readAt s.P s.bs o n rep
      let out := match r with
        | none => "err"
        | some (k, buf) => s!"ok k={k} sum={fnv (buf.take k)}"
      ({ s with bs := bs' }, s!"{out} req={req} fetched={totalSize bs'.fetched}")
    | _, _, _ => (s, "bad-op")
  | ["cache", o, n, single, reply] =>
    let B := content s.P.size s.salt
    match parseNat? o, parseNat? n, parseReply? B reply with
    | some o, some n, some rep =>
      let req := match SV.Blob.walkChunks s.P (SV.Blob.floorU o s.P.chunk) (SV.Blob.ceilU (o + n - 1) s.P.chunk - 1) with
        | some cs => showRs (SV.Blob.requestRanges (single = "1") (cs.filter fun c => (s.bs.cache.get c).isNone))
        | none => "misaligned"
      let (bs', ok) := SV.Blob.cacheAt s.P s.bs o n rep
      ({ s with bs := bs' }, s!"{if ok then "ok" else "err"} req={req} fetched={totalSize bs'.fetched}")
    | _, _, _ => (s, "bad-op")
  | ["drop", b, e] =>
    match parseNat? b, parseNat? e with
    | some b, some e =>
      ({ s with bs := { s.bs with cache := s.bs.cache.filter fun kv => kv.1 ≠ ⟨b, e⟩ } }, "ok")
    | _, _ => (s, "bad-op")
  | ["trunc", b, e, keep] =>
    match parseNat? b, parseNat? e, parseNat? keep with
    | some b, some e, some keep =>
      ({ s with bs := { s.bs with cache := s.bs.cache.map fun kv =>
          if kv.1 = ⟨b, e⟩ then (kv.1, kv.2.take keep) else kv } }, "ok")
    | _, _, _ => (s, "bad-op")
  | ["fsm", single, redirected, retry, script, refresh] =>
    let sts := if script = "-" then some [] else (script.splitOn ",").mapM parseStatus?
    let rf : Option (Option Bool) := match refresh with
      | "none" => some none | "0" => some (some false) | "1" => some (some true) | _ => none
    match sts, rf with
    | some sts, some rf =>
      let (f', out, nreq) := SV.Blob.fetchSM ⟨single = "1", redirected = "1"⟩ (retry = "1") sts rf
      (s, s!"{if out == .body then "body" else "error"} reqs={nreq} single={b2s f'.singleRange} redirected={b2s f'.redirected}")
    | _, _ => (s, "bad-op")
  | ["http-parserange", h] =>
    match unhex? h with
    | some h =>
      match SV.HttpRange.parseRange h with
      | some (b, e, sz) => (s, s!"ok {b} {e} {sz}")
      | none => (s, "err")
    | none => (s, "bad-op")
  | "http-range" :: single :: regs =>
    if single ≠ "0" ∧ single ≠ "1" then (s, "bad-op") else
    match regs.mapM parseReg? with
    | some rs => (s, showHdr (SV.HttpRange.rangeHeader (single = "1") rs))
    | none => (s, "bad-op")
  | "http-rfc" :: [h] =>
    match unhex? h with
    | some h =>
      match SV.HttpRange.rfcParse h with
      | some rs => (s, "ok " ++ ",".intercalate (rs.map fun r => s!"{r.1}:{r.2}"))
      | none => (s, "err")
    | none => (s, "bad-op")
  | "http-fetch" :: wire =>
    match parseWire? wire with
    | some w => (s, showStream (SV.HttpRange.stream w))
    | none => (s, "bad-op")
  | "http-read" :: o :: n :: single :: wire =>
    match parseNat? o, parseNat? n, parseWire? wire with
    | some o, some n, some w =>
      if single ≠ "0" ∧ single ≠ "1" then (s, "bad-op") else
      let hdr := match SV.Blob.missingFor s.P s.bs o n with
        | some ms => if ms.isEmpty then "none" else
            showHdr (SV.HttpRange.rangeHeader (single = "1") (ms.map SV.Blob.Chunk.toRegion))
        | none => "misaligned"
      let (bs', r) := SV.HttpRange.readAtW s.P s.bs o n w
      let out := match r with
        | none => "err"
        | some (k, buf) => s!"ok k={k} sum={fnv (buf.take k)}"
      ({ s with bs := bs' }, s!"{out} {hdr} fetched={totalSize bs'.fetched}")
    | _, _, _ => (s, "bad-op")
  | ["rs.reset"] => ({ s with rs := [] }, "ok")
  | ["rs.add", b, e] =>
    match parseInt? b, parseInt? e with
    | some b, some e =>
      let rs := add s.rs ⟨b, e⟩
      ({ s with rs := rs }, s!"cov={showRs rs} total={totalSize rs}")
    | _, _ => (s, "bad-op")
  | "rs.super" :: regs =>
    match regs.mapM parseReg? with
    | some rs =>
      match superRegion rs with
      | some r => (s, s!"{r.b}:{r.e}")
      | none => (s, "panic")
    | none => (s, "bad-op")
  | _ => (s, "bad-op")

end SV.Driver.C06

def main : IO Unit := SV.Driver.loop SV.Driver.C06.step {}
