import SV.Driver.Util
import SV.Model.Hostile
/-
svdriver_c04: line protocol for the C04 model (SV.Model.Hostile).

  footer <gz|legacy|ext> <len> <none|hex extra|->   -> ok <payload> <tocOffset> <tocSize> | err | panic
  footer zstd <len> <hex bytes|->                   -> (same)
  consts                                            -> <FooterSize of gz> <legacy> <zstd> <externaltoc>
  open <size> <optTocOff> <fSize>,<e|off:size>,<t1>,<t2> ...
                                                    -> <R<off>+<len>|T<n>|Tnil,...|-> <ok|err|panic>
  rd <lenP> <off> <co>:<cs>:<n> ...                 -> <C<off>|A<len>@<off>,...|-> <ok <n>|err|panic>
  pt <mergeBufferSize> <workers> <co>:<cs> ...      -> <sorted A<len>@<off>,...|-> <ok|err|panic>
  tree <hexname>:<type>:<hexlink> ...               -> err | panic | ok <hexparent>/<hexbase>><hextarget>:<type>,...
-/
namespace SV.Driver.C04
open SV.Driver SV.Hostile

def showFooter : Outcome Footer → String
  | .ok f => s!"ok {f.payload} {f.tocOffset} {f.tocSize}"
  | .err => "err"
  | .panic => "panic"

def parseHdr? (s : String) : Option (Option (List UInt8)) :=
  if s = "none" then some none else (unhex? s).map some

def join (xs : List String) : String := if xs.isEmpty then "-" else ",".intercalate xs

def parseDec? (s : String) : Option Dec :=
  match s.splitOn "," with
  | [fs, pf, t1, t2] => do
    let fs ← parseInt? fs
    let pf ← if pf = "e" then some none else
      match pf.splitOn ":" with
      | [a, b] => do
        let a ← parseInt? a
        let b ← parseInt? b
        some (some (a, b))
      | _ => none
    if (t1 ≠ "0" ∧ t1 ≠ "1") ∨ (t2 ≠ "0" ∧ t2 ≠ "1") then none else
    some ⟨fs, pf, t1 = "1", t2 = "1"⟩
  | _ => none

def showEv : Ev → Option String
  | .read o l => some s!"R{o}+{l}"
  | .alloc _ => none
  | .toc none => some "Tnil"
  | .toc (some n) => some s!"T{n}"

def parseChunk? (s : String) : Option Chunk :=
  match s.splitOn ":" with
  | [a, b, c] => do
    let a ← parseInt? a
    let b ← parseInt? b
    let c ← parseInt? c
    some ⟨a, b, c, -1⟩
  | [a, b, c, h] => do
    let a ← parseInt? a
    let b ← parseInt? b
    let c ← parseInt? c
    let h ← parseInt? h
    some ⟨a, b, c, h⟩
  | _ => none

def showREv (withC : Bool) : REv → Option String
  | .chunkAt o => if withC then some s!"C{o}" else none
  | .storeRead l o => some s!"A{l}@{o}"
  | .grow _ => none

def parsePair? (s : String) : Option (Int × Int) :=
  match s.splitOn ":" with
  | [a, b] => do
    let a ← parseInt? a
    let b ← parseInt? b
    some (a, b)
  | _ => none

def insertStr (s : String) : List String → List String
  | [] => [s]
  | x :: xs => if s < x then s :: x :: xs else x :: insertStr s xs

def sortStrs (xs : List String) : List String := xs.foldr insertStr []

def parseType? : String → Option EType
  | "dir" => some .dir
  | "reg" => some .reg
  | "symlink" => some .symlink
  | "hardlink" => some .hardlink
  | "chunk" => some .chunk
  | "other" => some .other
  | _ => none

def showType : EType → String
  | .dir => "dir" | .reg => "reg" | .symlink => "symlink" | .hardlink => "hardlink"
  | .chunk => "chunk" | .other => "other"

/-- "a/b/c" → ["c","b","a"]; "" → []. The harness only sends clean names. -/
def parseName (s : String) : Name := if s = "" then [] else (s.splitOn "/").reverse

def showName (n : Name) : String := hexStr ("/".intercalate n.reverse)

def parseEnt? (s : String) : Option Ent :=
  match s.splitOn ":" with
  | [n, t, l] => do
    let n ← unhexStr? n
    let t ← parseType? t
    let l ← unhexStr? l
    some ⟨parseName n, t, parseName l⟩
  | _ => none

/-- Edges of the nodes reachable from the root (what a walk of the real tree can see). -/
def reachable (edges : List Edge) : Nat → List Name → List Name → List Name
  | 0, _, seen => seen
  | fuel + 1, frontier, seen =>
    match frontier with
    | [] => seen
    | n :: rest =>
      if seen.contains n then reachable edges fuel rest seen else
      let kids := (edges.filter (fun e => e.parent = n)).map (·.target)
      reachable edges fuel (rest ++ kids) (n :: seen)

def showTree (t : Tree) : String :=
  let seen := reachable t.edges (2 * t.edges.length + 2) [[]] []
  let es := t.edges.filter (fun e => seen.contains e.parent)
  "ok " ++ join (sortStrs (es.map fun e => s!"{showName e.parent}/{hexStr e.base}>{showName e.target}:{showType e.ttype}"))

def step (s : Unit) : List String → Unit × String
  | ["footer", kind, len, arg] =>
    match parseNat? len with
    | none => (s, "bad-op")
    | some len =>
      if kind = "zstd" then
        match unhex? arg with
        | some p => if p.length ≠ len then (s, "bad-op") else (s, showFooter (zstdFooter p))
        | none => (s, "bad-op")
      else
        match parseHdr? arg with
        | none => (s, "bad-op")
        | some hdr =>
          if kind = "gz" then (s, showFooter (gzipFooter len hdr))
          else if kind = "legacy" then (s, showFooter (legacyFooter len hdr))
          else if kind = "ext" then (s, showFooter (extFooter len hdr))
          else (s, "bad-op")
  | ["consts"] => (s, s!"{gzFooterSize} {legacyFooterSize} {zstdFooterSize} {extFooterSize}")
  | "open" :: size :: opt :: decs =>
    match parseInt? size, parseInt? opt, decs.mapM parseDec? with
    | some size, some opt, some ds =>
      let (evs, out) := openBlob size opt ds
      match out with
      | .ok _ => (s, s!"{join (evs.filterMap showEv)} ok")
      | .err => (s, s!"{join (evs.filterMap showEv)} err")
      | .panic => (s, "panic")
    | _, _, _ => (s, "bad-op")
  | "rd" :: lenP :: off :: steps =>
    match parseInt? lenP, parseInt? off, steps.mapM parseChunk? with
    | some lenP, some off, some script =>
      let (evs, out) := fileReadAt allocBound lenP off script
      match out with
      | .ok n => (s, s!"{join (evs.filterMap (showREv true))} ok {n}")
      | .err => (s, s!"{join (evs.filterMap (showREv true))} err")
      | .panic => (s, "panic")
    | _, _, _ => (s, "bad-op")
  | "pt" :: b :: w :: steps =>
    match parseInt? b, parseInt? w, steps.mapM parsePair? with
    | some b, some w, some script =>
      if b ≤ 0 ∨ w ≤ 0 then (s, "bad-op") else
      let (evs, out) := passthrough b w.toNat script
      match out with
      | .ok _ => (s, s!"{join (sortStrs (evs.filterMap (showREv false)))} ok")
      | .err => (s, s!"{join (sortStrs (evs.filterMap (showREv false)))} err")
      | .panic => (s, "panic")
    | _, _, _ => (s, "bad-op")
  | "tree" :: ents =>
    match ents.mapM parseEnt? with
    | some es =>
      match initTree es with
      | .ok t => (s, showTree t)
      | .err => (s, "err")
      | .panic => (s, "panic")
    | none => (s, "bad-op")
  | _ => (s, "bad-op")

end SV.Driver.C04

def main : IO Unit := SV.Driver.loop SV.Driver.C04.step ()
