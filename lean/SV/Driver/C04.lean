import SV.Driver.Util
/- svdriver_c04: line protocol for the C04 model (stub until the model is built). -/
namespace SV.Driver.C04

def step (s : Unit) : List String → Unit × String
  | _ => (s, "bad-op")

end SV.Driver.C04

def main : IO Unit := SV.Driver.loop SV.Driver.C04.step ()
