import SV.Driver.Util
/- svdriver_c13: line protocol for the C13 model (stub until the model is built). -/
namespace SV.Driver.C13

def step (s : Unit) : List String → Unit × String
  | _ => (s, "bad-op")

end SV.Driver.C13

def main : IO Unit := SV.Driver.loop SV.Driver.C13.step ()
