import SV.Driver.Util
import SV.Model.Task
/-
svdriver_c13: TRACE ACCEPTOR for the C13 model (task/task.go BackgroundTaskManager).

Each input line is one event observed on the real manager (hook `VerifTrace`, plus two events the
harness logs itself: `init`, `prio.done`, `end`).  The driver checks that the event is an enabled
transition of `SV.Task.step` in the current model state and that the invariants `WF` and `Safe`
hold in the new state.  Output: `ok` or `reject <reason>`.

  init <cap> <n>          new scenario: manager of capacity cap, n invocations (ids 0..n-1)
  prio.begin <v>          doPrio; v = counter read inside the critical section
  prio.done               donePrio (logged by the harness just before DonePrioritizedTask)
  prio.silence_end        the decrement is imminent (hook fires BEFORE the atomic add)
  bg.pass_wait <i>        passWait            bg.acquired <i>      acquire
  bg.decide <i> <v>       decideStart (v = 0) / decideBackoff (v > 0); v = `tasks` read under the lock
  body.start <i>          (no model step: the body goroutine reached `do`)
  body.end <i>            bodyReturns
  bg.cancel <i>           observeNotify       bg.cancel_done <i>   observeDoneAfterCancel
  bg.done <i>             observeDone         bg.release <i>       release
  bg.return <i>           ret
  end                     scenario over: every invocation returned, counter back to 0, all slots free

What the recorded order guarantees, and what the acceptor therefore demands:
* `prio.begin` and `bg.decide` are logged while `prioritizedTaskStartNotifyMu` is held: they are
  totally ordered as in reality and the number of `prio.begin` before a `bg.decide` is exactly the
  epoch of the channel that decide read.
* `prio.silence_end` is logged BEFORE the decrement, so the real counter lies between
  `prio - pend` and `prio` (`pend` = logged silence ends whose `silenceElapsed` the model has not
  taken yet).  The values `v` carried by `bg.decide` / `prio.begin` are real reads of the counter:
  the acceptor demands `prio - pend ≤ v ≤ prio` and then takes `prio - v` `silenceElapsed` steps
  (this resolves where the decrements really happened).
* `bg.pass_wait` is logged after the read of the counter, so a `prio.begin` may slip in between:
  the acceptor demands only that the lower bound `prio - pend` was 0 at some trace position since
  the invocation (re-)entered the wait loop, and then takes `forcePass` (= `passWait` moved back to
  its linearisation point; `SV.Task.forcePass_comm`, `forcePass_eq_passWait`).  This is a necessary
  condition only.
* all other events are logged by the goroutine that performs the step, before any step that
  depends on it can be logged (`bg.release` before the semaphore release, `body.end` before
  `close(done)`, `prio.begin` before `close(ch)`), so their guards must hold in trace order.
-/
namespace SV.Driver.C13
open SV.Driver SV.Task

structure St where
  active : Bool := false
  failed : Bool := false
  m : State := init 0 0
  pend : Nat := 0
  sawZero : List Bool := []
  begun : List Bool := []

def pcName : PC → String
  | .waitZero => "waitZero" | .passed => "passed" | .haveSem => "haveSem" | .backoff => "backoff"
  | .running e => s!"running@{e}" | .cancelling => "cancelling" | .cancelDone => "cancelDone"
  | .doneOk => "doneOk" | .finished => "finished" | .returned => "returned"

def describe (m : State) (i : Nat) : String :=
  let inv := match m.invs[i]? with
    | some v => s!"pc={pcName v.pc} cur={v.cur} orphans={v.orphans}"
    | none => "unknown-invocation"
  s!"{inv} prio={m.prio} silent={m.silent} epoch={m.epoch} semFree={m.semFree}/{m.cap}"

def lo (s : St) : Nat := s.m.prio - s.pend

def fail (s : St) (why : String) : St × String := ({ s with failed := true }, s!"reject {why}")

/-- Accept the new model state if the invariants hold in it. -/
def commit (s : St) (m' : State) : St × String :=
  if ¬ decide (WF m') then fail s s!"invariant WF broken: prio={m'.prio} silent={m'.silent} semFree={m'.semFree} holders={holders m'} cap={m'.cap}"
  else if ¬ decide (Safe m') then fail s s!"invariant Safe broken: alive={aliveTotal m'} cap={m'.cap}"
  else ({ s with m := m' }, "ok")

def act (s : St) (ev : String) (i : Nat) (a : Act) : St × String :=
  match step s.m (.inv i a) with
  | some m' => commit s m'
  | none => fail s s!"{ev} {i}: not enabled ({describe s.m i})"

/-- Take `k` `silenceElapsed` steps. -/
def elapse : Nat → State → Option State
  | 0, m => some m
  | k + 1, m => (step m .silenceElapsed).bind (elapse k)

/-- Reconcile the model counter with a real read `v` of `prioritizedTasks`. -/
def sync (s : St) (ev : String) (v : Nat) : Except String St :=
  if v > s.m.prio then
    .error s!"{ev}: counter read {v} but at most {s.m.prio} prioritized tasks can be pending"
  else if s.m.prio - v > s.pend then
    .error s!"{ev}: counter read {v} but only {s.pend} of {s.m.prio} pending tasks had their silence period over"
  else
    match elapse (s.m.prio - v) s.m with
    | some m' => .ok { s with m := m', pend := s.pend - (s.m.prio - v) }
    | none => .error s!"{ev}: model cannot take {s.m.prio - v} silenceElapsed steps (silent={s.m.silent})"

def setAt (l : List Bool) (i : Nat) (b : Bool) : List Bool := l.set i b

def step (s : St) : List String → St × String
  | ["init", cap, n] =>
    match parseNat? cap, parseNat? n with
    | some cap, some n =>
      ({ active := true, failed := false, m := init cap n, pend := 0,
         sawZero := List.replicate n true, begun := List.replicate n false }, "ok")
    | _, _ => (s, "bad-op")
  | ws =>
    if ¬ s.active then (s, "bad-op")
    else if s.failed then (s, "reject (scenario already rejected)")
    else
    match ws with
    | ["prio.begin", v] =>
      match parseNat? v with
      | none => (s, "bad-op")
      | some v =>
        match SV.Task.step s.m .doPrio with
        | none => fail s "prio.begin: not enabled"
        | some m1 =>
          match sync { s with m := m1 } "prio.begin" v with
          | .error e => fail s e
          | .ok s2 => commit s2 s2.m
    | ["prio.done"] =>
      match SV.Task.step s.m .donePrio with
      | some m' => commit s m'
      | none => fail s s!"prio.done: no prioritized task in progress (prio={s.m.prio} silent={s.m.silent})"
    | ["prio.silence_end"] =>
      if s.pend < s.m.silent then
        let s' := { s with pend := s.pend + 1 }
        let s' := if lo s' = 0 then { s' with sawZero := s'.sawZero.map fun _ => true } else s'
        (s', "ok")
      else fail s s!"prio.silence_end: no task inside its silence period (silent={s.m.silent} pending={s.pend})"
    | ["bg.pass_wait", i] =>
      match parseNat? i with
      | none => (s, "bad-op")
      | some i =>
        if s.sawZero.getD i false then
          match forcePass s.m i with
          | some m' => commit s m'
          | none => fail s s!"bg.pass_wait {i}: not enabled ({describe s.m i})"
        else fail s s!"bg.pass_wait {i}: prioritizedTasks cannot have been 0 since the invocation started waiting ({describe s.m i} pending={s.pend})"
    | ["bg.acquired", i] =>
      match parseNat? i with
      | none => (s, "bad-op")
      | some i => act s "bg.acquired" i .acquire
    | ["bg.decide", i, v] =>
      match parseNat? i, parseNat? v with
      | some i, some v =>
        match sync s s!"bg.decide {i}" v with
        | .error e => fail s e
        | .ok s2 =>
          let s2 := { s2 with begun := setAt s2.begun i false }
          act s2 "bg.decide" i (if v = 0 then .decideStart else .decideBackoff)
      | _, _ => (s, "bad-op")
    | ["body.start", i] =>
      match parseNat? i with
      | none => (s, "bad-op")
      | some i =>
        match s.m.invs[i]? with
        | some v =>
          let pcOk := match v.pc with
            | .running _ => true
            | .cancelling => true
            | _ => false
          if pcOk && v.cur && !(s.begun.getD i true) then ({ s with begun := setAt s.begun i true }, "ok")
          else fail s s!"body.start {i}: no freshly started body ({describe s.m i})"
        | none => fail s s!"body.start {i}: unknown invocation"
    | ["body.end", i] =>
      match parseNat? i with
      | none => (s, "bad-op")
      | some i =>
        if s.begun.getD i false then act s "body.end" i .bodyReturns
        else fail s s!"body.end {i}: body never started ({describe s.m i})"
    | ["bg.cancel", i] =>
      match parseNat? i with
      | none => (s, "bad-op")
      | some i => act s "bg.cancel" i .observeNotify
    | ["bg.cancel_done", i] =>
      match parseNat? i with
      | none => (s, "bad-op")
      | some i => act s "bg.cancel_done" i .observeDoneAfterCancel
    | ["bg.done", i] =>
      match parseNat? i with
      | none => (s, "bad-op")
      | some i => act s "bg.done" i .observeDone
    | ["bg.release", i] =>
      match parseNat? i with
      | none => (s, "bad-op")
      | some i =>
        let (s', r) := act s "bg.release" i .release
        if r = "ok" then
          match s'.m.invs[i]? with
          | some v =>
            if v.pc = .waitZero then ({ s' with sawZero := setAt s'.sawZero i (lo s' = 0) }, r) else (s', r)
          | none => (s', r)
        else (s', r)
    | ["bg.return", i] =>
      match parseNat? i with
      | none => (s, "bad-op")
      | some i => act s "bg.return" i .ret
    | ["end"] =>
      match sync s "end" 0 with
      | .error e => fail s e
      | .ok s2 =>
        if s2.m.silent ≠ 0 ∨ s2.pend ≠ 0 then
          fail s s!"end: counter is 0 but {s2.m.silent} tasks are still inside their silence period"
        else if ¬ (s2.m.invs.all fun v => v.pc = .returned) then
          fail s "end: an invocation has not returned"
        else if s2.m.semFree ≠ s2.m.cap then
          fail s s!"end: {s2.m.cap - s2.m.semFree} semaphore slots still held"
        else commit s2 s2.m
    | _ => (s, "bad-op")

end SV.Driver.C13

def main : IO Unit := SV.Driver.loop SV.Driver.C13.step {}
