import SV.Driver.Util
import SV.Model.Overlay
/-
svdriver_c07: line protocol for the C07 model (SV.Overlay).  Strings travel hex-encoded (`-` = empty).

  consts                                           -> the constants the model shares with node.go
  layer <base> <all|trusted|user> <digest> <size> <fetched>   -> ok      (forgets all nodes)
  node <key> <root 0|1> <id> <mode> <rdev> <xattrs> <children>  -> ok     (fresh caches)
        xattrs   = - | k=v,k=v          children = - | name:id:mode:rdev,…
  readdir <key>                                    -> eio | ok name:mode:ino,…
  lookup <key> <name> <adopt 0|1>                  -> enoent | eio | state … | node … | wh …
  getattr <key>                                    -> eio | ok <mode> <ino> <rdev>
  getxattr <key> <name> <destlen>                  -> ok <n> <val> | erange <n> | enodata
  listxattr <key> <destlen>                        -> ok <n> name,… | erange <n>
  st.readdir | st.lookup <name> | st.report <msg> | st.fetched <n> | st.read
  stk.begin <trusted|user> <all|trusted|user>      -> ok
  stk.layer <path:kind:id:mode:rdev:xattrs;…>      -> ok          (kind d|f; parents first)
  stk.merged <path>  |  stk.applied <path>         -> none | file L<layer> | dir L<layer>
-/
namespace SV.Driver.C07
open SV.Driver SV.Overlay

structure St where
  info : LayerInfo := default
  nodes : List (String × Dir × NodeSt) := []
  kx : KX := .trusted
  som : OpaqueMode := .all
  layers : List Tree := []     -- bottom first

def hx (s : Str) : String := hexStr (String.ofList s)
def unhx? (s : String) : Option Str := (unhexStr? s).map String.toList

def parseMode? : String → Option OpaqueMode
  | "all" => some .all
  | "trusted" => some .trusted
  | "user" => some .user
  | _ => none

def parseKX? : String → Option KX
  | "trusted" => some .trusted
  | "user" => some .user
  | _ => none

def parseXattrs? (s : String) : Option (List (Str × Str)) :=
  if s = "-" then some [] else
  (s.splitOn ",").mapM fun kv =>
    match kv.splitOn "=" with
    | [k, v] => do
      let k ← unhx? k
      let v ← unhx? v
      some (k, v)
    | _ => none

def parseChild? (s : String) : Option Child :=
  match s.splitOn ":" with
  | [n, id, mode, rdev] => do
    let n ← unhx? n
    let id ← parseNat? id
    let mode ← parseNat? mode
    let rdev ← parseNat? rdev
    some ⟨n, id, mode, rdev⟩
  | _ => none

def parseChildren? (s : String) : Option (List Child) :=
  if s = "-" then some [] else (s.splitOn ",").mapM parseChild?

def showEnts (es : List DirEnt) : String :=
  if es.isEmpty then "-" else ",".intercalate (es.map fun e => s!"{hx e.name}:{e.mode}:{e.ino}")

def showGa : Option (Nat × Nat × Nat) → String
  | some (m, i, r) => s!"{m}:{i}:{r}"
  | none => "eio"

def showLRes (r : LRes) : String :=
  match r with
  | .enoent => "enoent"
  | .eio => "eio"
  | .state mode ino => s!"state stype={r.stype} amode={mode} ino={ino} rdev=0 ga={showGa (getattrOf r)}"
  | .node _ mode ino rdev => s!"node stype={r.stype} amode={mode} ino={ino} rdev={rdev} ga={showGa (getattrOf r)}"
  | .whiteout _ amode ino rdev => s!"wh stype={r.stype} amode={amode} ino={ino} rdev={rdev} ga={showGa (getattrOf r)}"

def findNode (s : St) (k : String) : Option (Dir × NodeSt) := (s.nodes.find? (·.1 = k)).map (·.2)

def setNode (s : St) (k : String) (d : Dir) (ns : NodeSt) : St :=
  { s with nodes := (k, d, ns) :: s.nodes.filter (·.1 ≠ k) }

def showNode : Option Node → String
  | none => "none"
  | some (.file a) => s!"file L{a.tag}"
  | some (.dir a) => s!"dir L{a.tag}"

/-- Driver-only: put `n` at path `p` below `t` (parents exist, declared first). -/
partial def insertAt (t : Tree) (p : List Str) (n : Tree) : Option Tree :=
  match t, p with
  | _, [] => none
  | .file _, _ => none
  | .dir a kids, [x] => some (.dir a (kids ++ [(x, n)]))
  | .dir a kids, x :: rest =>
    let rec go : List (Str × Tree) → Option (List (Str × Tree))
      | [] => none
      | (y, c) :: ks =>
        if y = x then (insertAt c rest n).map fun c' => (y, c') :: ks
        else (go ks).map fun ks' => (y, c) :: ks'
    (go kids).map fun ks => .dir a ks

def splitPath (s : Str) : List Str :=
  let rec go : List Char → List Char → List Str
    | [], cur => [cur.reverse]
    | c :: cs, cur => if c = '/' then cur.reverse :: go cs [] else go cs (c :: cur)
  (go s []).filter (· ≠ [])

def parseEntry? (tag : Nat) (s : String) : Option (List Str × Tree) :=
  match s.splitOn ":" with
  | [p, kind, id, mode, rdev, xs] => do
    let p ← unhx? p
    let id ← parseNat? id
    let mode ← parseNat? mode
    let rdev ← parseNat? rdev
    let xs ← parseXattrs? xs
    let a : Attr := ⟨id, mode, rdev, xs, tag⟩
    if kind = "d" then some (splitPath p, .dir a [])
    else if kind = "f" then some (splitPath p, .file a)
    else none
  | _ => none

def buildLayer (tag : Nat) (s : String) : Option Tree := do
  let es ← (s.splitOn ";").mapM (parseEntry? tag)
  match es with
  | ([], .dir a _) :: rest =>
    rest.foldlM (fun t (e : List Str × Tree) => insertAt t e.1 e.2) (Tree.dir a [])
  | _ => none

def step (s : St) : List String → St × String
  | ["consts"] =>
    (s, s!"wh={hx whiteoutPrefix} opq={hx opaqueMarker} state={hx stateDirName} pl={hx prefetchLandmark} " ++
        s!"npl={hx noPrefetchLandmark} toc={hx tocTarName} " ++
        s!"xall={",".intercalate ((opaqueXattrs .all).map hx)} xtrusted={",".intercalate ((opaqueXattrs .trusted).map hx)} " ++
        s!"xuser={",".intercalate ((opaqueXattrs .user).map hx)} val={hx opaqueXattrValue} " ++
        s!"ifchr={S_IFCHR} sfmode={statFileMode} sdmode={stateDirMode}")
  | ["layer", base, om, dg, size, fetched] =>
    match parseNat? base, parseMode? om, unhx? dg, parseNat? size, parseNat? fetched with
    | some base, some om, some dg, some size, some fetched =>
      ({ s with info := { base := base, om := om, digest := dg, size := size, fetched := fetched }, nodes := [] }, "ok")
    | _, _, _, _, _ => (s, "bad-op")
  | ["node", key, root, id, mode, rdev, xs, cs] =>
    match parseNat? id, parseNat? mode, parseNat? rdev, parseXattrs? xs, parseChildren? cs with
    | some id, some mode, some rdev, some xs, some cs =>
      if root ≠ "0" ∧ root ≠ "1" then (s, "bad-op") else
      (setNode s key ⟨root = "1", s.info.base, id, mode, rdev, xs, cs⟩ {}, "ok")
    | _, _, _, _, _ => (s, "bad-op")
  | ["readdir", key] =>
    match findNode s key with
    | some (d, ns) =>
      let (ns', r) := readdirSt d ns
      (setNode s key d ns', match r with | some es => s!"ok {showEnts es}" | none => "eio")
    | none => (s, "bad-op")
  | ["lookup", key, name, ad] =>
    match findNode s key, unhx? name with
    | some (d, ns), some name =>
      if ad ≠ "0" ∧ ad ≠ "1" then (s, "bad-op") else
      let (ns', r) := lookupSt d ns name
      let ns'' := if ad = "1" then adopt d ns' name r else ns'
      (setNode s key d ns'', showLRes r)
    | _, _ => (s, "bad-op")
  | ["getattr", key] =>
    match findNode s key with
    | some (d, _) => (s, match getattr d with | some (m, i, r) => s!"ok {m} {i} {r}" | none => "eio")
    | none => (s, "bad-op")
  | ["getxattr", key, name, dl] =>
    match findNode s key, unhx? name, parseNat? dl with
    | some (d, _), some name, some dl =>
      (s, match getxattr s.info.om d name dl with
          | .ok n v => s!"ok {n} {hx v}"
          | .erange n => s!"erange {n}"
          | .enodata => "enodata")
    | _, _, _ => (s, "bad-op")
  | ["listxattr", key, dl] =>
    match findNode s key, parseNat? dl with
    | some (d, _), some dl =>
      (s, match listxattr s.info.om d dl with
          | .ok n names => s!"ok {n} {if names.isEmpty then "-" else ",".intercalate (names.map hx)}"
          | .erange n => s!"erange {n}")
    | _, _ => (s, "bad-op")
  | ["st.readdir"] => (s, s!"ok {showEnts (stateReaddir s.info)}")
  | ["st.lookup", name] =>
    match unhx? name with
    | some name =>
      (s, match stateLookup s.info name with
          | .ok (m, i) => s!"ok {m} {i}"
          | .error .enoent => "enoent"
          | .error _ => "eio")
    | none => (s, "bad-op")
  | ["st.report", msg] =>
    match unhx? msg with
    | some msg => ({ s with info := { s.info with err := msg } }, "ok")
    | none => (s, "bad-op")
  | ["st.fetched", n] =>
    match parseNat? n with
    | some n => ({ s with info := { s.info with fetched := n } }, "ok")
    | none => (s, "bad-op")
  | ["st.read"] =>
    (s, match statFields s.info with
        | none => "eio"
        | some fs =>
          let keys := sortBy strLe (fs.map (·.1))
          let get (k : String) : String :=
            match lookupKid fs k.toList with
            | some (.str v) => hx v
            | some (.int n) => toString n
            | some .float => "float"
            | none => "missing"
          s!"keys={",".intercalate (keys.map String.ofList)} digest={get "digest"} size={get "size"} fetchedSize={get "fetchedSize"} error={get "error"}")
  | ["stk.begin", kx, om] =>
    match parseKX? kx, parseMode? om with
    | some kx, some om => ({ s with kx := kx, som := om, layers := [] }, "ok")
    | _, _ => (s, "bad-op")
  | ["stk.layer", es] =>
    match buildLayer (s.layers.length + 1) es with
    | some t => ({ s with layers := s.layers ++ [t] }, "ok")
    | none => (s, "bad-op")
  | ["stk.merged", p] =>
    match unhx? p with
    | some p => (s, showNode (overlayMerge s.kx (s.layers.map (serveRoot s.som)) (splitPath p)))
    | none => (s, "bad-op")
  | ["stk.applied", p] =>
    match unhx? p with
    | some p => (s, showNode (ociRootFs s.layers (splitPath p)))
    | none => (s, "bad-op")
  | _ => (s, "bad-op")

end SV.Driver.C07

def main : IO Unit := SV.Driver.loop SV.Driver.C07.step ({} : SV.Driver.C07.St)
