import SV.Driver.Util
/- svdriver_c07: line protocol for the C07 model (stub until the model is built). -/
namespace SV.Driver.C07

def step (s : Unit) : List String → Unit × String
  | _ => (s, "bad-op")

end SV.Driver.C07

def main : IO Unit := SV.Driver.loop SV.Driver.C07.step ()
