import SV.Driver.Util
import SV.Model.Snap
/-
svdriver_c09: the protocol of svdriver_c08 plus
  image <call idx> <marker> <occ> <async><norestore><allow> mf=<*|ids|-> uf=<…> order=<…>
      -> restore=<ok|err> tr=… ls=… meta=… [ | cleanup=<ok|err> tr=… ls=… ]
`call idx` counts the calls since the last `reset` (0-based); `(marker, occ)` is the occ-th firing
of that crash-point marker inside that call.  The model restarts on `crash` of the state after
that prefix of the call's atomic steps and then runs one Cleanup.
-/
namespace SV.Driver.C09
open SV.Snap SV.Snap.Wire

def step (d : DSt) : List String → DSt × String
  | "image" :: args => (d, stepImage d args)
  | ws => stepCommon d ws

end SV.Driver.C09

def main : IO Unit := SV.Driver.loop SV.Driver.C09.step {}
