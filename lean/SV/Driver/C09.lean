import SV.Driver.Util
/- svdriver_c09: line protocol for the C09 model (stub until the model is built). -/
namespace SV.Driver.C09

def step (s : Unit) : List String → Unit × String
  | _ => (s, "bad-op")

end SV.Driver.C09

def main : IO Unit := SV.Driver.loop SV.Driver.C09.step ()
