import SV.Driver.Util
import SV.Model.Snap
/-
svdriver_c09: the protocol of svdriver_c08 plus
  fork <call idx> <marker> <occ>      -> ok ls=… meta=…
`call idx` counts the calls since the last `reset` (0-based); `(marker, occ)` is the occ-th firing
of that crash-point marker inside that call.  The model continues on `crash` of the state after
that prefix of the call's atomic steps; the following lines (`restart …`, `cleanup`, …) run on
that image.
-/
namespace SV.Driver.C09
open SV.Snap SV.Snap.Wire

def step (d : DSt) : List String → DSt × String
  | "fork" :: args => stepFork d args
  | ws => stepCommon d ws

end SV.Driver.C09

def main : IO Unit := SV.Driver.loop SV.Driver.C09.step {}
