import SV.Driver.Util
/- svdriver_c11: line protocol for the C11 model (stub until the model is built). -/
namespace SV.Driver.C11

def step (s : Unit) : List String → Unit × String
  | _ => (s, "bad-op")

end SV.Driver.C11

def main : IO Unit := SV.Driver.loop SV.Driver.C11.step ()
