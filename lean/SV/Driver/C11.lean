import SV.Driver.Util
import SV.Model.ChunkCache
/-
svdriver_c11: line protocol for the C11 model (chunk caches of cache/cache.go), sequential histories:
every line is one whole API call of one goroutine (the model's composite of steps), SyncAdd = true.
  new dir <memcap> <fdcap> <direct 0|1>   -> ok        NewDirectoryCache (caps 0 => default 10)
  new mem                                 -> ok        NewMemoryCache
  add <key> <direct 0|1> <passthrough 0|1> -> w=<id>   Add(key[, Direct()][, PassThrough()])
  write <w> <hex>                         -> n=<len>   Write
  commit <w>                              -> ok        Commit
  commitnospace <w>                       -> ok | err  Commit of a memory writer while no file can grow
  abort <w>                               -> ok        Abort
  wclose <w>                              -> ok        Close (writer)
  get <key> <direct 0|1> <passthrough 0|1> -> hit r=<id> | miss
  read <r> <off> <len>                    -> n=<n> <hex> | err      ReadAt
  rclose <r>                              -> ok        Close (reader)
An operation whose guard is false in the model (API misuse, unknown handle) prints `bad-op`.
-/
namespace SV.Driver.C11
open SV.Driver SV.ChunkCache SV.ChunkCache.MemCache

inductive St where
  | none
  | dir (s : State)
  | mem (s : MState)

def parseBool? : String → Option Bool
  | "0" => some false
  | "1" => some true
  | _ => none

def showRead (v : Option Bytes) (off n : Nat) : String :=
  match v with
  | some v => let d := readAt v off n; s!"n={d.length} {hex d}"
  | none => "err"

def stepDir (s : State) (ws : List String) : Option (State × String) :=
  match ws with
  | ["add", k, d, p] => do
    let k ← parseNat? k
    let d ← parseBool? d
    let p ← parseBool? p
    let s' ← s.step? (.addOpen k { direct := d, passThrough := p } (firstPooled s.bufs))
    some (s', s!"w={s.writers.length}")
  | ["write", w, p] => do
    let w ← parseNat? w
    let p ← unhex? p
    let s' ← s.step? (.write w p)
    some (s', s!"n={p.length}")
  | ["commit", w] => do
    let w ← parseNat? w
    let s' ← s.commitSync w none
    some (s', "ok")
  | ["commitnospace", w] => do
    let w ← parseNat? w
    let r ← s.commitSyncNoSpace w
    some (r.1, if r.2 then "ok" else "err")
  | ["abort", w] => do
    let w ← parseNat? w
    let s' ← s.step? (.abort w)
    some (s', "ok")
  | ["wclose", w] => do
    let w ← parseNat? w
    let s' ← s.step? (.closeWriter w)
    some (s', "ok")
  | ["get", k, d, p] => do
    let k ← parseNat? k
    let d ← parseBool? d
    let p ← parseBool? p
    match s.get k { direct := d, passThrough := p } with
    | some s' => some (s', s!"hit r={s.readers.length}")
    | none => some (s, "miss")
  | ["read", r, off, n] => do
    let r ← parseNat? r
    let off ← parseNat? off
    let n ← parseNat? n
    let rd ← s.readers[r]?
    let _ ← s.step? (.read r)
    some (s, showRead (s.visible rd) off n)
  | ["rclose", r] => do
    let r ← parseNat? r
    let s' ← s.closeReaderFull r
    some (s', "ok")
  | _ => none

def stepMem (s : MState) (ws : List String) : Option (MState × String) :=
  match ws with
  | ["add", k, d, p] => do
    let k ← parseNat? k
    let _ ← parseBool? d
    let _ ← parseBool? p
    let s' ← s.step? (.add k)
    some (s', s!"w={s.writers.length}")
  | ["write", w, p] => do
    let w ← parseNat? w
    let p ← unhex? p
    let s' ← s.step? (.write w p)
    some (s', s!"n={p.length}")
  | ["commit", w] => do
    let w ← parseNat? w
    let s' ← s.step? (.commit w)
    some (s', "ok")
  | ["abort", w] => do
    let w ← parseNat? w
    let s' ← s.step? (.abort w)
    some (s', "ok")
  | ["wclose", w] => do
    let w ← parseNat? w
    let _ ← s.writers[w]?
    some (s, "ok")
  | ["get", k, d, p] => do
    let k ← parseNat? k
    let _ ← parseBool? d
    let _ ← parseBool? p
    match s.step? (.get k) with
    | some s' => some (s', s!"hit r={s.readers.length}")
    | none => some (s, "miss")
  | ["read", r, off, n] => do
    let r ← parseNat? r
    let off ← parseNat? off
    let n ← parseNat? n
    let rd ← s.readers[r]?
    some (s, showRead (s.visible rd) off n)
  | ["rclose", r] => do
    let r ← parseNat? r
    let _ ← s.readers[r]?
    some (s, "ok")
  | _ => none

def step (st : St) (ws : List String) : St × String :=
  match ws with
  | ["new", "dir", mc, fc, d] =>
    match parseNat? mc, parseNat? fc, parseBool? d with
    | some mc, some fc, some d => (.dir (State.new mc fc { direct := d, syncAdd := true }), "ok")
    | _, _, _ => (st, "bad-op")
  | ["new", "mem"] => (.mem {}, "ok")
  | _ =>
    match st with
    | .none => (st, "bad-op")
    | .dir s =>
      match stepDir s ws with
      | some (s', out) => (.dir s', out)
      | none => (st, "bad-op")
    | .mem s =>
      match stepMem s ws with
      | some (s', out) => (.mem s', out)
      | none => (st, "bad-op")

end SV.Driver.C11

def main : IO Unit := SV.Driver.loop SV.Driver.C11.step .none
