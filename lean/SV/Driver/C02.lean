import SV.Driver.LazyReadStep
/- svdriver_c02: line protocol of the C02 model (shared with C15, see SV/Driver/LazyReadStep.lean). -/
def main : IO Unit := SV.Driver.loop SV.Driver.LazyRead.step {}
