import SV.Driver.Util
/- svdriver_c02: line protocol for the C02 model (stub until the model is built). -/
namespace SV.Driver.C02

def step (s : Unit) : List String → Unit × String
  | _ => (s, "bad-op")

end SV.Driver.C02

def main : IO Unit := SV.Driver.loop SV.Driver.C02.step ()
