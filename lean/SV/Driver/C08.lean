import SV.Driver.Util
import SV.Model.Snap
/-
svdriver_c08: line protocol for the snapshotter model (`SV/Model/Snap.lean`).
  reset <async><norestore><allow>                         -> ok        (fresh root, new history)
  <op> mf=<*|ids|-> cf=<ids|-> uf=<ids,t|-> order=<dirs|-> <args…>
        op ∈ prepare key parent labels | view key parent labels | commit name key labels |
             mounts key | remove key | cleanup | walk | stat key | update key lk lv | close |
             restart <async><norestore><allow>
      -> r=<class[:detail]> tr=<backend calls and crash-point markers> ls=<ids>+<#temps> meta=<walk>
-/
namespace SV.Driver.C08
open SV.Snap SV.Snap.Wire

def step (d : DSt) (ws : List String) : DSt × String := stepCommon d ws

end SV.Driver.C08

def main : IO Unit := SV.Driver.loop SV.Driver.C08.step {}
