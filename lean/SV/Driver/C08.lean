import SV.Driver.Util
/- svdriver_c08: line protocol for the C08 model (stub until the model is built). -/
namespace SV.Driver.C08

def step (s : Unit) : List String → Unit × String
  | _ => (s, "bad-op")

end SV.Driver.C08

def main : IO Unit := SV.Driver.loop SV.Driver.C08.step ()
