import SV.Driver.Util
import SV.Model.Snap
import SV.Model.SnapTrace
/-
svdriver_c08: line protocol for the snapshotter model (`SV/Model/Snap.lean`).
  reset <async><norestore><allow>                         -> ok        (fresh root, new history)
  <op> mf=<*|ids|-> cf=<ids|-> uf=<ids,t|-> order=<dirs|-> <args…>
        op ∈ prepare key parent labels | view key parent labels | commit name key labels |
             mounts key | remove key | cleanup | walk | stat key | update key lk lv | close |
             restart <async><norestore><allow>
      -> r=<class[:detail]> tr=<backend calls and crash-point markers> ls=<ids>+<#temps> meta=<walk>

TRACE ACCEPTOR for the interleaved model (`SV/Model/SnapConc.lean`, checker `SV/Model/SnapTrace.lean`):
one line per atomic event of a concurrent run of the real snapshotter; the event must be an enabled
transition (`SV.Snap.Trace.fire`), and the invariant evaluator `cinvB` must hold afterwards.
  conc-reset <async><norestore><allow>                     -> ok
  conc-spawn <i> <op> mf= cf= uf= ord=<dirs|-> <args…>     -> ok        dirs: <id> | t<k> (k-th MkdirTemp of the run)
  conc-txbegin|rename|txcommit|mount|icommit|tx <i>        -> ok
  conc-unmount|rmdir <i> <dir>                             -> ok
  conc-ret <i>                                             -> r=<class[:detail]>   (the model's result of the call)
  conc-quiesce                                             -> ls=<ids>+<#temps> meta=<walk> mounts=<ids>
  any of them                                              -> reject <why>  when not enabled / invariant broken
-/
namespace SV.Driver.C08
open SV.Snap SV.Snap.Wire SV.Snap.Conc SV.Snap.Trace

structure St where
  d : DSt := {}
  t : Option TState := none

def pcName : PC → String
  | .idle _ => "idle" | .crRename .. => "crRename(lock)" | .crCommit .. => "crCommit(lock)"
  | .prepMount .. => "prepMount" | .prepCommit .. => "prepCommit"
  | .clean ds u => s!"clean[{ds.length}]{if u then "/unmounted" else ""}" | .done => "done"

def parseDirC? (w : String) : Option Dir :=
  if w.startsWith "t" then ((w.drop 1).toString.toNat?).map Dir.temp else (w.toNat?).map Dir.id

def parseDirsC? (s : String) : Option (List Dir) := (parseList s).mapM parseDirC?

def setOrder (order : List Dir) : Op → Op
  | .remove k _ => .remove k order
  | .cleanup _ => .cleanup order
  | op => op

def parseEv? (t : TState) : List String → Option Ev
  | "conc-spawn" :: i :: name :: mf :: cf :: uf :: ord :: args => do
    let i ← i.toNat?
    let ord ← parseFlag? "ord=" ord
    let order ← parseDirsC? ord
    let (op, orc) ← parseOp? t.c.s (name :: mf :: cf :: uf :: "order=-" :: args)
    pure (.spawn i (setOrder order op) orc)
  | ["conc-txbegin", i] => i.toNat?.map .txBegin
  | ["conc-rename", i] => i.toNat?.map .rename
  | ["conc-txcommit", i] => i.toNat?.map .txCommit
  | ["conc-mount", i] => i.toNat?.map .mount
  | ["conc-icommit", i] => i.toNat?.map .icommit
  | ["conc-tx", i] => i.toNat?.map .tx
  | ["conc-unmount", i, d] => do pure (.unmount (← i.toNat?) (← parseDirC? d))
  | ["conc-rmdir", i, d] => do pure (.rmdir (← i.toNat?) (← parseDirC? d))
  | ["conc-ret", i] => i.toNat?.map .ret
  | _ => none

def evThread : Ev → Nat
  | .spawn i .. => i | .txBegin i => i | .rename i => i | .txCommit i => i | .mount i => i
  | .icommit i => i | .tx i => i | .unmount i _ => i | .rmdir i _ => i | .ret i => i

def showNats (l : List Nat) : String :=
  let l := sortBy (fun (a b : Nat) => decide (a < b)) l
  if l.isEmpty then "-" else ",".intercalate (l.map toString)

def stepConc (s : St) (ws : List String) : St × String :=
  match ws with
  | ["conc-reset", cfg] =>
    match parseCfg? cfg with
    | some c => ({ s with t := some (tinit c) }, "ok")
    | none => (s, "bad-op")
  | ["conc-quiesce"] =>
    match s.t with
    | none => (s, "bad-op")
    | some t =>
      if (List.range t.n).all (fun j => isDone (t.c.th j)) then
        (s, s!"ls={showLs t.c.s.dirs} meta={showMeta t.c.s} mounts={showNats t.c.s.mounts}")
      else (s, "reject quiesce: calls still in flight in the model")
  | _ =>
    match s.t with
    | none => (s, "bad-op")
    | some t =>
      match parseEv? t ws with
      | none => (s, "bad-op")
      | some ev =>
        match fire t ev with
        | none =>
          let i := evThread ev
          (s, s!"reject {ws.headD ""} {i}: not an enabled transition (pc={pcName (t.c.th i)} lock={if lockFreeB t then "free" else "held"})")
        | some t' =>
          if !cinvB t' then (s, s!"reject {ws.headD ""}: invariant broken after the step: {cinvWhy t'}")
          else
            let out := match ev with
              | .ret i => match t.res i with
                | some r => "r=" ++ showRes r
                | none => "r=?"
              | _ => "ok"
            ({ s with t := some t' }, out)

def step (s : St) (ws : List String) : St × String :=
  match ws with
  | w :: _ =>
    if w.startsWith "conc-" then stepConc s ws
    else
      let (d', out) := stepCommon s.d ws
      ({ s with d := d' }, out)
  | [] => (s, "bad-op")

end SV.Driver.C08

def main : IO Unit := SV.Driver.loop SV.Driver.C08.step {}
