import SV.Driver.Util
import SV.Model.Verify
/-
svdriver_c01: line protocol for the C01 model (`SV/Model/Verify.lean`).

Instance: `β = δ = Nat`, `H = id`.  TOC bytes are `1` (so the actual TOC digest is `1`); the digest
recorded for chunk `c` is `c + 10` (none for the chunks listed in `nodig=`).  The harness classifies
what the real decoders yield for a chunk under the current blob view, and every presented digest:
  chunk reply   g = bytes matching the recorded digest (`c+10`), b = other bytes (`0`), f = read error
  digest        good = the digest of the TOC JSON actually used (`1`), wrong = anything else (`2`)

  new <disable 0|1> <allow 0|1> files=<f:c,c;f:c|-> nodig=<c,c|->          -> ok
reader level (VerifiableReader / reader, package fs/reader):
  r.prefetch <c> <g|b|f>                        -> ok | err             readAndCache of one chunk
  r.cache <c:st,...|-> cached=<c,...|->         -> ok | err [implausible:<c>]   Cache(); `cached` = observed
  r.clone <c:st,...|-> cached=<c,...|->         -> ok | err [implausible:<c>]   Cache(WithReader(sr)) over a
                                                   clone whose TOC digest equals the layer's
  r.clone.err                                   -> err                   Clone(sr) failed, or Cache refused the
                                                   clone because its TOC digest differs (a094525)
  r.race <good|wrong> <c:st,...|-> cached=<..>  -> verify=<r> cache=<r> [implausible:<c>]
                                                   Cache() racing with VerifyTOC; linearisation rebuilt
                                                   from the observed cache contents
  r.verify <good|wrong>                         -> ok | err
  r.skip                                        -> ok
  r.read <step;step;...|->                      -> ok clean | ok dirty | err     step = c:st[/c:st,c:st]
  r.pass <f> <mem|file> <step;...|->            -> ok | err
  r.readfd <f>                                  -> ok clean | ok dirty | err
layer level (layer / filesystem.Mount / store, packages fs/layer, fs):
  l.verify <good|wrong>   l.skip   l.mount <none|bad|good|wrong> <skip 0|1>   l.store <good|wrong>
  l.prefetch <c> <st>   l.cache ...   l.clone ...   l.read <steps>   l.pass <f> <mem|file> <steps>
  l.readfd <f>   l.evict
-/
namespace SV.Driver.C01
open SV.Driver SV.Verify

abbrev S := St Nat Nat

def goodBytes (c : Nat) : Nat := c + 10

structure DSt where
  files : List (Nat × List Nat) := []
  nodig : List Nat := []
  s : S := init (fun _ => ⟨fun _ => [], fun _ => none⟩) {} 1

def mkToc (files : List (Nat × List Nat)) (nodig : List Nat) : Toc Nat :=
  { chunksOf := fun f => match files.find? (·.1 == f) with
      | some (_, cs) => cs
      | none => []
    dig := fun c => if nodig.contains c then none else some (goodBytes c) }

def parseList? (s : String) (f : String → Option α) : Option (List α) :=
  if s = "-" then some [] else (s.splitOn ",").mapM f

def parseFile? (s : String) : Option (Nat × List Nat) :=
  match s.splitOn ":" with
  | [f, cs] => do
    let f ← parseNat? f
    let cs ← if cs = "" then some [] else (cs.splitOn ",").mapM parseNat?
    some (f, cs)
  | _ => none

def parseFiles? (s : String) : Option (List (Nat × List Nat)) :=
  if s = "-" then some [] else (s.splitOn ";").mapM parseFile?

def parseReply? (c : Nat) : String → Option (Option Nat)
  | "g" => some (some (goodBytes c))
  | "b" => some (some 0)
  | "f" => some none
  | _ => none

def parseItem? (s : String) : Option (Nat × Option Nat) :=
  match s.splitOn ":" with
  | [c, st] => do
    let c ← parseNat? c
    let r ← parseReply? c st
    some (c, r)
  | _ => none

def parseStep? (s : String) : Option (Step Nat) :=
  match s.splitOn "/" with
  | [main] => do
    let (c, r) ← parseItem? main
    some { c := c, reply := r, pre := [] }
  | [main, pre] => do
    let (c, r) ← parseItem? main
    let pre ← (pre.splitOn ",").mapM parseItem?
    some { c := c, reply := r, pre := pre }
  | _ => none

def parseSteps? (s : String) : Option (List (Step Nat)) :=
  if s = "-" then some [] else (s.splitOn ";").mapM parseStep?

def parseDigest? : String → Option Nat
  | "good" => some 1
  | "wrong" => some 2
  | _ => none

def stripPrefix? (p s : String) : Option String :=
  if s.startsWith p then some (s.drop p.length).toString else none

def showRes (t : Toc Nat) : Res Nat → String
  | .ok => "ok"
  | .err => "err"
  | .data ps => if ps.all (fun p => t.dig p.1 == some p.2) then "ok clean" else "ok dirty"

def okErr : Res Nat → String
  | .err => "err"
  | _ => "ok"

/-- `Cache()` over `items`, the observed set `cached` resolving what the errgroup cancelled. -/
def cacheItemsWith (s : S) (items : List (Nat × Option Nat × Option Nat)) (cached : List Nat) :
    S × Bool × Bool × Option Nat :=
  items.foldl (fun (acc : S × Bool × Bool × Option Nat) (it : Nat × Option Nat × Option Nat) =>
    let (s, anyErr, skipped, bad) := acc
    let (c, reply, dg) := it
    match cget s.cache (.chunk c) with
    | some _ => if cached.contains c then (s, anyErr, skipped, bad) else (s, anyErr, skipped, bad.or (some c))
    | none =>
      match prefetchWith id s c reply dg with
      | (s', .err) => if cached.contains c then (s', anyErr, skipped, bad.or (some c)) else (s', true, skipped, bad)
      | (s', _) => if cached.contains c then (s', anyErr, skipped, bad) else (s, anyErr, true, bad))
    (s, false, false, none)

def cacheItems (s : S) (items : List (Nat × Option Nat)) (cached : List Nat) :
    S × Bool × Bool × Option Nat :=
  cacheItemsWith s (items.map fun it => (it.1, it.2, s.toc.dig it.1)) cached

def plaus (anyErr skipped : Bool) (bad : Option Nat) : String :=
  match bad with
  | some c => s!" implausible:{c}"
  | none => if skipped && !anyErr then " implausible:cancelled-without-error" else ""

def advOf (steps : List (Step Nat)) (c : Nat) : Option Nat :=
  match steps.find? (·.c == c) with
  | some st => st.reply
  | none => none

def preOf (steps : List (Step Nat)) (c : Nat) : List (Nat × Option Nat) :=
  match steps.find? (·.c == c) with
  | some st => st.pre
  | none => []

def setS (d : DSt) (r : S × Res Nat) (f : Res Nat → String) : DSt × String := ({ d with s := r.1 }, f r.2)

def step (d : DSt) : List String → DSt × String
  | ["new", dis, allow, files, nodig] =>
    match stripPrefix? "files=" files, stripPrefix? "nodig=" nodig with
    | some fs, some nd =>
      match parseFiles? fs, parseList? nd parseNat?, dis, allow with
      | some fs, some nd, dis, allow =>
        if (dis = "0" ∨ dis = "1") ∧ (allow = "0" ∨ allow = "1") then
          let cfg : Cfg := { disableVerification := dis = "1", allowNoVerification := allow = "1" }
          let toc := mkToc fs nd
          ({ files := fs, nodig := nd, s := init (fun _ => toc) cfg 1 }, "ok")
        else (d, "bad-op")
      | _, _, _, _ => (d, "bad-op")
    | _, _ => (d, "bad-op")
  | ["r.prefetch", c, st] | ["l.prefetch", c, st] =>
    match parseNat? c with
    | some c =>
      match parseReply? c st with
      | some r => setS d (prefetch id d.s c r) okErr
      | none => (d, "bad-op")
    | none => (d, "bad-op")
  | ["r.cache", items, cached] | ["l.cache", items, cached]
  | ["r.clone", items, cached] | ["l.clone", items, cached] =>
    match parseList? items parseItem?, (stripPrefix? "cached=" cached).bind (parseList? · parseNat?) with
    | some items, some cached =>
      let (s', anyErr, skipped, bad) := cacheItems d.s items cached
      ({ d with s := s' }, (if anyErr then "err" else "ok") ++ plaus anyErr skipped bad)
    | _, _ => (d, "bad-op")
  | ["r.clone.err"] | ["l.clone.err"] => (d, "err")
  | ["r.race", dg, items, cached] =>
    match parseDigest? dg, parseList? items parseItem?,
          (stripPrefix? "cached=" cached).bind (parseList? · parseNat?) with
    | some D, some items, some cached =>
      -- critical sections before the decision: every chunk that ended up cached
      let before := items.filter fun it => cached.contains it.1
      let after := items.filter fun it => !cached.contains it.1
      let (s1, e1, k1, b1) := cacheItems d.s before cached
      let (s2, vr) := verifyTOC id s1 D
      let (s3, e2, k2, b2) := cacheItems s2 after cached
      let anyErr := e1 || e2
      ({ d with s := s3 },
        s!"verify={okErr vr} cache={if anyErr then "err" else "ok"}" ++ plaus anyErr (k1 || k2) (b1.or b2))
    | _, _, _ => (d, "bad-op")
  | ["r.verify", dg] =>
    match parseDigest? dg with
    | some D => setS d (verifyTOC id d.s D) okErr
    | none => (d, "bad-op")
  | ["r.skip"] => (d, "ok")
  | ["r.read", steps] =>
    match parseSteps? steps with
    | some steps => setS d (rawRead id d.s steps) (showRes d.s.toc)
    | none => (d, "bad-op")
  | ["r.pass", f, kind, steps] =>
    match parseNat? f, parseSteps? steps with
    | some f, some steps =>
      if kind = "mem" ∨ kind = "file" then
        setS d (rawPassthrough id d.s f (advOf steps) (preOf steps) (kind = "file")) okErr
      else (d, "bad-op")
    | _, _ => (d, "bad-op")
  | ["r.readfd", f] =>
    match parseNat? f with
    | some f => setS d (rawReadFd d.s f) (showRes d.s.toc)
    | none => (d, "bad-op")
  | ["l.verify", dg] =>
    match parseDigest? dg with
    | some D => setS d (layerVerify id d.s D) okErr
    | none => (d, "bad-op")
  | ["l.skip"] => ({ d with s := layerSkip d.s }, "ok")
  | ["l.mount", toc, skip] =>
    let t : Option (Option (Option Nat)) := match toc with
      | "none" => some none
      | "bad" => some (some none)
      | "good" => some (some (some 1))
      | "wrong" => some (some (some 2))
      | _ => none
    match t with
    | some t =>
      if skip = "0" ∨ skip = "1" then setS d (mount id d.s ⟨t, skip = "1"⟩) okErr else (d, "bad-op")
    | none => (d, "bad-op")
  | ["l.store", dg] =>
    match parseDigest? dg with
    | some D => setS d (storeLookup id d.s D) okErr
    | none => (d, "bad-op")
  | ["l.read", steps] =>
    match parseSteps? steps with
    | some steps => setS d (read id d.s steps) (showRes d.s.toc)
    | none => (d, "bad-op")
  | ["l.pass", f, kind, steps] =>
    match parseNat? f, parseSteps? steps with
    | some f, some steps =>
      if kind = "mem" ∨ kind = "file" then
        setS d (passthrough id d.s f (advOf steps) (preOf steps) (kind = "file")) okErr
      else (d, "bad-op")
    | _, _ => (d, "bad-op")
  | ["l.readfd", f] =>
    match parseNat? f with
    | some f => setS d (readFd d.s f) (showRes d.s.toc)
    | none => (d, "bad-op")
  | ["l.evict"] => ({ d with s := evict (fun _ => mkToc d.files d.nodig) d.s 1 }, "ok")
  | _ => (d, "bad-op")

end SV.Driver.C01

def main : IO Unit := SV.Driver.loop SV.Driver.C01.step {}
