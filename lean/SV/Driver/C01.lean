import SV.Driver.Util
/- svdriver_c01: line protocol for the C01 model (stub until the model is built). -/
namespace SV.Driver.C01

def step (s : Unit) : List String → Unit × String
  | _ => (s, "bad-op")

end SV.Driver.C01

def main : IO Unit := SV.Driver.loop SV.Driver.C01.step ()
