import SV.Driver.Util
/- svdriver_c03: line protocol for the C03 model (stub until the model is built). -/
namespace SV.Driver.C03

def step (s : Unit) : List String → Unit × String
  | _ => (s, "bad-op")

end SV.Driver.C03

def main : IO Unit := SV.Driver.loop SV.Driver.C03.step ()
