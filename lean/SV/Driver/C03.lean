import SV.Driver.Util
import SV.Model.Writer
import SV.Model.DigestPool
/-
svdriver_c03: line protocol for the C03 model (eStargz writer / builder bookkeeping).

model mode (deterministic bookkeeping; byte VALUES are irrelevant, only lengths travel):
  m.begin <g|z|e> <W|L|B> <ChunkSize int> <MinChunkSize> <workers> <needsOpen 0|1>   -> ok
        W = Writer.AppendTar, L = Writer.AppendTarLossLess, B = Build (entries = after sortEntries)
  m.ent <name hex> <kind> <isToc 0|1> <preLen> <dataLen> <postLen>                    -> ok
  m.call <tailLen>          ends one AppendTar call (Build: exactly one, tail 0)      -> ok
  m.orcf <n,n,...|->        compressed bytes emitted per Flush                        -> ok
  m.orcc <n,n,...|->        compressed bytes emitted per Close, minus 1               -> ok
  m.run <a> <tocTarLen>     a = compressed size of the TOC frame minus 1
        -> ok nent=<TOC entries> nmem=<members> unc=<decompressed size> tocoff=<n|-> size=<blob size>
        -> err                       (appendTar returns an error / divide by zero)
  m.toc <i>   -> <name hex> <kind> <size> <offset> <innerOffset> <chunkOffset> <chunkSize> | none
  m.mem <j>   -> <start> <clen> <payloadLen> | none

check mode (translation validation of one REAL blob by the proved `checkIndex`):
  c.begin                                   -> ok
  c.mem <clen> <payload hex>                -> ok     members of the blob in order
  c.file <name hex> <content hex>           -> ok     regular files of the tar stream in order
  c.toc <name hex> <kind> <size> <offset> <innerOffset> <chunkOffset> <chunkSize>  -> ok
  c.run                                     -> index-ok | index-bad

fault stream (histories of sessions in one process; model `SV.DigestPool`, discipline of /repo = `fresh`):
  m.fault <kind> <n>        n sessions of the process failed: no blob, the Writer state is gone, the
                            process-wide digester state is what a failed chunk copy leaves        -> err
  d.begin                                                                                         -> ok
  d.chunk <data hex>        one successful chunk copy: the bytes its chunkDigest is taken over    -> rec <hex>
-/
namespace SV.Driver.C03
open SV.Driver SV.Writer

structure St where
  fmt : Fmt := .gzip
  mode : String := "W"
  chunkRaw : Int := 0
  minChunk : Nat := 0
  workers : Nat := 1
  needsOpen : Bool := false
  ents : List TarEnt := []                       -- current call, reversed
  calls : List (List TarEnt × Bytes) := []       -- reversed
  orcF : List Nat := []
  orcC : List Nat := []
  res : Option Blob := none
  cMems : List Member := []                      -- reversed
  cFiles : List FileC := []                      -- reversed
  cToc : List TocEnt := []                       -- reversed
  pool : List SV.DigestPool.Bytes := []          -- process-wide digester states (survives m.begin / m.fault)

def kindOf? : String → Option Kind
  | "reg" => some .reg | "chunk" => some .chunk | "dir" => some .dir | "symlink" => some .symlink
  | "hardlink" => some .hardlink | "char" => some .char | "block" => some .block
  | "fifo" => some .fifo | "other" => some .other | _ => none

def kindStr : Kind → String
  | .reg => "reg" | .chunk => "chunk" | .dir => "dir" | .symlink => "symlink"
  | .hardlink => "hardlink" | .char => "char" | .block => "block" | .fifo => "fifo"
  | .other => "other"

def fmtOf? : String → Option Fmt
  | "g" => some .gzip | "z" => some .zstd | "e" => some .external | _ => none

def bool? : String → Option Bool
  | "0" => some false | "1" => some true | _ => none

def natList? (s : String) : Option (List Nat) :=
  if s = "-" then some [] else (s.splitOn ",").mapM parseNat?

def zeros (n : Nat) : Bytes := List.replicate n 0

def showToc (e : TocEnt) : String :=
  s!"{hexStr e.name} {kindStr e.typ} {e.size} {e.offset} {e.innerOffset} {e.chunkOffset} {e.chunkSize}"

def memberAt : List Member → Nat → Nat → Option (Nat × Member)
  | [], _, _ => none
  | m :: ms, start, j => if j = 0 then some (start, m) else memberAt ms (start + m.clen) (j - 1)

def parseToc? (name kind size off inner choff chsize : String) : Option TocEnt := do
  let name ← unhexStr? name
  let kind ← kindOf? kind
  let size ← parseNat? size
  let off ← parseNat? off
  let inner ← parseNat? inner
  let choff ← parseNat? choff
  let chsize ← parseNat? chsize
  some ⟨name, kind, size, off, inner, choff, chsize⟩

def run (s : St) (a tocTarLen : Nat) : Option Blob :=
  let calls := s.calls.reverse
  let tocTar : List TocEnt → Bytes := fun _ => zeros tocTarLen
  if s.mode = "B" then
    match calls with
    | [(ents, _)] => build s.fmt (effChunk s.chunkRaw) s.minChunk s.workers ents tocTar s.orcF s.orcC a
    | _ => none
  else
    let P : Params := ⟨effChunk s.chunkRaw, s.minChunk, if s.needsOpen then landmarks else [], s.mode = "L"⟩
    writerRun P s.fmt calls tocTar s.orcF s.orcC a

def step (s : St) : List String → St × String
  | ["m.begin", fmt, mode, chunk, minChunk, workers, needsOpen] =>
    match fmtOf? fmt, parseInt? chunk, parseNat? minChunk, parseNat? workers, bool? needsOpen with
    | some fmt, some chunk, some minChunk, some workers, some needsOpen =>
      if mode = "W" ∨ mode = "L" ∨ mode = "B" then
        ({ fmt := fmt, mode := mode, chunkRaw := chunk, minChunk := minChunk, workers := workers,
           needsOpen := needsOpen, pool := s.pool }, "ok")
      else (s, "bad-op")
    | _, _, _, _, _ => (s, "bad-op")
  | ["m.ent", name, kind, istoc, pre, data, post] =>
    match unhexStr? name, kindOf? kind, bool? istoc, parseNat? pre, parseNat? data, parseNat? post with
    | some name, some kind, some istoc, some pre, some data, some post =>
      ({ s with ents := ⟨name, kind, istoc, zeros pre, zeros data, zeros post⟩ :: s.ents }, "ok")
    | _, _, _, _, _, _ => (s, "bad-op")
  | ["m.call", tail] =>
    match parseNat? tail with
    | some tail => ({ s with calls := (s.ents.reverse, zeros tail) :: s.calls, ents := [] }, "ok")
    | none => (s, "bad-op")
  | ["m.orcf", l] =>
    match natList? l with
    | some l => ({ s with orcF := l }, "ok")
    | none => (s, "bad-op")
  | ["m.orcc", l] =>
    match natList? l with
    | some l => ({ s with orcC := l }, "ok")
    | none => (s, "bad-op")
  | ["m.run", a, tocTarLen] =>
    match parseNat? a, parseNat? tocTarLen with
    | some a, some tocTarLen =>
      match run s a tocTarLen with
      | none => ({ s with res := none }, "err")
      | some b =>
        let tocoff := match b.tocOff with | some o => toString o | none => "-"
        ({ s with res := some b },
         s!"ok nent={b.toc.length} nmem={b.members.length} unc={(streamOf b.members).length} tocoff={tocoff} size={b.size}")
    | _, _ => (s, "bad-op")
  | ["m.toc", i] =>
    match parseNat? i, s.res with
    | some i, some b =>
      match b.toc[i]? with
      | some e => (s, showToc e)
      | none => (s, "none")
    | some _, none => (s, "none")
    | none, _ => (s, "bad-op")
  | ["m.mem", j] =>
    match parseNat? j, s.res with
    | some j, some b =>
      match memberAt b.members 0 j with
      | some (start, m) => (s, s!"{start} {m.clen} {m.payload.length}")
      | none => (s, "none")
    | some _, none => (s, "none")
    | none, _ => (s, "bad-op")
  | ["m.fault", _kind, n] =>
    match parseNat? n with
    | some n =>
      let r := SV.DigestPool.chunkStep .fresh s.pool { sess := n, data := [], failAt := some 0 }
      ({ pool := r.2 }, match r.1 with | none => "err" | some _ => "ok")
    | none => (s, "bad-op")
  | ["d.begin"] => (s, "ok")
  | ["d.chunk", data] =>
    match unhex? data with
    | some data =>
      let r := SV.DigestPool.chunkStep .fresh s.pool { data := data }
      ({ s with pool := r.2 }, match r.1 with | some d => "rec " ++ hex d | none => "err")
    | none => (s, "bad-op")
  | ["c.begin"] => ({ s with cMems := [], cFiles := [], cToc := [] }, "ok")
  | ["c.mem", clen, payload] =>
    match parseNat? clen, unhex? payload with
    | some clen, some payload => ({ s with cMems := ⟨payload, clen⟩ :: s.cMems }, "ok")
    | _, _ => (s, "bad-op")
  | ["c.file", name, content] =>
    match unhexStr? name, unhex? content with
    | some name, some content => ({ s with cFiles := ⟨name, content⟩ :: s.cFiles }, "ok")
    | _, _ => (s, "bad-op")
  | ["c.toc", name, kind, size, off, inner, choff, chsize] =>
    match parseToc? name kind size off inner choff chsize with
    | some e => ({ s with cToc := e :: s.cToc }, "ok")
    | none => (s, "bad-op")
  | ["c.run"] =>
    (s, if checkIndex s.cToc.reverse s.cMems.reverse s.cFiles.reverse then "index-ok" else "index-bad")
  | _ => (s, "bad-op")

end SV.Driver.C03

def main : IO Unit := SV.Driver.loop SV.Driver.C03.step {}
