import SV.Driver.Util
import SV.Model.Store
import SV.Model.StoreFs
/-
svdriver_c16: line protocol for the C16 model (SV.Store).  Digests and references travel as the
small indices the harness assigns to them.
  image <ref> <ld>:<toc> ...            -> ok          registry truth (manifest order)
  reset                                 -> ok          fresh LayerManager
  lookup <ref> <toc> <mf> <bits>        -> ok <id> | err          getLayer
  clookup <ref> <toc> <mf> <bits>       -> done                   getLayer whose client cancelled its context
  info <ref> <toc> <mf>                 -> ok - | ok <idx> | err  getLayerInfo
  use <ref> <toc>                       -> <count>
  release <ref> <toc>                   -> ok <count> | err
  nlookup <ref> <toc> diff|blob|info <mf> <bits>   -> ok | eio    layernode.Lookup
  ncreate <ref> <toc>                   -> enoent                 layernode.Create("use")
  nrmdir <ref> <toc>                    -> enoent | eio           refnode.Rmdir
  snap                                  -> L=.. C=.. M=.. D=.. P=.. K=..
FUSE node layer of store/fs.go (SV.StoreFs; the LayerManager state is shared with the ops above):
  sfs-reset                             -> ok          fresh LayerManager + fresh node tree
  sfs-lookup <node> <name> <mf> <bits>  -> ok <node> <ino> | einval | eio | enoent | badreq
  sfs-forget <node> <n>                 -> ok | badreq
  sfs-create <node> <name>              -> enoent | erofs | badreq
  sfs-rmdir <node> <name>               -> enoent | eio | einval | ok | badreq
  sfs-snap                              -> N=.. Y=.. T=.. H=.. X=..   (nodeMap, layerMap, tree, held nodes, clash)
<name>: r<ref> | pool | t<toc> | diff | info | blob | use | other | bad; <ino> of a diff dir: d<layerMap id>.
<mf> is the registry's answer for the manifest (0/1), <bits> one 0/1 per manifest layer ("-" if none).
-/
namespace SV.Driver.C16
open SV.Driver SV.Store

structure DSt where
  truth : List (Ref × List (LDigest × Toc)) := []
  st : St := {}
  fs : SV.StoreFs.St := {}

def truthOf (d : DSt) : Truth :=
  ⟨fun r => (d.truth.find? (fun p => p.1 == r)).map (·.2)⟩

def parsePair? (s : String) : Option (Nat × Nat) :=
  match s.splitOn ":" with
  | [a, b] => do
    let a ← parseNat? a
    let b ← parseNat? b
    some (a, b)
  | _ => none

def parseBit? (s : String) : Option Bool :=
  if s = "1" then some true else if s = "0" then some false else none

def parseBits? (s : String) : Option (List Bool) :=
  if s = "-" then some [] else
  s.toList.mapM fun c => if c = '1' then some true else if c = '0' then some false else none

/-- the oracle described by one op line; `none` when the bits do not fit the image or give two
answers for one digest. -/
def mkOracle? (d : DSt) (r : Ref) (mf : Bool) (bits : List Bool) : Option Oracle :=
  let ls := ((truthOf d).images r).getD []
  if ls.length ≠ bits.length then none else
  let tab := (ls.zip bits).map fun p => (p.1.1, p.2)
  if tab.any (fun p => tab.any fun q => p.1 == q.1 && p.2 != q.2) then none else
  some ⟨fun r' => if r' = r then mf else true,
        fun r' dg => if r' = r then ((tab.find? (fun p => p.1 == dg)).map (·.2)).getD false else true⟩

def insertBy {α : Type} (lt : α → α → Bool) (x : α) : List α → List α
  | [] => [x]
  | y :: ys => if lt x y then x :: y :: ys else y :: insertBy lt x ys

def sortBy {α : Type} (lt : α → α → Bool) (xs : List α) : List α := xs.foldr (insertBy lt) []

def joinOr (xs : List String) : String := if xs.isEmpty then "-" else ",".intercalate xs

def flat {V : Type} (m : Map (Map V)) : List (Nat × Nat × V) :=
  m.flatMap fun p => p.2.map fun q => (p.1, q.1, q.2)

def lt2 {V : Type} (a b : Nat × Nat × V) : Bool := a.1 < b.1 || (a.1 == b.1 && a.2.1 < b.2.1)

def snap (s : St) : String :=
  let ls := (sortBy lt2 (flat s.layer)).map fun e => s!"{e.1}:{e.2.1}={e.2.2.id}"
  let cs := (sortBy lt2 (flat s.refcounter)).map fun e => s!"{e.1}:{e.2.1}={e.2.2}"
  let ms := (sortBy lt2 (flat s.memo)).map fun e =>
    s!"{e.1}:{e.2.1}={match e.2.2 with | .ok => "ok" | .err => "err"}"
  let ds := (sortBy (fun a b => decide (a < b)) s.done).map toString
  let ps := (sortBy (fun (a b : Nat × Int) => decide (a.1 < b.1)) s.pool).map fun e => s!"{e.1}={e.2}"
  let ks := (sortBy (fun a b => decide (a < b)) s.disk).map toString
  s!"L={joinOr ls} C={joinOr cs} M={joinOr ms} D={joinOr ds} P={joinOr ps} K={joinOr ks}"

/-! ### FUSE node layer (SV.StoreFs) -/

def parseName? (w : String) : Option SV.StoreFs.Name :=
  if w = "pool" then some .pool
  else if w = "diff" then some (.leaf .diff)
  else if w = "info" then some (.leaf .info)
  else if w = "blob" then some (.leaf .blob)
  else if w = "use" then some (.leaf .use)
  else if w = "other" then some (.leaf .other)
  else if w = "bad" then some .bad
  else if w.startsWith "r" then (parseNat? (w.drop 1).toString).map .ref
  else if w.startsWith "t" then (parseNat? (w.drop 1).toString).map .toc
  else none

def showName : SV.StoreFs.Name → String
  | .ref r => s!"r{r}"
  | .pool => "pool"
  | .toc t => s!"t{t}"
  | .leaf .diff => "diff"
  | .leaf .info => "info"
  | .leaf .blob => "blob"
  | .leaf .use => "use"
  | .leaf .other => "other"
  | .bad => "bad"

def showIno (n : SV.StoreFs.Node) : String :=
  match n.kind with
  | .diff b => s!"d{b}"
  | _ => toString n.ino

def showRes (s : SV.StoreFs.St) : SV.StoreFs.Res → String
  | .entry i _ =>
    match SV.StoreFs.node? s i with
    | some n => s!"ok {i} {showIno n}"
    | none => s!"ok {i} ?"
  | .ok => "ok"
  | .einval => "einval"
  | .eio => "eio"
  | .enoent => "enoent"
  | .erofs => "erofs"
  | .badreq => "badreq"

/-- path of a node from the root (`none`: detached). -/
def pathOf (s : SV.StoreFs.St) : Nat → SV.StoreFs.Node → Option String
  | 0, _ => none
  | f + 1, n =>
    match n.parent with
    | none => none
    | some p =>
      if p = SV.StoreFs.rootId then some (showName n.name)
      else match SV.StoreFs.node? s p with
        | some pn => (pathOf s f pn).map fun q => q ++ "/" ++ showName n.name
        | none => none

def sortStr (xs : List String) : List String := sortBy (fun a b => decide (a < b)) xs

def fsSnap (s : SV.StoreFs.St) : String :=
  let nm := (sortBy (fun a b => decide (a < b)) s.nodeMap).map toString
  let ym := (sortBy (fun a b => decide (a < b)) s.layerMap).map toString
  let tr := sortStr (s.nodes.filterMap fun n => (pathOf s 4 n).map fun p => s!"{p}={showIno n}")
  let hd := (sortBy (fun (a b : Nat × Nat) => decide (a.1 < b.1))
    ((s.nodes.filter fun n => n.lookups > 0).map fun n => (n.id, n.lookups))).map fun e => s!"{e.1}:{e.2}"
  s!"N={joinOr nm} Y={joinOr ym} T={joinOr tr} H={joinOr hd} X={if s.clash then 1 else 0}"

/-- the image a request on node `p` concerns (for the registry oracle of the op line). -/
def refOfNode (s : SV.StoreFs.St) (p : Nat) : Option Nat :=
  match SV.StoreFs.node? s p with
  | some n => match n.kind with
    | .layer r _ => some r
    | _ => none
  | none => none

def fsStep (d : DSt) (op : SV.StoreFs.Op) : DSt × String :=
  let s0 : SV.StoreFs.St := { d.fs with lm := d.st }
  let (s, res) := SV.StoreFs.step (truthOf d) s0 op
  ({ d with st := s.lm, fs := s }, showRes s res)

def sfs (d : DSt) : List String → DSt × String
  | ["sfs-reset"] => ({ d with st := {}, fs := {} }, "ok")
  | ["sfs-lookup", p, nm, mf, bits] =>
    match parseNat? p, parseName? nm, parseBit? mf, parseBits? bits with
    | some p, some nm, some mf, some bits =>
      let s0 : SV.StoreFs.St := { d.fs with lm := d.st }
      match refOfNode s0 p with
      | some r =>
        match mkOracle? d r mf bits with
        | some o => fsStep d (.lookup o p nm)
        | none => (d, "bad-op")
      | none => fsStep d (.lookup Oracle.healthy p nm)
    | _, _, _, _ => (d, "bad-op")
  | ["sfs-forget", i, n] =>
    match parseNat? i, parseNat? n with
    | some i, some n => fsStep d (.forget i n)
    | _, _ => (d, "bad-op")
  | ["sfs-create", p, nm] =>
    match parseNat? p, parseName? nm with
    | some p, some nm => fsStep d (.create p nm)
    | _, _ => (d, "bad-op")
  | ["sfs-rmdir", p, nm] =>
    match parseNat? p, parseName? nm with
    | some p, some nm => fsStep d (.rmdir p nm)
    | _, _ => (d, "bad-op")
  | ["sfs-snap"] => (d, fsSnap { d.fs with lm := d.st })
  | _ => (d, "bad-op")

def step (d : DSt) : List String → DSt × String
  | "image" :: r :: ls =>
    match parseNat? r, ls.mapM parsePair? with
    | some r, some ls => ({ d with truth := (r, ls) :: d.truth.filter (fun p => p.1 != r) }, "ok")
    | _, _ => (d, "bad-op")
  | ["reset"] => ({ d with st := {} }, "ok")
  | ["lookup", r, t, mf, bits] =>
    match parseNat? r, parseNat? t, parseBit? mf, parseBits? bits with
    | some r, some t, some mf, some bits =>
      match mkOracle? d r mf bits with
      | some o =>
        match lookup (truthOf d) o d.st r t with
        | (s, .layer l) => ({ d with st := s }, s!"ok {l.id}")
        | (s, .err) => ({ d with st := s }, "err")
        | (s, _) => ({ d with st := s }, "model-error")
      | none => (d, "bad-op")
    | _, _, _, _ => (d, "bad-op")
  | ["clookup", r, t, mf, bits] =>
    -- a lookup abandoned by its client: what it returns is not compared, the state it leaves is
    match parseNat? r, parseNat? t, parseBit? mf, parseBits? bits with
    | some r, some t, some mf, some bits =>
      match mkOracle? d r mf bits with
      | some o => ({ d with st := (lookup (truthOf d) o d.st r t).1 }, "done")
      | none => (d, "bad-op")
    | _, _, _, _ => (d, "bad-op")
  | ["nlookup", r, t, kind, mf, bits] =>
    match parseNat? r, parseNat? t, parseBit? mf, parseBits? bits with
    | some r, some t, some mf, some bits =>
      if kind = "info" then
        let o : Oracle := ⟨fun r' => if r' = r then mf else true, fun _ _ => true⟩
        match info (truthOf d) o d.st r t with
        | (s, .info _) => ({ d with st := s }, "ok")
        | (s, _) => ({ d with st := s }, "eio")
      else if kind = "diff" ∨ kind = "blob" then
        match mkOracle? d r mf bits with
        | some o =>
          match lookup (truthOf d) o d.st r t with
          | (s, .layer l) =>
            -- `l.Verify(n.digest)`: the TOC digest of the instance against the directory name
            ({ d with st := s }, if l.toc = t then "ok" else "eio")
          | (s, _) => ({ d with st := s }, "eio")
        | none => (d, "bad-op")
      else (d, "bad-op")
    | _, _, _, _ => (d, "bad-op")
  | ["info", r, t, mf] =>
    match parseNat? r, parseNat? t, parseBit? mf with
    | some r, some t, some mf =>
      let o : Oracle := ⟨fun r' => if r' = r then mf else true, fun _ _ => true⟩
      match info (truthOf d) o d.st r t with
      | (s, .info none) => ({ d with st := s }, "ok -")
      | (s, .info (some i)) => ({ d with st := s }, s!"ok {i}")
      | (s, .err) => ({ d with st := s }, "err")
      | (s, _) => ({ d with st := s }, "model-error")
    | _, _, _ => (d, "bad-op")
  | ["use", r, t] =>
    match parseNat? r, parseNat? t with
    | some r, some t =>
      match use d.st r t with
      | (s, .count n) => ({ d with st := s }, s!"{n}")
      | (s, _) => ({ d with st := s }, "model-error")
    | _, _ => (d, "bad-op")
  | ["ncreate", r, t] =>
    match parseNat? r, parseNat? t with
    | some r, some t => ({ d with st := (use d.st r t).1 }, "enoent")
    | _, _ => (d, "bad-op")
  | ["release", r, t] =>
    match parseNat? r, parseNat? t with
    | some r, some t =>
      match release d.st r t with
      | (s, .count n) => ({ d with st := s }, s!"ok {n}")
      | (s, .err) => ({ d with st := s }, "err")
      | (s, _) => ({ d with st := s }, "model-error")
    | _, _ => (d, "bad-op")
  | ["nrmdir", r, t] =>
    match parseNat? r, parseNat? t with
    | some r, some t =>
      match release d.st r t with
      | (s, .count _) => ({ d with st := s }, "enoent")
      | (s, _) => ({ d with st := s }, "eio")
    | _, _ => (d, "bad-op")
  | ["snap"] => (d, snap d.st)
  | w :: ws => if w.startsWith "sfs-" then sfs d (w :: ws) else (d, "bad-op")
  | _ => (d, "bad-op")

end SV.Driver.C16

def main : IO Unit := SV.Driver.loop SV.Driver.C16.step {}
