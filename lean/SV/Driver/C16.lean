import SV.Driver.Util
/- svdriver_c16: line protocol for the C16 model (stub until the model is built). -/
namespace SV.Driver.C16

def step (s : Unit) : List String → Unit × String
  | _ => (s, "bad-op")

end SV.Driver.C16

def main : IO Unit := SV.Driver.loop SV.Driver.C16.step ()
