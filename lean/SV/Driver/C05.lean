import SV.Driver.Util
import SV.Model.Toc

/-
svdriver_c05: line protocol for the two TOC interpreters (`SV.Toc.memTree`, `SV.Toc.dbTree`).

  layer <L> <blobsize>                 -> ok            start the TOC of layer L
  entry <L> <name> <type> <size> <linkName> <mode> <uid> <gid> <devMajor> <devMinor> <offset>
        <innerOffset> <chunkOffset> <chunkSize> <digest> <chunkDigest> <mtime|z> <k:v,...|->
                                       -> ok            (strings hex encoded, `-` = empty; xattr values stay hex)
  open  mem|db <L>                     -> ok | err      interpret the TOC (accept / reject)
  close mem|db <L>                     -> ok            db: the layer's tree is removed
  stat  <store> <L> <path>             -> mode=.. size=.. uid=.. gid=.. dev=..:.. nlink=.. link=..
                                          mtime=.. xattrs=.. same=<first path of the node> | err | closed
  off   <store> <L> <path>             -> <n> | err
  ls    <store> <L> <path>             -> n=<k> <name>:<t>,... | err
  deep  <store> <L> <path>             -> deep
  fopen <store> <L> <path>             -> ok | err
  chunk <store> <L> <path> <offset>    -> <chunkOffset> <chunkSize> <digest> | none
  tocspan <store> <L> <compr> <jsonLen> <trailing> -> whole | json | unspec
  clone <store> <L>                     -> same | closed    (a Clone serves the tree of its origin)
  spec <L>                              -> conf | nonconf   (decides `SpecConformingR`, the fragment of the theorems)
-/
namespace SV.Driver.C05
open SV.Driver SV.Toc

structure Opened where
  tree : Tree
  all : List (Path × Key)
  view : View

structure St where
  tocs : List (String × List Entry) := []       -- entries reversed
  mem : List (String × Opened) := []
  db : List (String × Opened) := []

def lookupS {α : Type} (k : String) : List (String × α) → Option α
  | [] => none
  | (a, v) :: rest => if a = k then some v else lookupS k rest

def setS {α : Type} (k : String) (v : α) (l : List (String × α)) : List (String × α) :=
  (k, v) :: l.filter (·.1 ≠ k)

def parseKV? (s : String) : Option (String × String) :=
  match s.splitOn ":" with
  | [k, v] => do
    let k ← unhexStr? k
    -- values are arbitrary bytes and opaque to both stores: kept in their hex spelling
    let _ ← unhex? v
    some (k, v)
  | _ => none

def parseXattrs? (s : String) : Option (List (String × String)) :=
  if s = "-" then some [] else (s.splitOn ",").mapM parseKV?

def parseEntry? : List String → Option Entry
  | [name, type, size, link, mode, uid, gid, dmaj, dmin, off, inner, coff, csize, dg, cdg, mt, xs] => do
    let name ← unhexStr? name
    let type ← unhexStr? type
    let size ← parseInt? size
    let link ← unhexStr? link
    let mode ← parseInt? mode
    let uid ← parseInt? uid
    let gid ← parseInt? gid
    let dmaj ← parseInt? dmaj
    let dmin ← parseInt? dmin
    let off ← parseInt? off
    let inner ← parseInt? inner
    let coff ← parseInt? coff
    let csize ← parseInt? csize
    let dg ← unhexStr? dg
    let cdg ← unhexStr? cdg
    let mt ← if mt = "z" then some none else (parseInt? mt).map some
    let xs ← parseXattrs? xs
    some { name := name, type := type, size := size, linkName := link, mode := mode, uid := uid,
           gid := gid, devMajor := dmaj, devMinor := dmin, offset := off, innerOffset := inner,
           chunkOffset := coff, chunkSize := csize, digest := dg, chunkDigest := cdg, mtime := mt,
           xattrs := xs }
  | _ => none

def octal (n : Nat) : String := String.ofList (Nat.toDigits 8 n)

def showPath (p : Path) : String := hexStr (renderPath p)

def showXattrs (xs : List (String × String)) : String :=
  if xs.isEmpty then "-" else ",".intercalate (xs.map fun kv => hexStr kv.1 ++ ":" ++ kv.2)

def showAttr (a : NAttr) : String :=
  s!"mode={octal a.mode} size={a.size} uid={a.uid} gid={a.gid} dev={a.devMajor}:{a.devMinor} nlink={a.nlink} link={hexStr a.linkName} mtime={match a.mtime with | some t => toString t | none => "z"} xattrs={showXattrs a.xattrs}"

def showTriple : Option (Int × Int × String) → String
  | some (co, cs, d) => s!"{co} {cs} {hexStr d}"
  | none => "none"

def openTree (t : Tree) : Opened :=
  let all := (listing t maxDepth [] t.root []).1
  { tree := t, all := all, view := all.map (nodeView t all) }

def findView (o : Opened) (p : Path) : Option NodeView := o.view.find? (·.path = p)

def findKey (o : Opened) (p : Path) : Option Key := (o.all.find? (·.1 = p)).map (·.2)

def stores (s : St) (store : String) : Option (List (String × Opened)) :=
  if store = "mem" then some s.mem else if store = "db" then some s.db else none

def query (o : Opened) (verb : String) (p : Path) (args : List String) : String :=
  match verb, args with
  | "stat", [] =>
    (match findView o p with
     | some v => if v.ok then s!"{showAttr v.attr} same={showPath v.same}" else "err"
     | none => "nopath")
  | "off", [] =>
    (match findView o p with
     | some v => if v.ok then toString v.offset else "err"
     | none => "nopath")
  | "ls", [] =>
    (match findView o p with
     | some v =>
       (match v.ls with
        | some (some l) =>
          if l.isEmpty then "n=0"
          else s!"n={l.length} " ++ ",".intercalate (l.map fun nc => hexStr nc.1 ++ ":" ++ String.singleton nc.2)
        | some none => "err"
        | none => "nols")
     | none => "nopath")
  | "deep", [] =>
    (match findView o p with
     | some v => if v.deep then "deep" else "notdeep"
     | none => "nopath")
  | "fopen", [] =>
    (match findKey o p with
     | some k => let n := o.tree.node k; if n.ok ∧ n.openOk then "ok" else "err"
     | none => "nopath")
  | "chunk", [x] =>
    (match findKey o p, parseInt? x with
     | some k, some x => showTriple ((o.tree.node k).chunks.lookup x)
     | none, some _ => "nopath"
     | _, none => "bad-op")
  | _, _ => "bad-op"

def parseCompr? : String → Option Compression
  | "gzip" => some .gzip | "zstd" => some .zstd | "ext" => some .ext | _ => none

def step (s : St) : List String → St × String
  | ["layer", l, size] =>
    match parseNat? size with
    | some _ => ({ s with tocs := setS l [] s.tocs }, "ok")
    | none => (s, "bad-op")
  | "entry" :: l :: fields =>
    match lookupS l s.tocs, parseEntry? fields with
    | some es, some e => ({ s with tocs := setS l (e :: es) s.tocs }, "ok")
    | _, _ => (s, "bad-op")
  | ["open", store, l] =>
    match lookupS l s.tocs with
    | none => (s, "bad-op")
    | some res =>
      let es := res.reverse
      if store = "mem" then
        match memTree es with
        | .accept t => ({ s with mem := setS l (openTree t) s.mem }, "ok")
        | .reject => ({ s with mem := s.mem.filter (·.1 ≠ l) }, "err")
      else if store = "db" then
        match dbTree es with
        | .accept t => ({ s with db := setS l (openTree t) s.db }, "ok")
        | .reject => ({ s with db := s.db.filter (·.1 ≠ l) }, "err")
      else (s, "bad-op")
  | ["clone", store, l] =>
    -- `Clone` only swaps the SectionReader: root id, TOC digest and every answer are the origin's
    match stores s store with
    | some tab => (s, if (lookupS l tab).isSome then "same" else "closed")
    | none => (s, "bad-op")
  | ["spec", l] =>
    match lookupS l s.tocs with
    | none => (s, "bad-op")
    | some res => (s, if decide (SpecConformingR res.reverse) then "conf" else "nonconf")
  | ["close", store, l] =>
    -- memory.reader.Close is a no-op; db.reader.Close deletes the layer's bucket
    if store = "mem" then (s, "ok")
    else if store = "db" then ({ s with db := s.db.filter (·.1 ≠ l) }, "ok")
    else (s, "bad-op")
  | ["tocspan", store, _l, compr, jl, tr] =>
    match parseCompr? compr, parseNat? jl, parseNat? tr with
    | some c, some jl, some tr =>
      let st : Option Store := if store = "mem" then some .mem else if store = "db" then some .db else none
      (match st with
       | some st =>
         (match tocDigestSpan c st jl tr with
          | some n => (s, if n = jl + tr then "whole" else if n = jl then "json" else "other")
          | none => (s, "unspec"))
       | none => (s, "bad-op"))
    | _, _, _ => (s, "bad-op")
  | verb :: store :: l :: p :: args =>
    match stores s store, unhexStr? p with
    | some tab, some ps =>
      (match lookupS l tab with
       | some o => (s, query o verb (cleanName ps) args)
       | none => (s, if verb = "stat" ∨ verb = "off" ∨ verb = "ls" ∨ verb = "fopen" ∨ verb = "chunk" ∨ verb = "deep"
                     then "closed" else "bad-op"))
    | _, _ => (s, "bad-op")
  | _ => (s, "bad-op")

end SV.Driver.C05

def main : IO Unit := SV.Driver.loop SV.Driver.C05.step {}
