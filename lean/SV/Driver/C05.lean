import SV.Driver.Util
/- svdriver_c05: line protocol for the C05 model (stub until the model is built). -/
namespace SV.Driver.C05

def step (s : Unit) : List String → Unit × String
  | _ => (s, "bad-op")

end SV.Driver.C05

def main : IO Unit := SV.Driver.loop SV.Driver.C05.step ()
