import SV.Driver.Util
/- svdriver_c18: line protocol for the C18 model (stub until the model is built). -/
namespace SV.Driver.C18

def step (s : Unit) : List String → Unit × String
  | _ => (s, "bad-op")

end SV.Driver.C18

def main : IO Unit := SV.Driver.loop SV.Driver.C18.step ()
