import SV.Driver.Util
import SV.Model.Creds
/-
svdriver_c18: line protocol for the C18 model (SV/Model/Creds.lean).

keychain (norm := normDocker)
  k.reset                                -> ok
  k.connect                              -> ok
  k.pull <image hex> <auth> <backend 0|1>   -> ok|err key=<hex|!>
  k.remove <image hex> <backend 0|1>        -> ok|err key=<hex|!>
  k.query <host hex> <ref hex>           -> ok <user hex> <secret hex> | err
  pa <auth> <host hex>                   -> ok <user hex> <secret hex> | err      (ParseAuth)
  uh <url hex>                           -> host=<hex> | err                      (url.Parse(..).Host)
  norm <image hex>                       -> key=<hex|!>
  mc <r1>;<r2>;...                       -> ok <u> <s> | err                      (multiCredsFuncs)
     r = e | <user hex>:<secret hex>
  mcb <r1>;<r2>;...                      -> ok <u> <s> | incomplete | err         (the same through the authorizer)
  rh <0|1 per mirror, or ->               -> <h<j>|-> per returned host, comma separated (RegistryHostsFromConfig)
  <auth> = nil | u=<hex>,p=<hex>,a=<hex>,s=<hex>,i=<hex>,r=<hex>

fetcher
  f.new <absent|retry|fail> <force 0|1> <v{0|1}h{0|1},...> <answers>  -> ok|err reqs=..
  f.read <answers>      -> - reqs=..
  f.check <answers>     -> ok|err reqs=..
  f.refresh <answers>   -> ok|err reqs=..
  <answers> = - | comma list of 200 206 3r<i> 3o 3- 401 403 400 neterr x
  reqs = - | ;-list of <H|P|F>@<r<i>|o>/<h<j>|->
-/
namespace SV.Driver.C18
open SV.Driver SV.Creds

structure St where
  k : KState := {}
  cfg : FCfg := ⟨.absent, false, []⟩
  f : Option FState := none

def parseField? (kv : String) : Option (String × List UInt8) :=
  match kv.splitOn "=" with
  | [k, v] => (unhex? v).map fun b => (k, b)
  | _ => none

def parseAuthCfg? (s : String) : Option (Option AuthConfig) :=
  if s = "nil" then some none
  else
    match (s.splitOn ",").mapM parseField? with
    | some [("u", u), ("p", p), ("a", a), ("s", sa), ("i", i), ("r", r)] =>
      match String.fromUTF8? ⟨sa.toArray⟩ with
      | some sa => some (some { username := u, password := p, auth := a, serverAddress := sa,
                                identityToken := i, registryToken := r })
      | none => none
    | _ => none

def showRes : Res → String
  | .ok u s => s!"ok {hex u} {hex s}"
  | .err => "err"

def showKey : Option Ref → String
  | some k => s!"key={hexStr k}"
  | none => "key=!"

def parseBool? : String → Option Bool
  | "0" => some false
  | "1" => some true
  | _ => none

def parseTarget? (s : String) : Option Target :=
  if s = "o" then some .other
  else match s.toList with
    | 'r' :: ds => (String.ofList ds).toNat?.map .reg
    | _ => none

def parseAns? (s : String) : Option Ans :=
  match s with
  | "200" => some .ok200
  | "206" => some .partial206
  | "401" => some .unauth401
  | "403" => some .forbidden403
  | "400" => some .badReq400
  | "neterr" => some .netErr
  | "x" => some .other
  | "3-" => some .redirectNoLoc
  | _ => match s.toList with
    | '3' :: t => (parseTarget? (String.ofList t)).map .redirect
    | _ => none

def parseScript? (s : String) : Option (List Ans) :=
  if s = "-" then some [] else (s.splitOn ",").mapM parseAns?

def parseHostCfg? (s : String) : Option HostCfg :=
  match s.toList with
  | ['v', v, 'h', h] =>
    match parseBool? (String.ofList [v]), parseBool? (String.ofList [h]) with
    | some v, some h => some ⟨v, h⟩
    | _, _ => none
  | _ => none

def parseAuthz? : String → Option Authz
  | "absent" => some .absent
  | "retry" => some .retry
  | "fail" => some .fail
  | _ => none

def showTarget : Target → String
  | .reg i => s!"r{i}"
  | .other => "o"

def showCarries : Option Nat → String
  | some j => s!"h{j}"
  | none => "-"

/-- Wire class of a request: HEAD, fetch GET (Accept-Encoding: identity), probe GET (Range 0-1). -/
def showKind : ReqKind → String
  | .head => "H"
  | .fetch => "F"
  | .redirect | .sizeGet | .check => "P"

def showReqs (l : List Req) : String :=
  if l.isEmpty then "-"
  else ";".intercalate (l.map fun r => s!"{showKind r.kind}@{showTarget r.target}/{showCarries r.carries}")

def showFSt : Option FState → String
  | none => "none"
  | some st => s!"b{st.host},u{showTarget st.url},c{showCarries st.hdr},s{if st.single then 1 else 0}"

/-- The fetcher state is NOT part of the compared line (it is internal to the implementation and
shows in the requests of the following operations). -/
def fline (res : String) (log : List Req) (_st : Option FState) (rest : List Ans) : String :=
  let base := s!"{res} reqs={showReqs log}"
  if rest.isEmpty then base else s!"{base} leftover={rest.length}"

def okErr (b : Bool) : String := if b then "ok" else "err"

def parseMcRes? (s : String) : Option Res :=
  if s = "e" then some .err
  else match s.splitOn ":" with
    | [u, p] =>
      match unhex? u, unhex? p with
      | some u, some p => some (.ok u p)
      | _, _ => none
    | _ => none

def step (s : St) : List String → St × String
  | ["k.reset"] => ({ s with k := {} }, "ok")
  | ["k.connect"] => ({ s with k := (kstep normDocker s.k .connect).1 }, "ok")
  | ["k.pull", image, auth, backend] =>
    match unhexStr? image, parseAuthCfg? auth, parseBool? backend with
    | some image, some auth, some backend =>
      let (k', ok) := kstep normDocker s.k (.pull image auth backend)
      ({ s with k := k' }, s!"{okErr ok} {showKey (normDocker image)}")
    | _, _, _ => (s, "bad-op")
  | ["k.remove", image, backend] =>
    match unhexStr? image, parseBool? backend with
    | some image, some backend =>
      let (k', ok) := kstep normDocker s.k (.remove image backend)
      ({ s with k := k' }, s!"{okErr ok} {showKey (normDocker image)}")
    | _, _ => (s, "bad-op")
  | ["k.query", host, ref] =>
    match unhexStr? host, unhexStr? ref with
    | some host, some ref => (s, showRes (credentials s.k host ref))
    | _, _ => (s, "bad-op")
  | ["pa", auth, host] =>
    match parseAuthCfg? auth, unhexStr? host with
    | some auth, some host => (s, showRes (parseAuth auth host))
    | _, _ => (s, "bad-op")
  | ["uh", u] =>
    match unhexStr? u with
    | some u =>
      match urlHost u with
      | some h => (s, s!"host={hexStr h}")
      | none => (s, "err")
    | none => (s, "bad-op")
  | ["norm", image] =>
    match unhexStr? image with
    | some image => (s, showKey (normDocker image))
    | none => (s, "bad-op")
  | ["mc", rs] =>
    match (if rs = "-" then some [] else (rs.splitOn ";").mapM parseMcRes?) with
    | some rs =>
      let fs : List (String → Ref → Res) := rs.map fun r => fun _ _ => r
      (s, showRes (multiCreds fs "" ""))
    | none => (s, "bad-op")
  | ["mcb", rs] =>
    -- multiCredsFuncs seen through docker's Basic-auth handler, which rejects an incomplete pair
    match (if rs = "-" then some [] else (rs.splitOn ";").mapM parseMcRes?) with
    | some rs =>
      let fs : List (String → Ref → Res) := rs.map fun r => fun _ _ => r
      match multiCreds fs "" "" with
      | .err => (s, "err")
      | .ok u p => if u ≠ [] ∧ p ≠ [] then (s, s!"ok {hex u} {hex p}") else (s, "incomplete")
    | none => (s, "bad-op")
  | ["rh", mirrors] =>
    match (if mirrors = "-" then some [] else (mirrors.toList.mapM fun c => parseBool? (String.ofList [c]))) with
    | some ms => (s, ",".intercalate ((hostHeaders ms).map showCarries))
    | none => (s, "bad-op")
  | ["f.new", az, force, hosts, script] =>
    match parseAuthz? az, parseBool? force, (hosts.splitOn ",").mapM parseHostCfg?, parseScript? script with
    | some az, some force, some hosts, some sc =>
      let cfg : FCfg := ⟨az, force, hosts⟩
      let (log, f, rest) := newFetcher az force hosts sc
      ({ s with cfg := cfg, f := f }, fline (okErr f.isSome) log f rest)
    | _, _, _, _ => (s, "bad-op")
  | ["f.read", script] =>
    match s.f, parseScript? script with
    | some st, some sc =>
      let (log, st', _, rest) := fstep s.cfg st (.read sc)
      ({ s with f := some st' }, fline "-" log (some st') rest)
    | _, _ => (s, "bad-op")
  | ["f.check", script] =>
    match s.f, parseScript? script with
    | some st, some sc =>
      let (log, st', ok, rest) := fstep s.cfg st (.check sc)
      ({ s with f := some st' }, fline (okErr ok) log (some st') rest)
    | _, _ => (s, "bad-op")
  | ["f.refresh", script] =>
    match s.f, parseScript? script with
    | some st, some sc =>
      let (log, st', ok, rest) := fstep s.cfg st (.refresh sc)
      ({ s with f := some st' }, fline (okErr ok) log (some st') rest)
    | _, _ => (s, "bad-op")
  | _ => (s, "bad-op")

end SV.Driver.C18

def main : IO Unit := SV.Driver.loop SV.Driver.C18.step {}
