import SV.Driver.Util
import SV.Model.Labels
/-
svdriver_c20: line protocol for the C20 model (snapshot-label protocol).

Encoding: strings are hex (`-` = empty string); a list of strings is `~` (empty list) or
elements joined by `,`; a label map is `nil` (nil Go map), `~` (empty) or `k=v` pairs joined by `,`;
a child descriptor is `<L|N>/<digest>/<urls>/<ann>` (L = layer media type).

  keys                                         -> the ten label-key constants, hex, space separated
  man <0|1> <child>*                           -> ok <n>          (parent is a manifest: 1)
  wdefault <ref> <prefetch>                    -> ok
  wextra <cri|id> <ref> <manifestDigest> <pf>  -> ok | err | panic
  labels <i>                                   -> none | nil | <n> inv=<#labels failing validate> <map, sorted>
  read <default|cri|both> <i> <dels> <sets> <reftable> <dflt>
        -> err pf=<n> | ok name=<..> target=<..> urls=<..> nb=<d>:<urls>;… pf=<n>
     (labels of child i after the writer, minus keys `dels`, plus bindings `sets`;
      reftable = `~` or `<ref>=ok:<spec>` / `<ref>=err` joined by `,` — the answers of reference.Parse)
  mount <i> <dels> <sets> <reftable> <dflt> <c0,c1,…>
        -> err | ok name=<..> target=<..> urls=<..> nb=<d>:<urls>;… pf=<c>
     (what fs.Mount hands to the resolver for those labels: pre-resolved neighbours de-duplicated by
      digest and sorted (they are resolved concurrently); pf = the largest of the ascending thresholds
      c0,c1,… not above the prefetch size in force, negative sizes counting as 0)
  awv <key> <values>                           -> <value> valid=<0|1>
  pf <str> <dflt>                              -> <n>
  dig <str>                                    -> ok | err
  split <str>                                  -> <list>
-/
namespace SV.Driver.C20
open SV.Driver SV.Labels

def toStr (bs : List UInt8) : Str := bs.map fun b => Char.ofNat b.toNat
def ofStr (s : Str) : List UInt8 := s.map fun c => UInt8.ofNat c.toNat

def unhexS? (s : String) : Option Str := (unhex? s).map toStr
def hexS (s : Str) : String := hex (ofStr s)

def parseList? (s : String) : Option (List Str) :=
  if s = "~" then some [] else (s.splitOn ",").mapM unhexS?

def showList (l : List Str) : String :=
  if l.isEmpty then "~" else ",".intercalate (l.map hexS)

def parseKV? (s : String) : Option (Str × Str) :=
  match s.splitOn "=" with
  | [k, v] => do
    let k ← unhexS? k
    let v ← unhexS? v
    some (k, v)
  | _ => none

def parseMap? (s : String) : Option Labels :=
  if s = "~" then some [] else (s.splitOn ",").mapM parseKV?

def parseAnn? (s : String) : Option (Option Labels) :=
  if s = "nil" then some none else (parseMap? s).map some

def parseChild? (s : String) : Option Desc :=
  match s.splitOn "/" with
  | [t, d, u, a] => do
    let isL ← (if t = "L" then some true else if t = "N" then some false else none)
    let d ← unhexS? d
    let u ← parseList? u
    let a ← parseAnn? a
    some { isLayer := isL, digest := d, urls := u, ann := a }
  | _ => none

/-- bytewise lexicographic `<` on strings (Go's string order). -/
def strLt : Str → Str → Bool
  | [], [] => false
  | [], _ :: _ => true
  | _ :: _, [] => false
  | a :: as, b :: bs => if a.toNat < b.toNat then true else if b.toNat < a.toNat then false else strLt as bs

def insertKV (p : Str × Str) : Labels → Labels
  | [] => [p]
  | q :: qs => if strLt p.1 q.1 then p :: q :: qs else q :: insertKV p qs

/-- canonical form of a map: first binding of every key, sorted by key. -/
def canon (m : Labels) : Labels :=
  let rec dedup : Labels → List Str → Labels
    | [], _ => []
    | (k, v) :: r, seen => if seen.contains k then dedup r seen else (k, v) :: dedup r (k :: seen)
  (dedup m []).foldr insertKV []

def insertNb (p : Str × List Str) : List (Str × List Str) → List (Str × List Str)
  | [] => [p]
  | q :: qs => if strLt p.1 q.1 then p :: q :: qs else q :: insertNb p qs

/-- neighbours as a set keyed by digest (first occurrence), sorted by digest. -/
def canonNb (m : List (Str × List Str)) : List (Str × List Str) :=
  let rec dedup : List (Str × List Str) → List Str → List (Str × List Str)
    | [], _ => []
    | (k, v) :: r, seen => if seen.contains k then dedup r seen else (k, v) :: dedup r (k :: seen)
  (dedup m []).foldr insertNb []

def showMap (m : Labels) : String :=
  let c := canon m
  if c.isEmpty then "~" else ",".intercalate (c.map fun p => s!"{hexS p.1}={hexS p.2}")

def parseRefEntry? (s : String) : Option (Str × Option Str) :=
  match s.splitOn "=" with
  | [r, a] => do
    let r ← unhexS? r
    if a = "err" then some (r, none)
    else match a.splitOn ":" with
      | ["ok", spec] => do
        let spec ← unhexS? spec
        some (r, some spec)
      | _ => none
  | _ => none

def parseRefTable? (s : String) : Option (List (Str × Option Str)) :=
  if s = "~" then some [] else (s.splitOn ",").mapM parseRefEntry?

def missingOracle : Str := "MISSING-REF-ORACLE".toList

def refOracle (t : List (Str × Option Str)) (s : Str) : Option Str :=
  match t.find? (fun e => e.1 = s) with
  | some (_, a) => a
  | none => some missingOracle

structure St where
  isManifest : Bool := true
  children : List Desc := []
  out : Outcome (List Desc) := .ok []

def showNb (nb : List (Str × List Str)) : String :=
  if nb.isEmpty then "~" else ";".intercalate (nb.map fun p => s!"{hexS p.1}:{showList p.2}")

def step (s : St) : List String → St × String
  | ["keys"] =>
    (s, " ".intercalate ([kRef, kDigest, kLayers, kURLsPrefix, kURLs, kPrefetch,
                          kCriRef, kCriDigest, kCriLayers, kCriManifest].map hexS))
  | "man" :: m :: cs =>
    match (if m = "1" then some true else if m = "0" then some false else none), cs.mapM parseChild? with
    | some m, some cs => ({ isManifest := m, children := cs, out := .ok cs }, s!"ok {cs.length}")
    | _, _ => (s, "bad-op")
  | ["wdefault", ref, pf] =>
    match unhexS? ref, parseInt? pf with
    | some ref, some pf =>
      ({ s with out := .ok (defaultWriter s.isManifest ref pf s.children) }, "ok")
    | _, _ => (s, "bad-op")
  | ["wextra", w, ref, md, pf] =>
    match unhexS? ref, unhexS? md, parseInt? pf with
    | some ref, some md, some pf =>
      let wrapped? :=
        if w = "cri" then some (criWriter s.isManifest ref md s.children)
        else if w = "id" then some s.children else none
      match wrapped? with
      | none => (s, "bad-op")
      | some wrapped =>
        let o := extraWriter s.isManifest pf wrapped
        ({ s with out := o }, match o with | .ok _ => "ok" | .err => "err" | .panic => "panic")
    | _, _, _ => (s, "bad-op")
  | ["labels", i] =>
    match parseNat? i, s.out with
    | some i, .ok cs =>
      match cs[i]? with
      | none => (s, "bad-op")
      | some c =>
        match c.ann with
        | none => (s, "nil")
        | some a =>
          let c := canon a
          let inv := (c.filter fun p => !validate p.1 p.2).length
          (s, s!"{c.length} inv={inv} {showMap a}")
    | some _, _ => (s, "none")
    | none, _ => (s, "bad-op")
  | ["read", which, i, dels, sets, rt, dflt] =>
    match parseNat? i, parseList? dels, parseMap? sets, parseRefTable? rt, parseInt? dflt, s.out with
    | some i, some dels, some sets, some rt, some dflt, .ok cs =>
      match cs[i]? with
      | none => (s, "bad-op")
      | some c =>
        let base := (c.ann.getD []).filter fun p => !dels.contains p.1
        let labels := sets.foldl (fun m p => set m p.1 p.2) base
        let r? :=
          if which = "default" then some (readSource (refOracle rt) defaultKeys labels)
          else if which = "cri" then some (readSource (refOracle rt) criKeys labels)
          else if which = "both" then some (readBoth (refOracle rt) labels)
          else none
        let pf := mountPrefetch dflt labels
        match r? with
        | none => (s, "bad-op")
        | some none => (s, s!"err pf={pf}")
        | some (some src) =>
          (s, s!"ok name={hexS src.name} target={hexS src.target} urls={showList src.urls} nb={showNb src.neighbours} pf={pf}")
    | _, _, _, _, _, _ => (s, "bad-op")
  | ["mount", i, dels, sets, rt, dflt, cands] =>
    match parseNat? i, parseList? dels, parseMap? sets, parseRefTable? rt, parseInt? dflt,
      (cands.splitOn ",").mapM parseInt?, s.out with
    | some i, some dels, some sets, some rt, some dflt, some cands, .ok cs =>
      match cs[i]? with
      | none => (s, "bad-op")
      | some c =>
        let base := (c.ann.getD []).filter fun p => !dels.contains p.1
        let labels := sets.foldl (fun m p => set m p.1 p.2) base
        match mountView (refOracle rt) dflt labels with
        | none => (s, "err")
        | some v =>
          let nb := canonNb v.preResolve
          let pf := if v.prefetch < 0 then 0 else v.prefetch
          let bucket := cands.foldl (fun acc c => if c ≤ pf then c else acc) 0
          (s, s!"ok name={hexS v.name} target={hexS v.target} urls={showList v.urls} nb={showNb nb} pf={bucket}")
    | _, _, _, _, _, _, _ => (s, "bad-op")
  | ["awv", key, vals] =>
    match unhexS? key, parseList? vals with
    | some key, some vals =>
      let v := appendWithValidation key vals
      (s, s!"{hexS v} valid={if validate key v then 1 else 0}")
    | _, _ => (s, "bad-op")
  | ["pf", str, dflt] =>
    match unhexS? str, parseInt? dflt with
    | some str, some dflt => (s, s!"{mountPrefetch dflt [(kPrefetch, str)]}")
    | _, _ => (s, "bad-op")
  | ["dig", str] =>
    match unhexS? str with
    | some str => (s, if digestValid str then "ok" else "err")
    | none => (s, "bad-op")
  | ["split", str] =>
    match unhexS? str with
    | some str => (s, showList (splitComma str))
    | none => (s, "bad-op")
  | _ => (s, "bad-op")

end SV.Driver.C20

def main : IO Unit := SV.Driver.loop SV.Driver.C20.step {}
