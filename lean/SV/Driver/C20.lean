import SV.Driver.Util
/- svdriver_c20: line protocol for the C20 model (stub until the model is built). -/
namespace SV.Driver.C20

def step (s : Unit) : List String → Unit × String
  | _ => (s, "bad-op")

end SV.Driver.C20

def main : IO Unit := SV.Driver.loop SV.Driver.C20.step ()
