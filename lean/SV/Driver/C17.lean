import SV.Driver.Util
/- svdriver_c17: line protocol for the C17 model (stub until the model is built). -/
namespace SV.Driver.C17

def step (s : Unit) : List String → Unit × String
  | _ => (s, "bad-op")

end SV.Driver.C17

def main : IO Unit := SV.Driver.loop SV.Driver.C17.step ()
