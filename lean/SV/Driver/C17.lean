import SV.Driver.Util
import SV.Model.FuseMgr
/-
svdriver_c17: line protocol for the C17 model (SV/Model/FuseMgr.lean).
  reset                                   fresh manager, empty store, instance counter 0
  init <cfg> <ok|parse|cfgfunc|construct> <-|mp,mp,...>     (mountpoints whose fs.Mount fails)
  mount <mp> <lab> <ok|fail>
  check <mp> <lab> <ok|fail>
  unmount <mp> <ok|fail> <0|1>            (1: the path is an OS mountpoint)
  close
  restart
Every op answers
  <ok|err|panic> st=<wait|ready|notready> calls=<..> store=<mp:lab:cfg,..> fsmap=<mp:fs,..|?> live=<fs:mp,..>
(fsmap is `?` unless the status is ready: the harness observes it through Check probes; curFs and
the current config are not printed, they show in the calls and records of later operations)
with calls in call order (F<cfg>:<r> configFunc, N<fs>:<cfg> constructed, NX<cfg> construction
failed, M<fs>:<mp>:<lab>:<r>, C<fs>:<mp>:<lab>:<r>, U<fs>:<mp>:<r>), store and fsmap in key order,
live sorted.
-/
namespace SV.Driver.C17
open SV.Driver SV.FuseMgr

def showOk (b : Bool) : String := if b then "ok" else "fail"

def showCall : Call → String
  | .cfgFunc c ok => s!"F{c}:{showOk ok}"
  | .newFs f c => s!"N{f}:{c}"
  | .newFsFail c => s!"NX{c}"
  | .mount f mp l ok => s!"M{f}:{mp}:{l}:{showOk ok}"
  | .check f mp l ok => s!"C{f}:{mp}:{l}:{showOk ok}"
  | .unmount f mp ok => s!"U{f}:{mp}:{showOk ok}"

def showList (l : List String) : String := if l.isEmpty then "-" else ",".intercalate l

def pairLe (a b : Nat × Nat) : Bool := a.1 < b.1 || (a.1 == b.1 && a.2 ≤ b.2)

def insertPair (x : Nat × Nat) : List (Nat × Nat) → List (Nat × Nat)
  | [] => [x]
  | y :: ys => if pairLe x y then x :: y :: ys else y :: insertPair x ys

def sortPairs (l : List (Nat × Nat)) : List (Nat × Nat) := l.foldr insertPair []

def showOut (o : Out) : String :=
  let r := match o.resp with
    | .ok => "ok" | .err => "err" | .panic => "panic"
  let st := match o.st.status with
    | .waitInit => "wait" | .ready => "ready" | .notReady => "notready"
  let store := showList (o.st.store.map fun e => s!"{e.1}:{e.2.labels}:{e.2.cfg}")
  -- what the manager serves is observable (through Check probes) only while it accepts requests
  let fsmap := if o.st.status == .ready then showList (o.st.fsMap.map fun e => s!"{e.1}:{e.2}") else "?"
  let live := showList ((sortPairs o.st.live).map fun e => s!"{e.1}:{e.2}")
  s!"{r} st={st} calls={showList (o.calls.map showCall)} store={store} fsmap={fsmap} live={live}"

def parseOk? : String → Option Bool
  | "ok" => some true
  | "fail" => some false
  | _ => none

def parseBit? : String → Option Bool
  | "0" => some false
  | "1" => some true
  | _ => none

def parseStage? : String → Option Stage
  | "ok" => some .ok
  | "parse" => some .parse
  | "cfgfunc" => some .cfgfunc
  | "construct" => some .construct
  | _ => none

def parseMps? (s : String) : Option (List Nat) :=
  if s = "-" then some [] else (s.splitOn ",").mapM parseNat?

def stepLine (s : St) : List String → Option Out
  | ["reset"] => some ⟨{}, .ok, []⟩
  | ["init", c, st, fl] => do
    let c ← parseNat? c
    let st ← parseStage? st
    let fl ← parseMps? fl
    some (SV.FuseMgr.step s (.init c st (fun mp => fl.contains mp)))
  | ["mount", mp, l, ok] => do
    let mp ← parseNat? mp
    let l ← parseNat? l
    let ok ← parseOk? ok
    some (SV.FuseMgr.step s (.mount mp l ok))
  | ["check", mp, l, ok] => do
    let mp ← parseNat? mp
    let l ← parseNat? l
    let ok ← parseOk? ok
    some (SV.FuseMgr.step s (.check mp l ok))
  | ["unmount", mp, ok, os] => do
    let mp ← parseNat? mp
    let ok ← parseOk? ok
    let os ← parseBit? os
    some (SV.FuseMgr.step s (.unmount mp ok os))
  | ["close"] => some (SV.FuseMgr.step s .close)
  | ["restart"] => some (SV.FuseMgr.step s .restart)
  | _ => none

def step (s : St) (ws : List String) : St × String :=
  match stepLine s ws with
  | some o => (o.st, showOut o)
  | none => (s, "bad-op")

end SV.Driver.C17

def main : IO Unit := SV.Driver.loop SV.Driver.C17.step {}
