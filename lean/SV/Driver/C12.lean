import SV.Driver.Util
import SV.Model.LayerLife
import SV.Model.FsMount
/-
svdriver_c12: line protocol for the C12 model (layer life cycle behind fs/layer.Resolver).
  new                                       -> ok                       fresh Resolver
  resolve <name> <lchk> <bchk> <bres> <meta>   (0 = that step fails, 1 = succeeds)
        -> ok <hit|fresh|existing> l=<layer id> h=<holder#> <tail>   |   err <blob|meta> <tail>
  done <h> <0|1>                            -> unit <tail>              Done() / Close()
  expire l <name> | expire b <name>         -> unit <tail>              timer of layer / blob cache
  refresh <h> <0|1|2>                       -> ok|err <tail>     (2: refreshed source has another size)
  read <h> | readold <h>                    -> ok|err <tail>
<tail> = fs=<#fscache dirs> http=<#httpcache dirs> ev=<lid:cRMFBH,...|->
`ev` lists every layer whose status changed during the operation (new layers included) with its
new status: c layer closed, R reader closed, M metadata closed, F fs cache closed (directory gone),
B its blob closed, H its blob's http cache closed (directory gone); each 0/1.
Holders are numbered by the harness in the order of successful resolves.

Holder side (fs/fs.go, model SV.Model.FsMount), its own state, ops prefixed `fsm-`:
  fsm-new                                   -> ok                       fresh filesystem + resolver
  fsm-mount <mp> <name> <lchk bchk bres mres as 4 chars> <disableVerif><allowNoVerif> <toc a|u|g|w> <skipLabel> <fuse> <neigh>
        <neigh> = - | name:bits,name:bits,…   (the other layers of the manifest with their oracles)
        -> ok | err   <ftail>      (model classes err-resolve / err-verify / err-rootnode / err-fuse: one wire class)
  fsm-mount-nosrc <mp>                      -> err-src <ftail>
  fsm-check <mp> <probe> <reg>              -> ok | err   <ftail>
  fsm-unmount <mp>                          -> ok | err   <ftail>
  fsm-unmount-empty                         -> err-empty <ftail>
  fsm-expire l|b <name>                     -> unit <ftail>
<ftail> = m=<mp:group:open,…|-> fs=<#fscache dirs> http=<#httpcache dirs> k=<#kernel mounts>
`m` lists fs.layer sorted by mountpoint; entries with one layer instance share a group number
(groups numbered in order of first appearance); open = the entry's layer passes Check() (registry up).
-/
namespace SV.Driver.C12
open SV.Driver SV.LayerLife SV.Refcount

structure St where
  s : State := {}
  holders : List Nat := []      -- holder# -> closure (token) of the layer cache
  fm : SV.FsMount.State := {}   -- holder side (fsm- ops)

def b01 (b : Bool) : String := if b then "1" else "0"

def status (s : State) (lid : Nat) : Option String :=
  match s.layers[lid]? with
  | none => none
  | some l =>
    let (bc, bh) :=
      match blobOfTok s l.blobTok with
      | none => (true, true)
      | some bid =>
        match s.blobs[bid]? with
        | none => (true, true)
        | some b => (b.closed, b.cacheClosed)
    some (b01 l.closed ++ b01 l.readerClosed ++ b01 l.metadataClosed ++ b01 l.cachesClosed ++ b01 bc ++ b01 bh)

def events (s s' : State) : String :=
  let evs := (List.range s'.layers.length).filterMap fun lid =>
    match status s' lid with
    | none => none
    | some st => if status s lid == some st then none else some s!"{lid}:{st}"
  if evs.isEmpty then "-" else ",".intercalate evs

def tail (s s' : State) : String := s!" fs={s'.fsDirs} http={s'.httpDirs} ev={events s s'}"

def parseBool? : String → Option Bool
  | "0" => some false
  | "1" => some true
  | _ => none

/-- `refresh <h> <how>`: 1 the registry answers; 0 it does not; 2 it answers with a source of another
size, which `blob.Refresh` rejects — for the model both 0 and 2 are "the refresh does not succeed". -/
def parseHow? : String → Option Bool
  | "0" => some false
  | "1" => some true
  | "2" => some false
  | _ => none

def showOut (st : St) (s' : State) (o : Out) : St × String :=
  let t := tail st.s s'
  let h := st.holders.length
  match o with
  | .hit lid tok => ({ s := s', holders := st.holders ++ [tok] }, s!"ok hit l={lid} h={h}" ++ t)
  | .fresh lid tok => ({ s := s', holders := st.holders ++ [tok] }, s!"ok fresh l={lid} h={h}" ++ t)
  | .existing lid tok => ({ s := s', holders := st.holders ++ [tok] }, s!"ok existing l={lid} h={h}" ++ t)
  | .errBlob => ({ st with s := s' }, "err blob" ++ t)
  | .errMeta => ({ st with s := s' }, "err meta" ++ t)
  | .unit => ({ st with s := s' }, "unit" ++ t)
  | .ok => ({ st with s := s' }, "ok" ++ t)
  | .err => ({ st with s := s' }, "err" ++ t)
  | .badTok => (st, "bad-op")

def parseOp? (st : St) : List String → Option Op
  | ["resolve", n, a, b, c, d] => do
    some (.resolve (← parseNat? n) ⟨← parseBool? a, ← parseBool? b, ← parseBool? c, ← parseBool? d⟩)
  | ["done", h, e] => do some (.done (← st.holders[← parseNat? h]?) (← parseBool? e))
  | ["expire", "l", n] => do some (.expireL (← parseNat? n))
  | ["expire", "b", n] => do some (.expireB (← parseNat? n))
  | ["refresh", h, r] => do some (.refresh (← st.holders[← parseNat? h]?) (← parseHow? r))
  | ["read", h] => do some (.read (← st.holders[← parseNat? h]?))
  | ["readold", h] => do some (.readOld (← st.holders[← parseNat? h]?))
  | _ => none

/-! ### holder side: fsm- ops -/

def parseBits? (s : String) : Option Oracle :=
  match s.toList with
  | [a, b, c, d] => do
    some ⟨← parseBool? (String.singleton a), ← parseBool? (String.singleton b),
          ← parseBool? (String.singleton c), ← parseBool? (String.singleton d)⟩
  | _ => none

def parseToc? : String → Option SV.FsMount.Toc
  | "a" => some .absent
  | "u" => some .unparsable
  | "g" => some .good
  | "w" => some .wrong
  | _ => none

def parseNeigh? (s : String) : Option (List (Nat × Oracle)) :=
  if s == "-" then some []
  else (s.splitOn ",").mapM fun w =>
    match w.splitOn ":" with
    | [n, b] => do some (← parseNat? n, ← parseBits? b)
    | _ => none

def insertSorted (p : Nat × Nat) : List (Nat × Nat) → List (Nat × Nat)
  | [] => [p]
  | q :: r => if p.1 ≤ q.1 then p :: q :: r else q :: insertSorted p r

def ftail (f : SV.FsMount.State) : String :=
  let ents := f.layer.foldl (fun acc p => insertSorted p acc) []
  let lids := ents.map fun p => (layerOfTok f.ll p.2).getD 0
  let groups := lids.foldl (fun (acc : List Nat) l => if acc.contains l then acc else acc ++ [l]) []
  let strs := ents.map fun p =>
    let lid := (layerOfTok f.ll p.2).getD 0
    s!"{p.1}:{groups.idxOf lid}:{b01 (SV.FsMount.holderCheck f.ll p.2 true)}"
  let m := if strs.isEmpty then "-" else ",".intercalate strs
  s!" m={m} fs={f.ll.fsDirs} http={f.ll.httpDirs} k={f.kmounts.length}"

def showRes : SV.FsMount.Res → String
  | .ok => "ok"
  | .errSrc => "err-src"
  | .errResolve => "err-resolve"
  | .errVerify => "err-verify"
  | .errRootNode => "err-rootnode"
  | .errFuse => "err-fuse"
  | .errNotRegistered => "err-notregistered"
  | .errCheck => "err-check"
  | .errEmpty => "err-empty"
  | .errNotMounted => "err-notmounted"
  | .errUmount => "err-umount"
  | .unit => "unit"

/-- What travels on the wire: the harness cannot tell WHY the Go call failed without matching error
texts, so Mount / Check / Unmount failures are one class each (`err`); the two argument errors that
the harness provokes on purpose keep their name. -/
def wireRes : SV.FsMount.Res → String
  | .ok => "ok"
  | .unit => "unit"
  | .errSrc => "err-src"
  | .errEmpty => "err-empty"
  | _ => "err"

def parseFsm? : List String → Option SV.FsMount.Op
  | ["fsm-mount", mp, n, bits, va, toc, sk, fu, ng] => do
    let (dis, allow) ← match va.toList with
      | [a, b] => do some (← parseBool? (String.singleton a), ← parseBool? (String.singleton b))
      | _ => none
    some (.mount (← parseNat? mp)
      { name := ← parseNat? n, o := ← parseBits? bits, neigh := ← parseNeigh? ng, disableVerif := dis,
        allowNoVerif := allow, toc := ← parseToc? toc, skipLabel := ← parseBool? sk, fuse := ← parseBool? fu })
  | ["fsm-mount-nosrc", mp] => do some (.mountNoSrc (← parseNat? mp))
  | ["fsm-check", mp, p, r] => do some (.check (← parseNat? mp) (← parseBool? p) (← parseBool? r))
  | ["fsm-unmount", mp] => do some (.unmount (← parseNat? mp))
  | ["fsm-unmount-empty"] => some .unmountEmpty
  | ["fsm-expire", "l", n] => do some (.expireL (← parseNat? n))
  | ["fsm-expire", "b", n] => do some (.expireB (← parseNat? n))
  | _ => none

def isFsm (ws : List String) : Bool :=
  match ws with
  | w :: _ => w.startsWith "fsm-"
  | [] => false

def stepFsm (st : St) (ws : List String) : St × String :=
  match ws with
  | ["fsm-new"] => ({ st with fm := {} }, "ok")
  | _ =>
    match parseFsm? ws with
    | none => (st, "bad-op")
    | some op =>
      let (f', r) := SV.FsMount.step st.fm op
      ({ st with fm := f' }, wireRes r ++ ftail f')

def step (st : St) (ws : List String) : St × String :=
  if isFsm ws then stepFsm st ws else
  match ws with
  | ["new"] => ({}, "ok")
  | _ =>
    match parseOp? st ws with
    | none => (st, "bad-op")
    | some op =>
      let (s', o) := SV.LayerLife.step st.s op
      showOut st s' o

end SV.Driver.C12

def main : IO Unit := SV.Driver.loop SV.Driver.C12.step {}
