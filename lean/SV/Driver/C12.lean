import SV.Driver.Util
import SV.Model.LayerLife
/-
svdriver_c12: line protocol for the C12 model (layer life cycle behind fs/layer.Resolver).
  new                                       -> ok                       fresh Resolver
  resolve <name> <lchk> <bchk> <bres> <meta>   (0 = that step fails, 1 = succeeds)
        -> ok <hit|fresh|existing> l=<layer id> h=<holder#> <tail>   |   err <blob|meta> <tail>
  done <h> <0|1>                            -> unit <tail>              Done() / Close()
  expire l <name> | expire b <name>         -> unit <tail>              timer of layer / blob cache
  refresh <h> <0|1|2>                       -> ok|err <tail>     (2: refreshed source has another size)
  read <h> | readold <h>                    -> ok|err <tail>
<tail> = fs=<#fscache dirs> http=<#httpcache dirs> ev=<lid:cRMFBH,...|->
`ev` lists every layer whose status changed during the operation (new layers included) with its
new status: c layer closed, R reader closed, M metadata closed, F fs cache closed (directory gone),
B its blob closed, H its blob's http cache closed (directory gone); each 0/1.
Holders are numbered by the harness in the order of successful resolves.
-/
namespace SV.Driver.C12
open SV.Driver SV.LayerLife SV.Refcount

structure St where
  s : State := {}
  holders : List Nat := []      -- holder# -> closure (token) of the layer cache

def b01 (b : Bool) : String := if b then "1" else "0"

def status (s : State) (lid : Nat) : Option String :=
  match s.layers[lid]? with
  | none => none
  | some l =>
    let (bc, bh) :=
      match blobOfTok s l.blobTok with
      | none => (true, true)
      | some bid =>
        match s.blobs[bid]? with
        | none => (true, true)
        | some b => (b.closed, b.cacheClosed)
    some (b01 l.closed ++ b01 l.readerClosed ++ b01 l.metadataClosed ++ b01 l.cachesClosed ++ b01 bc ++ b01 bh)

def events (s s' : State) : String :=
  let evs := (List.range s'.layers.length).filterMap fun lid =>
    match status s' lid with
    | none => none
    | some st => if status s lid == some st then none else some s!"{lid}:{st}"
  if evs.isEmpty then "-" else ",".intercalate evs

def tail (s s' : State) : String := s!" fs={s'.fsDirs} http={s'.httpDirs} ev={events s s'}"

def parseBool? : String → Option Bool
  | "0" => some false
  | "1" => some true
  | _ => none

/-- `refresh <h> <how>`: 1 the registry answers; 0 it does not; 2 it answers with a source of another
size, which `blob.Refresh` rejects — for the model both 0 and 2 are "the refresh does not succeed". -/
def parseHow? : String → Option Bool
  | "0" => some false
  | "1" => some true
  | "2" => some false
  | _ => none

def showOut (st : St) (s' : State) (o : Out) : St × String :=
  let t := tail st.s s'
  let h := st.holders.length
  match o with
  | .hit lid tok => ({ s := s', holders := st.holders ++ [tok] }, s!"ok hit l={lid} h={h}" ++ t)
  | .fresh lid tok => ({ s := s', holders := st.holders ++ [tok] }, s!"ok fresh l={lid} h={h}" ++ t)
  | .existing lid tok => ({ s := s', holders := st.holders ++ [tok] }, s!"ok existing l={lid} h={h}" ++ t)
  | .errBlob => ({ st with s := s' }, "err blob" ++ t)
  | .errMeta => ({ st with s := s' }, "err meta" ++ t)
  | .unit => ({ st with s := s' }, "unit" ++ t)
  | .ok => ({ st with s := s' }, "ok" ++ t)
  | .err => ({ st with s := s' }, "err" ++ t)
  | .badTok => (st, "bad-op")

def parseOp? (st : St) : List String → Option Op
  | ["resolve", n, a, b, c, d] => do
    some (.resolve (← parseNat? n) ⟨← parseBool? a, ← parseBool? b, ← parseBool? c, ← parseBool? d⟩)
  | ["done", h, e] => do some (.done (← st.holders[← parseNat? h]?) (← parseBool? e))
  | ["expire", "l", n] => do some (.expireL (← parseNat? n))
  | ["expire", "b", n] => do some (.expireB (← parseNat? n))
  | ["refresh", h, r] => do some (.refresh (← st.holders[← parseNat? h]?) (← parseHow? r))
  | ["read", h] => do some (.read (← st.holders[← parseNat? h]?))
  | ["readold", h] => do some (.readOld (← st.holders[← parseNat? h]?))
  | _ => none

def step (st : St) (ws : List String) : St × String :=
  match ws with
  | ["new"] => ({}, "ok")
  | _ =>
    match parseOp? st ws with
    | none => (st, "bad-op")
    | some op =>
      let (s', o) := SV.LayerLife.step st.s op
      showOut st s' o

end SV.Driver.C12

def main : IO Unit := SV.Driver.loop SV.Driver.C12.step {}
