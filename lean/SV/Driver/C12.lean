import SV.Driver.Util
/- svdriver_c12: line protocol for the C12 model (stub until the model is built). -/
namespace SV.Driver.C12

def step (s : Unit) : List String → Unit × String
  | _ => (s, "bad-op")

end SV.Driver.C12

def main : IO Unit := SV.Driver.loop SV.Driver.C12.step ()
