import SV.Driver.Util
/- svdriver_c15: line protocol for the C15 model (stub until the model is built). -/
namespace SV.Driver.C15

def step (s : Unit) : List String → Unit × String
  | _ => (s, "bad-op")

end SV.Driver.C15

def main : IO Unit := SV.Driver.loop SV.Driver.C15.step ()
