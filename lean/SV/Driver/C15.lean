import SV.Driver.LazyReadStep
/- svdriver_c15: line protocol of the C15 model (shared with C02, see SV/Driver/LazyReadStep.lean). -/
def main : IO Unit := SV.Driver.loop SV.Driver.LazyRead.step {}
