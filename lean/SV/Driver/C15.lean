import SV.Driver.LazyReadStep
import SV.Model.Waiter
/- svdriver_c15: line protocol of the C15 model (shared with C02, see SV/Driver/LazyReadStep.lean),
   plus the timed waiter op:
     waitstag <T> <doneAt|-> <a0> <a1> ...   ->  ret <r0> <r1> ...   (SV.Waiter.returnTime per caller) -/
namespace SV.Driver.C15
open SV.Driver SV.Driver.LazyRead

def step (s : St) : List String → St × String
  | "waitstag" :: t :: d :: as =>
    match parseNat? t, (if d = "-" then some none else (parseNat? d).map some), as.mapM parseNat? with
    | some T, some doneAt, some arrivals =>
      if arrivals.isEmpty then (s, "bad-op") else
      (s, "ret " ++ " ".intercalate (arrivals.map fun a => toString (SV.Waiter.returnTime T doneAt arrivals a)))
    | _, _, _ => (s, "bad-op")
  | ws => SV.Driver.LazyRead.step s ws

end SV.Driver.C15

def main : IO Unit := SV.Driver.loop SV.Driver.C15.step {}
