import SV.Driver.Util
import SV.Model.Convert
/-
svdriver_c19: line protocol for the C19 model (SV/Model/Convert.lean).
  rows                              -> <number of rows of the media-type table = |Target.all| * |MT.all|>
  mt <target> <hex media type> <content> -> nil | ok <hex media type> | err | panic (outMediaTypeFor)
       target: esgz | zstdchunked | exttoc | exttoc-lossless;  content: none | gzip | zstd | json
  reset                             -> ok                                           (fresh esgzDigest2TOC)
  put <layer> <toc> <size>          -> ok n=<entries>                               (one atomic map write)
  finalize                          -> layers=<toc>:<size>:<layer>,...  | layers=-  (manifest layers, sorted by TOC digest)
  fetch <layer>                     -> toc=<toc>:<size> | notfound                  (fetchTOCBlobFromManifest)
Digests are 64 hex digits (the part after "sha256:").
-/
namespace SV.Driver.C19
open SV.Driver SV.Convert

structure St where
  m : TocMap := []

def parseTarget? : String → Option Target
  | "esgz" => some .esgz
  | "zstdchunked" => some .zstdchunked
  | "exttoc" => some .extToc
  | "exttoc-lossless" => some .extTocLossless
  | _ => none

/-- real encoding of the source bytes; `json` = not a tar at all (only used with non-layer types) -/
def parseContent? : String → Option Comp
  | "none" => some .none
  | "gzip" => some .gzip
  | "zstd" => some .zstd
  | "json" => some .none
  | _ => none

/-- 64 hex digits → number. -/
def parseDigest? (s : String) : Option Nat :=
  if s.length ≠ 64 then none else
  s.toList.foldlM (fun acc c => (hexDigit c).map fun d => acc * 16 + d) 0

def showDigest (n : Nat) : String :=
  let rec go : Nat → Nat → List Char → List Char
    | 0, _, acc => acc
    | k + 1, n, acc => go k (n / 16) (hexNib (n % 16) :: acc)
  String.ofList (go 64 n [])

def showMTOut : MTOut → String
  | .untouched => "nil"
  | .ok m => s!"ok {hexStr m.str}"
  | .err => "err"
  | .panic => "panic"

def step (s : St) : List String → St × String
  | ["rows"] => (s, toString (Target.all.length * MT.all.length))
  | ["mt", t, m, c] =>
    match parseTarget? t, (unhexStr? m).bind MT.ofStr?, parseContent? c with
    | some t, some m, some c => (s, showMTOut (outMediaTypeFor t m c))
    | _, _, _ => (s, "bad-op")
  | ["reset"] => ({ s with m := [] }, "ok")
  | ["put", l, t, sz] =>
    match parseDigest? l, parseDigest? t, parseNat? sz with
    | some l, some t, some sz =>
      let m := TocMap.put l ⟨t, sz⟩ s.m
      ({ s with m := m }, s!"ok n={m.length}")
    | _, _, _ => (s, "bad-op")
  | ["finalize"] =>
    let ls := finalize s.m
    if ls.isEmpty then (s, "layers=-") else
    (s, "layers=" ++ ",".intercalate (ls.map fun l => s!"{showDigest l.toc.digest}:{l.toc.size}:{showDigest l.layer}"))
  | ["fetch", l] =>
    match parseDigest? l with
    | some l =>
      match fetchToc (finalize s.m) l with
      | some t => (s, s!"toc={showDigest t.digest}:{t.size}")
      | none => (s, "notfound")
    | none => (s, "bad-op")
  | _ => (s, "bad-op")

end SV.Driver.C19

def main : IO Unit := SV.Driver.loop SV.Driver.C19.step {}
