import SV.Driver.Util
/- svdriver_c19: line protocol for the C19 model (stub until the model is built). -/
namespace SV.Driver.C19

def step (s : Unit) : List String → Unit × String
  | _ => (s, "bad-op")

end SV.Driver.C19

def main : IO Unit := SV.Driver.loop SV.Driver.C19.step ()
