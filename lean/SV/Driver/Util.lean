/-
Shared line-protocol plumbing for the per-property drivers (`svdriver_cXX`).
One operation per stdin line, one canonical result line per operation on stdout.
-/
namespace SV.Driver

def words (line : String) : List String :=
  (line.trimAscii.toString.splitOn " ").filter (· ≠ "")

def parseInt? (s : String) : Option Int := s.toInt?

def parseNat? (s : String) : Option Nat := s.toNat?

/-- Run a pure step function over all stdin lines.  Blank lines and `#` comments are echoed
as-is so that op files can carry annotations without shifting line numbers. -/
partial def loop {σ : Type} (step : σ → List String → σ × String) (init : σ) : IO Unit := do
  let stdin ← IO.getStdin
  let stdout ← IO.getStdout
  let rec go (s : σ) : IO Unit := do
    let line ← stdin.getLine
    if line.isEmpty then
      stdout.flush
      return ()
    let ws := words line
    match ws with
    | [] => stdout.putStrLn ""; go s
    | w :: _ =>
      if w.startsWith "#" then
        stdout.putStrLn line.trimAscii.toString; go s
      else
        let (s', out) := step s ws
        stdout.putStrLn out
        go s'
  go init

def hexDigit (c : Char) : Option Nat :=
  if '0' ≤ c ∧ c ≤ '9' then some (c.toNat - '0'.toNat)
  else if 'a' ≤ c ∧ c ≤ 'f' then some (c.toNat - 'a'.toNat + 10)
  else if 'A' ≤ c ∧ c ≤ 'F' then some (c.toNat - 'A'.toNat + 10)
  else none

/-- hex string → bytes; `-` denotes the empty string. -/
def unhex? (s : String) : Option (List UInt8) :=
  if s = "-" then some [] else
  let rec go : List Char → List UInt8 → Option (List UInt8)
    | [], acc => some acc.reverse
    | [_], _ => none
    | a :: b :: rest, acc =>
      match hexDigit a, hexDigit b with
      | some x, some y => go rest (UInt8.ofNat (x * 16 + y) :: acc)
      | _, _ => none
  go s.toList []

def hexNib (n : Nat) : Char :=
  if n < 10 then Char.ofNat ('0'.toNat + n) else Char.ofNat ('a'.toNat + n - 10)

def hex (bs : List UInt8) : String :=
  if bs.isEmpty then "-" else
  String.ofList (bs.flatMap fun b => [hexNib (b.toNat / 16), hexNib (b.toNat % 16)])

/-- hex-encoded UTF-8 string. -/
def unhexStr? (s : String) : Option String := do
  let bs ← unhex? s
  String.fromUTF8? ⟨bs.toArray⟩

def hexStr (s : String) : String := hex s.toUTF8.toList

end SV.Driver
