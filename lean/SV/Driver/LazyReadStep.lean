import Std.Data.HashMap
import SV.Driver.Util
import SV.Model.LazyRead
/-
Line protocol shared by svdriver_c02 and svdriver_c15 (both models live in SV.Model.LazyRead).

  layer <m|d> <verify 0|1> <blobSize> <noPrefetch 0|1> <prefetchOff|->      -> ok     (resets everything)
  toc <data 0|1> <fi> <coff> <csize> <offset> <inner>                        -> ok     (TOC entries in order)
  file <fi> <size> <kind> <salt> <firstOff> <off:size,...|->                 -> ok | bad-table
  lookup <fi> <offset>                                                       -> <off>:<size> | none
  read <fi> <off> <n> <ok|fail>             -> ok k=<k> sum=<fnv> stored=<ids> | err | diverge
  cachefiles <limit|all> <ok|fail>          -> ok stored=<ids> | err
  evict <fi> <off> <size> | trunc <fi> <off> <size> <k> | setcache <ids|->   -> ok
  tar.reset | tent <type> <hexname> <mode> <uid> <gid> <size> <hexlink> <maj> <min> <idx> <xattrs|->  -> ok
  stat <hexpath>   -> <mode8> <size> <nlink> <uid> <gid> <rdev> <blocks> <hexlink> | noent
  ls <hexpath>     -> <hexname>:<t>,... | - | noent
  xattr <hexpath> <hexname> -> v=<hex> | nodata
  prefetch <cfg> <threshold> <chunk> <pchunk> <blobok 0|1> <ok|fail>
                                            -> ok waiter=<0|1> call=<o>:<s>|none stored=<ids> | failed waiter=.. call=..
  bgfetch <ok|fail>                         -> ok stored=<ids> | failed
  wait <d|t|o ...|->                        -> nil|timedOut|blocked closed=<0|1>
ids are `fi:off:size` sorted by (fi, off).
-/
namespace SV.Driver.LazyRead
open SV.Driver SV.LazyRead

/-- Payload formula shared with the Go harness (`verifc02.Content`); kind 2 = the landmark byte. -/
def content (size kind salt : Nat) : Bytes :=
  if kind = 0 then
    (List.range size).map fun i => UInt8.ofNat ((i * 131 + salt * 17 + i / 251) % 251)
  else if kind = 1 then
    let x0 := (salt * 2654435761 + 12345) % 4294967296
    let rec go : Nat → Nat → List UInt8 → List UInt8
      | 0, _, acc => acc.reverse
      | n + 1, x, acc =>
        let x' := (x * 1664525 + 1013904223) % 4294967296
        go n x' (UInt8.ofNat (x' / 16777216) :: acc)
    go size x0 []
  else List.replicate size 15

def fnv (bs : Bytes) : Nat :=
  bs.foldl (fun h b => ((h ^^^ b.toNat) * 16777619) % 4294967296) 2166136261

structure DFile where
  info : FileInfo
  data : Bytes

structure St where
  variant : Variant := .mem
  verify : Bool := true
  blobSize : Nat := 0
  noPrefetch : Bool := false
  prefetchOff : Option Nat := none
  toc : List TocEnt := []
  files : List DFile := []
  ls : LState := { cache := Cache.empty }
  tar : List TarEntry := []
  view : Option View := none
  /-- `chunkTopIndex` of every TOC entry, computed once per layer -/
  tops : Option (List Nat) := none
  /-- TOC index of every chunk, computed once per layer -/
  tocIdx : Option (Std.HashMap ChunkId Nat) := none
  /-- the chunk cache between operations (the model's `Cache` is the lookup function of this map) -/
  cm : Std.HashMap ChunkId Bytes := {}

def St.file? (s : St) (fi : Nat) : Option DFile := s.files.find? (·.info.id = fi)

def St.trueChunk (s : St) (id : ChunkId) : Bytes :=
  match s.file? id.file with
  | some f => slice f.data id.off id.size
  | none => []

def St.allIds (s : St) : List ChunkId :=
  s.files.flatMap fun f => f.info.table.map fun c => ⟨f.info.id, c.off, c.size⟩

def buildTocIdx (toc : List TocEnt) : Std.HashMap ChunkId Nat :=
  let rec go : List TocEnt → Nat → Std.HashMap ChunkId Nat → Std.HashMap ChunkId Nat
    | [], _, m => m
    | e :: es, i, m =>
      let id : ChunkId := ⟨e.file, e.coff, e.csize⟩
      go es (i + 1) (if e.data ∧ e.csize > 0 ∧ !m.contains id then m.insert id i else m)
  go toc 0 {}

/-- fill the per-layer tables (idempotent) -/
def St.prepare (s : St) : St :=
  let s := match s.tops with
    | some _ => s
    | none => { s with tops := some (topIndices s.toc) }
  match s.tocIdx with
  | some _ => s
  | none => { s with tocIdx := some (buildTocIdx s.toc) }

def St.tocIndex (s : St) (id : ChunkId) : Option Nat :=
  match s.tocIdx with
  | some m => m[id]?
  | none => none

def St.env (s : St) : Env where
  verify := fun id b => if s.verify then b == s.trueChunk id else true
  co := fun id =>
    match s.tocIndex id with
    | none => none
    | some ti => match s.variant with
      | .mem => preRunMemWith (s.tops.getD []) s.toc ti
      | .db => preRunDb s.toc ti

/-- The model's cache is a function; between operations the driver keeps it as a hash map so that
lookups do not walk a chain of closures. -/
def St.cache (s : St) : Cache :=
  let m := s.cm
  fun id => m[id]?

/-- Take over the cache an operation of the model returned: the ids whose entry changed (in
(file, off) order) and the updated map. -/
def St.absorb (s : St) (c' : Cache) : St × List ChunkId :=
  let old := s.cm
  let changed := s.allIds.filter fun id => old[id]? != c' id
  let m := changed.foldl (fun m id => match c' id with | some d => m.insert id d | none => m.erase id) old
  ({ s with cm := m }, changed)

def St.under (s : St) (ok : Bool) : Under :=
  if ok then fun id => some (s.trueChunk id) else fun _ => none

def St.layer (s : St) : Layer where
  files := s.files.map (·.info)
  noPrefetch := s.noPrefetch
  prefetchOff := s.prefetchOff
  blobSize := s.blobSize

def showIds (ids : List ChunkId) : String :=
  if ids.isEmpty then "-" else ",".intercalate (ids.map fun i => s!"{i.file}:{i.off}:{i.size}")

def parseChunks? (str : String) : Option (List Chunk) :=
  if str = "-" then some [] else
  (str.splitOn ",").mapM fun p =>
    match p.splitOn ":" with
    | [a, b] => do some ⟨← parseNat? a, ← parseNat? b⟩
    | _ => none

def parseIds? (str : String) : Option (List ChunkId) :=
  if str = "-" then some [] else
  (str.splitOn ",").mapM fun p =>
    match p.splitOn ":" with
    | [a, b, c] => do some ⟨← parseNat? a, ← parseNat? b, ← parseNat? c⟩
    | _ => none

def parseU? : String → Option Bool
  | "ok" => some true
  | "fail" => some false
  | _ => none

def parseType? : String → Option EType
  | "0" => some .reg | "5" => some .dir | "2" => some .symlink | "1" => some .hardlink
  | "3" => some .char | "4" => some .block | "6" => some .fifo | _ => none

def parseXattrs? (str : String) : Option (List (String × Bytes)) :=
  if str = "-" then some [] else
  (str.splitOn ";").mapM fun kv =>
    match kv.splitOn "=" with
    | [k, v] => do some (← unhexStr? k, ← unhex? v)
    | _ => none

def splitPath (s : String) : Path := s.splitOn "/"

def oct (n : Nat) : String := String.ofList (Nat.toDigits 8 n)

def typeChar : NType → String
  | .reg => "f" | .dir => "d" | .symlink => "l" | .char => "c" | .block => "b" | .fifo => "p" | .socket => "s"

def St.getView (s : St) : St × View :=
  match s.view with
  | some v => (s, v)
  | none => let v := tarView s.tar; ({ s with view := some v }, v)

def sortStrings (l : List String) : List String :=
  let rec ins (x : String) : List String → List String
    | [] => [x]
    | y :: ys => if x ≤ y then x :: y :: ys else y :: ins x ys
  l.foldr ins []

def b2s (b : Bool) : String := if b then "1" else "0"

def step (s : St) : List String → St × String
  | ["layer", v, verify, blobSize, np, po] =>
    match (if v = "m" then some Variant.mem else if v = "d" then some Variant.db else none),
          parseNat? blobSize,
          (if po = "-" then some none else (parseNat? po).map some) with
    | some v, some bs, some po =>
      if (verify ≠ "0" ∧ verify ≠ "1") ∨ (np ≠ "0" ∧ np ≠ "1") then (s, "bad-op") else
      ({ variant := v, verify := verify = "1", blobSize := bs, noPrefetch := np = "1", prefetchOff := po }, "ok")
    | _, _, _ => (s, "bad-op")
  | ["toc", d, fi, coff, csize, offset, inner] =>
    match parseNat? fi, parseNat? coff, parseNat? csize, parseNat? offset, parseNat? inner with
    | some fi, some coff, some csize, some offset, some inner =>
      if d ≠ "0" ∧ d ≠ "1" then (s, "bad-op") else
      ({ s with toc := s.toc ++ [⟨d = "1", fi, coff, csize, offset, inner⟩], tops := none, tocIdx := none }, "ok")
    | _, _, _, _, _ => (s, "bad-op")
  | ["file", fi, size, kind, salt, first, tbl] =>
    match parseNat? fi, parseNat? size, parseNat? kind, parseNat? salt, parseNat? first, parseChunks? tbl with
    | some fi, some size, some kind, some salt, some first, some tbl =>
      let info : FileInfo := { id := fi, variant := s.variant, table := tbl, size := size, firstOff := first }
      let s' := { s with files := s.files ++ [{ info := info, data := content size kind salt }] }
      (s', if contigB 0 tbl && total tbl == size then "ok" else "bad-table")
    | _, _, _, _, _, _ => (s, "bad-op")
  | ["lookup", fi, x] =>
    match parseNat? fi, parseNat? x with
    | some fi, some x =>
      match s.file? fi with
      | none => (s, "bad-op")
      | some f =>
        match chunkEntryForOffset f.info.variant f.info.table x with
        | some c => (s, s!"{c.off}:{c.size}")
        | none => (s, "none")
    | _, _ => (s, "bad-op")
  | ["read", fi, off, n, u] =>
    let s := s.prepare
    match parseNat? fi, parseNat? off, parseNat? n, parseU? u with
    | some fi, some off, some n, some u =>
      match s.file? fi with
      | none => (s, "bad-op")
      | some f =>
        let (c', r) := fileReadAt s.env (s.under u) f.info s.cache off n
        let (s', changed) := s.absorb c'
        match r with
        | .ok b => (s', s!"ok k={b.length} sum={fnv b} stored={showIds changed}")
        | .err => (s', "err")
        | .diverge => (s', "diverge")
    | _, _, _, _ => (s, "bad-op")
  | ["cachefiles", lim, u] =>
    let s := s.prepare
    match (if lim = "all" then some none else (parseNat? lim).map some), parseU? u with
    | some lim, some u =>
      let filter : Nat → Bool := match lim with
        | none => fun _ => true
        | some l => fun o => decide (o < l)
      let (c', ok) := cacheFiltered s.env (s.under u) filter (s.files.map (·.info)) s.cache
      let (s', changed) := s.absorb c'
      (s', if ok then s!"ok stored={showIds changed}" else "err")
    | _, _ => (s, "bad-op")
  | ["evict", fi, off, size] =>
    match parseNat? fi, parseNat? off, parseNat? size with
    | some fi, some off, some size =>
      -- `Cache.evict`
      ({ s with cm := s.cm.erase ⟨fi, off, size⟩ }, "ok")
    | _, _, _ => (s, "bad-op")
  | ["trunc", fi, off, size, k] =>
    match parseNat? fi, parseNat? off, parseNat? size, parseNat? k with
    | some fi, some off, some size, some k =>
      -- `Cache.truncate`
      let id : ChunkId := ⟨fi, off, size⟩
      ({ s with cm := match s.cm[id]? with | some d => s.cm.insert id (d.take k) | none => s.cm }, "ok")
    | _, _, _, _ => (s, "bad-op")
  | ["setcache", ids] =>
    match parseIds? ids with
    | some ids =>
      ({ s with cm := ids.foldl (fun m id => m.insert id (s.trueChunk id)) {} }, "ok")
    | none => (s, "bad-op")
  | ["tar.reset"] => ({ s with tar := [], view := none }, "ok")
  | ["tent", ty, name, mode, uid, gid, size, link, maj, min, idx, xs] =>
    match parseType? ty, unhexStr? name, parseNat? mode, parseNat? uid, parseNat? gid, parseNat? size,
          unhexStr? link, parseNat? maj, parseNat? min, parseNat? idx, parseXattrs? xs with
    | some ty, some name, some mode, some uid, some gid, some size, some link, some maj, some min, some idx, some xs =>
      let e : TarEntry := { name := splitPath name, type := ty, mode := mode, uid := uid, gid := gid, size := size,
                            link := link, linkPath := splitPath link, devMajor := maj, devMinor := min,
                            xattrs := xs, content := idx }
      ({ s with tar := s.tar ++ [e], view := none }, "ok")
    | _, _, _, _, _, _, _, _, _, _, _ => (s, "bad-op")
  | ["stat", p] =>
    match unhexStr? p with
    | none => (s, "bad-op")
    | some p =>
      let (s, v) := s.getView
      match v.node (cleanName (splitPath p)) with
      | none => (s, "noent")
      | some n =>
        let a := entryToAttr 0 n.toAttr
        (s, s!"{oct a.mode} {a.size} {a.nlink} {a.uid} {a.gid} {a.rdev} {a.blocks} {hexStr n.link}")
  | ["ls", p] =>
    match unhexStr? p with
    | none => (s, "bad-op")
    | some p =>
      let (s, v) := s.getView
      let q := cleanName (splitPath p)
      match v.node q with
      | none => (s, "noent")
      | some n =>
        if n.type ≠ .dir then (s, "noent") else
        let names := sortStrings (v.children q)
        let items := names.filterMap fun c => (v.node (q ++ [c])).map fun cn => s!"{hexStr c}:{typeChar cn.type}"
        (s, if items.isEmpty then "-" else ",".intercalate items)
  | ["xattr", p, name] =>
    match unhexStr? p, unhexStr? name with
    | some p, some name =>
      let (s, v) := s.getView
      match v.node (cleanName (splitPath p)) with
      | none => (s, "noent")
      | some n =>
        match n.xattrs.find? (·.1 = name) with
        | some kv => (s, s!"v={hex kv.2}")
        | none => (s, "nodata")
    | _, _ => (s, "bad-op")
  | ["prefetch", cfg, threshold, chunk, pchunk, blobok, u] =>
    let s := s.prepare
    match parseNat? cfg, parseNat? threshold, parseNat? chunk, parseNat? pchunk, parseU? u with
    | some cfg, some threshold, some chunk, some pchunk, some u =>
      if blobok ≠ "0" ∧ blobok ≠ "1" then (s, "bad-op") else
      let ncalls := s.ls.cacheCalls.length
      let (ls', r) := prefetch s.layer s.env ⟨chunk, pchunk⟩ cfg threshold (blobok = "1") (s.under u)
        { s.ls with cache := s.cache }
      let call := match ls'.cacheCalls.drop ncalls with
        | (o, sz) :: _ => s!"{o}:{sz}"
        | [] => "none"
      let (s', changed) := s.absorb ls'.cache
      -- what a failed walk managed to store is not predicted (the Go walk is concurrent): the harness resyncs
      let stored := if r = .ok then s!" stored={showIds changed}" else ""
      ({ s' with ls := { ls' with cache := Cache.empty } },
        s!"{if r = .ok then "ok" else "failed"} waiter={b2s ls'.waiterClosed} call={call}{stored}")
    | _, _, _, _, _ => (s, "bad-op")
  | ["bgfetch", u] =>
    let s := s.prepare
    match parseU? u with
    | some u =>
      let (ls', r) := backgroundFetch s.layer s.env (s.under u) { s.ls with cache := s.cache }
      let (s', changed) := s.absorb ls'.cache
      let stored := if r = .ok then s!" stored={showIds changed}" else ""
      ({ s' with ls := { ls' with cache := Cache.empty } }, s!"{if r = .ok then "ok" else "failed"}{stored}")
    | none => (s, "bad-op")
  | ["wait", evs] =>
    let parsed : Option (List WEvent) :=
      if evs = "-" then some [] else evs.toList.mapM fun c =>
        if c = 'd' then some WEvent.done else if c = 't' then some WEvent.timeout
        else if c = 'o' then some WEvent.other else none
    match parsed with
    | none => (s, "bad-op")
    | some evs =>
      let (closed, r) := waitOn s.ls.waiterClosed evs
      let rs := match r with | some .nil => "nil" | some .timedOut => "timedOut" | none => "blocked"
      ({ s with ls := { s.ls with waiterClosed := closed } }, s!"{rs} closed={b2s closed}")
  | _ => (s, "bad-op")

end SV.Driver.LazyRead
