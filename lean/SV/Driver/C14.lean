import SV.Driver.Util
/- svdriver_c14: line protocol for the C14 model (stub until the model is built). -/
namespace SV.Driver.C14

def step (s : Unit) : List String → Unit × String
  | _ => (s, "bad-op")

end SV.Driver.C14

def main : IO Unit := SV.Driver.loop SV.Driver.C14.step ()
