import SV.Driver.Util
import SV.Model.Sort
/-
svdriver_c14: line protocol for the C14 model (entry sorting of the eStargz builder).

  sort <allow> P=<hex>,… E=<t>:<hexname>:<hexlink>:<size>;…
        -> ok order=<id|L1|L0>,… missed=<hex>,…   |  err  |  diverge
  build <allow> <chunkSize> <minChunkSize> <workers> P=… E=…
        -> ok tar=<id|L1|L0>,… missed=<hex>,… toc=<id>@<chunkOffset>,…   |  err  |  diverge

<allow> is 0/1 (WithAllowPrioritizeNotFound given or not).  Entry type <t>: r regular file,
l hardlink, d directory, s symlink, o other.  Entry ids are the 1-based positions in E;
L1 = prefetch landmark, L0 = no-prefetch landmark.  Empty lists are written as `P=` / `E=`.
`build` lists what reaches the blob: entry order of the tar (reserved TOC name skipped) and, per
regular file with data, its chunk offsets in TOC order.  Compressed offsets are not computed by
the model (the compressor is an oracle there); min-chunk-size and workers are carried for the log.
-/
namespace SV.Driver.C14
open SV.Driver SV.Sort

def parseList (pfx : String) (w : String) : Option (List String) :=
  if w.startsWith pfx then
    let body := (w.drop pfx.length).toString
    if body = "" then some [] else some (body.splitOn ",")
  else none

def parsePrio (w : String) : Option (List String) := do
  let xs ← parseList "P=" w
  xs.mapM unhexStr?

def parseEntry (i : Nat) (s : String) : Option Entry :=
  match s.splitOn ":" with
  | [t, n, l, sz] => do
    let n ← unhexStr? n
    let l ← unhexStr? l
    let sz ← parseNat? sz
    let (isLink, isReg) ← (match t with
      | "r" => some (false, true)
      | "l" => some (true, false)
      | "d" => some (false, false)
      | "s" => some (false, false)
      | "o" => some (false, false)
      | _ => none)
    some { id := i, name := n, isLink := isLink, linkName := l, isReg := isReg, size := sz }
  | _ => none

def parseEntries (w : String) : Option (List Entry) :=
  if w.startsWith "E=" then
    let body := (w.drop 2).toString
    if body = "" then some [] else
    let rec go (i : Nat) : List String → Option (List Entry)
      | [] => some []
      | s :: ss => do
        let e ← parseEntry i s
        let rest ← go (i + 1) ss
        some (e :: rest)
    go 1 (body.splitOn ";")
  else none

def showEntry (e : Entry) : String :=
  if e.id = 0 then
    (if e.name == prefetchLandmark then "L1" else if e.name == noPrefetchLandmark then "L0" else "L?")
  else toString e.id

def showOrder (es : List Entry) : String := ",".intercalate (es.map showEntry)

def showMissed (ms : List String) : String := ",".intercalate (ms.map hexStr)

def parseAllow : String → Option Bool
  | "0" => some false
  | "1" => some true
  | _ => none

def showToc (cs : Nat) (es : List Entry) : String :=
  ",".intercalate ((emitted es).flatMap fun e =>
    if e.isReg then (chunkOffsets cs e.size).map (fun o => s!"{showEntry e}@{o}") else [])

def step (s : Unit) : List String → Unit × String
  | ["sort", allow, p, e] =>
    match parseAllow allow, parsePrio p, parseEntries e with
    | some allow, some prio, some es =>
      match sortEntries es prio allow with
      | .ok out missed => (s, s!"ok order={showOrder out} missed={showMissed missed}")
      | .err => (s, "err")
      | .diverge => (s, "diverge")
    | _, _, _ => (s, "bad-op")
  | ["build", allow, cs, mcs, workers, p, e] =>
    match parseAllow allow, parseInt? cs, parseInt? mcs, parseInt? workers, parsePrio p, parseEntries e with
    | some allow, some cs, some _, some _, some prio, some es =>
      match sortEntries es prio allow with
      | .ok out missed =>
        (s, s!"ok tar={showOrder (emitted out)} missed={showMissed missed} toc={showToc (effChunkSize cs) out}")
      | .err => (s, "err")
      | .diverge => (s, "diverge")
    | _, _, _, _, _, _ => (s, "bad-op")
  | _ => (s, "bad-op")

end SV.Driver.C14

def main : IO Unit := SV.Driver.loop SV.Driver.C14.step ()
