import SV.Driver.Util
import SV.Model.Refcount
/-
svdriver_c10: line protocol for the C10 model (refcounted TTL / LRU caches).
  t.new                    -> ok                      fresh TTLCache
  t.add <k> <v>            -> v=<val> tok=<n> added=<0|1> len=<n> fired=<vals|->
  t.get <k>                -> v=<val> tok=<n> ok=1 len=<n> fired=- | miss len=<n> fired=-
  t.remove <k>             -> unit len=<n> fired=<vals|->
  t.expire <k>             -> unit len=<n> fired=<vals|->     (timer path: lock + evictLocked)
  t.done <tok> <0|1>       -> unit len=<n> fired=<vals|->     (badtok if no such closure)
  l.new <cap>              -> ok                      fresh LRUCache
  l.add / l.get / l.remove / l.done <tok>             same shapes
`fired` = sorted payloads of the values whose OnEvicted ran during the operation (a value that
fired twice is listed twice); `len` = number of cached entries after the operation.
-/
namespace SV.Driver.C10
open SV.Driver SV.Refcount

inductive St where
  | none
  | ttl (s : TTL)
  | lru (s : LRU)

def insertNat (x : Nat) : List Nat → List Nat
  | [] => [x]
  | y :: ys => if x ≤ y then x :: y :: ys else y :: insertNat x ys

/-- Payloads whose callback counter grew between two states, with multiplicity, sorted. -/
def firedBetween (before after : List RC) : List Nat :=
  let rec go : List RC → List RC → List Nat → List Nat
    | _, [], acc => acc
    | [], a :: as, acc => go [] as (List.replicate a.calls a.val ++ acc)
    | b :: bs, a :: as, acc => go bs as (List.replicate (a.calls - b.calls) a.val ++ acc)
  (go before after []).foldr insertNat []

def showFired (l : List Nat) : String :=
  if l.isEmpty then "-" else ",".intercalate (l.map toString)

def ttlLen (s : TTL) : Nat :=
  let rec go : Nat → List RC → Nat
    | _, [] => 0
    | id, r :: rs => (if s.m r.key == some id then 1 else 0) + go (id + 1) rs
  go 0 s.core.rcs

def b01 (b : Bool) : String := if b then "1" else "0"

def showRes (isAdd : Bool) (r : Res) (len : Nat) (fired : List Nat) : String :=
  let tail := s!" len={len} fired={showFired fired}"
  match r with
  | .got v tok flag => s!"v={v} tok={tok} " ++ (if isAdd then "added=" else "ok=") ++ b01 flag ++ tail
  | .miss => "miss" ++ tail
  | .unit => "unit" ++ tail
  | .badTok => "badtok" ++ tail

def parseBool? : String → Option Bool
  | "0" => some false
  | "1" => some true
  | _ => none

def parseTOp? : List String → Option TOp
  | ["t.add", k, v] => do some (.add (← parseNat? k) (← parseNat? v))
  | ["t.get", k] => do some (.get (← parseNat? k))
  | ["t.remove", k] => do some (.remove (← parseNat? k))
  | ["t.expire", k] => do some (.expire (← parseNat? k))
  | ["t.done", t, e] => do some (.done (← parseNat? t) (← parseBool? e))
  | _ => none

def parseLOp? : List String → Option LOp
  | ["l.add", k, v] => do some (.add (← parseNat? k) (← parseNat? v))
  | ["l.get", k] => do some (.get (← parseNat? k))
  | ["l.remove", k] => do some (.remove (← parseNat? k))
  | ["l.done", t] => do some (.done (← parseNat? t))
  | _ => none

def isAddT : TOp → Bool
  | .add .. => true
  | _ => false

def isAddL : LOp → Bool
  | .add .. => true
  | _ => false

def step (st : St) (ws : List String) : St × String :=
  match ws with
  | ["t.new"] => (.ttl {}, "ok")
  | ["l.new", c] =>
    match parseNat? c with
    | some c => (.lru { cap := c }, "ok")
    | none => (st, "bad-op")
  | _ =>
    match st with
    | .none => (st, "bad-op")
    | .ttl s =>
      match parseTOp? ws with
      | none => (st, "bad-op")
      | some op =>
        let (s', r) := s.step op
        (.ttl s', showRes (isAddT op) r (ttlLen s') (firedBetween s.core.rcs s'.core.rcs))
    | .lru s =>
      match parseLOp? ws with
      | none => (st, "bad-op")
      | some op =>
        let (s', r) := s.step op
        (.lru s', showRes (isAddL op) r s'.order.length (firedBetween s.core.rcs s'.core.rcs))

end SV.Driver.C10

def main : IO Unit := SV.Driver.loop SV.Driver.C10.step .none
