import SV.Driver.Util
/- svdriver_c10: line protocol for the C10 model (stub until the model is built). -/
namespace SV.Driver.C10

def step (s : Unit) : List String → Unit × String
  | _ => (s, "bad-op")

end SV.Driver.C10

def main : IO Unit := SV.Driver.loop SV.Driver.C10.step ()
