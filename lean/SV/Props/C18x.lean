/-
C18 (extension, after seeded change C18-E) — credential queries in flight.

The theorems of `SV.Props.C18` quantify over histories of requests and evaluate `credentials` on
the state such a history leaves.  Here the queries themselves are events of the schedule
(`SV.Creds.KEv`): any number of them may have their atomic point anywhere between the requests —
in particular between the pull and the remove / newer pull of the very reference they ask about.
The theorems say that such queries leave nothing behind: what is offered after a RemoveImage / a
newer PullImage has been processed does not depend on the queries that were in flight.
(The seeded change broke exactly this: a query that overlapped the removal stored its answer.)
-/
import SV.Props.C18
import SV.Model.CredsFlight

namespace SV.Props.C18x
open SV.Creds

/-- Queries leave no trace: the state after ANY schedule of requests and queries is the state
after its requests alone. -/
theorem queries_leave_no_trace (norm : String → Option Ref) (evs : List KEv) (s : KState) :
    (erun norm s evs).1 = krun norm s (opsOf evs) := by
  induction evs generalizing s with
  | nil => rfl
  | cons e es ih =>
    cases e with
    | op o => simp [erun, estep, opsOf, krun_cons, ih]
    | query h r => simp [erun, estep, opsOf, ih]

/-- Two schedules with the same requests — whatever queries were in flight, wherever — offer the
same credentials afterwards, for every host and reference. -/
theorem answer_independent_of_queries_in_flight (norm : String → Option Ref) (a b : List KEv)
    (h : opsOf a = opsOf b) (host : String) (ref : Ref) :
    credentials (erun norm {} a).1 host ref = credentials (erun norm {} b).1 host ref := by
  rw [queries_leave_no_trace, queries_leave_no_trace, h]

/-- After RemoveImage of an image that normalises to `ref` nothing is offered for `ref` until it is
pulled again, for EVERY schedule: queries of `ref` (or anything else) may lie before the removal,
between any two later requests, on any host. -/
theorem creds_gone_after_remove_queries_in_flight (norm : String → Option Ref)
    (pre post : List KEv) (image : String) (ok : Bool) (host : String) (ref : Ref)
    (hn : norm image = some ref)
    (hp : ∀ img auth ok', KOp.pull img auth ok' ∈ opsOf post → norm img ≠ some ref) :
    credentials (erun norm {} (pre ++ KEv.op (KOp.remove image ok) :: post)).1 host ref
      = .ok [] [] := by
  rw [queries_leave_no_trace, opsOf_append]
  simp only [opsOf]
  exact SV.Props.C18.creds_gone_after_remove norm (opsOf pre) (opsOf post) image ok host ref hn hp

/-- After a connected PullImage naming `ref`, not followed by another request naming `ref`, the
answer is `ParseAuth` of THAT request's auth config, for every schedule of queries around it — so
the credentials of an older pull cannot come back through a query that was in flight. -/
theorem creds_answer_is_latest_pull_queries_in_flight (norm : String → Option Ref)
    (pre post : List KEv) (image : String) (auth : Option AuthConfig) (ok : Bool)
    (host : String) (ref : Ref)
    (hc : (krun norm {} (opsOf pre)).connected = true) (hn : norm image = some ref)
    (hp : ∀ op ∈ opsOf post, touches norm ref op = false) :
    credentials (erun norm {} (pre ++ KEv.op (KOp.pull image auth ok) :: post)).1 host ref
      = parseAuth auth (aliasHost host) := by
  rw [queries_leave_no_trace, opsOf_append]
  simp only [opsOf]
  exact SV.Props.C18.creds_answer_is_latest_pull norm (opsOf pre) (opsOf post) image auth ok host ref hc hn hp

/-- Non-vacuity: a schedule with a query between pull and remove and another one after it; the
first is answered with the pulled credentials, the second with nothing. -/
example : (erun (fun s => some s) {}
    [.op .connect, .op (.pull "r" (some { username := [117], password := [112] }) true),
     .query "h" "r", .op (.remove "r" true), .query "h" "r"]).2
    = [.ok [117] [112], .ok [] []] := by
  decide

end SV.Props.C18x
