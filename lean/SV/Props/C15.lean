/-
C15 — Prefetch and background fetch make later reads local; waiting is bounded.

Model: SV/Model/LazyRead.lean, section 5 (`prefetchRange`, `cacheFiltered`, `prefetch`,
`backgroundFetch`, `waitOn`, `Once`) on top of the C02 read stack.  "A read is local" is stated in
the C02 read model: the read succeeds with the right bytes for EVERY behaviour `u` of the lower
layers, in particular the always-failing one — so it cannot have asked them for anything.
Real time is outside the model: a timeout is an event.
-/
import SV.Model.LazyRead
import SV.Lemmas.LazyRead

namespace SV.Props.C15
open SV.LazyRead

/-- the lower layers are unreachable -/
def unreachable : Under := fun _ => none

/-- what a first `Prefetch` with a working blob fetch does to the chunk cache -/
theorem prefetch_cache (L : Layer) (E : Env) (B : BlobCfg) (cfg threshold : Nat) (u : Under) (s : LState)
    (r : Nat) (hfresh : s.prefetchOnce = false) (hr : prefetchRange L cfg = some r) :
    (prefetch L E B cfg threshold true u s).1.cache =
        (cacheFiltered E u (fun o => decide (o < r)) L.files s.cache).1 ∧
    ((prefetch L E B cfg threshold true u s).2 = .ok ↔
        (cacheFiltered E u (fun o => decide (o < r)) L.files s.cache).2 = true) := by
  unfold prefetch prefetchBody
  simp only [hfresh, Bool.false_eq_true, if_false, hr, Bool.not_true]
  by_cases hth : threshold > 0 ∧ r > threshold
  · simp only [hth, and_self, if_true]
    rcases hcf : cacheFiltered E u (fun o => decide (o < r)) L.files s.cache with ⟨c, ok⟩
    cases ok <;> simp
  · simp only [hth, if_false]
    rcases hcf : cacheFiltered E u (fun o => decide (o < r)) L.files s.cache with ⟨c, ok⟩
    cases ok <;> simp

/-- **Prefetch covers the prioritized files.** Layer with a prefetch landmark at blob offset `lo`
(and no no-prefetch landmark), cache entries exact, lower layers honest during the prefetch.  If
`Prefetch` succeeds, then every file whose first chunk starts before the landmark (C14: these are
the prioritized files) can afterwards be read at any offset and length with the registry
unreachable, and the bytes are the tar's. -/
theorem prefetch_covers_prioritized (content : Nat → Bytes) (L : Layer) (E : Env) (B : BlobCfg)
    (cfg threshold : Nat) (u : Under) (s : LState) (lo : Nat)
    (hwf : ∀ f ∈ L.files, WF content f) (hu : Honest content E u)
    (hc : CacheExact content s.cache) (hfresh : s.prefetchOnce = false)
    (hnp : L.noPrefetch = false) (hlm : L.prefetchOff = some lo)
    (hok : (prefetch L E B cfg threshold true u s).2 = .ok) :
    ∀ f ∈ L.files, f.firstOff < lo → ∀ off n,
      fileReadAt E unreachable f (prefetch L E B cfg threshold true u s).1.cache off n =
        ((prefetch L E B cfg threshold true u s).1.cache, .ok (slice (content f.id) off n)) := by
  intro f hf hlt off n
  have hr : prefetchRange L cfg = some lo := by simp [prefetchRange, hnp, hlm]
  obtain ⟨hcache, hres⟩ := prefetch_cache L E B cfg threshold u s lo hfresh hr
  rw [hcache]
  have hinv := cacheFiltered_inv hu (fun o => decide (o < lo)) L.files s.cache
  have hall := cacheFiltered_all hu (fun o => decide (o < lo)) L.files s.cache hwf (hres.mp hok) f hf
    (by simpa using hlt)
  exact fileReadAt_cached unreachable (hwf f hf) _ (hinv.2.1 hc) hall off n

/-- **A no-prefetch landmark means no prefetch traffic**: `blob.Cache` is not called, nothing is
requested from the registry, nothing is decompressed, and the waiter is released. -/
theorem noprefetch_no_traffic (L : Layer) (E : Env) (B : BlobCfg) (cfg threshold : Nat) (blobOk : Bool)
    (u : Under) (s : LState) (hnp : L.noPrefetch = true) (hfresh : s.prefetchOnce = false) :
    let r := prefetch L E B cfg threshold blobOk u s
    r.2 = .ok ∧ r.1.cacheCalls = s.cacheCalls ∧ r.1.requested = s.requested ∧ r.1.cache = s.cache ∧
      r.1.waiterClosed = true := by
  simp [prefetch, prefetchBody, prefetchRange, hnp, hfresh]

/-- **Without landmarks the configured size, capped at the blob size, is fetched**: `blob.Cache` is
called once with `(0, min(size, cfg))` and the bytes it asks the registry for end at most one
registry chunk after that (and never beyond the blob). -/
theorem plain_prefetch_capped (L : Layer) (E : Env) (B : BlobCfg) (cfg threshold : Nat) (blobOk : Bool)
    (u : Under) (s : LState) (hnp : L.noPrefetch = false) (hlm : L.prefetchOff = none)
    (hfresh : s.prefetchOnce = false) (hreq : s.requested = 0) (hchunk : 0 < B.chunk) :
    let r := prefetch L E B cfg threshold blobOk u s
    r.1.cacheCalls = s.cacheCalls ++ [(0, min L.blobSize cfg)] ∧
      r.1.requested ≤ L.blobSize ∧ r.1.requested ≤ min L.blobSize cfg + B.chunk := by
  have hr : prefetchRange L cfg = some (min L.blobSize cfg) := by
    simp only [prefetchRange, hnp, hlm, Bool.false_eq_true, if_false]
    congr 1
    by_cases h : cfg > L.blobSize
    · simp only [h, if_true]; omega
    · simp only [h, if_false]; omega
  have hce : ∀ r, cacheRegionEnd B.chunk B.prefetchChunk L.blobSize r ≤ L.blobSize ∧
      cacheRegionEnd B.chunk B.prefetchChunk L.blobSize r ≤ r + B.chunk := by
    intro r
    unfold cacheRegionEnd
    by_cases h0 : r = 0
    · simp only [h0, if_true]
      by_cases hp : B.prefetchChunk ≤ B.chunk
      · simp only [hp, if_true]; omega
      · simp only [hp, if_false]; omega
    · simp only [h0, if_false]
      have h1 : (r - 1) / B.chunk * B.chunk ≤ r - 1 := Nat.div_mul_le_self _ _
      rw [Nat.add_mul, Nat.one_mul]
      omega
  have h := hce (min L.blobSize cfg)
  unfold prefetch
  rw [if_neg (by simp [hfresh])]
  unfold prefetchBody
  simp only [hr]
  by_cases hth : threshold > 0 ∧ min L.blobSize cfg > threshold
  · rw [if_pos hth]
    cases blobOk with
    | false => simp [hreq]; exact ⟨h.1, h.2⟩
    | true =>
      simp only [Bool.not_true, Bool.false_eq_true, if_false]
      rcases hcf : cacheFiltered E u (fun o => decide (o < min L.blobSize cfg)) L.files s.cache with ⟨c, ok⟩
      cases ok <;> simp [hcf, hreq] <;> exact ⟨h.1, h.2⟩
  · rw [if_neg hth]
    cases blobOk with
    | false => simp [hreq]; exact ⟨h.1, h.2⟩
    | true =>
      simp only [Bool.not_true, Bool.false_eq_true, if_false]
      rcases hcf : cacheFiltered E u (fun o => decide (o < min L.blobSize cfg)) L.files s.cache with ⟨c, ok⟩
      cases ok <;> simp [hcf, hreq] <;> exact ⟨h.1, h.2⟩

/-- **After a successful background fetch the layer is readable offline**: every regular file can be
read at any offset and length with the registry unreachable, with the tar's bytes. -/
theorem bgfetch_makes_offline (content : Nat → Bytes) (L : Layer) (E : Env) (u : Under) (s : LState)
    (hwf : ∀ f ∈ L.files, WF content f) (hu : Honest content E u)
    (hc : CacheExact content s.cache) (hfresh : s.bgOnce = false)
    (hok : (backgroundFetch L E u s).2 = .ok) :
    ∀ f ∈ L.files, ∀ off n,
      fileReadAt E unreachable f (backgroundFetch L E u s).1.cache off n =
        ((backgroundFetch L E u s).1.cache, .ok (slice (content f.id) off n)) := by
  intro f hf off n
  unfold backgroundFetch at hok ⊢
  simp only [hfresh, Bool.false_eq_true, if_false] at hok ⊢
  have hinv := cacheFiltered_inv hu (fun _ => true) L.files s.cache
  have hall := cacheFiltered_all hu (fun _ => true) L.files s.cache hwf
  rcases hcf : cacheFiltered E u (fun _ => true) L.files s.cache with ⟨c1, ok⟩
  rw [hcf] at hinv hall
  cases ok with
  | false => rw [hcf] at hok; simp at hok
  | true =>
    exact fileReadAt_cached unreachable (hwf f hf) c1 (hinv.2.1 hc) (hall rfl f hf rfl) off n

/-- Prefetch releases the waiter on EVERY path — no-prefetch landmark, failure of the blob fetch,
failure of the decompression walk, success. -/
theorem prefetch_releases_waiter (L : Layer) (E : Env) (B : BlobCfg) (cfg threshold : Nat) (blobOk : Bool)
    (u : Under) (s : LState) (hfresh : s.prefetchOnce = false) :
    (prefetch L E B cfg threshold blobOk u s).1.waiterClosed = true := by
  unfold prefetch prefetchBody
  simp only [hfresh, Bool.false_eq_true, if_false]
  split
  · rfl
  · split
    · rfl
    · split <;> rfl

/-- **Waiting returns.** `wait` ends as soon as one of the three things happens: the waiter was
released (prefetch ended, failed or went asynchronous), it is released while waiting, or the timer
fires.  It is blocked only while none of them has happened; and it always leaves the waiter
released, so a later `wait` returns at once. -/
theorem wait_returns (closed : Bool) (evs : List WEvent) :
    ((closed = true ∨ WEvent.done ∈ evs ∨ WEvent.timeout ∈ evs) → (waitOn closed evs).2 ≠ none) ∧
    ((waitOn closed evs).2 ≠ none → (waitOn closed evs).1 = true ∧ ∀ evs', (waitOn (waitOn closed evs).1 evs').2 = some .nil) ∧
    ((waitOn closed evs).2 = none → closed = false ∧ ∀ e ∈ evs, e = WEvent.other) := by
  cases closed with
  | true => simp [waitOn]
  | false =>
    induction evs with
    | nil => simp [waitOn]
    | cons e es ih =>
      cases e with
      | done => simp [waitOn]
      | timeout => simp [waitOn]
      | other =>
        have hw : waitOn false (WEvent.other :: es) = waitOn false es := rfl
        rw [hw]
        refine ⟨?_, ih.2.1, ?_⟩
        · intro h
          apply ih.1
          rcases h with h | h | h
          · cases h
          · right; left; simpa using h
          · right; right; simpa using h
        · intro h
          obtain ⟨_, h2⟩ := ih.2.2 h
          refine ⟨rfl, ?_⟩
          intro e he
          rcases List.mem_cons.mp he with h' | h'
          · exact h'
          · exact h2 e h'

/-- after `Prefetch` has returned — however it ended — waiting returns `nil` immediately -/
theorem wait_after_prefetch (L : Layer) (E : Env) (B : BlobCfg) (cfg threshold : Nat) (blobOk : Bool)
    (u : Under) (s : LState) (hfresh : s.prefetchOnce = false) (evs : List WEvent) :
    waitOn (prefetch L E B cfg threshold blobOk u s).1.waiterClosed evs = (true, some .nil) := by
  rw [prefetch_releases_waiter L E B cfg threshold blobOk u s hfresh]
  simp [waitOn]

theorem prefetchBody_once (L : Layer) (E : Env) (B : BlobCfg) (cfg threshold : Nat) (blobOk : Bool)
    (u : Under) (s : LState) : (prefetchBody L E B cfg threshold blobOk u s).1.prefetchOnce = s.prefetchOnce := by
  unfold prefetchBody
  split
  · rfl
  · rename_i r _
    by_cases hth : threshold > 0 ∧ r > threshold
    · rw [if_pos hth]
      cases blobOk with
      | false => rfl
      | true =>
        simp only [Bool.not_true, Bool.false_eq_true, if_false]
        rcases hcf : cacheFiltered E u (fun o => decide (o < r)) L.files s.cache with ⟨c, ok⟩
        cases ok <;> simp [hcf]
    · rw [if_neg hth]
      cases blobOk with
      | false => rfl
      | true =>
        simp only [Bool.not_true, Bool.false_eq_true, if_false]
        rcases hcf : cacheFiltered E u (fun o => decide (o < r)) L.files s.cache with ⟨c, ok⟩
        cases ok <;> simp [hcf]

/-- **Once.** A second `Prefetch` / `BackgroundFetch` on the same layer object does nothing: same state,
no further `blob.Cache` call, no store; and generally `sync.Once` runs its function at most once. -/
theorem once_idempotent (L : Layer) (E : Env) (B : BlobCfg) (cfg threshold cfg' threshold' : Nat)
    (blobOk blobOk' : Bool) (u u' : Under) (s : LState) :
    prefetch L E B cfg' threshold' blobOk' u' (prefetch L E B cfg threshold blobOk u s).1 =
        ((prefetch L E B cfg threshold blobOk u s).1, .ok) ∧
    backgroundFetch L E u' (backgroundFetch L E u s).1 = ((backgroundFetch L E u s).1, .ok) ∧
    (∀ (σ : Type) (o : Once) (f g : σ → σ) (x : σ),
      (o.run f x).1.run g (o.run f x).2 = ((o.run f x).1, (o.run f x).2)) := by
  refine ⟨?_, ?_, ?_⟩
  · have h1 : (prefetch L E B cfg threshold blobOk u s).1.prefetchOnce = true := by
      unfold prefetch
      by_cases h : s.prefetchOnce = true
      · rw [if_pos h]; exact h
      · rw [if_neg h, prefetchBody_once]
    unfold prefetch at h1 ⊢
    generalize (if s.prefetchOnce = true then (s, PResult.ok)
      else prefetchBody L E B cfg threshold blobOk u { s with prefetchOnce := true }) = r at h1 ⊢
    simp [h1]
  · have h1 : (backgroundFetch L E u s).1.bgOnce = true := by
      unfold backgroundFetch
      by_cases h : s.bgOnce = true
      · rw [if_pos h]; exact h
      · rw [if_neg h]
        rcases hcf : cacheFiltered E u (fun _ => true) L.files s.cache with ⟨c, ok⟩
        cases ok <;> rfl
    unfold backgroundFetch at h1 ⊢
    generalize (if s.bgOnce = true then (s, PResult.ok)
      else match cacheFiltered E u (fun _ => true) L.files s.cache with
        | (c, true) => ({ s with cache := c, bgOnce := true }, PResult.ok)
        | (c, false) => ({ s with cache := c, bgOnce := true }, PResult.failed)) = r at h1 ⊢
    simp [h1]
  · intro σ o f g x
    unfold Once.run
    by_cases h : o.done = true <;> simp [h]

/-! ### non-vacuity -/

def exContent : Nat → Bytes := fun i => if i = 0 then [1, 2, 3, 4, 5, 6, 7, 8, 9, 10] else [7, 7, 7]
def exF0 : FileInfo := { id := 0, variant := .mem, table := [⟨0, 4⟩, ⟨4, 4⟩, ⟨8, 2⟩], size := 10, firstOff := 40 }
def exF1 : FileInfo := { id := 1, variant := .mem, table := [⟨0, 3⟩], size := 3, firstOff := 300 }
def exLayer : Layer := { files := [exF0, exF1], noPrefetch := false, prefetchOff := some 200, blobSize := 1000 }
def exEnv : Env := { verify := fun id b => b == trueChunk exContent id, co := fun _ => some [] }
def exUnder : Under := fun id => some (trueChunk exContent id)
def exState : LState := { cache := Cache.empty }

theorem exWF : ∀ f ∈ exLayer.files, WF exContent f := by
  intro f hf
  simp only [exLayer, List.mem_cons, List.mem_nil_iff, or_false] at hf
  rcases hf with h | h <;> subst h <;> exact ⟨by decide, by decide, by decide⟩

theorem exHonest : Honest exContent exEnv exUnder := by
  intro id b _ _ hv
  simpa [exEnv] using hv

/-- the prefetch of the example layer succeeds, releases the waiter, calls `blob.Cache(0, 200)` … -/
example : let r := prefetch exLayer exEnv ⟨64, 0⟩ 5000 0 true exUnder exState
    r.2 = .ok ∧ r.1.waiterClosed = true ∧ r.1.cacheCalls = [(0, 200)] ∧ r.1.requested = 256 := by decide

/-- … the prioritized file is then readable offline, the other one is not -/
example : (fileReadAt exEnv unreachable exF0
    (prefetch exLayer exEnv ⟨64, 0⟩ 5000 0 true exUnder exState).1.cache 2 100).2 = .ok [3, 4, 5, 6, 7, 8, 9, 10] := by
  decide
example : (fileReadAt exEnv unreachable exF1
    (prefetch exLayer exEnv ⟨64, 0⟩ 5000 0 true exUnder exState).1.cache 0 3).2 = .err := by decide

/-- background fetch succeeds and makes the second file readable offline as well -/
example : let r := backgroundFetch exLayer exEnv exUnder exState
    r.2 = .ok ∧ (fileReadAt exEnv unreachable exF1 r.1.cache 1 5).2 = .ok [7, 7] := by decide

/-- a failing blob fetch still releases the waiter; a blocked wait is one that saw neither event -/
example : (prefetch exLayer exEnv ⟨64, 0⟩ 5000 0 false exUnder exState) |>.1.waiterClosed = true := by decide
example : waitOn false [.other, .other] = (false, none) := by decide
example : waitOn false [.other, .timeout, .done] = (true, some .timedOut) := by decide

end SV.Props.C15
