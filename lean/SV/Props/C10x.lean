/-
C10x — seeded change C10-E: a value that was still HELD when its ttl fired was put back into the
cache by a later Get/Add ("revival"), without a membership reference.  The model never had such a
path; what was missing was the statement that it must not exist.  These theorems say, for ALL
histories (every order of Add/Get/Remove/timer expiry/done), that

  * expiry vacates the key whether or not the value is held: the next Get misses, the next Add stores
    and returns the NEW value;
  * a value that has left the cache - for whichever reason, held or not - never becomes a member
    again, so no later Get/Add hands it out as the cached value (Get/Add hand out members only);
  * hence a value held across its expiry is finalised exactly when its last holder lets go, and
    stays finalised exactly once for the rest of every history.
-/
import SV.Lemmas.RefcountMono
import SV.Props.C10

namespace SV.Props.C10x
open SV.Refcount

/-- The timer function (and Remove) vacates the key, whatever the history before and whoever holds
the value. -/
theorem ttl_expire_vacates (ops : List TOp) (k : Nat) :
    (TTL.run (ops ++ [.expire k])).m k = none ∧ (TTL.run (ops ++ [.remove k])).m k = none := by
  constructor <;>
  · simp only [TTL.run_append, List.foldl_cons, List.foldl_nil, TTL.step, TTL.evictLocked]
    split
    · simp
    · rename_i h; exact h

/-- After an expiry the next Get of the key misses and the next Add stores and returns the new
payload (`added = true`) - also when the expired value is still held. -/
theorem ttl_after_expire_get_misses_add_adds (ops : List TOp) (k v : Nat) :
    ((TTL.run (ops ++ [.expire k])).get k).2 = .miss ∧
    ∃ tok, ((TTL.run (ops ++ [.expire k])).add k v).2 = .got v tok true := by
  have h := (ttl_expire_vacates ops k).1
  constructor
  · simp [TTL.get, h]
  · exact ⟨(TTL.run (ops ++ [.expire k])).core.toks.length, by simp [TTL.add, h]⟩

/-- Get and Add hand out members only: the closure they return belongs to the refCounter the map
holds under the key after the operation. -/
theorem ttl_handed_out_is_member (ops : List TOp) (k v tok val : Nat) (flag : Bool) :
    (((TTL.run ops).get k).2 = .got val tok flag →
      ∃ id, ((TTL.run ops).get k).1.m k = some id ∧ ((TTL.run ops).get k).1.core.toks[tok]? = some { rc := id }) ∧
    (((TTL.run ops).add k v).2 = .got val tok flag →
      ∃ id, ((TTL.run ops).add k v).1.m k = some id ∧ ((TTL.run ops).add k v).1.core.toks[tok]? = some { rc := id }) := by
  constructor
  · intro h
    unfold TTL.get at h ⊢
    split at h
    · cases h
    · rename_i id hm
      simp only [Res.got.injEq] at h
      obtain ⟨_, ht, _⟩ := h
      subst ht
      simp only [hm]
      exact ⟨id, rfl, by simp⟩
  · intro h
    unfold TTL.add at h ⊢
    split at h
    · rename_i id hm
      simp only [Res.got.injEq] at h
      obtain ⟨_, ht, _⟩ := h
      subst ht
      simp only [hm]
      exact ⟨id, rfl, by simp⟩
    · rename_i hm
      simp only [Res.got.injEq] at h
      obtain ⟨_, ht, _⟩ := h
      subst ht
      simp only [hm]
      exact ⟨(TTL.run ops).core.rcs.length, by simp, by simp⟩

/-- No revival: a value that is not a member after `ops` (expired, removed, evicted by a release -
held or not) is not a member after any continuation `ops ++ ops'`; it keeps its key and payload. -/
theorem ttl_no_revival (ops ops' : List TOp) (id : Nat) (r : RC)
    (hr : (TTL.run ops).core.rcs[id]? = some r) (hout : ¬ (TTL.run ops).member id r) :
    ∃ r', (TTL.run (ops ++ ops')).core.rcs[id]? = some r' ∧ r'.key = r.key ∧ r'.val = r.val ∧
      ¬ (TTL.run (ops ++ ops')).member id r' := by
  have hf : r.finDone = true := by
    cases hfd : r.finDone with
    | true => rfl
    | false => exact absurd (((TInv.run ops).member_iff hr).mpr hfd) hout
  have hm := TTL.foldl_mono ops' (TTL.run ops) id r hr
  rw [← TTL.run_append] at hm
  obtain ⟨r', hr', hk, hv, hfd⟩ := hm
  refine ⟨r', hr', hk, hv, ?_⟩
  rw [(TInv.run (ops ++ ops')).member_iff hr']
  simp [hfd hf]

/-- A value held across its expiry: once its last holder has let go it is finalised exactly once,
and that stays so whatever happens afterwards (no second callback by a later Get/release). -/
theorem ttl_departed_finalised_once_forever (ops ops' : List TOp) (id : Nat) (r : RC)
    (hr : (TTL.run ops).core.rcs[id]? = some r) (hout : ¬ (TTL.run ops).member id r) :
    ∃ r', (TTL.run (ops ++ ops')).core.rcs[id]? = some r' ∧ r'.calls ≤ 1 ∧
      (r'.calls = 1 ↔ held (TTL.run (ops ++ ops')).core.toks id = 0) := by
  obtain ⟨r', hr', _, _, hnm⟩ := ttl_no_revival ops ops' id r hr hout
  refine ⟨r', hr', SV.Props.C10.ttl_callback_at_most_once _ id r' hr', ?_⟩
  rw [SV.Props.C10.ttl_callback_iff_dead _ id r' hr']
  exact ⟨fun h => h.2, fun h => ⟨hnm, h⟩⟩

/-- Non-vacuity: value 0 of key 7 is held (token 0) when its ttl fires; a Get then misses, an Add
stores a new value; after the holder's release the old value is finalised once, the new one not. -/
example :
    let s := TTL.run [.add 7 100, .expire 7, .get 7, .add 7 200, .done 0 false, .get 7]
    s.m 7 = some 1 ∧ (s.core.rcs.map (·.calls)) = [1, 0] ∧ held s.core.toks 1 = 2 := by
  decide

end SV.Props.C10x
