/-
C01x — C01 across the window between `cache.Get` and `Reader.ReadAt` (seeded change C01-E).

The gate model of C01 (`SV/Model/Verify.lean`) treats the chunk cache as a map ("returns what was
committed under a key").  A verified read that hits the cache is, in the code, two steps: `Get` hands out
a Reader, `ReadAt` copies the bytes later; in between, other handles of the layer add chunks, the memory
LRU evicts, buffers go back to the pool and are filled again.  These theorems compose the interleaved
model of the directory cache (`SV/Model/ChunkCache.lean`, C11) with the digest predicate of C01:

* `cache_hit_in_any_window_is_pinned`: for EVERY step list (any number of readers and writers, every
  interleaving, every LRU capacity and option), if every writer that went past `Commit` wrote bytes
  hashing to the digest pinned for its key (what `verifyAndCache` / the merge paths guarantee), then what
  any open Reader serves — whole and every `ReadAt` slice — hashes to the digest pinned for ITS key.
* `unpinned_get_serves_other_chunk`: the variant whose `Get` drops the LRU reference before returning
  (C01-E) serves the bytes of another chunk, never committed under the reader's key.
* `pinned_get_survives_the_window`: the mirrored code on the same history.
-/
import SV.Lemmas.ChunkCache
import SV.Model.CachePin

namespace SV.Props.C01x
open SV.ChunkCache

/-- **No window breaks the pin.**  `H` is the (uninterpreted) digest function, `dig k` the digest the
TOC pins for cache key `k`. -/
theorem cache_hit_in_any_window_is_pinned {δ : Type} (H : Bytes → δ) (dig : Nat → δ)
    (memCap fdCap : Nat) (cfg : Config) (steps : List Step)
    (hw : ∀ (w : Nat) (wr : Writer), ((State.new memCap fdCap cfg).run steps).writers[w]? = some wr →
      wr.phase ≠ .opened → wr.phase ≠ .aborted → H wr.written = dig wr.key)
    (r : Nat) (rd : Reader)
    (hr : ((State.new memCap fdCap cfg).run steps).readers[r]? = some rd) (ho : rd.phase = .opened) :
    ∃ v : Bytes, ((State.new memCap fdCap cfg).run steps).visible rd = some v ∧ H v = dig rd.key ∧
      ∀ off n : Nat, (((State.new memCap fdCap cfg).run steps).visible rd).map (readAt · off n) =
        some (readAt v off n) := by
  have hi : Inv ((State.new memCap fdCap cfg).run steps) := (Inv.new memCap fdCap cfg).run steps
  obtain ⟨v, h1, h2⟩ := hi.visible_committed hr ho
  obtain ⟨w, wr, hw1, hk, hv, hp1, hp2⟩ := hi.comm rd.key v h2
  refine ⟨v, h1, ?_, ?_⟩
  · rw [← hv, ← hk]; exact hw w wr hw1 hp1 hp2
  · intro off n; rw [h1]; rfl

/-- the hypothesis is satisfiable on a history with a window (H = identity, key k pinned to `[k+1]`;
chunk 0 = `[1]`, chunk 1 = `[2]`), and the held reader is open while key 0 is evicted. -/
example :
    let s := (State.new 1 1 {}).run
      [ .addOpen 0 {} none, .write 0 [1], .commitMemPublish 0, .commitDiskWrite 0 none, .commitRename 0,
        .commitDone 0, .getMem 0 {}, .addOpen 1 {} none, .write 1 [2], .commitMemPublish 1 ]
    s.writers.map (fun wr => (wr.key, wr.written)) = [(0, [1]), (1, [2])] ∧
      s.readers.map (fun rd => (rd.key, rd.phase, s.visible rd)) = [(0, .opened, some [1])] ∧
      find 0 s.mem.order = none := by decide

/-- **The C01-E variant is wrong**: after the window history the open reader of key 0 serves `[9]`
(bytes of chunk 2, not even committed yet), while the only value ever committed under key 0 is `[1]`. -/
theorem unpinned_get_serves_other_chunk :
    let s := (State.new 1 1 {}).urun (windowHistory (.getMemUnpinned 0 {}))
    s.readers.map (fun rd => (rd.key, rd.phase, s.visible rd)) = [(0, .opened, some [9])] ∧
      s.committed 0 = [[1]] := by decide

/-- The mirrored `Get` on the same history: the reference held by the open reader postpones `OnEvicted`,
the pool has nothing to hand out (`addOpen … (some 0)` is not enabled), the reader serves `[1]`. -/
theorem pinned_get_survives_the_window :
    let s := (State.new 1 1 {}).urun (windowHistory (.std (.getMem 0 {})))
    s.readers.map (fun rd => (rd.key, rd.phase, s.visible rd)) = [(0, .opened, some [1])] ∧
      s.committed 0 = [[1]] ∧ s.bufs.length = 2 ∧ s.bufs.all (fun b => b.owner != .pooled) = true := by decide

end SV.Props.C01x
