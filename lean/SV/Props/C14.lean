/-
C14 — Prioritized files are laid out first, in order, ahead of a single landmark.

Only property theorems and their non-vacuity examples live here.  The model is
`SV.Model.Sort` (estargz/build.go: importTar, moveRec, sortEntries; estargz/estargz.go: the
stream-boundary rule of appendTar and the offset shift of closeWithCombine); the specification
vocabulary (`dedupLast`, `Reach`, `Missing`, `NoLinkCycle`, `PlacedIn`, `ClosedAt`, `BlockOK`,
`StepsOK`, `missedOf`) is defined in `SV.Lemmas.Sort`.

Throughout, `es` is ANY list of tar headers, `prio` ANY prioritized list, `allow` says whether
WithAllowPrioritizeNotFound was given; there is no hypothesis on the tar.  `sortEntries` always
returns (`sortEntries_terminates`): `.ok out missed`, or `.err` for a missing path (when not
allowed) or a cycle of hardlinks reached from a listed path.  Before the repair of `moveRec`
(commit d5da172) such a cycle made the recursion run forever: `moveRecOld`,
`cycle_diverges_witness` (on the implementation: fatal stack overflow, oracle signature
`moverec-link-cycle`, now a regression stream).
-/
import SV.Lemmas.Sort

namespace SV.Props.C14
open SV.Sort

/-! ### importTar -/

/-- `importTar` drops the entries named like a landmark, and of the others keeps exactly the LAST
entry of every cleaned name, at that entry's (later) position: the result is a sub-list of the
input (relative order kept), has no two entries of the same cleaned name, still has an entry for
every non-landmark name of the input, and an entry survives iff no later entry carries its name. -/
theorem import_last_duplicate_wins (es : List Entry) :
    importTar es = dedupLast (nonLandmarks es) ∧
    (importTar es).Sublist es ∧
    KeysNodup (importTar es) ∧
    (∀ e, e ∈ importTar es ↔
      ∃ pre post, nonLandmarks es = pre ++ e :: post ∧ ∀ x ∈ post, x.key ≠ e.key) ∧
    (∀ e ∈ es, isLandmarkKey e.key = false → ∃ x ∈ importTar es, x.key = e.key) ∧
    (∀ e ∈ importTar es, isLandmarkKey e.key = false) := by
  refine ⟨importTar_eq es, ?_, importTar_keysNodup es, ?_, ?_, fun e he => importTar_not_landmark he⟩
  · rw [importTar_eq]
    exact (dedupLast_sublist _).trans List.filter_sublist
  · intro e; rw [importTar_eq]; exact mem_dedupLast_iff
  · intro e he hl
    rw [importTar_eq]
    apply mem_dedupLast_key
    unfold nonLandmarks
    exact List.mem_filter.mpr ⟨he, by simp [hl]⟩

/-! ### nothing lost, nothing duplicated, exactly one landmark -/

/-- The output is a permutation of (the one landmark) + (the de-duplicated input without
landmarks), and has no repeated entry: no input entry is lost or duplicated by the reordering. -/
theorem sort_perm {es : List Entry} {prio : List String} {allow : Bool}
    {out : List Entry} {missed : List String}
    (h : sortEntries es prio allow = .ok out missed) :
    out.Perm (landmarkFor prio :: importTar es) ∧ out.Nodup := by
  obtain ⟨blocks, hout, _, hsub, hnd, _⟩ := (sortEntries_structure prio allow).2.2 out missed h
  have hinpnd : (importTar es).Nodup := nodup_of_keysNodup (importTar_keysNodup es)
  have hgnd : blocks.flatten.Nodup := nodup_of_keysNodup hnd
  have hperm : (blocks.flatten ++ (importTar es).filter (fun e => decide (e ∉ blocks.flatten))).Perm
      (importTar es) := by
    have h1 : ((importTar es).filter (fun e => decide (e ∈ blocks.flatten))).Perm blocks.flatten := by
      rw [List.perm_ext_iff_of_nodup (hinpnd.sublist List.filter_sublist) hgnd]
      intro a
      simp only [List.mem_filter, decide_eq_true_eq]
      exact ⟨fun h => h.2, fun h => ⟨hsub a h, h⟩⟩
    have h2 := List.filter_append_perm (fun e => decide (e ∈ blocks.flatten)) (importTar es)
    have h3 : (importTar es).filter (fun x => !decide (x ∈ blocks.flatten)) =
        (importTar es).filter (fun e => decide (e ∉ blocks.flatten)) := by
      apply List.filter_congr; intro x _
      by_cases hx : x ∈ blocks.flatten
      · rw [decide_eq_true hx, decide_eq_false (not_not_intro hx)]; rfl
      · rw [decide_eq_false hx, decide_eq_true hx]; rfl
    rw [h3] at h2
    exact (List.Perm.append_right _ h1.symm).trans h2
  have hp : out.Perm (landmarkFor prio :: importTar es) := by
    rw [hout]
    exact List.perm_middle.trans ((List.perm_cons _).mpr hperm)
  refine ⟨hp, hp.nodup_iff.mpr ?_⟩
  rw [List.nodup_cons]
  refine ⟨?_, hinpnd⟩
  intro hmem
  have := importTar_not_landmark hmem
  rw [landmarkFor_isLandmark] at this
  cases this

/-- Exactly one entry of the output is named like a landmark: the one `sortEntries` created —
the prefetch landmark when the list is non-empty, the no-prefetch landmark when it is empty
(landmark entries of the input are gone). -/
theorem single_landmark {es : List Entry} {prio : List String} {allow : Bool}
    {out : List Entry} {missed : List String}
    (h : sortEntries es prio allow = .ok out missed) :
    out.filter (fun e => isLandmarkKey e.key) = [landmarkFor prio] ∧
    (prio = [] → landmarkFor prio = landmarkEntry noPrefetchLandmark) ∧
    (prio ≠ [] → landmarkFor prio = landmarkEntry prefetchLandmark) := by
  obtain ⟨blocks, hout, _, hsub, _⟩ := (sortEntries_structure prio allow).2.2 out missed h
  refine ⟨?_, ?_, ?_⟩
  · rw [hout, List.filter_append, List.filter_cons]
    have h1 : blocks.flatten.filter (fun e => isLandmarkKey e.key) = [] := by
      rw [List.filter_eq_nil_iff]
      intro e he
      simp [importTar_not_landmark (hsub e he)]
    have h2 : ((importTar es).filter (fun e => decide (e ∉ blocks.flatten))).filter
        (fun e => isLandmarkKey e.key) = [] := by
      rw [List.filter_eq_nil_iff]
      intro e he
      simp [importTar_not_landmark (List.mem_filter.mp he).1]
    rw [h1, h2, landmarkFor_isLandmark]
    simp
  · intro hp; subst hp; exact landmarkFor_nil
  · intro hp
    cases prio with
    | nil => exact absurd rfl hp
    | cons a as => exact landmarkFor_cons a as

/-- With an empty list the output is the no-prefetch landmark followed by the de-duplicated
input, unchanged — for every tar (no hypothesis needed). -/
theorem empty_list_noprefetch (es : List Entry) (allow : Bool) :
    sortEntries es [] allow = .ok (landmarkEntry noPrefetchLandmark :: importTar es) [] :=
  sortEntries_nil es allow

/-! ### the rest keeps its order -/

/-- The output is `group ++ landmark :: rest` where `rest` is exactly the entries not moved to the
leading group, in their original relative order (a sub-list of the de-duplicated input, hence of
the input tar), and every input entry that survived de-duplication is in one of the two parts. -/
theorem rest_keeps_relative_order {es : List Entry} {prio : List String} {allow : Bool}
    {out : List Entry} {missed : List String}
    (h : sortEntries es prio allow = .ok out missed) :
    ∃ group rest, out = group ++ landmarkFor prio :: rest ∧
      rest = (importTar es).filter (fun e => decide (e ∉ group)) ∧
      rest.Sublist (importTar es) ∧ rest.Sublist es ∧
      (∀ e ∈ group, e ∈ importTar es) ∧
      (∀ e ∈ importTar es, e ∈ group ∨ e ∈ rest) := by
  obtain ⟨blocks, hout, _, hsub, _⟩ := (sortEntries_structure prio allow).2.2 out missed h
  refine ⟨blocks.flatten, _, hout, rfl, List.filter_sublist, ?_, hsub, ?_⟩
  · exact List.filter_sublist.trans (import_last_duplicate_wins es).2.1
  · intro e he
    by_cases hg : e ∈ blocks.flatten
    · exact Or.inl hg
    · exact Or.inr (List.mem_filter.mpr ⟨he, by simp [hg]⟩)

/-! ### the leading group -/

/-- The leading group is the concatenation of one block per listed path, in the order of the
list (`StepsOK`): the block of `l` holds nothing but `l` itself and entries `l` needs (its
ancestors, hardlink targets, theirs, …: `Reach`), only entries not placed before (`sort_perm`:
no entry occurs twice), and — when nothing `l` needs is missing — `l`'s entry is in the group
from then on and, unless an earlier path already brought it in, is the LAST entry of its block,
i.e. preceded by all of its not-yet-placed parent directories and hardlink targets. -/
theorem prioritized_prefix_order {es : List Entry} {prio : List String} {allow : Bool}
    {out : List Entry} {missed : List String}
    (h : sortEntries es prio allow = .ok out missed) :
    ∃ blocks rest, out = blocks.flatten ++ landmarkFor prio :: rest ∧
      StepsOK (importTar es) prio [] blocks := by
  obtain ⟨blocks, hout, hsteps, _⟩ := (sortEntries_structure prio allow).2.2 out missed h
  exact ⟨blocks, _, hout, hsteps⟩

/-- "In the order given": if `l1` is listed before `l2` and both can be placed, then the entry of
`l1` comes before the entry of `l2` in the leading group — unless `l2`'s entry is itself needed by
`l1` or by a path listed before `l1` (then it had to come earlier). -/
theorem prioritized_order {es : List Entry} {p1 p2 p3 : List String} {l1 l2 : String} {allow : Bool}
    {out : List Entry} {missed : List String}
    (h : sortEntries es (p1 ++ l1 :: p2 ++ l2 :: p3) allow = .ok out missed)
    {e1 e2 : Entry}
    (h1 : get (importTar es) (cleanEntryName l1) = some e1) (hm1 : ¬ Missing (importTar es) (cleanEntryName l1))
    (h2 : get (importTar es) (cleanEntryName l2) = some e2) (hm2 : ¬ Missing (importTar es) (cleanEntryName l2)) :
    (∃ a b c rest, out = a ++ e1 :: b ++ e2 :: c ++ landmarkFor (p1 ++ l1 :: p2 ++ l2 :: p3) :: rest) ∨
    (∃ l ∈ p1 ++ [l1], Reach (importTar es) (cleanEntryName l) e2.key) := by
  obtain ⟨blocks, hout, hsteps, _⟩ := (sortEntries_structure _ allow).2.2 out missed h
  generalize (importTar es).filter (fun e => decide (e ∉ blocks.flatten)) = rest at hout
  -- split the blocks at l1 and at l2
  have hlist : p1 ++ l1 :: p2 ++ l2 :: p3 = (p1 ++ [l1]) ++ ((p2 ++ [l2]) ++ p3) := by simp
  rw [hlist] at hsteps
  obtain ⟨bsA, bsR, hb, hA, hR⟩ := stepsOK_append _ _ _ _ hsteps
  obtain ⟨bsB, bsC, hb', hB, _⟩ := stepsOK_append _ _ _ _ hR
  simp only [List.nil_append] at hR hB
  -- e1 is in the group after the step of l1
  obtain ⟨bs0, bs1, hbA, _, hl1⟩ := stepsOK_append _ _ _ _ hA
  obtain ⟨b1, rfl, hblock1⟩ := stepsOK_single hl1
  have he1 : e1 ∈ bsA.flatten := by
    have := (hblock1.2 hm1).1.2 e1 h1
    rw [hbA]
    simpa using this
  -- e2 is in the group after the step of l2
  obtain ⟨bs2, bs3, hbB, _, hl2⟩ := stepsOK_append _ _ _ _ hB
  obtain ⟨b2, rfl, hblock2⟩ := stepsOK_single hl2
  have he2 : e2 ∈ bsA.flatten ++ bsB.flatten := by
    have := (hblock2.2 hm2).1.2 e2 h2
    rw [hbB]
    simpa [List.append_assoc] using this
  by_cases hin : e2 ∈ bsA.flatten
  · right
    exact stepsOK_reach _ _ _ hA e2 hin
  · left
    have he2B : e2 ∈ bsB.flatten := by
      rcases List.mem_append.mp he2 with h' | h'
      · exact absurd h' hin
      · exact h'
    obtain ⟨a, b, hab⟩ := List.append_of_mem he1
    obtain ⟨c, d, hcd⟩ := List.append_of_mem he2B
    refine ⟨a, b ++ c, d ++ bsC.flatten, rest, ?_⟩
    rw [hout, hb, hb', hlist]
    simp only [List.flatten_append, hab, hcd, List.append_assoc, List.cons_append]

/-- Every entry of the leading group is preceded — strictly, within the group — by its parent
directory and, if it is a hardlink, by its target (`PlacedIn`: unless that name is the root it is
an entry of the tar, and that entry is among the earlier ones; a root entry, if the tar has one,
likewise).  By induction the same holds for all ancestors and chains of hardlinks. -/
theorem leading_group_closed {es : List Entry} {prio : List String} {allow : Bool}
    {out : List Entry} {missed : List String}
    (h : sortEntries es prio allow = .ok out missed) :
    ∃ group rest, out = group ++ landmarkFor prio :: rest ∧
      ∀ pre e post, group = pre ++ e :: post → e.key ≠ [] →
        PlacedIn (importTar es) pre e.key.dropLast ∧
        (e.isLink = true → PlacedIn (importTar es) pre (cleanEntryName e.linkName)) := by
  obtain ⟨blocks, hout, _, _, _, hclosed, _⟩ := (sortEntries_structure prio allow).2.2 out missed h
  refine ⟨blocks.flatten, _, hout, ?_⟩
  intro pre e post hsplit hne
  exact closedR_split _ hclosed pre e post hsplit hne

/-! ### missing paths -/

/-- Without allow-not-found: the call fails whenever some listed path cannot be placed
(`Missing`: the path, one of its ancestors or a hardlink target it depends on is not in the tar);
a failing call means exactly that, or that a listed path runs into a cycle of hardlinks
(`ReachesCycle`); a succeeding call means every listed path could be placed, and nothing is
reported. -/
theorem missing_path_aborts {es : List Entry} {prio : List String} :
    ((∃ l ∈ prio, Missing (importTar es) (cleanEntryName l)) → sortEntries es prio false = .err) ∧
    (sortEntries es prio false = .err →
      (∃ l ∈ prio, Missing (importTar es) (cleanEntryName l)) ∨
      (∃ l ∈ prio, ReachesCycle (importTar es) (cleanEntryName l))) ∧
    (∀ out missed, sortEntries es prio false = .ok out missed →
      missed = [] ∧ ∀ l ∈ prio, ¬ Missing (importTar es) (cleanEntryName l)) := by
  obtain ⟨hd, he, hok⟩ := sortEntries_structure (es := es) prio false
  have hok' : ∀ out missed, sortEntries es prio false = .ok out missed →
      missed = [] ∧ ∀ l ∈ prio, ¬ Missing (importTar es) (cleanEntryName l) := by
    intro out missed hs
    obtain ⟨_, _, _, _, _, _, hmissed, _, hall⟩ := hok out missed hs
    refine ⟨?_, hall rfl⟩
    rw [hmissed]
    unfold missedOf
    rw [List.filter_eq_nil_iff]
    intro l hl hr
    exact hall rfl l hl (resolve_notFound _ _ _ (by simpa using hr))
  refine ⟨?_, ?_, hok'⟩
  · rintro ⟨l, hl, hm⟩
    cases hs : sortEntries es prio false with
    | err => rfl
    | diverge => exact absurd hs hd
    | ok out missed => exact absurd hm ((hok' out missed hs).2 l hl)
  · intro h
    rcases he h with ⟨_, hm⟩ | hc
    · exact Or.inl hm
    · exact Or.inr hc

/-- With allow-not-found the call returns a result unless a listed path runs into a cycle of
hardlinks (the only error left), and then reports back exactly the listed paths that cannot be
placed, in the order (and spelling, and multiplicity) in which they were listed. -/
theorem missing_path_reported {es : List Entry} {prio : List String} :
    (sortEntries es prio true = .err → ∃ l ∈ prio, ReachesCycle (importTar es) (cleanEntryName l)) ∧
    ((∀ l ∈ prio, ¬ ReachesCycle (importTar es) (cleanEntryName l)) →
      ∃ out, sortEntries es prio true = .ok out (missedOf (importTar es) prio)) ∧
    (∀ out missed, sortEntries es prio true = .ok out missed →
      missed = missedOf (importTar es) prio ∧ missed.Sublist prio ∧
      ∀ l, l ∈ missed ↔ l ∈ prio ∧ Missing (importTar es) (cleanEntryName l)) := by
  obtain ⟨hd, he, hok⟩ := sortEntries_structure (es := es) prio true
  have herr : sortEntries es prio true = .err →
      ∃ l ∈ prio, ReachesCycle (importTar es) (cleanEntryName l) := by
    intro h
    rcases he h with ⟨ha, _⟩ | hc
    · cases ha
    · exact hc
  have hok' : ∀ out missed, sortEntries es prio true = .ok out missed →
      missed = missedOf (importTar es) prio ∧ missed.Sublist prio ∧
      ∀ l, l ∈ missed ↔ l ∈ prio ∧ Missing (importTar es) (cleanEntryName l) := by
    intro out missed hs
    obtain ⟨_, _, _, _, _, _, hmissed, hnd, _⟩ := hok out missed hs
    refine ⟨hmissed, by rw [hmissed]; exact List.filter_sublist, ?_⟩
    intro l
    rw [hmissed]
    unfold missedOf
    simp only [List.mem_filter, beq_iff_eq]
    constructor
    · rintro ⟨hl, hr⟩
      exact ⟨hl, resolve_notFound _ _ _ hr⟩
    · rintro ⟨hl, hm⟩
      exact ⟨hl, (resolve_notFound_iff (hnd l hl)).mpr hm⟩
  refine ⟨herr, ?_, hok'⟩
  intro hnc
  cases hs : sortEntries es prio true with
  | err =>
    obtain ⟨l, hl, hc⟩ := herr hs
    exact absurd hc (hnc l hl)
  | diverge => exact absurd hs hd
  | ok out missed =>
    obtain ⟨hm, _⟩ := hok' out missed hs
    exact ⟨out, by rw [hm]⟩

/-- The cycle error is never spurious: if the parent/hardlink graph has no cycle (some rank
strictly decreases along every parent and hardlink edge) no path `ReachesCycle`. -/
theorem no_cycle_error_without_cycle {inp : List Entry} (hnc : NoLinkCycle inp) (k : Name) :
    ¬ ReachesCycle inp k :=
  not_reachesCycle hnc k

/-- A listed path (other than the root) that is not in the tar is `Missing`; conversely a path
that can be placed is in the tar (or is the root). -/
theorem listed_path_absent_is_missing (inp : List Entry) (k : Name) :
    (k ≠ [] → get inp k = none → Missing inp k) ∧
    (¬ Missing inp k → k ≠ [] → (get inp k).isSome) := by
  constructor
  · intro hk hg; exact ⟨k, Reach.refl _, hk, hg⟩
  · intro hm hk
    cases hg : get inp k with
    | some e => rfl
    | none => exact absurd ⟨k, Reach.refl _, hk, hg⟩ hm

/-! ### termination -/

/-- `moveRec` terminates, for EVERY tar: with fuel = number of entries + 1 it never runs out of
fuel (the names on the recursion path are pairwise different entries of the tar) — from every
state `sortEntries` can be in (`Inv`), for every name. -/
theorem moveRec_terminates {inp : List Entry} {st : MState} (hinv : Inv inp st)
    (k : Name) : (moveRec inp (moveFuel inp) k st).2 ≠ .diverge := by
  rw [moveRec_status hinv]
  exact resolve_terminates inp k

/-- … and so does `sortEntries`, for every tar and every prioritized list: the result is a sorted
list or an error. -/
theorem sortEntries_terminates (es : List Entry) (prio : List String) (allow : Bool) :
    sortEntries es prio allow ≠ .diverge ∧
    ((∃ out missed, sortEntries es prio allow = .ok out missed) ∨ sortEntries es prio allow = .err) := by
  have hd := (sortEntries_structure (es := es) prio allow).1
  refine ⟨hd, ?_⟩
  cases hs : sortEntries es prio allow with
  | ok out missed => exact Or.inl ⟨out, missed, rfl⟩
  | err => exact Or.inr rfl
  | diverge => exact absurd hs hd

/-- Two hardlinks pointing at each other. -/
def cycleTar : List Entry :=
  [{ id := 1, name := "a", isLink := true, linkName := "b", isReg := false, size := 0 },
   { id := 2, name := "b", isLink := true, linkName := "a", isReg := false, size := 0 }]

/-- The code before the repair (`moveRecOld`, no `visiting` set) does not terminate on
`cycleTar`: whatever the fuel, it is used up (the Go code overflowed its stack on this input). -/
theorem cycle_diverges_witness (fuel : Nat) (st : MState) :
    (moveRecOld cycleTar fuel ["a"] st).2 = .diverge ∧ (moveRecOld cycleTar fuel ["b"] st).2 = .diverge := by
  induction fuel generalizing st with
  | zero => exact ⟨rfl, rfl⟩
  | succ f ih =>
    have hga : get cycleTar ["a"] = some cycleTar[0] := by decide
    have hgb : get cycleTar ["b"] = some cycleTar[1] := by decide
    have hroot : get cycleTar [] = none := by decide
    have hta : cleanEntryName (cycleTar[0]).linkName = ["b"] := by decide
    have htb : cleanEntryName (cycleTar[1]).linkName = ["a"] := by decide
    have hparent : (moveRecOld cycleTar f [] st).2 = .diverge ∨
        moveRecOld cycleTar f [] st = (st, .ok) := by
      cases f with
      | zero => exact Or.inl rfl
      | succ f' => right; simp [moveRecOld, hroot]
    have hda : (["a"] : Name).dropLast = [] := rfl
    have hdb : (["b"] : Name).dropLast = [] := rfl
    constructor
    · rw [moveRecOld_link f st (by decide) hga (by decide), hta, hda]
      rcases hparent with hp | hp
      · simp [hp]
      · simp [hp, (ih st).2]
    · rw [moveRecOld_link f st (by decide) hgb (by decide), htb, hdb]
      rcases hparent with hp | hp
      · simp [hp]
      · simp [hp, (ih st).1]

/-- The repaired code reports the same input as an error, with and without allow-not-found. -/
theorem cycle_reported_witness :
    sortEntries cycleTar ["a"] false = .err ∧ sortEntries cycleTar ["a"] true = .err := by decide

/-! ### offsets -/

/-- The landmark begins a compressed stream of its own, even under min-chunk-size and in any
sub-writer: for ANY chunk sequence split over ANY number of writers and ANY compressor behaviour
(`a`, `b`, `tail` are arbitrary, only "closing a stream that received data emits at least one
byte" is assumed for the forced chunks), a chunk whose entry forces a stream boundary
(`needsOpenGz`) is `fresh`, every chunk emitted before it has a strictly smaller offset and every
chunk emitted after it an offset at least as large. -/
theorem landmark_starts_stream {τ : Type} (minChunk : Int) (parts : List (List (ChunkIn τ) × Nat))
    (hpos : ∀ p ∈ parts, ∀ c ∈ p.1, c.force = true → 1 ≤ c.a + c.b)
    (pre : List (ChunkOut τ)) (x : ChunkOut τ) (post : List (ChunkOut τ))
    (hsplit : combine minChunk 0 parts = pre ++ x :: post) (hforce : x.force = true) :
    x.fresh = true ∧ (∀ y ∈ pre, y.off < x.off) ∧ (∀ y ∈ post, x.off ≤ y.off) := by
  obtain ⟨_, hsorted, hforced⟩ := combine_spec minChunk parts 0 hpos
  obtain ⟨hf, _, hlt⟩ := hforced pre x post hsplit hforce
  refine ⟨hf, hlt, ?_⟩
  rw [hsplit, List.pairwise_append] at hsorted
  intro y hy
  exact (List.pairwise_cons.mp hsorted.2.1).1 y hy

/-- Data of every file of the leading group lies strictly before the landmark's offset and no
other file's data does: for every chunk size, min-chunk-size, split of the sorted entries over
sub-writers and compressor behaviour, there is exactly one landmark chunk, it starts its own
stream, and a data chunk of any other entry has an offset below the landmark's iff the entry is in
the leading group. -/
theorem data_before_landmark_iff_prioritized {es : List Entry} {prio : List String} {allow : Bool}
    {out : List Entry} {missed : List String}
    (h : sortEntries es prio allow = .ok out missed)
    (chunkSize : Int) (minChunk : Int) (parts : List (List (ChunkIn Entry) × Nat))
    (hparts : (parts.flatMap (·.1)).map (fun c => (c.tag, c.force)) = chunkTags (effChunkSize chunkSize) out)
    (hpos : ∀ p ∈ parts, ∀ c ∈ p.1, c.force = true → 1 ≤ c.a + c.b) :
    ∃ group rest pre lm post,
      out = group ++ landmarkFor prio :: rest ∧
      combine minChunk 0 parts = pre ++ lm :: post ∧
      lm.tag = landmarkFor prio ∧ lm.fresh = true ∧
      (∀ o ∈ pre ++ post, o.tag ≠ landmarkFor prio) ∧
      (∀ o ∈ pre ++ post, (o.off < lm.off ↔ o.tag ∈ group) ∧ (lm.off ≤ o.off ↔ o.tag ∈ rest)) := by
  obtain ⟨hperm, hnodup⟩ := sort_perm h
  obtain ⟨blocks, hout, _⟩ := (sortEntries_structure prio allow).2.2 out missed h
  generalize hrest : (importTar es).filter (fun e => decide (e ∉ blocks.flatten)) = rest at hout
  -- the chunk sequence splits at the landmark's single chunk
  have hlmchunk : chunkTags (effChunkSize chunkSize) [landmarkFor prio] = [(landmarkFor prio, true)] := by
    simp [chunkTags, emitted, landmarkFor_not_toc, (landmarkFor_reg prio).1, (landmarkFor_reg prio).2,
      chunkOffsets_one _ (effChunkSize_pos chunkSize), landmarkFor_needsOpenGz]
  have htags : chunkTags (effChunkSize chunkSize) out =
      chunkTags (effChunkSize chunkSize) blocks.flatten ++
        (landmarkFor prio, true) :: chunkTags (effChunkSize chunkSize) rest := by
    have : out = blocks.flatten ++ ([landmarkFor prio] ++ rest) := by rw [hout]; rfl
    rw [this, chunkTags_append, chunkTags_append, hlmchunk]
    rfl
  have hct := combine_tags minChunk parts 0
  rw [hparts, htags] at hct
  obtain ⟨pre, l2, hcomb, hpre, hl2⟩ := List.map_eq_append_iff.mp hct
  obtain ⟨lm, post, rfl, hlm, hpost⟩ := List.map_eq_cons_iff.mp hl2
  have hlmtag : lm.tag = landmarkFor prio := congrArg Prod.fst hlm
  have hlmforce : lm.force = true := congrArg Prod.snd hlm
  obtain ⟨hfresh, hbefore, hafter⟩ := landmark_starts_stream minChunk parts hpos pre lm post hcomb hlmforce
  -- tags of the chunks before / after the landmark chunk
  have hpretag : ∀ o ∈ pre, o.tag ∈ blocks.flatten := by
    intro o ho
    have : (o.tag, o.force) ∈ chunkTags (effChunkSize chunkSize) blocks.flatten := by
      rw [← hpre]; exact List.mem_map_of_mem (f := fun o => (o.tag, o.force)) ho
    exact mem_chunkTags this
  have hposttag : ∀ o ∈ post, o.tag ∈ rest := by
    intro o ho
    have : (o.tag, o.force) ∈ chunkTags (effChunkSize chunkSize) rest := by
      rw [← hpost]; exact List.mem_map_of_mem (f := fun o => (o.tag, o.force)) ho
    exact mem_chunkTags this
  -- group, landmark and rest are pairwise disjoint
  rw [hout, List.nodup_append] at hnodup
  obtain ⟨_, hnd2, hdisj⟩ := hnodup
  rw [List.nodup_cons] at hnd2
  have hdis1 : ∀ e ∈ blocks.flatten, e ≠ landmarkFor prio ∧ e ∉ rest := by
    intro e he
    exact ⟨fun heq => hdisj e he _ (List.mem_cons_self ..) heq,
      fun hr => hdisj e he e (List.mem_cons_of_mem _ hr) rfl⟩
  have hdis2 : ∀ e ∈ rest, e ≠ landmarkFor prio := by
    intro e he heq; exact hnd2.1 (heq ▸ he)
  refine ⟨blocks.flatten, rest, pre, lm, post, hout, hcomb, hlmtag, hfresh, ?_, ?_⟩
  · intro o ho
    rcases List.mem_append.mp ho with ho | ho
    · exact (hdis1 _ (hpretag o ho)).1
    · exact hdis2 _ (hposttag o ho)
  · intro o ho
    rcases List.mem_append.mp ho with ho | ho
    · have hlt := hbefore o ho
      have hg := hpretag o ho
      exact ⟨⟨fun _ => hg, fun _ => hlt⟩, ⟨fun hle => absurd hlt (by omega), fun hr => absurd hr (hdis1 _ hg).2⟩⟩
    · have hle := hafter o ho
      have hr := hposttag o ho
      exact ⟨⟨fun hlt => absurd hle (by omega), fun hg => absurd hr (hdis1 _ hg).2⟩, ⟨fun _ => hr, fun _ => hle⟩⟩

/-! ### non-vacuity -/

/-- A small tar: directory, file, a duplicate of the file under another spelling, a hardlink
chain, a landmark left over from an earlier build. -/
def exTar : List Entry :=
  [{ id := 1, name := "a/", isLink := false, linkName := "", isReg := false, size := 0 },
   { id := 2, name := "./a/f", isLink := false, linkName := "", isReg := true, size := 10 },
   { id := 3, name := "g", isLink := false, linkName := "", isReg := true, size := 3 },
   { id := 4, name := ".prefetch.landmark", isLink := false, linkName := "", isReg := true, size := 1 },
   { id := 5, name := "/a/f", isLink := false, linkName := "", isReg := true, size := 20 },
   { id := 6, name := "l1", isLink := true, linkName := "../a/f", isReg := false, size := 0 },
   { id := 7, name := "l2", isLink := true, linkName := "./l1", isReg := false, size := 0 }]

-- the duplicate `./a/f` (id 2) and the old landmark (id 4) are gone, the later `/a/f` (id 5) stays
example : (importTar exTar).map (·.id) = [1, 3, 5, 6, 7] := by decide

-- `l2` is listed: its chain l1 -> a/f and the directory a/ come first, in dependency order
example : (match sortEntries exTar ["/l2", "nothere", "g"] true with
    | .ok out missed => (out.map (·.id), missed)
    | _ => ([], [])) = ([1, 5, 6, 7, 3, 0], ["nothere"]) := by decide

example : sortEntries exTar ["/l2", "nothere", "g"] false = .err := by decide

/-- `exTar` has no cycle (`no_cycle_error_without_cycle` applies): rank = depth, hardlinks above
their targets. -/
example : NoLinkCycle (importTar exTar) := by
  refine ⟨fun k => if k = ["l2"] then 10 else if k = ["l1"] then 9 else k.length, ?_⟩
  intro k e hk hg
  obtain ⟨hmem, hkey⟩ := get_some hg
  have himp : importTar exTar =
      [exTar[0], exTar[2], exTar[4], exTar[5], exTar[6]] := by decide
  rw [himp] at hmem
  simp only [List.mem_cons, List.not_mem_nil, or_false] at hmem
  subst hkey
  rcases hmem with rfl | rfl | rfl | rfl | rfl <;> decide

-- the invariant is satisfiable in a non-trivial state (after one step of the loop)
example : Inv (importTar exTar) (moveRec (importTar exTar) (moveFuel (importTar exTar)) ["l1"] ⟨[], []⟩).1 :=
  (moveRec_spec _ _ _ _ [] (Inv.empty _) (by simp)).inv

-- the writer: min-chunk-size 100 lets the first two files share a stream; the forced chunk does not
example : (combine 100 0 [([⟨"f", false, 30, 8⟩, ⟨"g", false, 20, 8⟩, ⟨"LM", true, 5, 8⟩, ⟨"h", false, 3, 8⟩], 8)]).map
    (fun o => (o.tag, o.off, o.fresh)) = [("f", 0, false), ("g", 0, false), ("LM", 63, true), ("h", 63, false)] := by
  decide

end SV.Props.C14
