/-
C05x — the time-valued attribute is preserved BY INSTANT for ALL instants (added after the seeded
change C05-E: `modtime` stored as a varint of `UnixNano()`).
Only property theorems and their non-vacuity examples live here.
-/
import SV.Model.TimeEnc
import SV.Model.Toc

namespace SV.Props.C05x
open SV.TimeEnc

/-- unbounded nanoseconds ↔ (seconds, nanoseconds) lose nothing, for every integer. -/
theorem nanos_ofNanos (n : Int) : (ofNanos n).nanos = n := by
  simp only [ofNanos, Instant.nanos, billion]; omega

theorem ofNanos_nanos (t : Instant) (h0 : 0 ≤ t.nsec) (h1 : t.nsec < billion) : ofNanos t.nanos = t := by
  cases t with
  | mk s n =>
    simp only [ofNanos, Instant.nanos, billion] at *
    congr 1 <;> omega

/-- the gob/binary encoding used by db `writeAttr`/`readAttr` round-trips EVERY instant a Go
`time.Time` can hold (year 1, before 1677, after 2262, before the epoch, sub-second). -/
theorem gob_roundtrip (t : Instant) (h : t.Valid) : gobDec (gobEnc t) = t := by
  cases t with
  | mk s n =>
    simp only [Instant.Valid] at h
    obtain ⟨_, _, h2, h3⟩ := h
    have key : ofU64 (toU64 (s + unixToInternal)) = s + unixToInternal := by
      unfold ofU64 toU64
      unfold two63 two64 at *
      split <;> omega
    show Instant.mk (ofU64 (toU64 (s + unixToInternal)) - unixToInternal) n = ⟨s, n⟩
    rw [key]
    congr 1
    omega

/-- the db time attribute, through the gob encoding, is the identity on the model's unbounded
nanosecond instants — for all instants in Go's range, and the zero time. -/
theorem db_time_roundtrip (t : Option Int) (h : ∀ n, t = some n → (ofNanos n).Valid) :
    loadTime gobDec (storeTime gobEnc t) = t := by
  cases t with
  | none => rfl
  | some n =>
    simp only [storeTime, loadTime, Option.map]
    rw [gob_roundtrip _ (h n rfl), nanos_ofNanos]

/-- every instant of years 0001..9999 (all that RFC3339 / the TOC can spell) is in range. -/
theorem rfc3339_range_valid (n : Int) (lo : -62135596800 * 1000000000 ≤ n)
    (hi : n < 253402300800 * 1000000000) : (ofNanos n).Valid := by
  simp only [Instant.Valid, ofNanos, two63, unixToInternal, billion]; omega

/-- an int64-of-nanoseconds encoding (`UnixNano` + `time.Unix(0, n)`) round-trips an instant IF AND
ONLY IF it lies within ±2^63 ns of the epoch (1677-09-21 .. 2262-04-11): outside, it changes it. -/
theorem nano_roundtrip_iff (t : Instant) (h0 : 0 ≤ t.nsec) (h1 : t.nsec < billion) :
    nanoDec (nanoEnc t) = t ↔ (-two63 ≤ t.nanos ∧ t.nanos < two63) := by
  cases t with
  | mk s n =>
    simp only [nanoDec, nanoEnc, ofNanos, wrap64, Instant.nanos, two63, two64, billion, Instant.mk.injEq] at *
    omega

/-- the attribute encoding of the Toc model keeps the time field of every attribute, whatever
else the attribute holds (`writeAttr` into a fresh bucket, then `readAttr`). -/
theorem attr_roundtrip_time (a : SV.Toc.Attr) :
    (SV.Toc.readAttr (SV.Toc.writeAttr {} a)).mtime = a.mtime := by
  unfold SV.Toc.writeAttr SV.Toc.readAttr
  cases hm : a.mtime <;> cases hx : a.xattrs with
  | nil => simp
  | cons f r => cases r <;> simp

/-- …and so does what the container observes (`normalise`). -/
theorem attr_roundtrip_time_observed (a : SV.Toc.Attr) :
    (SV.Toc.normalise (SV.Toc.readAttr (SV.Toc.writeAttr {} a))).mtime = (SV.Toc.normalise a).mtime := by
  simp only [SV.Toc.normalise]; exact attr_roundtrip_time a

/-! non-vacuity: the seeded change's two witnesses (2300-01-02T03:04:05Z, 1600-06-07T08:09:10Z) are
valid instants, gob keeps them, int64 nanoseconds does not. -/
example : (ofNanos 10413889445000000000).Valid ∧ (ofNanos (-11662415450000000000)).Valid := by decide
example : (nanoDec (nanoEnc (ofNanos 10413889445000000000))).nanos = -8032854628709551616 := by decide
example : (nanoDec (nanoEnc (ofNanos (-11662415450000000000)))).nanos = 6784328623709551616 := by decide
example : (gobDec (gobEnc (ofNanos 10413889445000000000))).nanos = 10413889445000000000 := by decide
example : loadTime gobDec (storeTime gobEnc (some (-62135596799999999999))) = some (-62135596799999999999) := by decide

end SV.Props.C05x
