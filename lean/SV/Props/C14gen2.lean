/-
C14 — regenerated tie.  `(*Writer).chunkSize`, the landmark names and the footer sizes of the
estargz writer, regenerated from the CURRENT Go sources by `tools/go2lean` on every run, are what
the hand-written writer model (`SV.Writer`) uses.
-/
import SV.Gen.Estargz
import SV.Model.Writer

namespace SV.Props.C14gen2
open SV

/-- Go `(*Writer).chunkSize()` (receiver field `ChunkSize` as the parameter) is the model's
`effChunk`.  `int` is modelled as unbounded `Int` (no arithmetic happens, so overflow is irrelevant). -/
theorem writer_chunkSize_eq (c : Int) : Gen.Estargz.writer_chunkSize c = (Writer.effChunk c : Int) := by
  unfold Gen.Estargz.writer_chunkSize Writer.effChunk
  by_cases h : c ≤ 0
  · simp [h]
  · simp [h]; omega

/-- the two landmark names the writer model treats as reserved -/
theorem landmarks_eq : Writer.landmarks = [Gen.Estargz.PrefetchLandmark, Gen.Estargz.NoPrefetchLandmark] := rfl

/-- footer lengths of the writer model: gzip footer, zstd skippable-frame header (8) + footer, external-TOC footer -/
theorem footerLen_eq :
    (Writer.Fmt.footerLen .gzip : Int) = Gen.Estargz.FooterSize ∧
    (Writer.Fmt.footerLen .zstd : Int) = 8 + Gen.Estargz.zstdFooterSize ∧
    (Writer.Fmt.footerLen .external : Int) = Gen.Estargz.extFooterSize := by decide

example : Gen.Estargz.writer_chunkSize 0 = 4194304 ∧ Gen.Estargz.writer_chunkSize 7 = 7 := by decide

end SV.Props.C14gen2
