/-
C05 — Memory and DB metadata stores expose the same filesystem for the same blob.

Only property theorems and their non-vacuity examples live here.  The two interpreters
(`memTree`, `dbTree`), the canonical `view` and the bolt model are in `SV.Model.Toc`; the decidable
fragments `SpecConformingR` ⊇ `SpecConforming` are in the model file, the simulation proof is in
`SV.Lemmas.TocSim` (namespace `SV.Toc.R`).
-/
import SV.Lemmas.TocSim

namespace SV.Props.C05
open SV.Toc SV.Toc.R

/-! ### Names -/

/-- `cleanEntryName` is idempotent: cleaning the rendering of a cleaned name changes nothing
(both stores clean every name and link target, the db store several times). -/
theorem cleanName_idem (s : String) : cleanName (renderPath (cleanName s)) = cleanName s :=
  cleanName_render s

/-- every component of a cleaned name is a plain one: not empty, not `.`, not `..`, no slash -/
theorem cleanName_components_plain (s : String) :
    ∀ c ∈ cleanChars s.toList, c ≠ [] ∧ c ≠ ['.'] ∧ c ≠ ['.', '.'] ∧ '/' ∉ c :=
  cleanChars_plain s.toList

/-! ### Attribute encoding and chunk tables -/

/-- Attribute encoding round trip of the db store: what `readAttr` gives back for a bucket
written by `writeAttr` is the original `Attr` as far as a container can observe it
(first-xattr/extra-xattr split, zero-valued keys left out, `numLink - 1` offset). -/
theorem attr_roundtrip (a : Attr) (hm : a.mode < 4294967296) (hx : (a.xattrs.map Prod.fst).Nodup) :
    normalise (readAttr (writeAttr {} a)) = normalise a :=
  readAttr_writeAttr a hm hx

/-- `sort.Search` as both `ChunkEntryForOffset`s call it: total and in range for ANY predicate
(an arbitrary chunk table cannot drive the index out of the table). -/
theorem searchFirst_in_range (n : Nat) (f : Nat → Bool) : searchFirst n f ≤ n :=
  searchFirst_le n f

/-- Chunk tables, row level: the memory store's rows (sizes taken from the TOC, `single` shortcut
for files with fewer than two rows) and the db store's rows (only offsets and digests are stored,
sizes recomputed from the neighbouring offsets by `readChunks`) answer `ChunkEntryForOffset`
identically for every file offset, when the TOC rows tile `[0, size)`. -/
theorem chunk_lookup_rows_agree (size : Int) (m d : List Chunk) (hc : Contig 0 size m)
    (he : d.map eraseSize = m.map eraseSize) (x : Int) (hx : 0 ≤ x) :
    (match m with
     | [] => ChunkTab.single 0 0 ""
     | [r] => ChunkTab.single r.chunkOffset r.chunkSize r.digest
     | _ => ChunkTab.table m).lookup x = (ChunkTab.table (readChunks d size)).lookup x :=
  lookup_rows_agree size m d hc he x hx

/-! ### The two stores on SpecConformingR TOCs -/

/-- **Both stores accept every SpecConformingR TOC and expose the same filesystem**: the canonical
views (sorted names, FUSE-normalised attributes incl. link counts and xattrs, node identity of
hardlinked names, `GetOffset`, `OpenFile` outcome, chunk triples at every probe offset) of
`memTree es` and `dbTree es` are equal.

`SpecConformingR` (decidable, `SV.Model.Toc`) allows implicit parent directories at any depth,
directories announced again — any number of times, anywhere after their first entry — by entries
with the same attributes (the memory store keeps the last such entry as the node, the db store the
node of the first: the proof relates the two trees up to that renaming), hardlinks to earlier
entries including hardlinks to hardlinks by any spelling, entries without per-file digest, `./`,
`../`, `//` spellings, arbitrary (also empty-valued) xattrs, any modes and owners, several files
in one stream (offsets are unconstrained), chunked files whose rows tile the file.  It excludes
what the CURRENT stores are observed to disagree on (known findings, replayed on the
implementation every run): an entry for the root directory itself, a directory whose first entry
comes after something below it, a directory announced again with other attributes, any other name
used twice, data entries that carry a digest but no chunkDigest, offsets on entries without
data. -/
theorem stores_agree (es : List Entry) (sc : SpecConformingR es) :
    ∃ tm td, memTree es = .accept tm ∧ dbTree es = .accept td ∧ view tm = view td :=
  views_agree sc

/-- the same, on `viewOf`: equal views, and neither store rejects -/
theorem stores_agree_viewOf (es : List Entry) (sc : SpecConformingR es) :
    viewOf (memTree es) = viewOf (dbTree es) ∧ (viewOf (memTree es)).isSome := by
  obtain ⟨tm, td, h1, h2, h3⟩ := views_agree sc
  rw [h1, h2]; simp [viewOf, h3]

/-- the fragment without repeated names (on which C02's bridge to the tar view is stated) is
included -/
theorem spec_conforming_included (es : List Entry) (sc : SpecConforming es) : SpecConformingR es :=
  spec_of_nodup sc

/-- **Both `ChunkEntryForOffset`s return the same triple for every file offset of every node**:
the nodes both stores list are the same (same paths in the same order, the db store's node ids
being a renaming `g` of the memory store's), and for each of them the memory store's lookup
(binary search over `r.chunks[name]`, or the single-entry shortcut) and the db store's lookup
(binary search over the table `readChunks` rebuilds) agree at every offset `≥ 0`. -/
theorem chunk_lookup_agree (es : List Entry) (sc : SpecConformingR es) :
    ∃ (tm td : Tree) (g : Key → Key), memTree es = .accept tm ∧ dbTree es = .accept td ∧
      (listing td maxDepth [] td.root []).1 =
        (listing tm maxDepth [] tm.root []).1.map (fun pk => (pk.1, g pk.2)) ∧
      ∀ pk, pk ∈ (listing tm maxDepth [] tm.root []).1 → ∀ x : Int, 0 ≤ x →
        (tm.node pk.2).chunks.lookup x = (td.node (g pk.2)).chunks.lookup x := by
  obtain ⟨smF, sdF, h1, h2, ag⟩ := trees_agree sc
  have hl := listing_agree ag maxDepth [] Key.root [] ag.rootC (by intro s h; cases h)
  refine ⟨_, _, canon (pass1 es), h1, h2, ?_, fun pk hpk x hx => (ag.node pk.2 (hl.2.1 pk hpk)).lookup x hx⟩
  have := congrArg Prod.fst hl.1
  exact this

/-- The statement DESIGN.md asks for, in its original wording: `es` is a TOC without repeated
names followed by repetitions of some of its directory entries (same fields, any spelling of the
name).  Proved below (`stores_agree_full`) as an instance of `stores_agree`, whose fragment also
lets the repetitions stand anywhere after the first entry. -/
def StoresAgreeFull : Prop :=
  ∀ es : List Entry,
    (∃ es' : List Entry, SpecConforming es' ∧
      -- es is es' with some directory entries repeated (same fields, any spelling of the name)
      ∃ dup : List (Nat × Entry), (∀ d ∈ dup, ∃ h : d.1 < es'.length,
          es'[d.1].type = "dir" ∧ d.2.type = "dir" ∧ cleanName d.2.name = cleanName es'[d.1].name ∧
          { d.2 with name := "" } = { es'[d.1] with name := "" }) ∧
        es = es' ++ dup.map Prod.snd) →
    viewOf (memTree es) = viewOf (dbTree es)

/-- **`StoresAgreeFull` holds**: a TOC without repeated names followed by repetitions of some of
its directory entries lies in `SpecConformingR`, so `stores_agree` applies. -/
theorem stores_agree_full : StoresAgreeFull := by
  rintro es ⟨es', sc, dup, hdup, e⟩
  subst e
  exact (stores_agree_viewOf _ (spec_of_dups sc dup hdup)).1

/-! ### Layers in one bolt file -/

/-- Operations on other layers leave layer `b`'s tree exactly as it was: several layers opened,
queried and closed in any order in one database do not influence each other. -/
theorem layers_isolated (s : Bolt) (ops : List BoltOp) (b : Nat)
    (h : ∀ op ∈ ops, op.target ≠ b) : Bolt.get (ops.foldl applyOp s) b = Bolt.get s b := by
  induction ops generalizing s with
  | nil => rfl
  | cons op ops ih =>
    simp only [List.foldl_cons]
    rw [ih (applyOp s op) (fun o ho => h o (List.mem_cons_of_mem _ ho))]
    have ht := h op (List.mem_cons_self ..)
    cases op with
    | openFs fs t =>
      simp only [BoltOp.target] at ht
      simp only [applyOp, Bolt.openFs, Bolt.get, ht, ↓reduceIte]
      exact get_filter_ne s fs b (Ne.symm ht)
    | closeFs fs =>
      simp only [BoltOp.target] at ht
      exact get_filter_ne s fs b (Ne.symm ht)
    | query fs => rfl

/-- `Close` removes exactly the closed layer. -/
theorem close_removes (s : Bolt) (a : Nat) : Bolt.get (s.closeFs a) a = none := by
  unfold Bolt.closeFs
  induction s with
  | nil => rfl
  | cons x xs ih =>
    obtain ⟨i, t⟩ := x
    by_cases hx : i = a
    · simp [List.filter, hx]; simpa using ih
    · simp [List.filter, hx, Bolt.get]; simpa using ih

/-- a freshly opened layer is served from its own tree -/
theorem open_serves (s : Bolt) (a : Nat) (t : Tree) : (Bolt.get (s.openFs a t) a).isSome := by
  simp [Bolt.openFs, Bolt.get]

/-! ### Non-vacuity -/

/-- a TOC with implicit parents three levels deep, a chunked file whose last row has no size, a
directory with two empty-valued xattrs, a hardlink by an odd spelling, a hardlink to that
hardlink, an empty file and a symlink -/
def exampleTOC : List Entry := [
  { name := "./a/b/c.txt", type := "reg", size := 10, chunkSize := 4, offset := 100, chunkDigest := "d0" },
  { name := "a/b/c.txt", type := "chunk", chunkOffset := 4, chunkSize := 4, offset := 200, chunkDigest := "d1" },
  { name := "", type := "chunk", chunkOffset := 8, offset := 300, chunkDigest := "d2" },
  { name := "../a/x/", type := "dir", mode := 0o755, xattrs := [("user.a", ""), ("user.b", "")] },
  { name := "a/x/l1", type := "hardlink", linkName := "/a/b/../b/c.txt" },
  { name := "l2", type := "hardlink", linkName := "a/x/l1" },
  { name := "a/x/empty", type := "reg" },
  { name := "s", type := "symlink", linkName := "a/b" } ]

set_option maxRecDepth 100000 in
example : SpecConforming exampleTOC := by decide

/-- the same with the directory `a/x` announced three times (once before, twice after its
children, by another spelling), below an implicit directory, and `b` announced twice in a row -/
def exampleTOCRepeated : List Entry := [
  { name := "a/x/", type := "dir", mode := 0o755, xattrs := [("user.a", "")] },
  { name := "a/x/f", type := "reg", size := 3, offset := 50, chunkDigest := "d" },
  { name := "./a/x", type := "dir", mode := 0o755, xattrs := [("user.a", "")] },
  { name := "a/x/l", type := "hardlink", linkName := "a/x/f" },
  { name := "a/x/", type := "dir", mode := 0o755, xattrs := [("user.a", "")] },
  { name := "b", type := "dir", mode := 0o700 },
  { name := "b/", type := "dir", mode := 0o700 } ]

set_option maxRecDepth 100000 in
example : SpecConformingR exampleTOCRepeated := by decide

set_option maxRecDepth 100000 in
example : ¬ SpecConforming exampleTOCRepeated := by decide

example : cleanName "./a/../b//c/./d/.." = ["b", "c"] := by decide

example : Contig 0 10 [⟨0, 4, "d0", 100⟩, ⟨4, 4, "d1", 200⟩, ⟨8, 2, "d2", 300⟩] := by
  simp [Contig]

example : (readAttr (writeAttr {} { mode := 0o644, numLink := 1, xattrs := [("user.a", ""), ("user.b", "v")] })).xattrs
    = [("user.a", ""), ("user.b", "v")] := by decide

end SV.Props.C05
