/-
C05 — Memory and DB metadata stores expose the same filesystem for the same blob.

Only property theorems and their non-vacuity examples live here.  The two interpreters
(`memTree`, `dbTree`), the canonical `view` and the bolt model are in `SV.Model.Toc`.
-/
import SV.Lemmas.Toc

namespace SV.Props.C05
open SV.Toc

/-- `cleanEntryName` is idempotent: cleaning the rendering of a cleaned name changes nothing
(both stores clean every name and link target, the db store several times). -/
theorem cleanName_idem (s : String) : cleanName (renderPath (cleanName s)) = cleanName s :=
  cleanName_render s

/-- every component of a cleaned name is a plain one: not empty, not `.`, not `..`, no slash -/
theorem cleanName_components_plain (s : String) :
    ∀ c ∈ cleanChars s.toList, c ≠ [] ∧ c ≠ ['.'] ∧ c ≠ ['.', '.'] ∧ '/' ∉ c :=
  cleanChars_plain s.toList

/-- `sort.Search` as both `ChunkEntryForOffset`s call it: total and in range for ANY predicate
(an attacker-chosen chunk table cannot drive the index out of the table). -/
theorem searchFirst_in_range (n : Nat) (f : Nat → Bool) : searchFirst n f ≤ n :=
  searchFirst_le n f

/-- Attribute encoding round trip of the db store: what `readAttr` gives back for a bucket
written by `writeAttr` is the original `Attr` as far as a container can observe it
(first-xattr/extra-xattr split, zero-valued keys left out, `numLink - 1` offset). -/
theorem attr_roundtrip (a : Attr) (hm : a.mode < 4294967296) (hx : (a.xattrs.map Prod.fst).Nodup) :
    normalise (readAttr (writeAttr {} a)) = normalise a :=
  readAttr_writeAttr a hm hx

/-- Chunk tables: the memory store's rows (sizes taken from the TOC, `single` shortcut for files
with fewer than two rows) and the db store's rows (only offsets and digests are stored, sizes
recomputed from the neighbouring offsets) answer `ChunkEntryForOffset` identically for every
file offset, when the TOC rows tile `[0, size)`. -/
theorem chunk_lookup_rows_agree (size : Int) (m d : List Chunk) (hc : Contig 0 size m)
    (he : d.map eraseSize = m.map eraseSize) (x : Int) (hx : 0 ≤ x) :
    (match m with
     | [] => ChunkTab.single 0 0 ""
     | [r] => ChunkTab.single r.chunkOffset r.chunkSize r.digest
     | _ => ChunkTab.table m).lookup x = (ChunkTab.table (readChunks d size)).lookup x := by
  rw [readChunks_contig d m size hc he]
  match m, hc with
  | [], hc =>
    simp only [Contig] at hc
    simp [ChunkTab.lookup, searchChunk, searchFirst, searchLoop, hx]
  | [r], hc =>
    obtain ⟨h1, h2, h3⟩ := hc
    simp only [ChunkTab.lookup]
    rw [searchChunk_contig [r] 0 size ⟨h1, h2, h3⟩ x]
    simp only [List.find?, covers]
    by_cases hlt : x ≥ r.chunkSize
    · have : ¬ (x < r.chunkOffset + r.chunkSize) := by omega
      simp [hlt, this]
    · have : x < r.chunkOffset + r.chunkSize := by omega
      simp [hlt, this]
  | _ :: _ :: _, _ => rfl

/-! ### Layers in one bolt file -/

/-- what a caller can do to one layer of the shared database -/
inductive BoltOp where
  | openFs (fs : Nat) (t : Tree)
  | closeFs (fs : Nat)
  /-- any read-only call (`GetAttr`, `GetChild`, `ForeachChild`, `OpenFile`, ...) -/
  | query (fs : Nat)

def BoltOp.target : BoltOp → Nat
  | .openFs fs _ => fs
  | .closeFs fs => fs
  | .query fs => fs

def applyOp (b : Bolt) : BoltOp → Bolt
  | .openFs fs t => b.openFs fs t
  | .closeFs fs => b.closeFs fs
  | .query _ => b

theorem get_filter_ne (b : Bolt) (a c : Nat) (h : c ≠ a) :
    Bolt.get (b.filter (·.1 ≠ a)) c = Bolt.get b c := by
  induction b with
  | nil => rfl
  | cons x xs ih =>
    by_cases hx : x.1 = a
    · simp only [List.filter, hx, ne_eq, not_true_eq_false, decide_false]
      rw [ih]
      obtain ⟨i, t⟩ := x
      simp only at hx
      simp [Bolt.get, hx, Ne.symm h]
    · obtain ⟨i, t⟩ := x
      simp only at hx
      simp only [List.filter, ne_eq, hx, not_false_eq_true, decide_true, Bolt.get]
      rw [ih]

/-- Operations on other layers leave layer `b`'s tree exactly as it was: several layers opened,
queried and closed in any order in one database do not influence each other. -/
theorem layers_isolated (s : Bolt) (ops : List BoltOp) (b : Nat)
    (h : ∀ op ∈ ops, op.target ≠ b) : Bolt.get (ops.foldl applyOp s) b = Bolt.get s b := by
  induction ops generalizing s with
  | nil => rfl
  | cons op ops ih =>
    simp only [List.foldl_cons]
    rw [ih (applyOp s op) (fun o ho => h o (List.mem_cons_of_mem _ ho))]
    have ht := h op (List.mem_cons_self ..)
    cases op with
    | openFs fs t =>
      simp only [BoltOp.target] at ht
      simp only [applyOp, Bolt.openFs, Bolt.get, ht, ↓reduceIte]
      exact get_filter_ne s fs b (Ne.symm ht)
    | closeFs fs =>
      simp only [BoltOp.target] at ht
      exact get_filter_ne s fs b (Ne.symm ht)
    | query fs => rfl

/-- `Close` removes exactly the closed layer. -/
theorem close_removes (s : Bolt) (a : Nat) : Bolt.get (s.closeFs a) a = none := by
  unfold Bolt.closeFs
  induction s with
  | nil => rfl
  | cons x xs ih =>
    obtain ⟨i, t⟩ := x
    by_cases hx : i = a
    · simp [List.filter, hx]; simpa using ih
    · simp [List.filter, hx, Bolt.get]; simpa using ih

/-- a freshly opened layer is served from its own tree -/
theorem open_serves (s : Bolt) (a : Nat) (t : Tree) : (Bolt.get (s.openFs a t) a).isSome := by
  simp [Bolt.openFs, Bolt.get]

end SV.Props.C05
