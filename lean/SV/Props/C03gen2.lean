/-
C03 — regenerated tie.  The reserved entry names of estargz/types.go, regenerated from the
CURRENT Go sources by `tools/go2lean` on every run, are the names the hand-written model of
`sortEntries` / `appendTar` (`SV.Sort`) uses.
-/
import SV.Gen.Estargz
import SV.Model.Sort

namespace SV.Props.C03gen2
open SV

theorem tocTarName_eq : Gen.Estargz.TOCTarName = Sort.tocTarName := rfl
theorem prefetchLandmark_eq : Gen.Estargz.PrefetchLandmark = Sort.prefetchLandmark := rfl
theorem noPrefetchLandmark_eq : Gen.Estargz.NoPrefetchLandmark = Sort.noPrefetchLandmark := rfl

example : Gen.Estargz.PrefetchLandmark ≠ Gen.Estargz.NoPrefetchLandmark := by decide

end SV.Props.C03gen2
