/-
C03 - Built blobs unpack like the input tar and index themselves consistently.

Only property theorems and their non-vacuity examples live here.  The model is
`SV/Model/Writer.lean` (Writer.appendTar / Close, Build = divideEntries + per-part Writers +
closeWithCombine, the three TOC/footer formats), compression and tar encoding abstract:
every statement below holds for EVERY pair of compressor oracle streams `orcF orcC`, every TOC
encoding `tocTar`, every chunk size > 0 (`effChunk_pos`: `Writer.chunkSize()` is always > 0),
every min-chunk-size, every worker count, every entry list.

Vocabulary (defined in `SV/Lemmas/Writer.lean`):
  `IndexOK ms src toc`  every data entry `x` of `toc` (reg with size > 0, or chunk) names a regular
                        file `e` of `src`, `specRead ms x |e.data| = some (e.data[x.chunkOffset, +effSize))`
                        (the documented reading rule), and `x.offset` is the first byte of a member;
  `EntryToc e g`        `g` is the TOC group of tar entry `e`: one plain entry, or for a non-empty
                        regular file `Group e.name |data| true 0 g` = reg entry then chunk entries,
                        contiguous from 0, none empty, ending exactly at the file size;
  `keep es`             `es` minus entries named like the TOC (they are dropped);
  `tarStream es`        the tar stream of `keep es` (`pre ++ data ++ post` per entry);
  `PartOK w p`          an unclosed sub-blob Writer `w` whose own index is consistent for part `p`.
-/
import SV.Lemmas.Writer

namespace SV.Props.C03
open SV.Writer

/-! ## Build -/

/-- Every chunk entry of a built blob, read by the documented rule, yields exactly its range of
the file's content; every recorded Offset is a member boundary; no member is empty. -/
theorem index_consistent (F : Fmt) (chunk minChunk workers : Nat) (ents : List TarEnt)
    (tocTar : List TocEnt → Bytes) (orcF orcC : List Nat) (a : Nat) (b : Blob) (hc : 0 < chunk)
    (h : build F chunk minChunk workers ents tocTar orcF orcC a = some b) :
    AllPos b.members ∧ IndexOK b.members ents b.toc := by
  obtain ⟨parts, ws, hflat, hok, _, _, hb⟩ := build_spec hc h
  obtain ⟨hpos, _, _, _, hag⟩ := combineGo_spec ws parts 0 [] hok rfl
  subst hb
  have hpos' := wtf_pos F _ (combineGo ws 0).2.2 (combineGo ws 0).2.1 (tocTar (combineGo ws 0).2.1) a [] hpos
  refine ⟨hpos', ?_⟩
  rw [wtf_toc, ← hflat]
  exact (AllGood.mono (by simpa using hag) (wtf_ext _ _ _ _ _ _ _) (fun _ h => h)).indexOK hpos'

/-- The same, phrased with `content(e.name)`: when no two regular files share a name (what
`importTar` establishes), every chunk entry reads `content(name)[chunkOffset, +chunkSize)`. -/
theorem index_consistent_by_name (F : Fmt) (chunk minChunk workers : Nat) (ents : List TarEnt)
    (tocTar : List TocEnt → Bytes) (orcF orcC : List Nat) (a : Nat) (b : Blob) (hc : 0 < chunk)
    (hu : UniqueRegNames ents)
    (h : build F chunk minChunk workers ents tocTar orcF orcC a = some b) :
    ∀ x ∈ b.toc, x.isData = true → ∃ d, contentOf ents x.name = some d ∧
      specRead b.members x d.length = some (expect d x) := by
  intro x hx hd
  obtain ⟨e, he, h1, h2, h3, h4, _⟩ := (index_consistent F chunk minChunk workers ents tocTar orcF orcC a b hc h).2 x hx hd
  exact ⟨e.data, by rw [← h3]; exact contentOf_eq hu he h1 h2, h4⟩

/-- The TOC of a built blob is, entry by entry (in the order given, TOC-named entries dropped),
the group of that entry; the chunks of a file are together, ordered, contiguous and cover
`[0,size)` - for every worker count (a file is never separated from its chunks). -/
theorem chunks_tile_file (F : Fmt) (chunk minChunk workers : Nat) (ents : List TarEnt)
    (tocTar : List TocEnt → Bytes) (orcF orcC : List Nat) (a : Nat) (b : Blob) (hc : 0 < chunk)
    (h : build F chunk minChunk workers ents tocTar orcF orcC a = some b) :
    ∃ gs, b.toc = gs.flatten ∧ Forall2 EntryToc (keep ents) gs := by
  obtain ⟨parts, ws, hflat, hok, _, _, hb⟩ := build_spec hc h
  obtain ⟨_, _, _, hgs, _⟩ := combineGo_spec ws parts 0 [] hok rfl
  subst hb
  rw [wtf_toc, ← hflat]
  exact hgs

/-- What `Group` says in plain arithmetic: the chunk sizes from `pos` on add up to the file size
(so with `pos = 0` the chunks cover the file exactly once). -/
theorem group_covers (name : String) (total : Nat) :
    ∀ (first : Bool) (pos : Nat) (g : List TocEnt), Group name total first pos g →
      pos + (g.map (fun x => effSize x total)).sum = total := by
  intro first pos g
  induction g generalizing first pos with
  | nil => intro h; simpa [Group] using h
  | cons e es ih =>
    intro h
    simp only [Group] at h
    have := ih false _ h.2.2.2.2.2.2
    simp only [List.map_cons, List.sum_cons]
    omega

/-- `closeWithCombine` for ANY number of sub-blobs whose own indexes are consistent: the combined
member list and the rebased TOC are consistent, the reported size is the sum of the sub-blob
sizes, the stream is the concatenation. -/
theorem combine_preserves_index (ws : List W) (parts : List (List TarEnt))
    (h : Forall2 PartOK ws parts) :
    AllPos (combineGo ws 0).1 ∧ IndexOK (combineGo ws 0).1 parts.flatten (combineGo ws 0).2.1 ∧
    (combineGo ws 0).2.2 = sumClen (combineGo ws 0).1 ∧
    streamOf (combineGo ws 0).1 = tarStream parts.flatten := by
  obtain ⟨hpos, hsz, hst, _, hag⟩ := combineGo_spec ws parts 0 [] h rfl
  exact ⟨hpos, (AllGood.indexOK (by simpa using hag) hpos), by simpa using hsz, hst⟩

/-- Full decompression of a built blob = the tar stream of the entries as ordered (the landmark
is one of them after `sortEntries`, C14) + the TOC tar entry last where the format embeds it. -/
theorem stream_is_input_plus_additions (F : Fmt) (chunk minChunk workers : Nat) (ents : List TarEnt)
    (tocTar : List TocEnt → Bytes) (orcF orcC : List Nat) (a : Nat) (b : Blob) (hc : 0 < chunk)
    (h : build F chunk minChunk workers ents tocTar orcF orcC a = some b) :
    streamOf b.members = tarStream ents ++ tocAddition F (tocTar b.toc) := by
  obtain ⟨parts, ws, hflat, hok, _, _, hb⟩ := build_spec hc h
  obtain ⟨_, _, hst, _, _⟩ := combineGo_spec ws parts 0 [] hok rfl
  subst hb
  rw [wtf_stream, wtf_toc, hst, hflat]

/-- `divideEntries` is an order-preserving partition into at least one part for every positive
worker count (entries are whole files: a part boundary never falls inside a file), and it is the
only thing `Build` uses to split the work. -/
theorem divide_partition (n : Nat) (es : List TarEnt) (hn : 0 < n) :
    ∃ parts, divideEntries n es = some parts ∧ parts.flatten = es ∧ parts ≠ [] := by
  have hn' : n ≠ 0 := by omega
  refine ⟨divideGo (totalSize es / n) es [] 0 (totalSize es / n), by simp [divideEntries, hn'],
    by simp [divideGo_flatten], divideGo_ne_nil _ _ _ _ _⟩

/-- The Go code divides by the worker count: zero is a panic, not a silent default. -/
theorem divide_zero_panics (es : List TarEnt) : divideEntries 0 es = none := by
  simp [divideEntries]

/-- The footer of every format points at the TOC: right after the data members (zstd: after the
8-byte skippable-frame header), and the blob ends with the fixed-size footer. -/
theorem footer_points_to_toc (F : Fmt) (ms : List Member) (toc : List TocEnt) (tt : Bytes) (a : Nat)
    (hh : Bytes) :
    (writeTocAndFooter F ms (sumClen ms) toc tt a hh).size =
      sumClen (writeTocAndFooter F ms (sumClen ms) toc tt a hh).members + F.footerLen ∧
    (F ≠ .external →
      (writeTocAndFooter F ms (sumClen ms) toc tt a hh).tocOff = some (sumClen ms + F.tocSkip)) ∧
    (F = .external → (writeTocAndFooter F ms (sumClen ms) toc tt a hh).tocOff = none) :=
  wtf_layout F ms toc tt a hh

/-! ## Writer (AppendTar / AppendTarLossLess / Close) -/

/-- Writer runs: index consistency at full strength - any number of `AppendTar` /
`AppendTarLossLess` calls, any `MinChunkSize` (every call starts on a new member since 6f1f089). -/
theorem writer_index_consistent (P : Params) (F : Fmt) (calls : List (List TarEnt × Bytes))
    (tocTar : List TocEnt → Bytes) (orcF orcC : List Nat) (a : Nat) (b : Blob) (hc : 0 < P.chunk)
    (h : writerRun P F calls tocTar orcF orcC a = some b) :
    AllPos b.members ∧ IndexOK b.members (callEnts calls) b.toc := by
  obtain ⟨ms, hpos, _, hb, _, _, hag⟩ := writerRun_spec hc True h
  have hpos' := wtf_pos F ms (sumClen ms) b.toc (tocTar b.toc) a (streamOf ms) hpos
  rw [← hb] at hpos'
  refine ⟨hpos', ?_⟩
  have hext := wtf_ext F ms (sumClen ms) b.toc (tocTar b.toc) a (streamOf ms)
  rw [← hb] at hext
  exact (AllGood.mono (hag trivial) hext (fun _ h => h)).indexOK hpos'

/-- Documented counterexample: the statement above is FALSE for `appendTar` as it was before
commit 6f1f089 (`writerRunOld`: no `closeGz` at the start of a call, `prevOffset := w.cw.n` read
mid-stream, `prevOffsetUncompressed := 0`). -/
def OldWriterIndexConsistent : Prop :=
  ∀ (P : Params) (F : Fmt) (calls : List (List TarEnt × Bytes)) (tocTar : List TocEnt → Bytes)
    (orcF orcC : List Nat) (a : Nat) (b : Blob), 0 < P.chunk →
    writerRunOld P F calls tocTar orcF orcC a = some b → IndexOK b.members (callEnts calls) b.toc

/-- Witness: MinChunkSize 1000, two `AppendTar` calls with one 1-byte file each, a compressor that
emits 5 bytes at the first flush.  The old code records the second file at Offset 5, inside the
only member.  The same calls on the real (repaired) code are a regression scenario of the harness
(oracle signature `writer-minchunk-second-appendtar`). -/
def witnessCalls : List (List TarEnt × Bytes) :=
  [([⟨"a", .reg, false, [0], [1], []⟩], []), ([⟨"b", .reg, false, [2], [3], []⟩], [])]

theorem old_appendTar_breaks_index : ¬ OldWriterIndexConsistent := by
  intro hfull
  have key := hfull ⟨4, 1000, [], false⟩ .gzip witnessCalls (fun _ => []) [5] [] 0 _ (by decide) rfl
  obtain ⟨e, _, _, _, _, hs, _⟩ := key ⟨"b", .reg, 1, 5, 3, 0, 0⟩ (by decide) (by decide)
  rw [show specRead _ _ e.data.length = none from rfl] at hs
  exact absurd hs (by simp)

/-- ... and the repaired code reads both files of the witness. -/
example : ((writerRun ⟨4, 1000, [], false⟩ .gzip witnessCalls (fun _ => []) [5] [] 0).map
    (fun b => (b.toc.map (fun x => (x.offset, x.innerOffset)),
      checkIndex b.toc b.members [⟨"a", [1]⟩, ⟨"b", [3]⟩]))) = some ([(0, 1), (6, 1)], true) := by decide

/-- Writer runs: the TOC is the sequence of entry groups, chunks tile each file - any number of
calls, any `MinChunkSize`. -/
theorem writer_chunks_tile_file (P : Params) (F : Fmt) (calls : List (List TarEnt × Bytes))
    (tocTar : List TocEnt → Bytes) (orcF orcC : List Nat) (a : Nat) (b : Blob) (hc : 0 < P.chunk)
    (h : writerRun P F calls tocTar orcF orcC a = some b) :
    ∃ gs, b.toc = gs.flatten ∧ Forall2 EntryToc (keep (callEnts calls)) gs := by
  obtain ⟨_, _, _, _, _, hgs, _⟩ := writerRun_spec hc False h
  exact hgs

/-- Writer runs: decompression = the entries' tar streams (+ kept tails in lossless mode) + the
TOC entry where embedded; and DiffID hashes exactly that stream. -/
theorem writer_stream_is_input_plus_additions (P : Params) (F : Fmt)
    (calls : List (List TarEnt × Bytes)) (tocTar : List TocEnt → Bytes) (orcF orcC : List Nat)
    (a : Nat) (b : Blob) (hc : 0 < P.chunk) (h : writerRun P F calls tocTar orcF orcC a = some b) :
    streamOf b.members = callStream P calls ++ tocAddition F (tocTar b.toc) := by
  obtain ⟨ms, _, hst, hb, _, _, _⟩ := writerRun_spec hc False h
  rw [hb, wtf_stream, hst, wtf_toc]

theorem diffid_is_hash_of_stream (P : Params) (F : Fmt) (calls : List (List TarEnt × Bytes))
    (tocTar : List TocEnt → Bytes) (orcF orcC : List Nat) (a : Nat) (b : Blob) (hc : 0 < P.chunk)
    (h : writerRun P F calls tocTar orcF orcC a = some b) :
    b.hashed = streamOf b.members := by
  obtain ⟨ms, _, _, hb, _, _, _⟩ := writerRun_spec hc False h
  rw [hb, wtf_stream, wtf_hashed]

/-- Lossless mode: whenever the run succeeds, the decompressed layer is the input, byte for byte
(followed by the TOC entry for gzip; `Unpack` cuts it off at the TOC offset). -/
theorem lossless_roundtrip (P : Params) (F : Fmt) (calls : List (List TarEnt × Bytes))
    (tocTar : List TocEnt → Bytes) (orcF orcC : List Nat) (a : Nat) (b : Blob) (hc : 0 < P.chunk)
    (hl : P.lossless = true) (h : writerRun P F calls tocTar orcF orcC a = some b) :
    streamOf b.members = inputBytes calls ++ tocAddition F (tocTar b.toc) := by
  obtain ⟨ms, _, hst, hb, hlos, _, _⟩ := writerRun_spec hc False h
  rw [hb, wtf_stream, hst, wtf_toc, callStream_lossless P hl calls (hlos hl)]

/-! ## The verified checker (translation validation of each real blob) -/

/-- If `checkIndex` accepts (TOC, member table, regular files of the decompressed stream) then no
member is empty and every data entry of the TOC reads, by the documented rule, exactly its range
of a file carrying its name. -/
theorem checkIndex_sound (toc : List TocEnt) (ms : List Member) (files : List FileC)
    (h : checkIndex toc ms files = true) :
    AllPos ms ∧ ∀ e ∈ toc, e.isData = true → ∃ f ∈ files, f.name = e.name ∧
      specRead ms e f.content.length = some (expect f.content e) ∧
      e.chunkOffset + effSize e f.content.length ≤ f.content.length := by
  simp only [checkIndex, Bool.and_eq_true, List.all_eq_true, decide_eq_true_eq] at h
  exact ⟨h.1, by simpa [curFiles] using checkGo_sound ms toc files none h.2⟩

/-! ## Non-vacuity -/

/-- A three-entry tar (directory, 5-byte file, landmark), chunk size 2, two workers, gzip. -/
def exEnts : List TarEnt :=
  [⟨"d/", .dir, false, [9], [], []⟩, ⟨"d/f", .reg, false, [8], [1, 2, 3, 4, 5], [0, 0, 0]⟩,
   ⟨".no.prefetch.landmark", .reg, false, [7], [0xf], [0]⟩]

example : (build .gzip 2 0 2 exEnts (fun _ => [42]) [] [3, 1] 6).isSome = true := by decide

example : ((build .gzip 2 0 2 exEnts (fun _ => [42]) [] [3, 1] 6).map
    (fun b => b.toc.map (fun x => (x.offset, x.chunkOffset, x.chunkSize)))) =
    some [(0, 0, 0), (4, 0, 2), (6, 2, 2), (7, 4, 0), (9, 0, 0)] := by decide

example : ((build .gzip 2 0 2 exEnts (fun _ => [42]) [] [3, 1] 6).map
    (fun b => checkIndex b.toc b.members
      [⟨"d/f", [1, 2, 3, 4, 5]⟩, ⟨".no.prefetch.landmark", [0xf]⟩])) = some true := by decide

/-- min-chunk-size 100: one member holds everything, InnerOffsets tell the chunks apart. -/
example : ((writerRun ⟨2, 100, [], false⟩ .zstd [(exEnts, [])] (fun _ => []) [] [] 0).map
    (fun b => b.toc.map (fun x => (x.offset, x.innerOffset)))) =
    some [(0, 0), (0, 2), (0, 4), (0, 6), (0, 11)] := by decide

example : PartOK { } [] :=
  ⟨inv_fresh [] [], rfl, ⟨[], rfl, Forall2.nil⟩, fun _ h => by simp at h⟩

end SV.Props.C03
