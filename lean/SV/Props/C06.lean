/-
C06 — Remote blob reads are byte-exact; fetched size = number of distinct bytes stored,
never exceeds the blob size, never decreases.

Only property theorems and their non-vacuity examples live here.
Part A: the fetched-region bookkeeping (`regionSet`, fs/remote/util.go).
-/
import SV.Lemmas.Region

namespace SV.Props.C06
open SV.Region

/-- `regionSet.add` keeps the set well-formed (sorted, disjoint, non-adjacent, non-empty regions). -/
theorem add_wf (rs : List Region) (r : Region) (h : WF rs) (hr : r.b ≤ r.e) : WF (add rs r) := by
  unfold add
  have hp : rs.reverse.Pairwise (fun a c => c.e + 1 < a.b) := by
    rw [List.pairwise_reverse]; exact h.2
  exact (addScan_spec rs.reverse r [] hr (fun l hl => h.1 l (List.mem_reverse.mp hl)) hp
    ⟨by simp, by simp⟩ (by simp) (by simp)).1

/-- `regionSet.add` covers exactly the old bytes plus the bytes of `r`. -/
theorem add_cov (rs : List Region) (r : Region) (h : WF rs) (hr : r.b ≤ r.e) (x : Int) :
    cov x (add rs r) ↔ cov x rs ∨ (r.b ≤ x ∧ x ≤ r.e) := by
  unfold add
  have hp : rs.reverse.Pairwise (fun a c => c.e + 1 < a.b) := by
    rw [List.pairwise_reverse]; exact h.2
  have := (addScan_spec rs.reverse r [] hr (fun l hl => h.1 l (List.mem_reverse.mp hl)) hp
    ⟨by simp, by simp⟩ (by simp) (by simp)).2 x
  rw [this, cov_reverse]
  have hn := cov_nil x
  constructor
  · rintro (h | h | h)
    · exact Or.inl h
    · exact absurd h hn
    · exact Or.inr h
  · rintro (h | h)
    · exact Or.inl h
    · exact Or.inr (Or.inr h)

/-- All regions stay inside the blob `[0,N)`. -/
def InBlob (N : Nat) (rs : List Region) : Prop := ∀ l ∈ rs, 0 ≤ l.b ∧ l.e < N

theorem add_inBlob (N : Nat) (rs : List Region) (r : Region) (h : WF rs) (hr : r.b ≤ r.e)
    (hin : InBlob N rs) (hrin : 0 ≤ r.b ∧ r.e < N) : InBlob N (add rs r) := by
  intro l hl
  have hwf := add_wf rs r h hr
  have hle := hwf.1 l hl
  have hb : cov l.b (add rs r) := ⟨l, hl, by omega, hle⟩
  have he : cov l.e (add rs r) := ⟨l, hl, hle, by omega⟩
  rw [add_cov rs r h hr] at hb he
  constructor
  · rcases hb with ⟨c, hc, h1, _⟩ | h1
    · have := hin c hc; omega
    · omega
  · rcases he with ⟨c, hc, _, h2⟩ | h2
    · have := hin c hc; omega
    · omega

/-- State reached by any history of commits of in-blob, non-empty regions. -/
def fetched (hist : List Region) : List Region := hist.foldl add []

def ValidHist (N : Nat) (hist : List Region) : Prop := ∀ r ∈ hist, 0 ≤ r.b ∧ r.b ≤ r.e ∧ r.e < N

theorem history_inv (N : Nat) (hist : List Region) (hv : ValidHist N hist) :
    ∀ (rs : List Region), WF rs → InBlob N rs →
      WF (hist.foldl add rs) ∧ InBlob N (hist.foldl add rs) ∧
      ∀ x, cov x (hist.foldl add rs) ↔ cov x rs ∨ ∃ r ∈ hist, r.b ≤ x ∧ x ≤ r.e := by
  induction hist with
  | nil => intro rs h hin; simp [h, hin]
  | cons r hist ih =>
    intro rs h hin
    have hr := hv r (List.mem_cons_self ..)
    have hv' : ValidHist N hist := fun r' h' => hv r' (List.mem_cons_of_mem _ h')
    obtain ⟨h1, h2, h3⟩ := ih hv' (add rs r) (add_wf rs r h hr.2.1)
      (add_inBlob N rs r h hr.2.1 hin ⟨hr.1, hr.2.2⟩)
    refine ⟨h1, h2, ?_⟩
    intro x
    simp only [List.foldl_cons]
    rw [h3 x, add_cov rs r h hr.2.1]
    constructor
    · rintro ((h | h) | ⟨r', hr', h⟩)
      · exact Or.inl h
      · exact Or.inr ⟨r, List.mem_cons_self .., h⟩
      · exact Or.inr ⟨r', List.mem_cons_of_mem _ hr', h⟩
    · rintro (h | ⟨r', hr', h⟩)
      · exact Or.inl (Or.inl h)
      · rcases List.mem_cons.mp hr' with e | e
        · subst e; exact Or.inl (Or.inr h)
        · exact Or.inr ⟨r', e, h⟩

/-- `FetchedSize` equals the number of distinct blob bytes committed by the history. -/
theorem fetchedSize_counts_distinct_bytes (N : Nat) (hist : List Region) (hv : ValidHist N hist) :
    totalSize (fetched hist) = (countCov N (fetched hist) : Int) ∧
    ∀ x, cov x (fetched hist) ↔ ∃ r ∈ hist, r.b ≤ x ∧ x ≤ r.e := by
  obtain ⟨h1, h2, h3⟩ := history_inv N hist hv [] ⟨by simp, by simp⟩ (by intro l hl; simp at hl)
  refine ⟨totalSize_eq_count N _ h1 h2, ?_⟩
  intro x
  unfold fetched
  rw [h3 x]
  have := cov_nil x
  constructor
  · rintro (h | h)
    · exact absurd h this
    · exact h
  · exact Or.inr

/-- `FetchedSize` never exceeds the blob size. -/
theorem fetchedSize_le_size (N : Nat) (hist : List Region) (hv : ValidHist N hist) :
    totalSize (fetched hist) ≤ N := by
  rw [(fetchedSize_counts_distinct_bytes N hist hv).1]
  exact_mod_cast countCov_le N _

/-- `FetchedSize` never decreases, whatever is committed next. -/
theorem fetchedSize_mono (N : Nat) (hist : List Region) (r : Region)
    (hv : ValidHist N (hist ++ [r])) :
    totalSize (fetched hist) ≤ totalSize (fetched (hist ++ [r])) := by
  have hv' : ValidHist N hist := fun r' h' => hv r' (List.mem_append_left _ h')
  rw [(fetchedSize_counts_distinct_bytes N hist hv').1,
      (fetchedSize_counts_distinct_bytes N _ hv).1]
  have := countCov_mono N (fetched hist) (fetched (hist ++ [r])) (by
    intro x hx
    rw [(fetchedSize_counts_distinct_bytes N hist hv').2] at hx
    rw [(fetchedSize_counts_distinct_bytes N _ hv).2]
    obtain ⟨r', hr', h⟩ := hx
    exact ⟨r', List.mem_append_left _ hr', h⟩)
  exact_mod_cast this

-- non-vacuity: a concrete history with overlap, adjacency, containment and out-of-order commits
example : ValidHist 100 [⟨10, 19⟩, ⟨40, 49⟩, ⟨20, 29⟩, ⟨0, 99⟩, ⟨5, 5⟩] := by
  intro r hr; simp at hr; rcases hr with h | h | h | h | h <;> subst h <;> decide
example : fetched [⟨10, 19⟩, ⟨40, 49⟩, ⟨20, 29⟩] = [⟨10, 29⟩, ⟨40, 49⟩] := by decide
example : WF [⟨10, 29⟩, ⟨40, 49⟩] := by decide

end SV.Props.C06
