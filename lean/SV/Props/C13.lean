/-
C13 — Background tasks yield to prioritized work, stay bounded, never self-overlap.

Only property theorems and their non-vacuity examples live here.  All theorems quantify over
`Reachable cap n s`: every state reached from `init cap n` (manager of capacity `cap`, `n`
concurrent `InvokeBackgroundTask` calls) by ANY finite sequence of protocol events, i.e. every
interleaving of any number of prioritized begin/end pairs, delayed decrements, and steps of the
invocations and of their bodies (bodies return whenever they like: `bodyReturns` is just another
event, so "arbitrary duration / arbitrarily late reaction to the cancellation" is covered).

`step` is the code as it is (commit 2a04ad3: `case <-ch: cancel(); <-done; return false`).
`stepBuggy` is the code before that commit; the last section proves that the theorems are false
for it on a concrete trace, which documents what they exclude.
-/
import SV.Lemmas.Task

namespace SV.Props.C13
open SV.Task

/-! ### start only when quiet -/

/-- The start decision is taken only with `prioritizedTasks = 0` (no prioritized task in progress
or inside its silence period); the body it spawns watches the notify channel of the current epoch
and its context is not cancelled. -/
theorem start_only_when_quiet {cap n : Nat} {s s' : State} {i : Nat}
    (_hr : Reachable cap n s) (h : step s (.inv i .decideStart) = some s') :
    s.prio = 0 ∧ ∃ v', s'.invs[i]? = some v' ∧ v'.pc = .running s.epoch ∧ v'.cur = true ∧
      v'.cancelled = false := by
  simp only [step, stepGen] at h
  split at h
  · cases h
  · rename_i v hv
    split at h
    · cases h
    · rename_i sf v' hl
      cases h
      simp only [localStep] at hl
      split at hl
      · rename_i hg
        cases hl
        have hlt : i < s.invs.length := by
          rcases Nat.lt_or_ge i s.invs.length with h | h
          · exact h
          · rw [List.getElem?_eq_none h] at hv; cases hv
        refine ⟨hg.2, ?_⟩
        simp [hlt]
      · cases hl

/-- Whatever the event: if it makes the number of alive bodies of some invocation grow, the event
is that invocation's start decision and it is taken with `prioritizedTasks = 0`. -/
theorem body_started_only_by_quiet_decide {cap n : Nat} {s s' : State} {e : Event} {i : Nat}
    {v v' : Invo} (_hr : Reachable cap n s) (h : step s e = some s')
    (hv : s.invs[i]? = some v) (hv' : s'.invs[i]? = some v') (hgrow : v.aliveN < v'.aliveN) :
    e = .inv i .decideStart ∧ s.prio = 0 := by
  cases e with
  | doPrio => simp [step, stepGen] at h; subst h; simp [hv] at hv'; subst hv'; omega
  | donePrio =>
    simp [step, stepGen] at h; obtain ⟨_, rfl⟩ := h; simp [hv] at hv'; subst hv'; omega
  | silenceElapsed =>
    simp [step, stepGen] at h; obtain ⟨_, rfl⟩ := h; simp [hv] at hv'; subst hv'; omega
  | inv j a =>
    simp only [step, stepGen] at h
    split at h
    · cases h
    · rename_i w hw
      split at h
      · cases h
      · rename_i sf w' hl
        cases h
        by_cases hij : j = i
        · subst hij
          rw [hv] at hw; cases hw
          have hlt : j < s.invs.length := by
            rcases Nat.lt_or_ge j s.invs.length with h | h
            · exact h
            · rw [List.getElem?_eq_none h] at hv; cases hv
          simp [hlt] at hv'
          subst hv'
          rcases localStep_alive hl with h | ⟨h1, h2⟩
          · omega
          · subst h1; exact ⟨rfl, h2⟩
        · simp [List.getElem?_set_ne hij, hv] at hv'
          subst hv'; omega

/-- A body that has been started and not yet been told to stop was started in a quiet moment and
no prioritized task has begun since: while any prioritized task is in progress or in its silence
period, every such body watches an OLD notify channel, i.e. its cancellation is pending. -/
theorem running_while_prio_is_stale {cap n : Nat} {s : State} {i e0 : Nat} {v : Invo}
    (hr : Reachable cap n s) (hv : s.invs[i]? = some v) (hpc : v.pc = .running e0) :
    e0 ≤ s.epoch ∧ (0 < s.prio → e0 < s.epoch) := by
  have hg := hr.wf.2.2 v (List.mem_of_getElem? hv)
  unfold Good at hg
  rw [hpc] at hg
  obtain ⟨_, h1, h2, _⟩ := hg
  refine ⟨h1, fun hp => ?_⟩
  rcases Nat.lt_or_ge e0 s.epoch with h | h
  · exact h
  · have := h2 (by omega); omega

/-! ### cancellation on a prioritized begin -/

/-- If a body is running (started, not yet cancelled, `select` pending) when `DoPrioritizedTask`
happens, then in the state right after it `observeNotify` (the `<-ch` branch with `cancel()`) is
enabled for its invocation, and taking it leaves the invocation WAITING for that body
(`cancelling`) with the body's context cancelled and the set of alive bodies unchanged.
The step stays enabled as long as the invocation has not left `running` (second part). -/
theorem running_bodies_cancelled_on_prio {cap n : Nat} {s s1 : State} {i e0 : Nat} {v : Invo}
    (hr : Reachable cap n s) (hv : s.invs[i]? = some v) (hpc : v.pc = .running e0)
    (hd : step s .doPrio = some s1) :
    (∃ s2 v2, step s1 (.inv i .observeNotify) = some s2 ∧ s2.invs[i]? = some v2 ∧
        v2.pc = .cancelling ∧ v2.cancelled = true ∧ v2.cur = v.cur ∧ v2.orphans = v.orphans) ∧
    (∀ t w, Reachable cap n t → t.invs[i]? = some w → w.pc = .running e0 → s1.epoch ≤ t.epoch →
        (step t (.inv i .observeNotify)).isSome) := by
  have hle := (running_while_prio_is_stale hr hv hpc).1
  simp [step, stepGen] at hd
  subst hd
  have hlt : i < s.invs.length := by
    rcases Nat.lt_or_ge i s.invs.length with h | h
    · exact h
    · rw [List.getElem?_eq_none h] at hv; cases hv
  constructor
  · have he : e0 < s.epoch + 1 := by omega
    refine ⟨{ s with prio := s.prio + 1, epoch := s.epoch + 1,
                     invs := s.invs.set i { v with pc := .cancelling, cancelled := true } },
      { v with pc := .cancelling, cancelled := true }, ?_, ?_, rfl, rfl, rfl, rfl⟩
    · simp [step, stepGen, hv, localStep, hpc, he]
    · simp [hlt]
  · intro t w _ hw hwpc hep
    apply step_inv_isSome hw
    have : e0 < t.epoch := by simp at hep; omega
    simp [localStep, hwpc, this]

/-- While the invocation waits for a cancelled body the body's context IS cancelled, and the
invocation leaves that state only after the body has returned. -/
theorem cancelling_means_ctx_cancelled {cap n : Nat} {s : State} {i : Nat} {v : Invo}
    (hr : Reachable cap n s) (hv : s.invs[i]? = some v) (hpc : v.pc = .cancelling) :
    v.cancelled = true ∧
    ∀ a s', step s (.inv i a) = some s' → v.cur = true → a = .bodyReturns := by
  have hg := hr.wf.2.2 v (List.mem_of_getElem? hv)
  unfold Good at hg
  rw [hpc] at hg
  refine ⟨hg.2, ?_⟩
  intro a s' h hcur
  simp only [step, stepGen, hv] at h
  split at h
  · cases h
  · rename_i sf v' hl
    have ho := hg.1
    obtain ⟨pc, cur, orph, canc⟩ := v
    simp only at hpc hcur ho
    subst hpc; subst hcur; subst ho
    cases a <;> simp [localStep] at hl
    rfl

/-! ### bounds -/

/-- Semaphore accounting: free slots + invocations holding one = capacity. -/
theorem sem_bound {cap n : Nat} {s : State} (hr : Reachable cap n s) :
    s.semFree + holders s = cap ∧ holders s ≤ cap := by
  have := hr.wf.2.1
  rw [hr.cap_eq] at this
  exact ⟨this, by omega⟩

/-- At most `cap` bodies are alive at any time (alive = spawned and `do(ctx)` not yet returned). -/
theorem alive_bodies_bounded {cap n : Nat} {s : State} (hr : Reachable cap n s) :
    aliveTotal s ≤ cap := by
  have := (wf_safe hr.wf).1
  rw [hr.cap_eq] at this
  exact this

/-- Two executions of the same invoked task never overlap: every invocation has at most one
alive body, and no body of an earlier execution survives (`orphans = 0`). -/
theorem no_self_overlap {cap n : Nat} {s : State} (hr : Reachable cap n s) :
    ∀ v ∈ s.invs, v.aliveN ≤ 1 ∧ v.orphans = 0 := by
  intro v hv
  exact ⟨((wf_safe hr.wf).2 v hv).1, (hr.wf.2.2 v hv).1⟩

/-- No body of an invocation is alive once the invocation has returned - nor at any other moment
at which it does not hold a semaphore slot (before the retry, while waiting, ...). -/
theorem none_alive_at_return {cap n : Nat} {s : State} (hr : Reachable cap n s) :
    ∀ v ∈ s.invs, (v.pc = .returned ∨ v.pc = .finished ∨ holds v.pc = false) → v.aliveN = 0 := by
  intro v hv h
  apply ((wf_safe hr.wf).2 v hv).2
  rcases h with h | h | h
  · rw [h]; rfl
  · rw [h]; rfl
  · exact h

/-! ### progress (liveness under fairness) -/

/-- `mu` strictly decreases on every event except `doPrio`. -/
theorem progress_variant {cap n : Nat} {s s' : State} {e : Event} (hr : Reachable cap n s)
    (he : e ≠ .doPrio) (h : step s e = some s') : mu s' < mu s :=
  mu_step hr.wf he h

/-- Until every invocation has returned, some event other than `doPrio` is enabled: either a
prioritized task can end / its silence period can elapse, or an invocation can move, or a body can
return.  (Capacity 0 would block `Acquire` forever, hence `0 < cap`.) -/
theorem progress_no_deadlock {cap n : Nat} {s : State} (hr : Reachable cap n s) (hcap : 0 < cap)
    (hstuck : ∀ e, e ≠ Event.doPrio → step s e = none) : AllReturned s := by
  intro v hv
  apply Classical.byContradiction
  intro hne
  obtain ⟨e, he, hsome⟩ := some_event_enabled hr.wf (by rw [hr.cap_eq]; exact hcap) ⟨v, hv, hne⟩
  rw [hstuck e he] at hsome
  cases hsome

/-- FAIRNESS ASSUMPTION, stated explicitly: (1) from some point on no further `doPrio` occurs
("prioritized work stops"); (2) the execution does not stop while an event other than `doPrio` is
enabled - which includes that started prioritized tasks end (`donePrio`), that the sleeping
decrement goroutine is scheduled (`silenceElapsed`), that `sync.Cond`/semaphore/channel wake-ups
are delivered, and that every body eventually returns (`bodyReturns`).
Under it every invoked task completes: a `doPrio`-free continuation `es` of ANY reachable state has
at most `mu s` events, and when it cannot be continued every invocation has returned. -/
theorem progress {cap n : Nat} {s s' : State} {es : List Event} (hr : Reachable cap n s)
    (hcap : 0 < cap) (hno : Event.doPrio ∉ es) (h : run s es = some s') :
    es.length ≤ mu s ∧ ((∀ e, e ≠ Event.doPrio → step s' e = none) → AllReturned s') := by
  refine ⟨?_, ?_⟩
  · have := mu_run hr.wf hno h; omega
  · obtain ⟨es0, h0⟩ := hr
    exact progress_no_deadlock ⟨es0 ++ es, by rw [run_append h0]; exact h⟩ hcap

/-- ... and such a completing continuation exists from every reachable state. -/
theorem progress_completes {cap n : Nat} (hcap : 0 < cap) :
    ∀ (k : Nat) (s : State), Reachable cap n s → mu s ≤ k →
      ∃ es s', Event.doPrio ∉ es ∧ run s es = some s' ∧ AllReturned s' := by
  intro k
  induction k with
  | zero =>
    intro s hr hk
    refine ⟨[], s, by simp, rfl, ?_⟩
    apply progress_no_deadlock hr hcap
    intro e he
    cases h : step s e with
    | none => rfl
    | some s1 => have := mu_step hr.wf he h; omega
  | succ k ih =>
    intro s hr hk
    by_cases hall : AllReturned s
    · exact ⟨[], s, by simp, rfl, hall⟩
    · have : ∃ e, e ≠ Event.doPrio ∧ (step s e).isSome := by
        apply Classical.byContradiction
        intro hn
        apply hall
        apply progress_no_deadlock hr hcap
        intro e he
        cases h : step s e with
        | none => rfl
        | some s1 => exact absurd ⟨e, he, by simp [h]⟩ hn
      obtain ⟨e, he, hsome⟩ := this
      cases h : step s e with
      | none => simp [h] at hsome
      | some s1 =>
        have hlt := mu_step hr.wf he h
        obtain ⟨es, s', hno, hrun, hall'⟩ := ih s1 (hr.next h) (by omega)
        refine ⟨e :: es, s', ?_, ?_, hall'⟩
        · intro hm
          rcases List.mem_cons.mp hm with hm | hm
          · exact he hm.symm
          · exact hno hm
        · rw [run_cons, h]; exact hrun

/-! ### what the theorems exclude: the protocol before commit 2a04ad3 -/

/-- One invocation on a manager of capacity 1: the body is started, a prioritized task begins,
the manager cancels and (old code) returns `false` WITHOUT waiting for the body; the prioritized
task ends, its silence period elapses, the retry starts a second body while the first still runs. -/
def buggyTrace : List Event :=
  [.inv 0 .passWait, .inv 0 .acquire, .inv 0 .decideStart, .doPrio, .inv 0 .observeNotify,
   .inv 0 .release, .donePrio, .silenceElapsed, .inv 0 .passWait, .inv 0 .acquire,
   .inv 0 .decideStart]

/-- ... the second body finishes, the invocation returns, the first body is still alive. -/
def buggyTraceReturn : List Event :=
  buggyTrace ++ [.inv 0 .bodyReturns, .inv 0 .observeDone, .inv 0 .release, .inv 0 .ret]

/-- For the old protocol `no_self_overlap` and `alive_bodies_bounded` are false:
two bodies of the same invocation alive at once, 2 > capacity 1. -/
theorem buggy_self_overlap_and_over_cap :
    ∃ s, runBuggy (init 1 1) buggyTrace = some s ∧
      (∃ v ∈ s.invs, v.aliveN = 2 ∧ v.orphans = 1) ∧ aliveTotal s = 2 ∧ s.cap = 1 :=
  exists_of_get (by decide) _ (by decide)

/-- For the old protocol `none_alive_at_return` is false. -/
theorem buggy_alive_at_return :
    ∃ s, runBuggy (init 1 1) buggyTraceReturn = some s ∧
      ∃ v ∈ s.invs, v.pc = .returned ∧ v.aliveN = 1 :=
  exists_of_get (by decide) _ (by decide)

/-- The repaired protocol does not admit that schedule: after `observeNotify` the invocation may
not release its slot before the body has returned. -/
theorem fixed_rejects_buggy_trace :
    run (init 1 1) buggyTrace = none ∧
    run (init 1 1) [.inv 0 .passWait, .inv 0 .acquire, .inv 0 .decideStart, .doPrio,
      .inv 0 .observeNotify, .inv 0 .release] = none ∧
    (run (init 1 1) [.inv 0 .passWait, .inv 0 .acquire, .inv 0 .decideStart, .doPrio,
      .inv 0 .observeNotify, .inv 0 .bodyReturns, .inv 0 .observeDoneAfterCancel,
      .inv 0 .release]).isSome = true := by
  decide

/-! ### non-vacuity -/

/-- capacity 2, three invocations: two bodies running, the third invocation blocked on the
semaphore, then a prioritized task begins. -/
def exTrace : List Event :=
  [.inv 0 .passWait, .inv 1 .passWait, .inv 2 .passWait, .inv 0 .acquire, .inv 1 .acquire,
   .inv 0 .decideStart, .inv 1 .decideStart, .doPrio]

example : Reachable 2 3 ((run (init 2 3) exTrace).get (by decide)) := ⟨exTrace, by decide⟩
-- the hypotheses of `running_bodies_cancelled_on_prio` are met with a body really running
example : ∃ s, run (init 2 3) exTrace.dropLast = some s ∧
    s.invs[1]? = some { pc := .running 0, cur := true } ∧ (step s .doPrio).isSome :=
  exists_of_get (by decide) _ (by decide)
-- the third invocation cannot acquire (bound is tight), a start decision is refused while prio > 0
example : ((run (init 2 3) exTrace).bind fun s => step s (.inv 2 .acquire)) = none := by decide
example : (run (init 2 3) (exTrace ++ [.inv 0 .observeNotify, .inv 0 .bodyReturns,
    .inv 0 .observeDoneAfterCancel, .inv 0 .release, .inv 2 .acquire, .inv 2 .decideStart])) = none := by
  decide
example : (run (init 2 3) (exTrace ++ [.inv 0 .observeNotify, .inv 0 .bodyReturns,
    .inv 0 .observeDoneAfterCancel, .inv 0 .release, .inv 2 .acquire, .inv 2 .decideBackoff,
    .inv 2 .release, .donePrio, .silenceElapsed, .inv 2 .passWait])).isSome = true := by decide
-- a complete run: every invocation returns
example : ∃ s, run (init 1 2) [.inv 0 .passWait, .inv 0 .acquire, .inv 0 .decideStart,
    .inv 1 .passWait, .inv 0 .bodyReturns, .inv 0 .observeDone, .inv 0 .release, .inv 0 .ret,
    .inv 1 .acquire, .inv 1 .decideStart, .inv 1 .bodyReturns, .inv 1 .observeDone,
    .inv 1 .release, .inv 1 .ret] = some s ∧ AllReturned s ∧ mu s = 0 :=
  exists_of_get (by decide) _ (by decide)
example : mu (init 2 3) = 24 := by decide

end SV.Props.C13
