/-
C02 end to end - the composition theorem.

Three models were proved separately and met only through hypotheses:
  (i)   C03 `SV.Writer`   : every chunk entry of a built blob, read by the documented rule, yields
                            exactly its range of the file (`index_consistent`, `chunks_tile_file`);
  (ii)  C06 `SV.Blob`     : with an honest server `ReadAt(o,n)` on the remote blob returns exactly
                            `blob[o, min(o+n,size))` after any history (`readAt_exact`, ...);
  (iii) C02 `SV.LazyRead` : `file.ReadAt` returns exactly `content[off .. min(off+n,size))` after any
                            history PROVIDED `Under` is `Honest` and the chunk tables are `WF`.

Here (iii)'s hypotheses are DISCHARGED from (i) and (ii) for the concrete `Under` of
`SV/Model/E2E.lean` (TOC lookup -> `Blob.readAt` of the member range -> decompress -> skip/take).
What remains as hypotheses, each explicit and instantiated below:
  * `CodecInverse`  - on the members the Writer emitted, `enc` yields `clen` bytes and `dec` inverts it;
  * `UniqueRegNames`- no two regular files of the input share a name (what `importTar` establishes;
                      the same hypothesis as C03's `index_consistent_by_name`);
  * honesty of the server (`Remote.Honest`: it may fail or send short bodies, never wrong bytes);
  * `0 < chunk` sizes (`Writer.chunkSize()` is always > 0: `effChunk_pos`).
Vocabulary (`Built`, `Remote`, `Op`, `Op.lower`, `content`, `fileInfo`, `HonestServer`):
SV/Lemmas/E2E.lean and SV/Model/E2E.lean.
-/
import SV.Lemmas.E2E
import SV.Lemmas.E2ESucc
import SV.Props.C02
import SV.Props.C03
import SV.Props.C06b

namespace SV.Props.C02e2e
open SV.E2E
open SV.Writer (TarEnt TocEnt Member Fmt Params build writerRun callEnts keep UniqueRegNames)
open SV.LazyRead (Env Variant ChunkId Cache Outcome slice)

/-! ## (0) C03's theorems give `Built` -/

/-- `Build`: for every format, chunk size, min-chunk-size, worker count, entry list, TOC encoding
and compressor oracle, the built blob satisfies everything the composition needs. -/
theorem built_of_build (F : Fmt) (chunk minChunk workers : Nat) (ents : List TarEnt)
    (tocTar : List TocEnt → Writer.Bytes) (orcF orcC : List Nat) (a : Nat) (b : Writer.Blob)
    (hc : 0 < chunk) (hu : UniqueRegNames ents)
    (h : build F chunk minChunk workers ents tocTar orcF orcC a = some b) :
    Built ents b.members b.toc :=
  have hi := C03.index_consistent F chunk minChunk workers ents tocTar orcF orcC a b hc h
  ⟨hi.1, hi.2, C03.chunks_tile_file F chunk minChunk workers ents tocTar orcF orcC a b hc h, hu⟩

/-- Writer runs: any number of `AppendTar`/`AppendTarLossLess` calls, any `MinChunkSize`. -/
theorem built_of_writerRun (P : Params) (F : Fmt) (calls : List (List TarEnt × Writer.Bytes))
    (tocTar : List TocEnt → Writer.Bytes) (orcF orcC : List Nat) (a : Nat) (b : Writer.Blob)
    (hc : 0 < P.chunk) (hu : UniqueRegNames (callEnts calls))
    (h : writerRun P F calls tocTar orcF orcC a = some b) :
    Built (callEnts calls) b.members b.toc :=
  have hi := C03.writer_index_consistent P F calls tocTar orcF orcC a b hc h
  ⟨hi.1, hi.2, C03.writer_chunks_tile_file P F calls tocTar orcF orcC a b hc h, hu⟩

/-! ## (1) the concrete `Under` is honest, the derived chunk tables are well formed -/

/-- For a built layer (any entry list / chunk size / min-chunk-size / compressor oracle: `Built`),
any codec inverse on the emitted members, any blob-chunk size > 0, any remote cache history and any
honest server behaviour (`R`): the concrete `Under` satisfies LazyRead's `Honest` for EVERY
verification function and co-chunk map (`E`) - in fact every chunk it delivers is the genuine one -
and the file description derived from the Writer's TOC satisfies `WF` (`Contig 0`, cover, size)
for every file id and both metadata-store variants. -/
theorem under_of_built_blob_honest (ents : List TarEnt) (L : Layer)
    (hb : Built ents L.members L.toc) (hcodec : CodecInverse L.codec L.members)
    (hc : 0 < L.blobChunk) (E : Env) (R : Remote) (hR : R.Honest L.bytes) :
    LazyRead.Honest (content ents) E (underOf L (R.env L)) ∧
    (∀ id b, underOf L (R.env L) id = some b → b = LazyRead.trueChunk (content ents) id) ∧
    (∀ v j, LazyRead.WF (content ents) (fileInfo v L.toc j)) ∧
    (∀ v j, LazyRead.Contig 0 (fileInfo v L.toc j).table) :=
  ⟨underOf_honest hb hcodec hc E R hR, fun id b => underOf_exact hb hcodec hc R hR id b,
   fun v j => wf_file hb v j, fun v j => (wf_file hb v j).contig⟩

/-- `content ents j` is the payload of the `j`-th kept tar entry when that is a regular file. -/
theorem content_of_regular (ents : List TarEnt) (j : Nat) (e : TarEnt)
    (he : (keep ents)[j]? = some e) (hreg : e.typ = .reg) : content ents j = e.data := by
  simp [content_eq, he, hreg]

/-! ## (2) end-to-end byte exactness -/

/-- **End-to-end.** Layer built by the Writer model from `ents`; start from empty caches; run ANY
history `ops` of reads, prefetch-stores (single chunks or whole `cacheWithReader` walks), evictions
and truncations of the uncompressed chunk cache, every fetch of which met the remote blob cache after
ANY history of its own (blob reads, `Cache` calls, entry loss, entry truncation) and any honest
server reply.  Then a lazy read `ReadAt(off, n)` of file `j` that succeeds returns exactly
`content(j)[off .. min(off+n, size))`; it is short only at EOF and never wrong.  (With
`content_of_regular`: the bytes of the regular file of the input tar.) -/
theorem e2e_read_exact (ents : List TarEnt) (L : Layer) (hb : Built ents L.members L.toc)
    (hcodec : CodecInverse L.codec L.members) (hc : 0 < L.blobChunk) (E : Env)
    (ops : List Op) (hops : ∀ op ∈ ops, op.Honest L.bytes)
    (j : Nat) (v : Variant) (off n : Nat) (R : Remote) (hR : R.Honest L.bytes) (b : E2E.Bytes) :
    (LazyRead.step E (LazyRead.runOps E (ops.map (Op.lower L)) Cache.empty)
        ((Op.read j v off n R).lower L)).2 = .ok b →
      b = slice (content ents j) off n ∧ b.length = min n ((content ents j).length - off) := by
  intro h
  have hops' : ∀ op ∈ ops.map (Op.lower L), LazyRead.OpOK (content ents) E op := by
    intro op hop
    obtain ⟨o, ho, rfl⟩ := List.mem_map.mp hop
    exact lower_ok hb hcodec hc E o (hops o ho)
  exact C02.read_exact_any_history (content ents) E _ hops' (fileInfo v L.toc j) (wf_file hb v j)
    _ (underOf_honest hb hcodec hc E R hR) off n b h

/-- The same with the Writer run spelled out: for ALL `AppendTar` call lists, chunk sizes,
min-chunk-sizes, formats, TOC encodings and compressor oracle streams. -/
theorem e2e_read_exact_writerRun (P : Params) (F : Fmt) (calls : List (List TarEnt × Writer.Bytes))
    (tocTar : List TocEnt → Writer.Bytes) (orcF orcC : List Nat) (a : Nat) (bl : Writer.Blob)
    (hcw : 0 < P.chunk) (hu : UniqueRegNames (callEnts calls))
    (hrun : writerRun P F calls tocTar orcF orcC a = some bl)
    (C : Codec) (footer : E2E.Bytes) (blobChunk : Nat) (hcodec : CodecInverse C bl.members)
    (hc : 0 < blobChunk) (E : Env) (ops : List Op)
    (hops : ∀ op ∈ ops, op.Honest (layerOf C bl footer blobChunk).bytes)
    (j : Nat) (v : Variant) (off n : Nat) (R : Remote)
    (hR : R.Honest (layerOf C bl footer blobChunk).bytes) (b : E2E.Bytes) :
    (LazyRead.step E (LazyRead.runOps E (ops.map (Op.lower (layerOf C bl footer blobChunk))) Cache.empty)
        ((Op.read j v off n R).lower (layerOf C bl footer blobChunk))).2 = .ok b →
      b = slice (content (callEnts calls) j) off n :=
  fun h => (e2e_read_exact (callEnts calls) (layerOf C bl footer blobChunk)
    (built_of_writerRun P F calls tocTar orcF orcC a bl hcw hu hrun) hcodec hc E ops hops
    j v off n R hR b h).1

/-- ... and with `Build` spelled out (any worker count). -/
theorem e2e_read_exact_build (F : Fmt) (chunk minChunk workers : Nat) (ents : List TarEnt)
    (tocTar : List TocEnt → Writer.Bytes) (orcF orcC : List Nat) (a : Nat) (bl : Writer.Blob)
    (hcw : 0 < chunk) (hu : UniqueRegNames ents)
    (hrun : build F chunk minChunk workers ents tocTar orcF orcC a = some bl)
    (C : Codec) (footer : E2E.Bytes) (blobChunk : Nat) (hcodec : CodecInverse C bl.members)
    (hc : 0 < blobChunk) (E : Env) (ops : List Op)
    (hops : ∀ op ∈ ops, op.Honest (layerOf C bl footer blobChunk).bytes)
    (j : Nat) (v : Variant) (off n : Nat) (R : Remote)
    (hR : R.Honest (layerOf C bl footer blobChunk).bytes) (b : E2E.Bytes) :
    (LazyRead.step E (LazyRead.runOps E (ops.map (Op.lower (layerOf C bl footer blobChunk))) Cache.empty)
        ((Op.read j v off n R).lower (layerOf C bl footer blobChunk))).2 = .ok b →
      b = slice (content ents j) off n :=
  fun h => (e2e_read_exact ents (layerOf C bl footer blobChunk)
    (built_of_build F chunk minChunk workers ents tocTar orcF orcC a bl hcw hu hrun) hcodec hc E ops
    hops j v off n R hR b h).1

/-- The composed read loop terminates whatever the layer, the caches and the remote side do. -/
theorem e2e_read_terminates (L : Layer) (E : Env) (ops : List Op) (j : Nat) (v : Variant)
    (off n : Nat) (R : Remote) :
    (LazyRead.step E (LazyRead.runOps E (ops.map (Op.lower L)) Cache.empty)
        ((Op.read j v off n R).lower L)).2 ≠ .diverge :=
  C02.read_terminates E _ _ _ off n

/-! ## (2b) with an honest server the fetches succeed -/

/-- The remote side of an operation whose every chunk fetch is answered by a server that sends
exactly the requested ranges (`Blob.honestAnswer` of `Blob.requestRanges`, multi- or single-range). -/
def HonestServer (L : Layer) (single : Bool) (R : Remote) : Prop :=
  (∀ id, ∀ op ∈ R.hist id, op.Honest L.bytes) ∧
  ∀ id, R.reply id = honestReplyFor L (Blob.runOps L.params {} (R.hist id)) single id

/-- FULL statement - proved as `e2e_read_succeeds` / `e2e_read_total_correct` below: with an honest
server and an environment that accepts genuine chunks and pre-reads nothing, every lazy read - any
file id, any offset (at or after EOF included), any length (0 included), after any history at both
cache levels - succeeds with exactly `content(j)[off, min(off+n,size))`.  No error branch of the
model can be taken under these hypotheses, so none is excepted. -/
def E2EReadSucceeds : Prop :=
  ∀ (ents : List TarEnt) (L : Layer), Built ents L.members L.toc → CodecInverse L.codec L.members →
    0 < L.blobChunk → ∀ (E : Env),
    (∀ id, E.verify id (LazyRead.trueChunk (content ents) id) = true) → (∀ id, E.co id = some []) →
    ∀ (ops : List Op), (∀ op ∈ ops, op.Honest L.bytes) →
    ∀ (j : Nat) (v : Variant) (off n : Nat) (single : Bool) (R : Remote), HonestServer L single R →
      (LazyRead.step E (LazyRead.runOps E (ops.map (Op.lower L)) Cache.empty)
        ((Op.read j v off n R).lower L)).2 = .ok (slice (content ents j) off n)

/-- Chunk level (the step used by `e2e_read_succeeds`; name kept from the session in which the full
statement was still open): against an honest server, after ANY history of
the remote blob cache (truncated and lost entries included), the composed `Under` DELIVERS the
genuine chunk, of the recorded length, for every chunk of every file, and `fetchChunk`
(`sf.fr.ReadAt` + `verifyAndCache`, the miss path of `file.ReadAt`) succeeds on it from every
cache.  The induction over the rounds of the `file.ReadAt` loop is `LazyRead.readLoop_succeeds`
(SV/Lemmas/E2ESucc.lean). -/
theorem e2e_chunk_fetch_succeeds_partial (ents : List TarEnt) (L : Layer)
    (hb : Built ents L.members L.toc) (hcodec : CodecInverse L.codec L.members)
    (hc : 0 < L.blobChunk) (E : Env)
    (hv : ∀ id, E.verify id (LazyRead.trueChunk (content ents) id) = true)
    (hco : ∀ id, E.co id = some []) (single : Bool) (R : Remote) (hR : HonestServer L single R)
    (v : Variant) (j : Nat) (ch : LazyRead.Chunk) (hch : ch ∈ (fileInfo v L.toc j).table)
    (c : Cache) :
    underOf L (R.env L) ⟨j, ch.off, ch.size⟩ =
        some (LazyRead.trueChunk (content ents) ⟨j, ch.off, ch.size⟩) ∧
    (LazyRead.trueChunk (content ents) ⟨j, ch.off, ch.size⟩).length = ch.size ∧
    (LazyRead.fetchChunk E (underOf L (R.env L)) c ⟨j, ch.off, ch.size⟩).2 =
        some (LazyRead.trueChunk (content ents) ⟨j, ch.off, ch.size⟩) := by
  obtain ⟨h1, _, _⟩ := Blob.runOps_specQ L.params L.bytes _ (Blob.goodQ_prefix _ _) hc rfl
    (R.hist ⟨j, ch.off, ch.size⟩) {} (Blob.invQ_init _ _) (hR.1 _)
    (Or.inr (Blob.truncClosed_prefix _ _))
  have hu : underOf L (R.env L) ⟨j, ch.off, ch.size⟩ =
      some (LazyRead.trueChunk (content ents) ⟨j, ch.off, ch.size⟩) := by
    simp only [underOf, Remote.env, hR.2]
    exact under_honest_delivers hb hcodec hc _ h1 single j ch hch
  have hl := LazyRead.trueChunk_length (wf_file hb v j) ch hch
  refine ⟨hu, hl, ?_⟩
  simp only [LazyRead.fetchChunk, hco, LazyRead.preStore, hu]
  rw [if_pos ⟨hl, hv _⟩]

/-- An honest server is in particular a server that never sends wrong bytes. -/
theorem honestServer_honest (L : Layer) (single : Bool) (R : Remote) (hR : HonestServer L single R) :
    R.Honest L.bytes :=
  fun id => ⟨hR.1 id, by rw [hR.2 id]; exact honestReplyFor_honest L _ single id⟩

/-- **No error branch.** With an honest server (answering exactly the requested ranges, after ANY
history of the remote blob cache, truncated/lost entries included), an environment that accepts
genuine chunks and pre-reads nothing, from the cache left by ANY history at the FUSE side (`ops` is
not even required to be honest here): the lazy read of any file id, offset and length ends `.ok`. -/
theorem e2e_read_succeeds (ents : List TarEnt) (L : Layer) (hb : Built ents L.members L.toc)
    (hcodec : CodecInverse L.codec L.members) (hc : 0 < L.blobChunk) (E : Env)
    (hv : ∀ id, E.verify id (LazyRead.trueChunk (content ents) id) = true)
    (hco : ∀ id, E.co id = some []) (ops : List Op)
    (j : Nat) (v : Variant) (off n : Nat) (single : Bool) (R : Remote) (hR : HonestServer L single R) :
    ∃ b, (LazyRead.step E (LazyRead.runOps E (ops.map (Op.lower L)) Cache.empty)
        ((Op.read j v off n R).lower L)).2 = .ok b := by
  have hd : LazyRead.Delivers (content ents) E (underOf L (R.env L)) (fileInfo v L.toc j) :=
    LazyRead.delivers_of_under (wf_file hb v j) hco hv (fun ch hch =>
      (e2e_chunk_fetch_succeeds_partial ents L hb hcodec hc E hv hco single R hR v j ch hch
        Cache.empty).1)
  exact LazyRead.fileReadAt_succeeds (wf_file hb v j) hd _ off n

/-- **Total correctness** (`E2EReadSucceeds`): with an honest server the read returns `.ok` of exactly
`content(j)[off, min(off+n, size))`. -/
theorem e2e_read_total_correct : E2EReadSucceeds := by
  intro ents L hb hcodec hc E hv hco ops hops j v off n single R hR
  obtain ⟨b, h⟩ := e2e_read_succeeds ents L hb hcodec hc E hv hco ops j v off n single R hR
  rw [h, (e2e_read_exact ents L hb hcodec hc E ops hops j v off n R
    (honestServer_honest L single R hR) b h).1]

/-! ## (2c) the remote state threaded through the fetches of one operation -/

/-- **Threaded variant.** The lazy read starts with the remote blob cache in the state left by any
honest remote history `h0`; its chunk fetches happen in some order `order` (ANY list of chunk ids:
in particular the order of the rounds of `file.ReadAt`), and each fetch meets the remote cache in
the state the PREVIOUS fetches of the same operation left (`threadState`, computed with the state
`underSt` returns), with its own honest reply.  A successful read still returns exactly
`content(j)[off, min(off+n,size))`.  (Per operation `Under` is a function of the chunk id - LazyRead's
model - so a chunk fetched twice within one operation meets the state of its first fetch.) -/
theorem e2e_read_exact_threaded (ents : List TarEnt) (L : Layer) (hb : Built ents L.members L.toc)
    (hcodec : CodecInverse L.codec L.members) (hc : 0 < L.blobChunk) (E : Env)
    (ops : List Op) (hops : ∀ op ∈ ops, op.Honest L.bytes)
    (j : Nat) (v : Variant) (off n : Nat)
    (h0 : List Blob.Op) (hh0 : ∀ op ∈ h0, op.Honest L.bytes) (order : List ChunkId)
    (rs : ChunkId → Blob.Reply) (hrs : ∀ id, Blob.HonestReply L.bytes (rs id)) (b : E2E.Bytes) :
    (LazyRead.fileReadAt E
        (fun id => under L (threadState L rs (Blob.runOps L.params {} h0) order id) (rs id) id)
        (fileInfo v L.toc j) (LazyRead.runOps E (ops.map (Op.lower L)) Cache.empty) off n).2 = .ok b →
      b = slice (content ents j) off n ∧ b.length = min n ((content ents j).length - off) := by
  intro h
  have hu : (fun id => under L (threadState L rs (Blob.runOps L.params {} h0) order id) (rs id) id) =
      underOf L ((Remote.threaded L h0 order rs).env L) := by
    funext id
    simp only [underOf, Remote.env, Remote.threaded, threadState_eq]
  rw [hu] at h
  exact e2e_read_exact ents L hb hcodec hc E ops hops j v off n (Remote.threaded L h0 order rs)
    (threaded_honest L h0 order rs hh0 hrs) b h

/-! ## (3) the property text: order independence, idempotence -/

/-- **Order independence.** Two arbitrary honest access histories (different orders, different
cache contents at both levels, different server behaviour): reads of the same range of the same
file that succeed return the same bytes. -/
theorem e2e_order_independent (ents : List TarEnt) (L : Layer) (hb : Built ents L.members L.toc)
    (hcodec : CodecInverse L.codec L.members) (hc : 0 < L.blobChunk) (E E' : Env)
    (ops ops' : List Op) (hops : ∀ op ∈ ops, op.Honest L.bytes)
    (hops' : ∀ op ∈ ops', op.Honest L.bytes)
    (j : Nat) (v v' : Variant) (off n : Nat) (R R' : Remote) (hR : R.Honest L.bytes)
    (hR' : R'.Honest L.bytes) (b b' : E2E.Bytes)
    (h : (LazyRead.step E (LazyRead.runOps E (ops.map (Op.lower L)) Cache.empty)
        ((Op.read j v off n R).lower L)).2 = .ok b)
    (h' : (LazyRead.step E' (LazyRead.runOps E' (ops'.map (Op.lower L)) Cache.empty)
        ((Op.read j v' off n R').lower L)).2 = .ok b') : b = b' := by
  rw [(e2e_read_exact ents L hb hcodec hc E ops hops j v off n R hR b h).1,
    (e2e_read_exact ents L hb hcodec hc E' ops' hops' j v' off n R' hR' b' h').1]

/-- **Idempotence of re-reads.** Reading the same range again - right after the first read, or
after any further honest history `more` - returns the same bytes (whatever the first read left in
the caches and whatever the remote side does meanwhile). -/
theorem e2e_reread_idempotent (ents : List TarEnt) (L : Layer) (hb : Built ents L.members L.toc)
    (hcodec : CodecInverse L.codec L.members) (hc : 0 < L.blobChunk) (E : Env)
    (ops more : List Op) (hops : ∀ op ∈ ops, op.Honest L.bytes)
    (hmore : ∀ op ∈ more, op.Honest L.bytes)
    (j : Nat) (v : Variant) (off n : Nat) (R R' : Remote) (hR : R.Honest L.bytes)
    (hR' : R'.Honest L.bytes) (b b' : E2E.Bytes)
    (h : (LazyRead.step E (LazyRead.runOps E (ops.map (Op.lower L)) Cache.empty)
        ((Op.read j v off n R).lower L)).2 = .ok b)
    (h' : (LazyRead.step E
        (LazyRead.runOps E ((ops ++ Op.read j v off n R :: more).map (Op.lower L)) Cache.empty)
        ((Op.read j v off n R').lower L)).2 = .ok b') : b = b' := by
  refine e2e_order_independent ents L hb hcodec hc E E ops (ops ++ Op.read j v off n R :: more)
    hops ?_ j v v off n R R' hR hR' b b' h h'
  intro op hop
  rcases List.mem_append.mp hop with hop | hop
  · exact hops op hop
  · rcases List.mem_cons.mp hop with rfl | hop
    · exact hR
    · exact hmore op hop

/-! ## Non-vacuity and executable sanity -/

/-- A codec for examples: a member is "compressed" to its index in the member table followed by
padding up to `clen` bytes; decompression looks the index up. -/
def dictCodec (ms : List Member) : Codec :=
  { enc := fun m => UInt8.ofNat (ms.idxOf m) :: List.replicate (m.clen - 1) 0
    dec := fun bs => match bs with
      | i :: _ => (ms[i.toNat]?).map (·.payload)
      | [] => none }

/-- Two regular files (5 and 2 bytes) and a directory; chunk size 3: three chunks. -/
def exEnts : List TarEnt :=
  [⟨"d/", .dir, false, [9], [], []⟩, ⟨"d/a", .reg, false, [8], [1, 2, 3, 4, 5], [0, 0, 0]⟩,
   ⟨"d/b", .reg, false, [7], [6, 7], [0]⟩]

def exBlob : Writer.Blob :=
  (writerRun ⟨3, 0, [], false⟩ .gzip [(exEnts, [])] (fun _ => [42]) [2, 0, 1] [3, 1] 6).getD default

def exL : Layer := layerOf (dictCodec exBlob.members) exBlob [0xEE, 0xEE, 0xEE] 4

def exE : Env := { verify := fun _ _ => true, co := fun _ => some [] }

/-- a server that always sends the whole blob as one part -/
def exWhole : Blob.Reply := .parts [⟨0, exL.bytes.length - 1, exL.bytes⟩]

/-- remote side: before each chunk fetch the blob cache saw a read, lost an entry and had one
truncated; the fetch itself is answered with the whole blob -/
def exR : Remote :=
  { hist := fun _ => [.read 3 6 exWhole, .drop ⟨4, 7⟩, .trunc ⟨0, 3⟩ 2], reply := fun _ => exWhole }

example : (writerRun ⟨3, 0, [], false⟩ .gzip [(exEnts, [])] (fun _ => [42]) [2, 0, 1] [3, 1] 6).isSome
    = true := by decide
example : exBlob.toc.map (fun x => (x.typ, x.offset, x.innerOffset, x.chunkOffset, x.chunkSize)) =
    [(.dir, 0, 0, 0, 0), (.reg, 6, 0, 0, 3), (.chunk, 8, 0, 3, 0), (.reg, 10, 0, 0, 0)] := by decide
example : groupsOf exBlob.toc = [exBlob.toc.take 1, (exBlob.toc.drop 1).take 2, exBlob.toc.drop 3] := by
  decide
example : (fileInfo .mem exL.toc 1).table = [⟨0, 3⟩, ⟨3, 2⟩] ∧ (fileInfo .mem exL.toc 2).table = [⟨0, 2⟩] ∧
    (fileInfo .mem exL.toc 0).table = [] := by decide

/-- the hypotheses of the theorems are met by the example -/
example : UniqueRegNames exEnts := by
  intro a ha b hb
  simp only [exEnts, List.mem_cons, List.mem_nil_iff, or_false] at ha hb
  rcases ha with rfl | rfl | rfl <;> rcases hb with rfl | rfl | rfl <;> simp
example : CodecInverse exL.codec exL.members := ⟨by decide, by decide⟩
example : exR.Honest exL.bytes := fun _ =>
  ⟨show ∀ op ∈ [Blob.Op.read 3 6 exWhole, .drop ⟨4, 7⟩, .trunc ⟨0, 3⟩ 2], op.Honest exL.bytes by decide,
   show Blob.HonestReply exL.bytes exWhole by decide⟩
example : Built exEnts exL.members exL.toc :=
  built_of_writerRun ⟨3, 0, [], false⟩ .gzip [(exEnts, [])] (fun _ => [42]) [2, 0, 1] [3, 1] 6 exBlob
    (by decide) (by
      intro a ha b hb
      simp only [callEnts, exEnts, List.append_nil, List.mem_cons, List.mem_nil_iff, or_false] at ha hb
      rcases ha with rfl | rfl | rfl <;> rcases hb with rfl | rfl | rfl <;> simp) rfl

/-- an honest-server remote side exists for every layer (here: no prior remote history) -/
example (L : Layer) (single : Bool) : HonestServer L single
    { hist := fun _ => [], reply := fun id => honestReplyFor L {} single id } :=
  ⟨fun _ _ h => by simp at h, fun _ => rfl⟩

/-- the composed executable read returns the expected bytes: across both chunks of `d/a`, short at
EOF; the single chunk of `d/b`; after a history that evicts and truncates at both levels -/
example : (LazyRead.step exE Cache.empty ((Op.read 1 .mem 1 10 exR).lower exL)).2 = .ok [2, 3, 4, 5] := by
  decide
example : (LazyRead.step exE Cache.empty ((Op.read 2 .db 0 2 exR).lower exL)).2 = .ok [6, 7] := by decide
example : (LazyRead.step exE
    (LazyRead.runOps exE ([Op.read 1 .mem 0 2 exR, .truncate ⟨1, 0, 3⟩ 1, .evict ⟨1, 3, 2⟩,
      .cacheFiles (fun _ => true) [(2, .mem)] exR].map (Op.lower exL)) Cache.empty)
    ((Op.read 1 .db 0 5 exR).lower exL)).2 = .ok [1, 2, 3, 4, 5] := by decide
/-- a failing registry gives an error, not bytes -/
example : (LazyRead.step exE Cache.empty
    ((Op.read 1 .mem 0 5 { hist := fun _ => [], reply := fun _ => .fail }).lower exL)).2 = .err := by
  decide

/-- honest server, no prior remote history; edge cases of `e2e_read_succeeds`: none is an error -/
def exHS : Remote := { hist := fun _ => [], reply := fun id => honestReplyFor exL {} false id }
def exHS1 : Remote :=
  { hist := fun _ => [.read 3 6 exWhole, .trunc ⟨4, 7⟩ 1],
    reply := fun id => honestReplyFor exL
      (Blob.runOps exL.params {} [.read 3 6 exWhole, .trunc ⟨4, 7⟩ 1]) true id }
example : HonestServer exL true exHS1 :=
  ⟨fun _ => show ∀ op ∈ [Blob.Op.read 3 6 exWhole, .trunc ⟨4, 7⟩ 1], op.Honest exL.bytes by decide,
   fun _ => rfl⟩
example : (LazyRead.step exE Cache.empty ((Op.read 1 .mem 1 10 exHS).lower exL)).2 = .ok [2, 3, 4, 5] := by
  decide
example : (LazyRead.step exE Cache.empty ((Op.read 1 .db 2 2 exHS1).lower exL)).2 = .ok [3, 4] := by decide
-- offset at EOF, after EOF, zero-length read, a directory (no data), a file id that does not exist
example : (LazyRead.step exE Cache.empty ((Op.read 1 .mem 5 3 exHS).lower exL)).2 = .ok [] := by decide
example : (LazyRead.step exE Cache.empty ((Op.read 1 .db 9 3 exHS).lower exL)).2 = .ok [] := by decide
example : (LazyRead.step exE Cache.empty ((Op.read 2 .mem 1 0 exHS).lower exL)).2 = .ok [] := by decide
example : (LazyRead.step exE Cache.empty ((Op.read 0 .mem 0 4 exHS).lower exL)).2 = .ok [] := by decide
example : (LazyRead.step exE Cache.empty ((Op.read 7 .db 0 4 exHS).lower exL)).2 = .ok [] := by decide

/-- threaded: the second chunk of `d/a` is fetched from the remote cache the first fetch left -/
example : (LazyRead.fileReadAt exE
    (fun id => under exL (threadState exL (fun _ => exWhole) (Blob.runOps exL.params {} [.cache 0 4 .fail])
      [⟨1, 0, 3⟩, ⟨1, 3, 2⟩] id) exWhole id)
    (fileInfo .mem exL.toc 1) Cache.empty 0 5).2 = .ok [1, 2, 3, 4, 5] := by decide
example : (threadState exL (fun _ => exWhole) {} [⟨1, 0, 3⟩, ⟨1, 3, 2⟩] ⟨1, 3, 2⟩).cache.length = 6 ∧
    (threadState exL (fun _ => exWhole) {} [⟨1, 0, 3⟩, ⟨1, 3, 2⟩] ⟨1, 0, 3⟩).cache.length = 0 := by decide

end SV.Props.C02e2e
