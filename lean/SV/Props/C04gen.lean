/-
C04 — regenerated tie.  `SV/Gen/Arith.lean` is produced from the CURRENT Go sources by
`tools/go2lean` on every run.  The theorems state that the translated guards are exactly the ones
the hand-written C04 model uses, so weakening `chunkContains` (fs/reader) or one of the `positive`
helpers in the Go code breaks a proof obligation here.
-/
import SV.Gen.Arith
import SV.Model.Hostile

namespace SV.Props.C04gen
open SV

/-- The Go guard `chunkContains` (fs/reader/reader.go) is the model's guard. -/
theorem reader_chunkContains_eq (co cs pos : Int) :
    Gen.reader_chunkContains co cs pos = Hostile.chunkContains co cs pos := by
  unfold Gen.reader_chunkContains Hostile.chunkContains
  by_cases h1 : cs > 0 <;> by_cases h2 : co ≥ 0 <;> by_cases h3 : cs ≤ 9223372036854775807 - co <;>
    by_cases h4 : co ≤ pos <;> by_cases h5 : pos - co < cs <;> simp [h1, h2, h3, h4, h5]

/-- What the guard guarantees: the chunk is a non-empty, overflow-free range containing `pos`. -/
theorem reader_chunkContains_spec (co cs pos : Int) :
    Gen.reader_chunkContains co cs pos = true ↔
      (0 < cs ∧ 0 ≤ co ∧ co + cs ≤ 9223372036854775807 ∧ co ≤ pos ∧ pos < co + cs) := by
  unfold Gen.reader_chunkContains
  simp only [Bool.and_eq_true, decide_eq_true_eq]
  constructor
  · rintro ⟨⟨⟨⟨h1, h2⟩, h3⟩, h4⟩, h5⟩; omega
  · rintro ⟨h1, h2, h3, h4, h5⟩; refine ⟨⟨⟨⟨?_, ?_⟩, ?_⟩, ?_⟩, ?_⟩ <;> omega

/-- All four `positive` helpers of the repository are the model's `positive`. -/
theorem positive_helpers_eq (n : Int) :
    Gen.reader_positive n = Hostile.positive n ∧ Gen.estargz_positive n = Hostile.positive n ∧
    Gen.db_positive n = Hostile.positive n ∧ Gen.remote_positive n = Hostile.positive n := by
  unfold Gen.reader_positive Gen.estargz_positive Gen.db_positive Gen.remote_positive Hostile.positive
  by_cases h : n < 0 <;> simp [h]

example : Gen.reader_chunkContains 4 4 5 = true ∧ Gen.reader_chunkContains (-9223372036854775798) 100 0 = false := by
  decide

end SV.Props.C04gen
