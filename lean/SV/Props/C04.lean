/-
C04 — Untrusted layer bytes and registry replies cause errors, never a crash or a hang.

Theorems over the model of the attacker-facing arithmetic (SV.Model.Hostile), which mirrors the
Go code as it is NOW.  `Outcome.panic` is what the Go runtime would do (slice bounds, index, negative
`make`, allocation beyond the bound); the theorems say it is never the answer.

Where the full statement does not hold for the current code the theorem is named `…_partial`, the
full statement is kept as a `def … : Prop`, and its negation is proved on a concrete witness
(`…_full_fails`); every such witness is replayed on the real code by the harness (suspects stream).
-/
import SV.Lemmas.Hostile

namespace SV.Props.C04
open SV.Hostile

/-! ## Footers -/

/-- No footer parser panics, whatever the bytes are: for every length, every result of the gzip
header parse (`none`, or any FEXTRA payload) and every byte string handed to the zstd parser. -/
theorem footer_total (len : Nat) (hdr : Option (List UInt8)) (p : List UInt8) :
    gzipFooter len hdr ≠ Outcome.panic ∧ legacyFooter len hdr ≠ Outcome.panic ∧
      extFooter len hdr ≠ Outcome.panic ∧ zstdFooter p ≠ Outcome.panic :=
  ⟨gzipFooter_no_panic len hdr, legacyFooter_no_panic len hdr, extFooter_no_panic len hdr,
    zstdFooter_no_panic p⟩

/-- A gzip-based footer that is accepted names a TOC inside the blob's coordinate system: its offset is
never negative, so `Open` never takes the "external TOC" branch (`ParseTOC(nil)`) for the two
built-in gzip decompressors (commit 18babb7; only `externaltoc` answers -1). -/
theorem footer_offset_nonneg (len : Nat) (hdr : Option (List UInt8)) (f : Footer) :
    (gzipFooter len hdr = Outcome.ok f → 0 ≤ f.tocOffset) ∧ (legacyFooter len hdr = Outcome.ok f → 0 ≤ f.tocOffset) :=
  ⟨gzipFooter_nonneg len hdr f, legacyFooter_nonneg len hdr f⟩

/-- The parsers do accept something: a regular eStargz footer with TOC offset 0x2a. -/
example : gzipFooter 51 (some ([83, 71, 22, 0] ++ [48, 48, 48, 48, 48, 48, 48, 48, 48, 48, 48, 48, 48, 48, 50, 97] ++
    stargzMagic)) = Outcome.ok ⟨42, 42, 0⟩ := by decide

/-- `strconv.ParseInt` accepts a sign; a negative TOC offset is refused since commit 18babb7. -/
example : gzipFooter 51 (some ([83, 71, 22, 0] ++ [45, 48, 48, 48, 48, 48, 48, 48, 48, 48, 48, 48, 48, 48, 48, 49] ++
    stargzMagic)) = Outcome.err := by decide

/-! ## Open -/

/-- `Open` never panics while selecting a footer and cutting out the TOC, and every buffer it
allocates (`make([]byte, fetchSize)`, `make([]byte, tocSize)`) is at most as large as the blob:
for every blob size, every `WithTOCOffset`, every list of decompressors with a non-negative footer
size, every `(tocOffset, tocSize)` a footer parser can return (any `int64`s) and every outcome of
the TOC decoders.  `int64` wrap-around is part of the model, there is no side condition on it. -/
theorem open_slicing_total (size optTocOff : Int) (ds : List Dec) (hs : 0 ≤ size)
    (hs2 : size < 9223372036854775808) (hd : ∀ d ∈ ds, DecOK d) :
    (openBlob size optTocOff ds).2 ≠ Outcome.panic ∧
      ∀ n, Ev.alloc n ∈ (openBlob size optTocOff ds).1 → 0 ≤ n ∧ n ≤ size :=
  openBlob_spec size optTocOff ds hs hs2 hd

/-- Non-vacuity: the four real decompressors satisfy the hypothesis; a 1000-byte blob whose zstd
footer announces a 2^62-byte TOC at offset 100 is rejected without any TOC allocation. -/
example : (openBlob 1000 0 [⟨51, none, false, false⟩, ⟨47, none, false, false⟩,
    ⟨40, some (100, 4611686018427387904), true, true⟩, ⟨46, none, false, false⟩]) =
    ([Ev.alloc 51, Ev.read 949 51], Outcome.err) := by decide

example : DecOK ⟨40, some (100, 4611686018427387904), true, true⟩ := by
  refine ⟨by decide, by decide, ?_⟩
  intro a b h
  simp only [Option.some.injEq, Prod.mk.injEq] at h
  obtain ⟨rfl, rfl⟩ := h
  unfold I64
  omega

/-- A well-formed TOC range is read with exactly one allocation of its size. -/
example : (openBlob 1000 0 [⟨51, some (800, 0), true, false⟩]) =
    ([Ev.alloc 51, Ev.read 949 51, Ev.alloc 149, Ev.read 800 149, Ev.toc (some 149)], Outcome.ok true) := by decide

/-! ## Hardlink resolution -/

/-- `getSource` terminates for every table and entry (the model's fuel is never the reason for an
answer: more fuel gives the same answer), never panics, and an entry it returns is not a hardlink. -/
theorem getSource_terminates (m : List Ent) (e : Ent) :
    getSource m e ≠ Outcome.panic ∧
      (∀ r, getSource m e = Outcome.ok r → r.type ≠ EType.hardlink) ∧
      (∀ k, getSourceLoop m (m.length + 3 + k) 0 e = getSource m e) :=
  ⟨getSourceLoop_no_panic _ _ _ _, fun r h => getSourceLoop_ok_type _ _ _ _ r h,
    getSource_fuel_sufficient m e⟩

/-- A chain that never leaves the hardlinks (in particular a cycle) ends in an error. -/
theorem getSource_cycle_err (m : List Ent) (e : Ent) (he : e.type = EType.hardlink)
    (hm : ∀ n r, lookup m n = some r → r.type = EType.hardlink) : getSource m e = Outcome.err := by
  cases h : getSource m e with
  | err => rfl
  | panic => exact absurd h (getSourceLoop_no_panic _ _ _ _)
  | ok r =>
    have hne := getSourceLoop_ok_type _ _ _ _ r h
    rcases getSourceLoop_ok_mem _ _ _ _ r h with h1 | ⟨n, h1⟩
    · rw [h1] at hne; exact absurd he hne
    · exact absurd (hm n r h1) hne

/-- The cycle `a ↔ b` of the repaired defect. -/
example : getSource [⟨["b"], .hardlink, ["a"]⟩, ⟨["a"], .hardlink, ["b"]⟩] ⟨["a"], .hardlink, ["b"]⟩ = Outcome.err := by
  decide

/-- A chain through every entry of the table still resolves. -/
example : getSource [⟨["c"], .reg, []⟩, ⟨["b"], .hardlink, ["c"]⟩, ⟨["a"], .hardlink, ["b"]⟩] ⟨["a"], .hardlink, ["b"]⟩ =
    Outcome.ok ⟨["c"], .reg, []⟩ := by decide

/-! ## The entry tree -/

/-- Building the tree never panics, for every entry list. -/
theorem tree_total (ents : List Ent) : initTree ents ≠ Outcome.panic := by
  unfold initTree
  split
  · split <;> simp
  · simp
  · rename_i hp
    exact absurd hp (treeLoop_no_panic _ _)

/-- Every child edge of a tree `initFields` accepts leads to a strictly longer cleaned name
(`base :: parent`) or to an entry that has no children at all (a hardlink source, which the code
requires to be childless since commit f3cca50) — and such an entry is never a directory. -/
theorem tree_edges (ents : List Ent) (t : Tree) (h : initTree ents = Outcome.ok t) :
    ∀ e ∈ t.edges, e.target = e.base :: e.parent ∨ (hasChild t.edges e.target = false ∧ e.ttype ≠ EType.dir) := by
  obtain ⟨hl, hsrc⟩ := initTree_ok ents t h
  have h2 := treeLoop_edgesOK2 ents _ t (by intro e he; simp at he) hl
  have h1 := treeLoop_edgesOK ents _ t (by intro e he; simp at he) hl
  intro e he
  rcases h2 e he with hd | hs
  · exact Or.inl hd
  · rcases h1 e he with hd | hnd
    · exact Or.inl hd
    · exact Or.inr ⟨hsrc _ hs, hnd⟩

/-- The tree is acyclic for EVERY walker (also one that descends into every entry that has
children, whatever its type, as `memory.assignIDs` does): a node with children that is reached
after `k` steps lies exactly `k` components below the start, and no walk returns to its start. -/
theorem tree_acyclic (ents : List Ent) (t : Tree) (h : initTree ents = Outcome.ok t)
    (a b : Name) (k : Nat) (hc : Chain t.edges a b k) :
    (hasChild t.edges b = true → b.length = a.length + k) ∧ (b = a → k = 0) := by
  have hes : EdgesLeafOrDeeper t.edges := by
    intro e he
    rcases tree_edges ents t h e he with hd | ⟨hl, _⟩
    · exact Or.inl hd
    · exact Or.inr hl
  refine ⟨fun hb => chain_length hes hc hb, fun hab => ?_⟩
  cases k with
  | zero => rfl
  | succ j =>
    subst hab
    have hch := chain_start_hasChild hc (by omega)
    have := chain_length hes hc hch
    omega

/-- Walk depth is bounded by the names: `k` steps down from the root along entries with children end
at a name of `k` components. -/
theorem tree_walk_depth (ents : List Ent) (t : Tree) (h : initTree ents = Outcome.ok t)
    (b : Name) (k : Nat) (hc : Chain t.edges [] b k) (hb : hasChild t.edges b = true) : b.length = k := by
  have := (tree_acyclic ents t h [] b k hc).1 hb
  simpa using this

/-- The repaired inputs are rejected by the model too: hardlink to the own parent directory
(588493d) and hardlink to a non-directory ancestor (f3cca50). -/
example : initTree [⟨["d"], .dir, []⟩, ⟨["x", "d"], .hardlink, ["d"]⟩] = Outcome.err := by decide
example : initTree [⟨["p"], .reg, []⟩, ⟨["x", "p"], .hardlink, ["p"]⟩] = Outcome.err := by decide

/-- Non-vacuity: a tree with an implicit directory and a hardlink is accepted. -/
example : (initTree [⟨["f", "d"], .reg, []⟩, ⟨["l"], .hardlink, ["f", "d"]⟩]) =
    Outcome.ok ⟨[⟨[], .dir, []⟩, ⟨["d"], .dir, []⟩, ⟨["l"], .hardlink, ["f", "d"]⟩, ⟨["f", "d"], .reg, []⟩],
      [⟨[], "l", ["f", "d"], .reg⟩, ⟨["d"], "f", ["f", "d"], .reg⟩, ⟨[], "d", ["d"], .dir⟩], [["f", "d"]]⟩ := by decide

/-! ## fs/reader `file.ReadAt` -/

/-- For EVERY read `(len p, off)` (any `int64` offset, any slice length) and every sequence of
answers of the metadata store (any `int64` chunk triples, any number of bytes delivered, any
chunk-cache behaviour) `file.ReadAt` never panics: every slice expression is in range.  The one
thing left to assume is that the chunk sizes are allocatable (`c.cs ≤ bound`); the offset ≥ 0 and
overflow side conditions the earlier version of this theorem needed are now checked by the code
(`chunkContains`, commit 95288ee) and are part of the model. -/
theorem read_arith_total_partial (bound lenP off : Int) (script : List Chunk)
    (hoff : I64 off) (hl : lenP < 9223372036854775808)
    (hs : ∀ c ∈ script, ChunkSane bound c) :
    (fileReadAt bound lenP off script).2 ≠ Outcome.panic :=
  (readLoop_spec bound lenP off script 0 [] hoff hl (Int.le_refl 0) hs).1

/-- The full statement of the property: no assumption on the sizes the TOC names. -/
def ReadArithTotalFull : Prop :=
  ∀ (bound lenP off : Int) (script : List Chunk), 0 < bound → I64 off → lenP < 9223372036854775808 →
    (∀ c ∈ script, I64 c.co ∧ I64 c.cs) → (fileReadAt bound lenP off script).2 ≠ Outcome.panic

/-- The chunk size is used as an allocation size whatever the blob and the read are: a 4096-byte
read of a file whose TOC claims one chunk of `bound + 4097` bytes grows a buffer of that many
bytes; whatever `bound` the machine has, the TOC names a larger size (known finding). -/
theorem read_alloc_unbounded (bound : Int) (hb : 0 < bound) (hbig : bound + 4097 < 9223372036854775808) :
    (fileReadAt bound 4096 0 [⟨0, bound + 4097, 0, -1⟩]).2 = Outcome.panic := by
  unfold fileReadAt readLoop
  have e1 : lowerOf 0 ⟨0, bound + 4097, 0, -1⟩ = 0 := by unfold lowerOf positive wrap64; simp
  have e2 : upperOf 4096 0 ⟨0, bound + 4097, 0, -1⟩ = bound + 1 := by
    unfold upperOf
    simp only [Int.zero_add]
    rw [wrap64_id (bound + 4097) (by omega) hbig, wrap64_id 4096 (by decide) (by decide),
      wrap64_id _ (by omega) (by omega)]
    unfold positive; split <;> omega
  have e3 : expectedOf ⟨0, bound + 4097, 0, -1⟩ 0 (bound + 1) = 4096 := by
    unfold expectedOf
    simp only []
    rw [wrap64_id (bound + 4097 - (bound + 1)) (by omega) (by omega), wrap64_id _ (by omega) (by omega)]
    omega
  have hh : hitRes ⟨0, bound + 4097, 0, -1⟩ 0 4096 4096 = Outcome.ok none := by
    unfold hitRes; simp
  have hm : missPath bound 4096 0 ⟨0, bound + 4097, 0, -1⟩ 0 (bound + 1) 4096 =
      ([REv.grow (bound + 4097)], Outcome.panic) := by
    unfold missPath
    have : ¬ ((0 : Int) = 0 ∧ bound + 1 = 0) := by omega
    rw [if_neg this]
    have : bound + 4097 > bound := by omega
    simp only [this, if_true]
  have hcc : chunkContains 0 (bound + 4097) (wrap64 (0 + 0)) = true := by
    unfold chunkContains wrap64
    simp only [decide_eq_true_eq]
    omega
  have hg : ¬ (chunkContains 0 (bound + 4097) (wrap64 (0 + 0)) = false ∨ (4096 : Int) ≤ 0 ∨ (4096 : Int) > 4096 - 0) := by
    rw [hcc]; simp
  rw [if_neg (by decide : ¬ ((0 : Int) ≥ 4096))]
  simp only [e1, e2, e3]
  rw [if_neg hg, hh]
  simp only [hm]

theorem read_arith_total_full_fails : ¬ ReadArithTotalFull := by
  intro h
  have := h 1099511627776 4096 0 [⟨0, 1099511627776 + 4097, 0, -1⟩] (by decide) (by unfold I64; omega) (by decide) (by
    intro c hc
    simp only [List.mem_singleton] at hc
    subst hc
    unfold I64
    simp only []
    exact ⟨by omega, by omega⟩)
  exact this (read_alloc_unbounded 1099511627776 (by decide) (by decide))

/-- The wrap-around input of the repaired defect (chunkOffset = -2^63+10 on a 100-byte file,
200-byte read at 5) is now answered with an error. -/
example : (fileReadAt 4611686018427387904 200 5 [⟨-9223372036854775798, 100, 100, -1⟩]).2 = Outcome.err := by decide

/-- When every answer of the store delivers at least one byte the loop advances: it makes at
most `len p + 1` iterations however long the store keeps answering. -/
theorem read_progress_partial (bound lenP off : Int) (script : List Chunk)
    (hoff : I64 off) (hl0 : 0 ≤ lenP) (hl : lenP < 9223372036854775808)
    (hs : ∀ c ∈ script, ChunkSane bound c) (hn : ∀ c ∈ script, 0 < c.n) :
    (countC (fileReadAt bound lenP off script).1 : Int) ≤ lenP + 1 := by
  have := (readLoop_spec bound lenP off script 0 [] hoff hl (Int.le_refl 0) hs).2 hn
  unfold fileReadAt
  have h0 : countC ([] : List REv) = 0 := rfl
  rw [h0] at this
  split at this <;> omega

/-- The full statement: the loop advances for every store. -/
def ReadProgressFull : Prop :=
  ∀ (bound lenP off : Int) (script : List Chunk), I64 off → 0 ≤ lenP → lenP < 9223372036854775808 →
    (∀ c ∈ script, ChunkSane bound c) → (countC (fileReadAt bound lenP off script).1 : Int) ≤ lenP + 1

/-- It does not hold for the current code: when the store's `ReadAt` delivers 0 bytes for a chunk
that does contain the position (io.EOF is accepted) and the chunk cache does not take the data,
`nr` stays where it is and the same chunk is asked for again — for ever in the real code, for as
long as the script lasts here. -/
theorem read_progress_full_fails : ¬ ReadProgressFull := by
  intro h
  have := h 1024 1 0 [⟨0, 1, 0, -1⟩, ⟨0, 1, 0, -1⟩, ⟨0, 1, 0, -1⟩] (by unfold I64; omega) (by decide) (by decide) (by
    intro c hc
    simp only [List.mem_cons, List.mem_nil_iff, or_false, or_self] at hc
    subst hc
    exact ⟨by unfold I64; simp only []; omega, by unfold I64; simp only []; omega, by decide⟩)
  exact absurd this (by decide)

/-- Non-vacuity: a page-sized read of a 10-byte file in chunks of 4, 4 and 2 bytes. -/
example : fileReadAt 1024 4096 0 [⟨0, 4, 4, -1⟩, ⟨4, 4, 4, -1⟩, ⟨8, 2, 2, -1⟩] =
    ([REv.chunkAt 0, REv.storeRead 4 0, REv.chunkAt 4, REv.storeRead 4 4, REv.chunkAt 8, REv.storeRead 2 8,
      REv.chunkAt 10], Outcome.ok 10) := by decide

/-! ## FUSE passthrough -/

/-- Full statement for the batch merge of `prefetchEntireFile`. -/
def PassthroughTotalFull : Prop :=
  ∀ (B : Int) (W : Nat) (script : List (Int × Int)), 0 < B → 0 < W → (passthrough B W script).2 ≠ Outcome.panic

/-- It does not hold for the current code: chunk entries that overlap (file of 6 bytes, chunks
`[0,4)` and `[2,6)`, merge buffer 6) are packed behind each other into one batch and the second one
is sliced beyond the batch buffer; the straddle test of commit 6332cf7 and `chunkContains`
(95288ee) look at each chunk alone (known finding). -/
theorem passthrough_total_full_fails : ¬ PassthroughTotalFull := by
  intro h
  exact h 6 2 [(0, 4), (2, 4)] (by decide) (by decide) (by decide)

/-- The repaired case (10-byte file, 4-byte chunks, 6-byte merge buffer) takes the sequential path. -/
example : passthrough 6 2 [(0, 4), (4, 4), (8, 2)] = ([], Outcome.ok ()) := by decide

end SV.Props.C04
