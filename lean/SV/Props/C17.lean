/-
C17 — FUSE manager's persistent record equals its live mounts across re-init/restart.

Only property theorems and their non-vacuity examples live here.  The model is
`SV/Model/FuseMgr.lean` (fusemanager/service.go + fusestore.go, current code: `Init` becomes
Ready only when a filesystem exists); the invariant and its preservation by every operation are
in `SV/Lemmas/FuseMgr.lean`.  All theorems quantify over every operation history from a freshly
started manager (`Reachable`, `run {} ops`) and over every failure oracle (each `Op` carries its
own: the stage at which `Init` fails, which `fs.Mount` calls fail, whether `fs.Check` /
`fs.Unmount` fails, whether an unknown path is an OS mountpoint).
-/
import SV.Lemmas.FuseMgr

namespace SV.Props.C17
open SV.FuseMgr

/-- the bolt store has a record for `mp`. -/
def Recorded (s : St) (mp : Mp) : Prop := aget mp s.store ≠ none
/-- the manager serves `mp` (it is in `fsMap`). -/
def Served (s : St) (mp : Mp) : Prop := aget mp s.fsMap ≠ none

/-! ### the store records exactly what is served -/

/-- Quiescent invariant, for every history and failure pattern: while the store is open, every
served mountpoint is recorded; a recorded mountpoint that is not served exists only if the last
`Init` of this manager process did not return ok (it reported the restore error, or none has run
since the process started); a manager that accepts requests has completed an `Init`. -/
theorem store_matches_serving (ops : List Op) :
    let s := run {} ops
    (s.closed = false →
      (∀ mp, Served s mp → Recorded s mp) ∧
      ((∃ mp, Recorded s mp ∧ ¬ Served s mp) → s.lastInit ≠ some .ok)) ∧
    (s.status = .ready → s.lastInit ≠ none) := by
  intro s
  have h : Inv s := inv_run ops _ inv_init0
  refine ⟨fun hcl => ⟨h.sub hcl, ?_⟩, fun hr => (h.ready_fs hr).2⟩
  rintro ⟨mp, hrec, hns⟩ hli
  exact hns (h.sup hcl hli mp hrec)

/-- The ghost `lastInit` really is the answer of the last `Init` since the process started:
`Init` sets it to its own result, a restart clears it, nothing else touches it. -/
theorem lastInit_is_last_init_result (s : St) (op : Op) :
    (step s op).st.lastInit =
      match op with
      | .init .. => some (step s op).resp
      | .restart => none
      | _ => s.lastInit := by
  cases op with
  | init c st fm =>
    simp only [step, stepWith]
    unfold initWith
    cases st <;> simp only [finishInit] <;> (try split) <;> rfl
  | mount mp l ok =>
    simp only [step, stepWith, mount]
    split
    · rfl
    · rcases mountCore_cases s mp l ok with
        ⟨g, _, heq⟩ | ⟨_, _, heq⟩ | ⟨f, _, _, _, heq⟩ | ⟨f, _, _, _, heq⟩ <;> rw [heq] <;> simp only
      · split
        · rfl
        · exact (putRec_frame _ _ _).2.2.2.2.2.2.2.2
      · split
        · rfl
        · exact (putRec_frame _ _ _).2.2.2.2.2.2.2.2
  | check mp l ok => simp only [step, stepWith, check]; split; rfl; split <;> rfl
  | unmount mp ok os =>
    simp only [step, stepWith, unmount]
    split
    · rfl
    · split
      · rfl
      · split
        · exact (delRec_frame _ _).2.2.2.2.2.2.2.2
        · rfl
  | close => simp only [step, stepWith, close]; split <;> rfl
  | restart => rfl

/-- After any `Init` that returns ok the store and the served set are equal. -/
theorem init_ok_store_equals_serving (s : St) (hs : Reachable s) (cfg : Cfg) (stage : Stage)
    (failMp : Mp → Bool) (hok : (init s cfg stage failMp).resp = .ok) :
    ∀ mp, Recorded (init s cfg stage failMp).st mp ↔ Served (init s cfg stage failMp).st mp := by
  have h := inv_reachable s hs
  have I := init_spec s cfg stage failMp h
  have h' := inv_init s cfg stage failMp h
  have hcl : (init s cfg stage failMp).st.closed = false := by rw [I.closed]; exact (I.onok hok).2.1
  intro mp
  exact ⟨h'.sup hcl (by rw [I.lastInit, hok]) mp, h'.sub hcl mp⟩

/-! ### re-initialisation keeps owners; nothing is mounted twice -/

/-- A mountpoint served before a re-`Init` (whatever its outcome) is still owned by the same
filesystem instance afterwards, that `Init` issues no `fs.Mount` for it, a successful
construction installs a different (fresh) instance as `curFs`, and subsequent `Check` / `Unmount`
requests for it go to the original owner. -/
theorem reinit_keeps_owner (s : St) (hs : Reachable s) (mp : Mp) (f : FsId)
    (hown : aget mp s.fsMap = some f) (cfg : Cfg) (stage : Stage) (failMp : Mp → Bool) :
    let o := init s cfg stage failMp
    aget mp o.st.fsMap = some f ∧ (f, mp) ∈ o.st.live ∧
    (∀ g lab ok, Call.mount g mp lab ok ∉ o.calls) ∧
    (stage = .ok → o.st.curFs = some s.nextFs ∧ f ≠ s.nextFs) ∧
    (∀ lab ok, (check o.st mp lab ok).calls = [.check f mp lab ok]) ∧
    (∀ ok os, (unmount o.st mp ok os).calls = [.unmount f mp ok]) := by
  intro o
  have h := inv_reachable s hs
  have I := init_spec s cfg stage failMp h
  have h' : Inv o.st := inv_init s cfg stage failMp h
  have hown' : aget mp o.st.fsMap = some f := I.mono mp f hown
  have hcur : o.st.curFs ≠ none := h'.map_cur mp f hown'
  have hrdy : o.st.status = .ready := by
    rw [I.status]
    cases hc : o.st.curFs with
    | none => exact absurd hc hcur
    | some g => simp
  refine ⟨hown', (h'.live_iff f mp).mpr hown', ?_, ?_, ?_, ?_⟩
  · intro g lab ok hc
    have := (I.mounts g mp lab ok hc).2.2.1
    simp [hown] at this
  · intro hst
    refine ⟨(I.cur_ok hst).1, ?_⟩
    have := h.map_lt mp f hown
    exact Nat.ne_of_lt this
  · intro lab ok
    simp [check, hrdy, hown']
  · intro ok os
    simp only [unmount, hrdy, hown']
    cases ok <;> simp

/-- Every `fs.Check` / `fs.Unmount` the manager ever issues goes to the instance that owns the
mountpoint, i.e. the one whose `fs.Mount` created the live mount. -/
theorem requests_go_to_owner (s : St) (hs : Reachable s) (op : Op) (g : FsId) (mp : Mp) :
    ((∃ lab ok, Call.check g mp lab ok ∈ (step s op).calls) ∨
      (∃ ok, Call.unmount g mp ok ∈ (step s op).calls)) →
    aget mp s.fsMap = some g ∧ (g, mp) ∈ s.live := by
  have h := inv_reachable s hs
  intro hc
  suffices aget mp s.fsMap = some g from ⟨this, (h.live_iff g mp).mpr this⟩
  cases op with
  | init c st fm =>
    have I := init_spec s c st fm h
    rcases hc with ⟨lab, ok, hc⟩ | ⟨ok, hc⟩
    · exact absurd rfl ((I.others _ hc).1 g mp lab ok)
    · exact absurd rfl ((I.others _ hc).2 g mp ok)
  | mount m l ok =>
    exfalso
    simp only [step, stepWith, mount] at hc
    split at hc
    · simp at hc
    · rcases mountCore_cases s m l ok with
        ⟨g', _, heq⟩ | ⟨_, _, heq⟩ | ⟨f, _, _, _, heq⟩ | ⟨f, _, _, _, heq⟩ <;> rw [heq] at hc <;>
        simp only at hc
      · split at hc <;> simp at hc
      · simp at hc
      · split at hc <;> simp at hc
      · simp at hc
  | check m l ok =>
    simp only [step, stepWith, check] at hc
    split at hc
    · simp at hc
    · split at hc
      · simp at hc
      · rename_i f hf
        simp at hc
        obtain ⟨rfl, rfl⟩ := hc
        exact hf
  | unmount m ok os =>
    simp only [step, stepWith, unmount] at hc
    split at hc
    · simp at hc
    · split at hc
      · simp at hc
      · rename_i f hf
        split at hc <;> simp at hc <;> (obtain ⟨rfl, rfl, _⟩ := hc; exact hf)
  | close => simp only [step, stepWith, close] at hc; split at hc <;> simp at hc
  | restart => simp [step, stepWith, restartManager] at hc

/-- No mountpoint is ever mounted a second time: every `fs.Mount` the manager issues (in `Mount`
or while restoring in `Init`, successful or not) is for a mountpoint that has no live mount on any
instance, and the backend never holds two live mounts of one mountpoint. -/
theorem never_mounted_twice (s : St) (hs : Reachable s) :
    (s.live.map Prod.snd).Nodup ∧
    ∀ op g mp lab ok, Call.mount g mp lab ok ∈ (step s op).calls →
      aget mp s.fsMap = none ∧ ∀ g', (g', mp) ∉ s.live := by
  have h := inv_reachable s hs
  refine ⟨h.live_nodup, ?_⟩
  intro op g mp lab ok hc
  suffices aget mp s.fsMap = none by
    refine ⟨this, fun g' hg' => ?_⟩
    have := (h.live_iff g' mp).mp hg'
    simp_all
  cases op with
  | init c st fm => exact ((init_spec s c st fm h).mounts g mp lab ok hc).2.2.1
  | mount m l ok' =>
    simp only [step, stepWith, mount] at hc
    split at hc
    · simp at hc
    · rcases mountCore_cases s m l ok' with
        ⟨g', _, heq⟩ | ⟨_, _, heq⟩ | ⟨f, hn, _, _, heq⟩ | ⟨f, hn, _, _, heq⟩ <;> rw [heq] at hc <;>
        simp only at hc
      · split at hc <;> simp at hc
      · simp at hc
      · split at hc <;> simp at hc <;> (obtain ⟨_, rfl, _⟩ := hc; exact hn)
      · simp at hc; obtain ⟨_, rfl, _⟩ := hc; exact hn
  | check m l ok' =>
    simp only [step, stepWith, check] at hc
    split at hc
    · simp at hc
    · split at hc <;> simp at hc
  | unmount m ok' os =>
    simp only [step, stepWith, unmount] at hc
    split at hc
    · simp at hc
    · split at hc
      · simp at hc
      · split at hc <;> simp at hc
  | close => simp only [step, stepWith, close] at hc; split at hc <;> simp at hc
  | restart => simp [step, stepWith, restartManager] at hc

/-- Ownership is created only by a successful `fs.Mount` on the owning instance … -/
theorem owner_is_mounter (s : St) (hs : Reachable s) (op : Op) (mp : Mp) (f : FsId)
    (hn : aget mp s.fsMap = none) (hown : aget mp (step s op).st.fsMap = some f) :
    ∃ lab, Call.mount f mp lab true ∈ (step s op).calls := by
  have h := inv_reachable s hs
  cases op with
  | init c st fm =>
    rcases (init_spec s c st fm h).fresh mp f hown with h1 | ⟨_, rfl, r, _, hc⟩
    · simp [hn] at h1
    · exact ⟨r.labels, hc⟩
  | mount m l ok =>
    simp only [step, stepWith, mount] at hown ⊢
    split at hown
    · simp [hn] at hown
    · rename_i hst
      simp only [hst, if_false]
      rcases mountCore_cases s m l ok with
        ⟨g', hg, heq⟩ | ⟨_, _, heq⟩ | ⟨f', hn', _, _, heq⟩ | ⟨f', _, _, _, heq⟩ <;> rw [heq] at hown ⊢ <;>
        simp only at hown ⊢
      · split at hown
        · simp [hn] at hown
        · rw [(putRec_frame _ _ _).2.2.2.1] at hown; simp [hn] at hown
      · simp [hn] at hown
      · have hfm : aget mp (s.mounted m f').fsMap = some f := by
          split at hown
          · exact hown
          · rw [(putRec_frame _ _ _).2.2.2.1] at hown; exact hown
        simp only [St.mounted, aget_ains] at hfm
        split at hfm
        · rename_i e; subst e
          have : f' = f := Option.some.inj hfm
          subst this
          exact ⟨l, by split <;> simp⟩
        · simp [hn] at hfm
      · simp [hn] at hown
  | check m l ok =>
    simp only [step, stepWith, check] at hown
    split at hown
    · simp [hn] at hown
    · split at hown <;> simp [hn] at hown
  | unmount m ok os =>
    simp only [step, stepWith, unmount] at hown
    split at hown
    · simp [hn] at hown
    · split at hown
      · simp [hn] at hown
      · split at hown
        · rw [(delRec_frame _ _).2.2.2.1] at hown
          simp only [aget_adel] at hown
          split at hown <;> simp [hn] at hown
        · simp [hn] at hown
  | close => simp only [step, stepWith, close] at hown; split at hown <;> simp [hn] at hown
  | restart => simp [step, stepWith, restartManager, aget] at hown

/-- … and ended only by a successful `fs.Unmount` on the owner (or by the death of the process):
under every other operation — in particular every `Init` — the owner stays the same. -/
theorem owner_stable (s : St) (hs : Reachable s) (op : Op) (mp : Mp) (f : FsId)
    (hown : aget mp s.fsMap = some f) :
    aget mp (step s op).st.fsMap = some f ∨ op = .restart ∨
    (∃ os, op = .unmount mp true os ∧ (step s op).calls = [.unmount f mp true] ∧
      aget mp (step s op).st.fsMap = none) := by
  have h := inv_reachable s hs
  cases op with
  | init c st fm => exact Or.inl ((init_spec s c st fm h).mono mp f hown)
  | mount m l ok =>
    left
    simp only [step, stepWith, mount]
    split
    · exact hown
    · rcases mountCore_cases s m l ok with
        ⟨g', hg, heq⟩ | ⟨_, _, heq⟩ | ⟨f', hn', _, _, heq⟩ | ⟨f', _, _, _, heq⟩ <;> rw [heq] <;> simp only
      · split
        · exact hown
        · rw [(putRec_frame _ _ _).2.2.2.1]; exact hown
      · exact hown
      · have hfm : aget mp (s.mounted m f').fsMap = some f := by
          simp only [St.mounted, aget_ains]
          split
          · rename_i e; subst e; simp [hown] at hn'
          · exact hown
        split
        · exact hfm
        · rw [(putRec_frame _ _ _).2.2.2.1]; exact hfm
      · exact hown
  | check m l ok =>
    left
    simp only [step, stepWith, check]
    split
    · exact hown
    · split <;> exact hown
  | unmount m ok os =>
    simp only [step, stepWith, unmount]
    split
    · exact Or.inl hown
    · split
      · exact Or.inl hown
      · rename_i g hg
        split
        · rename_i hok
          by_cases e : m = mp
          · subst e
            have : g = f := by rw [hown] at hg; exact (Option.some.inj hg).symm
            subst this
            refine Or.inr (Or.inr ⟨os, by simp [hok], rfl, ?_⟩)
            rw [(delRec_frame _ _).2.2.2.1]
            simp [aget_adel]
          · left
            rw [(delRec_frame _ _).2.2.2.1]
            simp only [aget_adel]
            simp [Ne.symm e, hown]
        · exact Or.inl hown
  | close => left; simp only [step, stepWith, close]; split <;> exact hown
  | restart => exact Or.inr (Or.inl rfl)

/-! ### new mounts use the newest filesystem -/

/-- `curFs` changes only when `Init` constructs a filesystem (to that fresh instance) and when
the process restarts. -/
theorem curFs_changes_only_by_construction (s : St) (op : Op) :
    (step s op).st.curFs =
      match op with
      | .init _ .ok _ => some s.nextFs
      | .restart => none
      | _ => s.curFs := by
  cases op with
  | init c st fm =>
    simp only [step, stepWith]
    unfold initWith
    cases st with
    | ok =>
      simp only
      split
      · rfl
      · have : ∀ (es : List (Mp × Rec)) (t : St), (restore fm es t).st.curFs = t.curFs := by
          intro es
          induction es with
          | nil => intro t; rfl
          | cons e rest ih =>
            intro t
            obtain ⟨m, r⟩ := e
            simp only [restore]
            rcases mountCore_cases t m r.labels (!fm m) with
              ⟨g', _, heq⟩ | ⟨_, _, heq⟩ | ⟨f', _, _, _, heq⟩ | ⟨f', _, _, _, heq⟩ <;> rw [heq] <;> simp only
            · exact ih t
            · exact ih (t.mounted m f')
        simp only [finishInit]
        exact this _ _
    | parse => rfl
    | cfgfunc => rfl
    | construct => rfl
  | mount m l ok =>
    simp only [step, stepWith, mount]
    split
    · rfl
    · rcases mountCore_cases s m l ok with
        ⟨g', _, heq⟩ | ⟨_, _, heq⟩ | ⟨f', _, _, _, heq⟩ | ⟨f', _, _, _, heq⟩ <;> rw [heq] <;> simp only
      · split
        · rfl
        · exact (putRec_frame _ _ _).2.1
      · split
        · rfl
        · exact (putRec_frame _ _ _).2.1
  | check m l ok => simp only [step, stepWith, check]; split; rfl; split <;> rfl
  | unmount m ok os =>
    simp only [step, stepWith, unmount]
    split
    · rfl
    · split
      · rfl
      · split
        · exact (delRec_frame _ _).2.1
        · rfl
  | close => simp only [step, stepWith, close]; split <;> rfl
  | restart => rfl

/-- Every `fs.Mount` goes to the filesystem that is current when the operation ends: for a
`Mount` request that is `curFs`, for a restoring `Init` it is the instance that very `Init`
constructed from the configuration it was given (fresh: no mountpoint is owned by it yet). -/
theorem new_mounts_use_cur (s : St) (hs : Reachable s) (op : Op) (g : FsId) (mp : Mp) (lab : Lab)
    (ok : Bool) (hc : Call.mount g mp lab ok ∈ (step s op).calls) :
    (step s op).st.curFs = some g ∧
    ((∃ m l k, op = .mount m l k ∧ s.curFs = some g) ∨
     (∃ cfg fm, op = .init cfg .ok fm ∧ g = s.nextFs ∧ aget g (step s op).st.fsCfg = some cfg ∧
        ∀ m, aget m s.fsMap ≠ some g)) := by
  have h := inv_reachable s hs
  cases op with
  | init c st fm =>
    have I := init_spec s c st fm h
    obtain ⟨rfl, rfl, _, _⟩ := I.mounts g mp lab ok hc
    have C := I.cur_ok rfl
    refine ⟨C.1, Or.inr ⟨c, fm, rfl, rfl, C.2.1, ?_⟩⟩
    intro m hm
    exact absurd (h.map_lt m _ hm) (Nat.lt_irrefl _)
  | mount m l ok' =>
    have hcur := curFs_changes_only_by_construction s (.mount m l ok')
    simp only at hcur
    suffices s.curFs = some g from ⟨by rw [hcur]; exact this, Or.inl ⟨m, l, ok', rfl, this⟩⟩
    simp only [step, stepWith, mount] at hc
    split at hc
    · simp at hc
    · rcases mountCore_cases s m l ok' with
        ⟨g', _, heq⟩ | ⟨_, _, heq⟩ | ⟨f, _, hcf, _, heq⟩ | ⟨f, _, hcf, _, heq⟩ <;> rw [heq] at hc <;>
        simp only at hc
      · split at hc <;> simp at hc
      · simp at hc
      · split at hc <;> simp at hc <;> (obtain ⟨rfl, _⟩ := hc; exact hcf)
      · simp at hc; obtain ⟨rfl, _⟩ := hc; exact hcf
  | check m l ok' =>
    simp only [step, stepWith, check] at hc
    split at hc
    · simp at hc
    · split at hc <;> simp at hc
  | unmount m ok' os =>
    simp only [step, stepWith, unmount] at hc
    split at hc
    · simp at hc
    · split at hc
      · simp at hc
      · split at hc <;> simp at hc
  | close => simp only [step, stepWith, close] at hc; split at hc <;> simp at hc
  | restart => simp [step, stepWith, restartManager] at hc

/-! ### manager restart -/

/-- Requests before a successful first initialisation fail — also after any number of FAILED
initialisations (config parse, configFunc or construction error), on a fresh manager as well as
after any restart: they return an error, call nothing and change nothing. -/
theorem not_ready_rejects (s0 : St) (hs0 : s0 = {} ∨ ∃ t, s0 = (restartManager t).st)
    (pre : List Op) (hpre : ∀ op ∈ pre, NoConstruct op) :
    let s := run s0 pre
    s.status ≠ .ready ∧
    (∀ mp lab ok, mount s mp lab ok = ⟨s, .err, []⟩) ∧
    (∀ mp lab ok, check s mp lab ok = ⟨s, .err, []⟩) ∧
    (∀ mp ok os, unmount s mp ok os = ⟨s, .err, []⟩) := by
  intro s
  have h0 : s0.curFs = none ∧ s0.status ≠ .ready := by
    rcases hs0 with rfl | ⟨t, rfl⟩ <;> simp [restartManager]
  have := noconstruct_run pre s0 hpre h0.1 h0.2
  exact ⟨this.2, rejects_of_no_fs s this.2⟩

/-- After the manager process restarts on the kept store file — whatever requests and failed
`Init`s arrive first — the next `Init` either reports an error or mounts EVERY recorded
mountpoint, with its recorded labels, on the filesystem it has just constructed, and serves it
from that instance.  It never panics. -/
theorem restart_remounts_recorded (s : St) (hs : Reachable s) (pre : List Op)
    (hpre : ∀ op ∈ pre, Harmless op) (cfg : Cfg) (stage : Stage) (failMp : Mp → Bool) :
    let r := run (restartManager s).st pre
    let o := init r cfg stage failMp
    o.resp ≠ .panic ∧
    (o.resp = .ok → ∀ mp rec, aget mp s.store = some rec →
      Call.mount r.nextFs mp rec.labels true ∈ o.calls ∧
      aget mp o.st.fsMap = some r.nextFs ∧ (r.nextFs, mp) ∈ o.st.live ∧
      o.st.curFs = some r.nextFs ∧ Recorded o.st mp) := by
  intro r o
  have hr0 : Reachable (restartManager s).st := reachable_step s .restart hs
  have hr : Reachable r := reachable_run _ hr0 pre
  have h := inv_reachable r hr
  have I := init_spec r cfg stage failMp h
  have H := harmless_run pre (restartManager s).st hpre (by simp [restartManager]) (by simp [restartManager])
  have hstore : r.store = s.store := H.1
  have hmap : r.fsMap = [] := H.2.1
  refine ⟨I.nopanic, ?_⟩
  intro hok mp rec hrec
  obtain ⟨hst, _, hall⟩ := I.onok hok
  have := hall mp rec (by rw [hstore]; exact hrec)
  have hm := this.2 (by rw [hmap]; rfl)
  have h' : Inv o.st := inv_init r cfg stage failMp h
  refine ⟨hm.1, hm.2, (h'.live_iff _ _).mpr hm.2, (I.cur_ok hst).1, ?_⟩
  show aget mp o.st.store ≠ none
  rw [I.store, hstore, hrec]; simp

/-! ### unknown mountpoints, readiness, crashes -/

/-- Unmounting a mountpoint that is neither recorded nor mounted succeeds (and does nothing),
provided the path is not an OS mountpoint; with an open store "not recorded" already implies
"not mounted". -/
theorem unmount_unknown_ok (s : St) (hs : Reachable s) (hrdy : s.status = .ready) (mp : Mp)
    (hrec : ¬ Recorded s mp) (hserved : s.closed = true → ¬ Served s mp) (ok : Bool) :
    unmount s mp ok false = ⟨s, .ok, []⟩ := by
  have h := inv_reachable s hs
  have hn : aget mp s.fsMap = none := by
    cases hcl : s.closed with
    | true => simpa [Served] using hserved hcl
    | false =>
      cases hm : aget mp s.fsMap with
      | none => rfl
      | some f => exact absurd (h.sub hcl mp (by simp [hm])) hrec
  simp [unmount, hrdy, hn]

/-- The current code never dereferences a nil filesystem or config: no operation of any history
panics. -/
theorem never_panics (s : St) (hs : Reachable s) (op : Op) : (step s op).resp ≠ .panic := by
  have h := inv_reachable s hs
  cases op with
  | init c st fm => exact (init_spec s c st fm h).nopanic
  | mount m l ok =>
    simp only [step, stepWith, mount]
    split
    · simp
    · rename_i hst
      have hrdy : s.status = .ready := by simpa using hst
      have hcur := (h.ready_fs hrdy).1
      have hcfg := h.fs_cfg hcur
      rcases mountCore_cases s m l ok with
        ⟨g', _, heq⟩ | ⟨_, hcn, _⟩ | ⟨f', _, _, _, heq⟩ | ⟨f', _, _, _, heq⟩
      · rw [heq]; simp only
        split
        · rename_i hc; exact absurd hc hcfg
        · simp
      · exact absurd hcn hcur
      · rw [heq]; simp only
        split
        · rename_i hc; exact absurd hc hcfg
        · simp
      · rw [heq]; simp
  | check m l ok =>
    simp only [step, stepWith, check]
    split
    · simp
    · split
      · simp
      · cases ok <;> simp
  | unmount m ok os =>
    simp only [step, stepWith, unmount]
    split
    · simp
    · split
      · cases os <;> simp
      · split <;> simp
  | close => simp only [step, stepWith, close]; split <;> simp
  | restart => simp [step, stepWith, restartManager]

/-! ### what the theorems exclude -/

/-- The code before commit d17aed2 (`Init`'s defer sets Ready unconditionally): a FAILED first
`Init` (a configFunc error) leaves the manager Ready with a nil filesystem, and the next `Mount`
dereferences it — `not_ready_rejects` and `never_panics` are false for that variant.  The current
code answers the same request with an error. -/
theorem initBuggy_counterexample :
    let o := initBuggy {} 0 .cfgfunc (fun _ => false)
    o.resp = .err ∧ o.st.status = .ready ∧ o.st.curFs = none ∧
    (mount o.st 0 0 true).resp = .panic ∧
    (runWith true {} [.init 0 .cfgfunc (fun _ => false), .mount 0 0 true]).status = .ready ∧
    (mount (init {} 0 .cfgfunc (fun _ => false)).st 0 0 true) =
      ⟨(init {} 0 .cfgfunc (fun _ => false)).st, .err, []⟩ := by
  decide

/-- `store_matches_serving` is stated for an open store.  `Close` (NotReady, database closed,
file removed) is not terminal in the current code: a later `Init` on the same `Server` fails in
restore ("database not open") but finds `curFs` set and turns the manager Ready again; a `Mount`
is then served and `storeFuseInfo`'s error is ignored — a served mountpoint without a record. -/
theorem reinit_after_close_serves_unrecorded :
    let nofail : Mp → Bool := fun _ => false
    let s := run {} [.init 0 .ok nofail, .close, .init 1 .ok nofail, .mount 3 1 true]
    s.closed = true ∧ s.status = .ready ∧ s.lastInit = some .err ∧
    aget 3 s.fsMap = some 1 ∧ aget 3 s.store = none := by
  decide

/-- Observation (no theorem above depends on it): the `Config` field of a record is `fm.config`
at the time of the `Mount`, and a re-`Init` that fails in a configFunc (or in construction) has
already replaced `fm.config` while the filesystem built from the previous configuration keeps
serving — the record of a new mount then carries configuration 2 although its owner was built
from configuration 1.  (`restoreFuseInfo` never reads the field.) -/
theorem failed_reinit_records_new_config_on_old_fs :
    let nofail : Mp → Bool := fun _ => false
    let s := run {} [.init 1 .ok nofail, .init 2 .cfgfunc nofail, .mount 0 0 true]
    s.lastInit = some .err ∧ aget 0 s.fsMap = some 0 ∧ aget 0 s.fsCfg = some 1 ∧
    (aget 0 s.store).map (·.cfg) = some 2 := by
  decide

/-! ### non-vacuity -/

/-- A history with a failed first `Init`, a re-`Init` with live mounts, a failing restore after a
manager restart and a repaired one: reachable, open, Ready, three instances involved. -/
def demoOps : List Op :=
  [ .init 0 .construct (fun _ => false),          -- failed first Init
    .mount 1 0 true,                              -- rejected
    .init 1 .ok (fun _ => false),                 -- fs 0
    .mount 1 1 true, .mount 2 2 true,             -- owned by fs 0
    .init 2 .ok (fun _ => false),                 -- re-init: fs 1, nothing re-mounted
    .mount 3 0 true,                              -- owned by fs 1
    .unmount 2 false false,                       -- fs.Unmount fails: stays
    .restart,
    .init 3 .ok (fun mp => mp == 2),              -- fs 2: restore stops at mp 2
    .init 3 .ok (fun _ => false) ]                -- fs 3 picks up the rest

example : (run {} demoOps).status = .ready ∧ (run {} demoOps).closed = false ∧
    (run {} demoOps).fsMap = [(1, 2), (2, 3), (3, 3)] ∧
    (run {} demoOps).store.map Prod.fst = [1, 2, 3] ∧
    (run {} demoOps).lastInit = some .ok := by decide

example : Reachable (run {} demoOps) := ⟨demoOps, rfl⟩

-- hypotheses of `reinit_keeps_owner` / `owner_stable`: a served mountpoint before a re-init
example : aget 1 (run {} (demoOps.take 5)).fsMap = some 0 := by decide
-- the re-init leaves it with instance 0 although `curFs` becomes 1
example : aget 1 (run {} (demoOps.take 6)).fsMap = some 0 ∧ (run {} (demoOps.take 6)).curFs = some 1 := by
  decide
-- a state with a recorded but unserved mountpoint exists, and its last Init reported the error
example : aget 3 (run {} (demoOps.take 10)).store ≠ none ∧ aget 3 (run {} (demoOps.take 10)).fsMap = none ∧
    (run {} (demoOps.take 10)).lastInit = some .err := by decide
-- `Harmless` / `NoConstruct` prefixes exist
example : ∀ op ∈ [Op.init 0 .cfgfunc (fun _ => false), .mount 0 0 true], Harmless op := by
  intro op h; simp at h; rcases h with rfl | rfl <;> simp [Harmless]
-- `unmount_unknown_ok`: Ready, open, mountpoint 7 unknown
example : (run {} demoOps).status = .ready ∧ ¬ Recorded (run {} demoOps) 7 := by
  unfold Recorded; decide

end SV.Props.C17
