/-
C15 (second part) — "waiting for prefetch returns after the configured timeout and never blocks
forever", for SEVERAL staggered callers, with time.  Model: SV/Model/Waiter.lean.
All theorems are for every timeout, every arrival schedule and every `done()` instant.
-/
import SV.Model.Waiter

namespace SV.Props.C15b
open SV.Waiter

/-- the channel is closed no later than any caller's own deadline -/
theorem closeTime_le_own (T : Nat) (d : Option Nat) (as : List Nat) (a : Nat) (h : a ∈ as) :
    ∃ c, closeTime T d as = some c ∧ c ≤ a + T := by
  induction as with
  | nil => cases h
  | cons x xs ih =>
    rcases List.mem_cons.mp h with rfl | h'
    · refine ⟨_, rfl, ?_⟩
      cases hc : closeTime T d xs <;> simp [minO] <;> omega
    · obtain ⟨c, hc, hle⟩ := ih h'
      refine ⟨_, rfl, ?_⟩
      simp [hc, minO]; omega

/-- the channel is closed no later than `done()` -/
theorem closeTime_le_done (T : Nat) (t : Nat) (as : List Nat) :
    ∃ c, closeTime T (some t) as = some c ∧ c ≤ t := by
  induction as with
  | nil => exact ⟨t, rfl, Nat.le_refl _⟩
  | cons x xs ih =>
    obtain ⟨c, hc, hle⟩ := ih
    refine ⟨_, rfl, ?_⟩
    simp [hc, minO]; omega

/-- **Bounded wait.** Every caller returns no later than its OWN entry + timeout — whatever the
other callers do, however many there are, whenever they enter, and even if prefetch never ends. -/
theorem wait_bounded_by_own_timeout (T : Nat) (d : Option Nat) (as : List Nat) (a : Nat) (h : a ∈ as) :
    a ≤ returnTime T d as a ∧ returnTime T d as a ≤ a + T := by
  obtain ⟨c, hc, hle⟩ := closeTime_le_own T d as a h
  simp [returnTime, hc]; omega

/-- a caller returns as soon as prefetch has called `done()` (at once if it enters afterwards) -/
theorem wait_returns_on_done (T t : Nat) (as : List Nat) (a : Nat) :
    returnTime T (some t) as a ≤ max a t := by
  obtain ⟨c, hc, hle⟩ := closeTime_le_done T t as
  simp [returnTime, hc]; omega

/-- more callers never close the channel later … -/
theorem closeTime_antitone (T : Nat) (d : Option Nat) (as : List Nat) (b : Nat) (c : Nat)
    (h : closeTime T d as = some c) : ∃ c', closeTime T d (b :: as) = some c' ∧ c' ≤ c := by
  refine ⟨_, rfl, ?_⟩
  simp [h, minO]; omega

/-- … so **another caller never delays anyone**: adding a caller (anywhere in time) can only make the
callers already there return earlier or at the same instant.  (This is the clause the shared,
re-armed timer of seeded change C15-E breaks, see `shared_timer_delays` below.) -/
theorem more_waiters_never_delay (T : Nat) (d : Option Nat) (as : List Nat) (b a : Nat) (h : a ∈ as) :
    returnTime T d (b :: as) a ≤ returnTime T d as a := by
  obtain ⟨c, hc, _⟩ := closeTime_le_own T d as a h
  obtain ⟨c', hc', hle⟩ := closeTime_antitone T d as b c hc
  simp [returnTime, hc, hc']; omega

/-- the order in which callers are listed is irrelevant -/
theorem closeTime_perm (T : Nat) (d : Option Nat) (as bs : List Nat) (h : as.Perm bs) :
    closeTime T d as = closeTime T d bs := by
  induction h with
  | nil => rfl
  | cons x _ ih => simp [closeTime, ih]
  | swap x y l =>
    simp only [closeTime]
    cases closeTime T d l <;> simp [minO] <;> omega
  | trans _ _ ih1 ih2 => exact ih1.trans ih2

/-- a lone caller with a stalled prefetch returns exactly at its timeout, with the timeout error -/
theorem lone_waiter_times_out (T a : Nat) :
    returnTime T none [a] a = a + T ∧ result T none [a] a = .timedOut := by
  simp [returnTime, result, closeTime, minO]

/-- a caller entering after the close returns at once with `nil` -/
theorem late_waiter_returns_at_once (T : Nat) (d : Option Nat) (as : List Nat) (a c : Nat)
    (hc : closeTime T d as = some c) (hlate : c ≤ a) (hT : 0 < T) :
    returnTime T d as a = a ∧ result T d as a = .nil := by
  simp [returnTime, result, hc]; omega

/-- `timedOut` is only ever reported at or after the caller's own deadline -/
theorem timedOut_only_at_own_deadline (T : Nat) (d : Option Nat) (as : List Nat) (a : Nat) (h : a ∈ as)
    (hr : result T d as a = .timedOut) : returnTime T d as a = a + T := by
  obtain ⟨c, hc, hle⟩ := closeTime_le_own T d as a h
  simp [result, hc] at hr
  simp [returnTime, hc]; omega

/-- with a stalled prefetch nothing closes the channel before one full timeout has elapsed -/
theorem closeTime_ge_timeout (T : Nat) (as : List Nat) (c : Nat) (h : closeTime T none as = some c) :
    T ≤ c := by
  induction as generalizing c with
  | nil => simp [closeTime] at h
  | cons x xs ih =>
    simp only [closeTime, Option.some.injEq] at h
    cases hx : closeTime T none xs with
    | none => simp [hx, minO] at h; omega
    | some c' => have := ih c' hx; simp [hx, minO] at h; omega

/-- **The shared, re-armed timer (seeded change C15-E) is unbounded**: for every bound `B` there is a
schedule (callers entering one time unit apart, timeout 2) on which the FIRST caller returns later
than `B`, although its own timeout is 2. -/
theorem sharedFire_consecutive (n k f : Nat) (hf : k < f) :
    sharedFire 2 (some f) (List.range' k n) = some (if n = 0 then f else k + n + 1) := by
  induction n generalizing k f with
  | zero => simp [sharedFire]
  | succ n ih =>
    rw [List.range'_succ]
    simp only [sharedFire, hf, if_true]
    rw [ih (k + 1) (k + 2) (by omega)]
    by_cases hn : n = 0 <;> simp [hn] <;> omega

theorem shared_timer_unbounded (n : Nat) :
    sharedReturn 2 (List.range' 0 (n + 1)) 0 = n + 2 ∧
    returnTime 2 none (List.range' 0 (n + 1)) 0 = 2 := by
  constructor
  · unfold sharedReturn
    rw [List.range'_succ]
    simp only [sharedFire]
    rw [sharedFire_consecutive n 1 2 (by omega)]
    by_cases hn : n = 0 <;> simp [hn] <;> omega
  · have h := wait_bounded_by_own_timeout 2 none (List.range' 0 (n + 1)) 0 (by simp [List.mem_range'])
    obtain ⟨c, hc, _⟩ := closeTime_le_own 2 none (List.range' 0 (n + 1)) 0 (by simp [List.mem_range'])
    have hge := closeTime_ge_timeout 2 (List.range' 0 (n + 1)) c hc
    simp [returnTime, hc] at h ⊢
    omega

theorem shared_timer_delays :
    sharedReturn 2 [0, 1, 2, 3, 4, 5, 6, 7, 8, 9] 0 = 11 ∧ returnTime 2 none [0, 1, 2, 3, 4, 5, 6, 7, 8, 9] 0 = 2 := by
  decide

-- non-vacuity: the schedule the harness replays (timeout 2, callers at 0,1,2,3,4)
example : [0, 1, 2, 3, 4].map (returnTime 2 none [0, 1, 2, 3, 4]) = [2, 2, 2, 3, 4] := by decide
example : (0 : Nat) ∈ [0, 1, 2, 3, 4] := by decide

end SV.Props.C15b
