/-
C09 — After a crash at any point the snapshotter restarts consistent and re-mounted.
Only property theorems and their non-vacuity examples live here.

Setting (see `SV/Model/Snap.lean`): `Reachable cfg0 s` — `s` is the state after some history of
calls (each with its own backend `Oracle`) and some PREFIX of the atomic steps of the call in flight:
exactly the states a crash can expose (mkdir/rename/RemoveAll atomic, bolt transactions
all-or-nothing).  `crash s` forgets the volatile part; `restore d cfg orc` is `NewSnapshotter` on the
durable image with configuration `cfg` and a fresh backend whose Mount outcomes are given by `orc`.
`CleanReachable` additionally asks that no call sets the label containerd.io/snapshot/remote itself.
-/
import SV.Lemmas.Snap

namespace SV.Props.C09
open SV.Snap

/-- The metadata invariant (distinct keys/ids, ids below the sequence, committed parents with
smaller ids, mount ⇒ directory) holds in every state a crash can expose. -/
theorem crash_state_invariant (cfg0 : Config) (s : State) (h : Reachable cfg0 s) : Inv s :=
  inv_reachable h

/-- Starting again succeeds, or fails — and it fails EXACTLY when some remote snapshot cannot be
mounted while allow_invalid_mounts_on_restart is off (and restoring is on).  Holds for every durable
image, in particular for every crash state. -/
theorem restore_fails_iff (d : Durable) (cfg : Config) (orc : Oracle) :
    ((restore d cfg orc).2 = .ok ∨ (restore d cfg orc).2 = .err .other) ∧
    ((restore d cfg orc).2 = .err .other ↔
      (cfg.noRestore = false ∧ cfg.allowInvalid = false ∧
        ∃ a ∈ d.snaps, isRemote a.labels = true ∧ orc.mountOk a.id = false)) :=
  restore_result d cfg orc

/-- After a successful restoring start on ANY crash state: the metadata is untouched, the
snapshotter is open, the backend mounts are exactly the committed remote snapshots whose Mount
succeeded (each once; the others are the tolerated invalid ones, which requires allow-invalid),
every mount has its directory, and the only directories touched are those of remote snapshots
(created if missing) — ordinary snapshots' directories and leftovers are as the crash left them. -/
theorem restart_consistent (cfg0 : Config) (s : State) (h : Reachable cfg0 s) (cfg : Config)
    (hnr : cfg.noRestore = false) (orc : Oracle) (hok : (restore (crash s) cfg orc).2 = .ok) :
    (restore (crash s) cfg orc).1.snaps = s.snaps ∧
    (restore (crash s) cfg orc).1.closed = false ∧
    (∀ n, n ∈ (restore (crash s) cfg orc).1.mounts ↔
        ∃ a ∈ s.snaps, isRemote a.labels = true ∧ a.id = n ∧ orc.mountOk n = true) ∧
    (restore (crash s) cfg orc).1.mounts.Nodup ∧
    (∀ n ∈ (restore (crash s) cfg orc).1.mounts, Dir.id n ∈ (restore (crash s) cfg orc).1.dirs) ∧
    (∀ a ∈ s.snaps, isRemote a.labels = true → a.kind = .committed →
        Dir.id a.id ∈ (restore (crash s) cfg orc).1.dirs ∧
        (a.id ∈ (restore (crash s) cfg orc).1.mounts ∨ (orc.mountOk a.id = false ∧ cfg.allowInvalid = true))) ∧
    (∀ x, x ∈ (restore (crash s) cfg orc).1.dirs ↔
        x ∈ s.dirs ∨ ∃ a ∈ s.snaps, isRemote a.labels = true ∧ x = Dir.id a.id) := by
  have hinv := inv_reachable h
  have hinv' : Inv (restore (crash s) cfg orc).1 := inv_runOp (inv_ofDurable hinv cfg) orc (.restart cfg)
  obtain ⟨h1, h2, h3⟩ := restore_ok_state (crash s) cfg orc hnr hok
  refine ⟨(restore_snaps (crash s) cfg orc).1, h1, h2, hinv'.mountNodup, hinv'.mountDir, ?_, h3⟩
  intro a ha har _
  refine ⟨(h3 _).mpr (Or.inr ⟨a, ha, har, rfl⟩), ?_⟩
  by_cases hm : orc.mountOk a.id = true
  · exact Or.inl ((h2 _).mpr ⟨a, ha, har, rfl, hm⟩)
  · have hm' : orc.mountOk a.id = false := by simpa using hm
    right
    refine ⟨hm', ?_⟩
    cases hai : cfg.allowInvalid with
    | true => rfl
    | false =>
      have := (restore_fails_iff (crash s) cfg orc).2.mpr ⟨hnr, hai, a, ha, har, hm'⟩
      rw [this] at hok; cases hok

/-- Every Mount that restore issues is for a remote-labelled snapshot, at its id, with the labels
recorded for it; no Check or Unmount is issued; and when the start succeeds every remote-labelled
snapshot got its Mount. -/
theorem restore_mounts_with_recorded_labels (d : Durable) (cfg : Config) (orc : Oracle) :
    (∀ id l ok, Step.fsMount id l ok ∈ (plan (ofDurable d cfg) orc (.restart cfg)).1 →
      ∃ a ∈ d.snaps, isRemote a.labels = true ∧ id = a.id ∧ l = a.labels ∧ ok = orc.mountOk a.id) ∧
    (∀ st ∈ (plan (ofDurable d cfg) orc (.restart cfg)).1, st.isPlain = true ∧ ∀ id ok, st ≠ .fsCheck id ok) ∧
    (cfg.noRestore = false → (restore d cfg orc).2 = .ok → ∀ a ∈ d.snaps, isRemote a.labels = true →
      Step.fsMount a.id a.labels (orc.mountOk a.id) ∈ (plan (ofDurable d cfg) orc (.restart cfg)).1) := by
  refine ⟨?_, ?_, ?_⟩
  · intro id l ok hmem
    simp only [plan, restartPlan] at hmem
    have key : Step.fsMount id l ok ∈ (restoreSteps cfg.allowInvalid orc (remoteOf d.snaps)).1 →
        ∃ a ∈ d.snaps, isRemote a.labels = true ∧ id = a.id ∧ l = a.labels ∧ ok = orc.mountOk a.id := by
      intro hm
      obtain ⟨t, ht, h⟩ := restoreSteps_mount_steps _ _ _ id l ok hm
      have ht' := List.mem_filter.mp ht
      exact ⟨t, ht'.1, ht'.2, h⟩
    split at hmem
    · simp at hmem
    · split at hmem
      · simp only [List.mem_cons, List.mem_append, reduceCtorEq, List.not_mem_nil, or_false, false_or] at hmem
        exact key hmem
      · simp only [List.mem_cons, reduceCtorEq, false_or] at hmem
        exact key hmem
  · intro st hst
    refine ⟨restartPlan_plain _ orc cfg st hst, ?_⟩
    intro id ok e
    subst e
    have hnc : ∀ (allow : Bool) (tasks : List Snap), Step.fsCheck id ok ∉ (restoreSteps allow orc tasks).1 := by
      intro allow tasks
      induction tasks with
      | nil => simp [restoreSteps]
      | cons sn rest ih =>
        unfold restoreSteps
        split
        · simp [ih]
        · split
          · simp [ih]
          · simp
    simp only [plan, restartPlan] at hst
    split at hst
    · simp at hst
    · split at hst
      · simp only [List.mem_cons, List.mem_append, reduceCtorEq, List.not_mem_nil, or_false, false_or] at hst
        exact hnc _ _ hst
      · simp only [List.mem_cons, reduceCtorEq, false_or] at hst
        exact hnc _ _ hst
  · intro hnr hok a ha har
    simp only [restore, runOp, plan, restartPlan, hnr, Bool.false_eq_true, if_false] at hok ⊢
    have hd : (ofDurable d cfg).snaps = d.snaps := rfl
    by_cases hres : (restoreSteps cfg.allowInvalid orc (remoteOf (ofDurable d cfg).snaps)).2 = true
    · simp only [hres, if_true]
      have := restoreSteps_all_mounted _ _ _ hres a (List.mem_filter.mpr ⟨by rw [hd]; exact ha, har⟩)
      simp [this]
    · simp [hres] at hok

/-- Every snapshot the previous process had acknowledged is still present, unchanged, after the
restart — at whatever instant of whatever call the process died — unless the call in flight is the
one that consumes it (Remove / Commit / Update of that very key). -/
theorem acknowledged_snapshots_survive (cfg0 : Config) (hist : List (Op × Oracle)) (op : Op) (orc : Oracle)
    (k : Nat) (a : Snap) (ha : a ∈ (runOps (init cfg0) hist).snaps) (hk : a.key ∉ consumes op)
    (cfg : Config) (orc' : Oracle) :
    a ∈ (restore (crash (applySteps (runOps (init cfg0) hist)
          ((plan (runOps (init cfg0) hist) orc op).1.take k))) cfg orc').1.snaps := by
  rw [(restore_snaps _ cfg orc').1]
  show a ∈ (applySteps (runOps (init cfg0) hist) ((plan (runOps (init cfg0) hist) orc op).1.take k)).snaps
  apply mem_applySteps_of_untouched ha
  intro st hst hmem
  rcases plan_touches _ orc op st (List.mem_of_mem_take hst) a.key hmem with h | h
  · exact hk h
  · exact hasKey_false.mp h a ha rfl

/-- ... and it is usable and removable: its directory exists after the restart (calls that do not
set the remote label themselves). -/
theorem acknowledged_snapshots_have_dirs (cfg0 : Config) (s : State) (h : CleanReachable cfg0 s) (cfg : Config)
    (hnr : cfg.noRestore = false) (orc : Oracle) (hok : (restore (crash s) cfg orc).2 = .ok) :
    ∀ a ∈ (restore (crash s) cfg orc).1.snaps, Dir.id a.id ∈ (restore (crash s) cfg orc).1.dirs := by
  intro a ha
  rw [(restore_snaps (crash s) cfg orc).1] at ha
  obtain ⟨_, _, h3⟩ := restore_ok_state (crash s) cfg orc hnr hok
  rw [h3]
  rcases (cinv_reachable h).dirOrRemote a ha with hd | hr
  · exact Or.inl hd
  · exact Or.inr ⟨a, ha, hr, rfl⟩

/-- One cleanup pass after the restart removes every directory the dead process left half-made
(temporaries, renamed-but-uncommitted ids, removed-but-undeleted ids): the directories are then
exactly those of the live snapshots — from ANY crash state, including a crash inside the very first
createSnapshot. -/
theorem one_cleanup_suffices (cfg0 : Config) (s : State) (h : CleanReachable cfg0 s) (cfg : Config)
    (hnr : cfg.noRestore = false) (orc : Oracle) (hok : (restore (crash s) cfg orc).2 = .ok)
    (orc' : Oracle) (order : List Dir) :
    (runOp (restore (crash s) cfg orc).1 orc' (.cleanup order)).2 = .ok ∧
    (runOp (restore (crash s) cfg orc).1 orc' (.cleanup order)).1.snaps = s.snaps ∧
    ∀ d, d ∈ (runOp (restore (crash s) cfg orc).1 orc' (.cleanup order)).1.dirs ↔
      ∃ a ∈ s.snaps, d = Dir.id a.id := by
  obtain ⟨h1, _, _⟩ := restore_ok_state (crash s) cfg orc hnr hok
  have had : AllDirs (restore (crash s) cfg orc).1 := acknowledged_snapshots_have_dirs cfg0 s h cfg hnr orc hok
  obtain ⟨c1, c2⟩ := cleanup_exact_of_allDirs _ h1 had orc' order
  have hsn : (runOp (restore (crash s) cfg orc).1 orc' (.cleanup order)).1.snaps = s.snaps := by
    simp only [runOp, plan, h1, Bool.false_eq_true, if_false, cleanupPlan]
    rw [(cleanupSteps_state orc' _ _).1]
    exact (restore_snaps (crash s) cfg orc).1
  refine ⟨c1, hsn, ?_⟩
  intro d
  rw [c2, hsn]

/-- With NoRestore the start is the identity: it succeeds, issues no backend call, mounts nothing
and leaves the durable state exactly as it was. -/
theorem norestore_is_identity (d : Durable) (cfg : Config) (orc : Oracle) (h : cfg.noRestore = true) :
    (restore d cfg orc).2 = .ok ∧ (restore d cfg orc).1.toDurable = d ∧ (restore d cfg orc).1.mounts = [] ∧
    (restore d cfg orc).1.closed = false ∧
    (plan (ofDurable d cfg) orc (.restart cfg)).1 = [.crash cfg, .opened] := by
  simp [restore, runOp, plan, restartPlan, h, applySteps, applyStep, ofDurable]

/-! ### non-vacuity -/

def okOracle : Oracle := ⟨fun _ => true, fun _ => true, fun _ => true⟩

/-- a remote layer c1, then the process dies inside `Prepare("k2", parent c1)` after the rename,
before the metadata commit (4 steps into the call) -/
def demoHist : List (Op × Oracle) := [(.prepare "k1" "" [(targetLabel, "c1")], okOracle)]
def demoCrash : State :=
  applySteps (runOps (init {}) demoHist) ((plan (runOps (init {}) demoHist) okOracle (.prepare "k2" "c1" [])).1.take 4)

example : CleanReachable {} demoCrash :=
  ⟨demoHist, .prepare "k2" "c1" [], okOracle, 4,
    by intro p hp; simp [demoHist] at hp; subst hp; show isRemote _ = false; decide,
    by show isRemote _ = false; decide, rfl⟩
-- the crash image: the remote snapshot, its directory and the renamed-but-uncommitted directory 2
example : demoCrash.dirs = [.id 1, .id 2] := by decide
example : demoCrash.snaps.map (·.key) = ["c1"] := by decide
-- restart re-mounts c1 with its recorded labels; one cleanup reclaims directory 2
example : (restore (crash demoCrash) {} okOracle).2 = .ok := by decide
example : (restore (crash demoCrash) {} okOracle).1.mounts = [1] := by decide
example : (runOp (restore (crash demoCrash) {} okOracle).1 okOracle (.cleanup [])).1.dirs = [.id 1] := by decide
-- a failing re-mount is refused, or tolerated with allow-invalid
example : (restore (crash demoCrash) {} ⟨fun _ => false, fun _ => true, fun _ => true⟩).2 = .err .other := by decide
example : (restore (crash demoCrash) { allowInvalid := true } ⟨fun _ => false, fun _ => true, fun _ => true⟩).2 = .ok := by
  decide
-- a crash inside the very first createSnapshot (nothing ever committed): cleanup reclaims the temporary
example : (runOp (restore (crash (applySteps (init {}) ((plan (init {}) okOracle (.prepare "k1" "" [])).1.take 1)))
    {} okOracle).1 okOracle (.cleanup [])).1.dirs = [] := by decide

end SV.Props.C09
