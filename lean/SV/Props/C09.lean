/-
C09 — After a crash at any point the snapshotter restarts consistent and re-mounted.
Only property theorems and their non-vacuity examples live here.
-/
import SV.Lemmas.Snap

namespace SV.Props.C09
open SV.Snap

/-- The metadata invariant (distinct keys/ids, ids below the sequence, committed parents with
smaller ids) holds in every state a crash can expose. -/
theorem crash_state_invariant (cfg0 : Config) (s : State) (h : Reachable cfg0 s) : Inv s :=
  inv_reachable h

end SV.Props.C09
