/-
C02x — the uncompressed chunk cache / compressed blob cache serve a key's own bytes after ANY history
of stores whose file commit may FAIL (seeded change C02-E: the callers aborted a writer after its Commit
had reported an error; the writer's buffer, already the on-memory LRU value of the key, went back to
the pool and was filled with the next chunk).

Model: SV/Model/PoolCache.lean (buffer ownership in cache/cache.go `directoryCache.Add` as used by
fs/reader `cacheData` / `readAndCache` and fs/remote `cacheChunkData`).  This discharges, for the
on-memory part of the directory cache, the "finite-map cache" parameter of `SV.Props.C02`'s read
theorem under storage faults: a hit for key `k` is `content k`, whatever failed before.
-/
import SV.Lemmas.PoolCache

namespace SV.Props.C02x
open SV.PoolCache

/-- **Hits are the key's own bytes under any storage-fault history.**  Callers as in /repo (exactly one
of Commit / Abort per writer): after ANY history of chunk stores — each with its own pool oracle and
with the file part of its commit failing or not — and evictions of any entry at any time, an on-memory
hit for `k` returns `content k`. -/
theorem hit_is_own_chunk (content : Nat → Bytes) (ops : List Op) (k : Nat) (v : Bytes)
    (h : get (run content false init ops) k = some v) : v = content k :=
  get_of_inv (inv_run ops (inv_init content)) h

/-- **Ownership.**  Under the same histories no buffer is at once in the pool and the value of an LRU
entry, no buffer is the value of two entries, and the pool holds no buffer twice. -/
theorem buffers_have_one_owner (content : Nat → Bytes) (ops : List Op) :
    let s := run content false init ops
    (∀ b ∈ s.pool, ∀ e ∈ s.lru, e.2 ≠ b) ∧ (s.lru.map (·.2)).Nodup ∧ s.pool.Nodup := by
  have h := inv_run (content := content) ops (inv_init content)
  exact ⟨fun b hb => (h.sep b hb).2, h.nd, h.pnd⟩

/-- **The protocol is necessary (the seeded change).**  With callers that Abort after a failed Commit
there is a two-store history — chunk 1 stored while the file commit fails, then chunk 2 stored
normally — after which a hit for key 1 returns chunk 2's bytes. -/
theorem abort_after_failed_commit_serves_foreign_bytes :
    ∃ (content : Nat → Bytes) (ops : List Op) (k : Nat) (v : Bytes),
      get (run content true init ops) k = some v ∧ v ≠ content k :=
  ⟨fun k => [k, k], [.store 1 none true, .store 2 (some 0) false], 1, [2, 2], by decide, by decide⟩

/-- Same callers, a key that is still in the LRU is stored again while the commit fails: its writer's
buffer is put into the pool twice, and two later chunks share it — a hit for key 2 returns chunk 3. -/
theorem abort_after_failed_restore_aliases_later_chunks :
    ∃ (content : Nat → Bytes) (ops : List Op) (k : Nat) (v : Bytes),
      get (run content true init ops) k = some v ∧ v ≠ content k :=
  ⟨fun k => [k], [.store 1 none false, .store 1 none true, .store 2 (some 0) false, .store 3 (some 0) false],
    2, [3], by decide, by decide⟩

/-- Non-vacuity of `hit_is_own_chunk`: the same two-store history with /repo's callers hits and is right. -/
example : get (run (fun k => [k, k]) false init [.store 1 none true, .store 2 (some 0) false]) 1 = some [1, 1] := by
  decide

example : get (run (fun k => [k]) false init
    [.store 1 none false, .store 1 none true, .evict 0, .store 2 (some 0) false, .store 3 (some 0) false]) 2 = some [2] := by
  decide

end SV.Props.C02x
