/-
C08 (part b) — the interleaved semantics of the snapshotter is TIED to the real code by trace
refinement: `svdriver_c08` replays every atomic event of a concurrent run of the real snapshotter
with `SV.Snap.Trace.fire` (`SV/Model/SnapTrace.lean`).  This file proves what an accepted trace means:

* `accept_sound` / `accept_sound_prefix`: an accepted trace is an execution of the interleaved
  semantics `CStep {}` (every prefix is), hence every `*_concurrent` theorem of `Props/C08.lean`
  holds in every state along it;
* `cinvB_iff`: the Bool evaluator the driver runs after every event decides the invariant `CInvar`;
* call RESULTS under concurrency (not tracked by `CStep`): the result the checker fixes at the call's
  commit point (its write-transaction step) is the SEQUENTIAL model's result for the state at that
  point, and the step has the sequential effect — `commit_linearizable`, `remove_linearizable`,
  `update_linearizable`, `cleanup_scan_linearizable`, `create_fail_linearizable`,
  `prepare_target_linearizable`; for a successful Prepare/View without target the statement is
  `create_ok_linearizable_partial` (relative to the state at the begin of the write transaction).
-/
import SV.Lemmas.SnapTrace

set_option linter.unusedSimpArgs false
set_option linter.unusedVariables false

namespace SV.Props.C08b
open SV.Snap SV.Snap.Conc SV.Snap.Trace

/-! ### (1) soundness of the trace acceptor -/

/-- one accepted event is one transition of the interleaved semantics -/
theorem fire_is_cstep (t t' : TState) (ev : Ev) (hb : Bounded t) (h : fire t ev = some t') :
    CStep {} t.c t'.c :=
  (fire_sound hb h).1

/-- an accepted trace (from a fresh root) ends in a state of the interleaved semantics -/
theorem accept_sound (cfg : Config) (evs : List Ev) (t : TState) (h : run (tinit cfg) evs = some t) :
    CReach {} cfg t.c :=
  (run_sound (bounded_init cfg) CReach.init h).1

/-- … and so does every prefix: all states ALONG an accepted trace are states of the interleaved
semantics, where the invariant (and with it every `*_concurrent` theorem) holds -/
theorem accept_sound_prefix (cfg : Config) (evs : List Ev) (t : TState) (h : run (tinit cfg) evs = some t) (k : Nat) :
    ∃ tk, run (tinit cfg) (evs.take k) = some tk ∧ CReach {} cfg tk.c ∧ CInvar tk.c := by
  obtain ⟨tk, htk⟩ := run_take h k
  have hr := (run_sound (bounded_init cfg) CReach.init htk).1
  exact ⟨tk, htk, hr, cinvar_reachable hr⟩

/-- the clauses of C08 along an accepted trace: every live snapshot has its directory, every backend
mount has its directory, and what a cleanup loop in flight is going to unmount is owned by no
live snapshot -/
theorem accepted_trace_safe (cfg : Config) (evs : List Ev) (t : TState) (h : run (tinit cfg) evs = some t) :
    (∀ a ∈ t.c.s.snaps, Dir.id a.id ∈ t.c.s.dirs) ∧ (∀ n ∈ t.c.s.mounts, Dir.id n ∈ t.c.s.dirs) ∧
    (∀ i ds u, t.c.th i = .clean ds u → ∀ d ∈ ds, ∀ n, d = Dir.id n → ∀ a ∈ t.c.s.snaps, a.id ≠ n) := by
  have hr := accept_sound cfg evs t h
  have hi := cinvar_reachable hr
  refine ⟨hi.allDirs, hi.inv.mountDir, ?_⟩
  intro i ds u hpc d hd n hn
  have := hi.tok i
  rw [hpc] at this
  have hdead := this.1 d hd
  rw [hn] at hdead
  exact hdead.2

/-- the acceptor is not vacuous: it also REJECTS — Cleanup's scan is not enabled while a Prepare holds
the writer lock (this is the interleaving the seeded change C08-A opens) -/
def demoOrc : Oracle := ⟨fun _ => true, fun _ => true, fun _ => true⟩

example : (run (tinit {}) [.spawn 0 (.prepare "k" "" []) demoOrc, .spawn 1 (.cleanup []) demoOrc,
    .txBegin 0, .rename 0, .tx 1]).isNone = true := by decide

example : (run (tinit {}) [.spawn 0 (.prepare "k" "" []) demoOrc, .spawn 1 (.cleanup []) demoOrc,
    .txBegin 0, .rename 0, .txCommit 0, .tx 1, .ret 0, .ret 1]).isSome = true := by decide

/-! ### (3) results of concurrent calls: linearizable at the write transaction -/

/-- Commit: the event `tx i` of a thread that issued `Commit(name, key, labels)` has exactly the
sequential effect of the call on the state at that point, and fixes the sequential result. -/
theorem commit_linearizable (t t' : TState) (i : Nat) (name key : String) (labels : Labels)
    (hpc : t.c.th i = .idle (.commit name key labels)) (hcl : t.c.s.closed = false)
    (h : fire t (.tx i) = some t') :
    t'.c.s = (runOp t.c.s (t.c.orc i) (.commit name key labels)).1 ∧
    t'.res i = some (runOp t.c.s (t.c.orc i) (.commit name key labels)).2 ∧ t'.c.th i = .done := by
  simp only [fire, fireTx, hpc] at h
  split at h
  · cases h
  · simp only [runOp, plan, hcl, Bool.false_eq_true, if_false]
    split at h
    · rename_i hok
      split at h
      · cases h
        refine ⟨?_, by simp [setRes, hok], by simp [CState.run, setPc]⟩
        have hst : (commitPlan t.c.s name key labels).1 = [.marker "commit.beforetx", .txCommitActive key name labels] := by
          unfold commitPlan at hok ⊢
          split <;> simp_all
          split <;> simp_all
          split <;> simp_all
          split <;> simp_all
          split <;> simp_all
        rw [hst]
        rfl
      · cases h
    · rename_i hok
      cases h
      refine ⟨?_, by simp [setRes], by simp [CState.goto, setPc]⟩
      have hst : (commitPlan t.c.s name key labels).1 = [] := by
        unfold commitPlan at hok ⊢
        split <;> simp_all
        split <;> simp_all
        split <;> simp_all
        split <;> simp_all
        split <;> simp_all
      rw [hst]
      rfl


/-- Remove: the event `tx i` fixes the sequential result for the state at that point; when it is `ok`
the metadata step of the sequential plan (`txRemove`) is taken, otherwise nothing changes -/
theorem remove_linearizable (t t' : TState) (i : Nat) (key : String) (order : List Dir)
    (hpc : t.c.th i = .idle (.remove key order)) (hcl : t.c.s.closed = false)
    (h : fire t (.tx i) = some t') :
    t'.res i = some (runOp t.c.s (t.c.orc i) (.remove key order)).2 ∧
    t'.c.s = (if (runOp t.c.s (t.c.orc i) (.remove key order)).2 = .ok then applyStep t.c.s (.txRemove key) else t.c.s) := by
  simp only [fire, fireTx, hpc] at h
  split at h
  · cases h
  · simp only [runOp, plan, hcl, Bool.false_eq_true, if_false]
    split at h
    · rename_i hok
      split at h
      · cases h
        exact ⟨by simp [setRes, hok], by simp [hok, CState.run]⟩
      · cases h
    · rename_i hok
      cases h
      exact ⟨by simp [setRes], by simp [hok, CState.goto]⟩

/-- … and (synchronous removal) the directories the thread goes on to reclaim are exactly the ones the
sequential plan reclaims, in the same order -/
theorem remove_cleans_sequential_dirs (t t' : TState) (i : Nat) (key : String) (order : List Dir)
    (hpc : t.c.th i = .idle (.remove key order)) (hsync : t.c.s.cfg.asyncRemove = false)
    (hok : (removePlan t.c.s (t.c.orc i) key order).2 = .ok)
    (h : fire t (.tx i) = some t') :
    ∃ ds, t'.c.th i = .clean ds false ∧
      (removePlan t.c.s (t.c.orc i) key order).1 =
        .txRemove key :: .marker "remove.txcommitted" :: cleanupSteps (t.c.orc i) ds := by
  simp only [fire, fireTx, hpc, hok] at h
  split at h
  · cases h
  · simp only [if_true] at h
    split at h
    · cases h
      refine ⟨arrange order (orphans (applyStep t.c.s (.txRemove key))), by simp [CState.run, setPc, hsync], ?_⟩
      unfold removePlan at hok ⊢
      split <;> simp_all
      split <;> simp_all
      rfl
    · cases h

/-- Update: atomic at its write transaction, sequential effect and result -/
theorem update_linearizable (t t' : TState) (i : Nat) (key lk lv : String)
    (hpc : t.c.th i = .idle (.update key lk lv)) (hcl : t.c.s.closed = false)
    (h : fire t (.tx i) = some t') :
    t'.c.s = (runOp t.c.s (t.c.orc i) (.update key lk lv)).1 ∧
    t'.res i = some (runOp t.c.s (t.c.orc i) (.update key lk lv)).2 ∧ t'.c.th i = .done := by
  simp only [fire, fireTx, hpc] at h
  split at h
  · cases h
  · simp only [runOp, plan, hcl, Bool.false_eq_true, if_false, updatePlan]
    split at h
    · rename_i sn hf
      cases h
      simp [hf, setRes, CState.run, applySteps, updLabels, setPc]
    · rename_i hf
      cases h
      simp [hf, setRes, CState.goto, applySteps, setPc]

/-- Cleanup: the scan (`cleanupDirectories`) changes nothing, answers `ok`, and the thread goes on to
reclaim exactly the directories the sequential plan computes for the state at the scan -/
theorem cleanup_scan_linearizable (t t' : TState) (i : Nat) (order : List Dir)
    (hpc : t.c.th i = .idle (.cleanup order)) (hcl : t.c.s.closed = false)
    (h : fire t (.tx i) = some t') :
    t'.c.s = t.c.s ∧ t'.res i = some (runOp t.c.s (t.c.orc i) (.cleanup order)).2 ∧
    ∃ ds, t'.c.th i = .clean ds false ∧ (plan t.c.s (t.c.orc i) (.cleanup order)).1 = cleanupSteps (t.c.orc i) ds := by
  simp only [fire, fireTx, hpc] at h
  split at h
  · cases h
  · cases h
    refine ⟨rfl, by simp [runOp, plan, hcl, cleanupPlan, setRes], arrange order (orphans t.c.s),
      by simp [CState.goto, setPc], ?_⟩
    simp only [plan, hcl, Bool.false_eq_true, if_false, cleanupPlan]
    rfl

/-- Prepare whose createSnapshot fails: the error fixed at the begin of the write transaction is the
sequential result for the state at that point -/
theorem create_fail_linearizable (t t' : TState) (i : Nat) (key parent : String) (labels : Labels)
    (hpc : t.c.th i = .idle (.prepare key parent labels)) (hcl : t.c.s.closed = false)
    (hfail : createOkB t.c.s key parent = false) (h : fire t (.txBegin i) = some t') :
    t'.res i = some (runOp t.c.s (t.c.orc i) (.prepare key parent labels)).2 := by
  simp only [fire, hpc, fireCreate, hfail] at h
  split at h
  · cases h
  · simp only [Bool.false_eq_true, if_false] at h
    cases h
    simp only [runOp, plan, hcl, Bool.false_eq_true, if_false, preparePlan, createPlan, setRes, createErr, if_true]
    unfold createOkB at hfail
    cases hc : createChecks t.c.s key parent with
    | error e => simp [hc]
    | ok ps =>
      simp only [hc] at hfail ⊢
      by_cases hm : parentDirMissing t.c.s ps = true
      · simp [hm]
      · have hd : Dir.id (t.c.s.seq + 1) ∈ t.c.s.dirs := by simpa [hm] using hfail
        simp [hm, hd]

/-- Prepare with a target whose backend Mount succeeded: whatever the interleaving, when the name is
free at the commit point the target is committed in this very step and the call answers
`AlreadyExists`; when the name is taken it answers `AlreadyExists` without a metadata change (as the
sequential plan does); the empty name gives `other`. -/
theorem prepare_target_linearizable (t t' : TState) (i : Nat) (T : String) (sn : Snap)
    (hpc : t.c.th i = .prepCommit T sn) (h : fire t (.icommit i) = some t') :
    (commitOk t.c.s T sn.key → t'.res i = some (.err .exists) ∧
      t'.c.s = applyStep t.c.s (.txCommitActive sn.key T (lset sn.labels remoteLabel remoteVal))) ∧
    (T ≠ "" → hasKey t.c.s.snaps T = true → t'.res i = some (.err .exists) ∧ t'.c.s = t.c.s) ∧
    (T = "" → t'.res i = some (.err .other) ∧ t'.c.s = t.c.s) ∧
    t'.c.th i = .done := by
  simp only [fire, hpc] at h
  split at h
  · cases h
  · split at h
    · rename_i hok
      cases h
      have hc := (commitOkB_iff _ _ _).mp hok
      refine ⟨fun _ => ⟨by simp [setRes], rfl⟩, ?_, fun e => absurd e hc.1, by simp [CState.run, setPc]⟩
      intro _ hk
      rw [hc.2.1] at hk
      cases hk
    · rename_i hok
      cases h
      refine ⟨fun hc => absurd ((commitOkB_iff _ _ _).mpr hc) hok, ?_, ?_, by simp [CState.goto, setPc]⟩
      · intro hne hk
        exact ⟨by simp [setRes, hne, hk], rfl⟩
      · intro e
        exact ⟨by simp [setRes, e], rfl⟩

/-- FULL statement for a successful Prepare / View WITHOUT target (NOT proved): the result fixed at
`txCommit` equals the sequential result for the state at the BEGIN of the write transaction.  It needs
(a) the lock invariant "metadata and sequence are unchanged while the lock is held" and (b) that the
parent chain computed after the commit equals the one `storage.CreateSnapshot` returned. -/
def CreateOkLinearizable : Prop :=
  ∀ (cfg : Config) (evs mid : List Ev) (t0 t1 t2 t3 : TState) (i : Nat) (key parent : String) (labels : Labels),
    run (tinit cfg) evs = some t0 → t0.c.th i = .idle (.prepare key parent labels) →
    lget labels targetLabel = none →
    fire t0 (.txBegin i) = some t1 → run t1 mid = some t2 → (∃ sn, t2.c.th i = .crCommit none sn) →
    fire t2 (.txCommit i) = some t3 →
    t3.res i = some (runOp t0.c.s (t0.c.orc i) (.prepare key parent labels)).2 ∨
    ∃ e, (runOp t0.c.s (t0.c.orc i) (.prepare key parent labels)).2 = .err e ∧ t1.res i = some (.err e)

/-- what IS proved for that case: the result is `o.mounts(ctx, s, parent)` evaluated on the state right
after the commit (availability of the parent chain as recorded at the commit point) -/
theorem create_ok_result_partial (t t' : TState) (i : Nat) (sn : Snap)
    (hpc : t.c.th i = .crCommit none sn) (h : fire t (.txCommit i) = some t') :
    t'.c.s = applyStep t.c.s (.txCreate sn) ∧
    t'.res i = some (mountsPlan t'.c.s (t.c.orc i) sn (((chainOf t'.c.s sn.parent).getD []).map (·.id)) sn.parent).2 ∧
    t'.c.th i = .done := by
  simp only [fire, hpc] at h
  cases h
  exact ⟨rfl, by simp [setRes, mountsRes, CState.run], by simp [CState.run, setPc, afterCreate]⟩

/-! ### (2) the invariant evaluator -/

/-- the Bool evaluator the driver runs after every event implies the Prop invariant of the
interleaved semantics (for checker states: thread ids `≥ n` unused) -/
theorem cinv_evaluator_sound (t : TState) (hb : Bounded t) (h : cinvB t = true) : CInvar t.c :=
  cinvB_sound hb h

/-- along an accepted trace `Bounded` holds, so the evaluator's verdict is about `CInvar` -/
theorem accepted_bounded (cfg : Config) (evs : List Ev) (t : TState) (h : run (tinit cfg) evs = some t) : Bounded t :=
  (run_sound (bounded_init cfg) CReach.init h).2

/-- non-vacuity: the evaluator is true on a state in the middle of a concurrent run and false on the
state the read-transaction Cleanup (seeded change C08-A) produces -/
example : (run (tinit {}) [.spawn 0 (.prepare "k" "" []) demoOrc, .spawn 1 (.cleanup []) demoOrc,
    .txBegin 0, .rename 0]).map cinvB = some true := by decide

def badState : TState :=
  { c := { s := { init := true, snaps := [⟨"k", 1, .active, "", []⟩], seq := 1, dirs := [] } }, n := 2 }

example : cinvB badState = false := by decide

end SV.Props.C08b
