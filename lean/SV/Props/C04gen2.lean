/-
C04 — regenerated tie (widened).  `SV/Gen/Estargz.lean` is produced from the CURRENT Go sources by
`tools/go2lean` on every run: the footer-size constants of estargz, estargz/zstdchunked and
estargz/externaltoc and the four `FooterSize()` methods.  The theorems state that they are the
sizes the hand-written C04 model (`SV.Hostile`) uses for its length checks.
-/
import SV.Gen.Estargz
import SV.Model.Hostile

namespace SV.Props.C04gen2
open SV

theorem footerSize_const_eq : Gen.Estargz.FooterSize = (Hostile.gzFooterSize : Int) := rfl
theorem legacyFooterSize_const_eq : Gen.Estargz.legacyFooterSize = (Hostile.legacyFooterSize : Int) := rfl
theorem zstdFooterSize_const_eq : Gen.Estargz.zstdFooterSize = (Hostile.zstdFooterSize : Int) := rfl
theorem extFooterSize_const_eq : Gen.Estargz.extFooterSize = (Hostile.extFooterSize : Int) := rfl
/-- `(*GzipDecompressor).FooterSize()` -/
theorem gzip_FooterSize_eq : Gen.Estargz.gzipDecompressor_FooterSize = (Hostile.gzFooterSize : Int) := rfl
/-- `(*LegacyGzipDecompressor).FooterSize()` -/
theorem legacy_FooterSize_eq : Gen.Estargz.legacyGzipDecompressor_FooterSize = (Hostile.legacyFooterSize : Int) := rfl
/-- `(*zstdchunked.Decompressor).FooterSize()` -/
theorem zstd_FooterSize_eq : Gen.Estargz.zstdDecompressor_FooterSize = (Hostile.zstdFooterSize : Int) := rfl
/-- `(*externaltoc.GzipDecompressor).FooterSize()` -/
theorem ext_FooterSize_eq : Gen.Estargz.extDecompressor_FooterSize = (Hostile.extFooterSize : Int) := rfl

example : Gen.Estargz.FooterSize = 51 ∧ Gen.Estargz.zstdFooterSize = 40 := by decide

end SV.Props.C04gen2
