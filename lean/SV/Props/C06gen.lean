/-
C06 — regenerated tie.  `SV/Gen/Arith.lean` is produced from the CURRENT Go sources by
`tools/go2lean` on every run (functions `floor`, `ceil`, `positive` of fs/remote/blob.go and
`region.size` of fs/remote/util.go).  The theorems below state that the translated code is the
arithmetic the hand-written C06 models use, so an edit of those Go functions breaks a proof
obligation here (and the check then searches for a failing input with the harness).
Semantics of the translation: unbounded `Int`, Go's truncated division; int64 overflow is not
modelled (offsets and sizes of a blob are far below 2^62).
-/
import SV.Gen.Arith
import SV.Model.Blob

namespace SV.Props.C06gen
open SV

/-- Go `floor(n, unit)` on non-negative arguments is the model's `floorU`. -/
theorem remote_floor_eq (n u : Nat) : Gen.remote_floor n u = ((Blob.floorU n u : Nat) : Int) := by
  unfold Gen.remote_floor Blob.floorU
  rw [Int.tdiv_eq_ediv_of_nonneg (Int.natCast_nonneg n)]
  push_cast
  rfl

/-- Go `ceil(n, unit)` on non-negative arguments is the model's `ceilU`. -/
theorem remote_ceil_eq (n u : Nat) : Gen.remote_ceil n u = ((Blob.ceilU n u : Nat) : Int) := by
  unfold Gen.remote_ceil Blob.ceilU
  rw [Int.tdiv_eq_ediv_of_nonneg (Int.natCast_nonneg n)]
  push_cast
  rfl

/-- Go `positive(a - b)` is the model's truncated natural subtraction. -/
theorem remote_positive_sub (a b : Nat) : Gen.remote_positive ((a : Int) - b) = ((a - b : Nat) : Int) := by
  unfold Gen.remote_positive
  by_cases h : (a : Int) - b < 0
  · simp [h]; omega
  · simp [h]; omega

/-- Go `positive` is `max 0`. -/
theorem remote_positive_eq (n : Int) : Gen.remote_positive n = max n 0 := by
  unfold Gen.remote_positive
  by_cases h : n < 0
  · simp [h]; omega
  · simp [h]; omega

/-- Go `region.size()` is the model's `Region.size`. -/
theorem remote_region_size_eq (b e : Int) : Gen.remote_region_size b e = Region.Region.size ⟨b, e⟩ := by
  unfold Gen.remote_region_size Region.Region.size
  rfl

-- non-vacuity / sanity on concrete numbers
example : Gen.remote_floor 41 7 = 35 ∧ Gen.remote_ceil 41 7 = 42 ∧ Gen.remote_positive (-3) = 0 := by decide

end SV.Props.C06gen
