/-
C06 part B — `blob.ReadAt` / `blob.Cache` (fs/remote/blob.go) are byte-exact for every cache
content, every honest server reply and every prior history; the chunk walk, the buffer
placement and the `bytesWriter` are exact; the requested ranges cover every missing chunk; the
retry state machine of `httpFetcher.fetch` sends at most two requests.

Only property theorems and their non-vacuity examples live here.  Model: `SV/Model/Blob.lean`,
lemmas and the vocabulary (`GridChunk`, `CacheOK`, `HonestReply`, `Inv`, `Tiles`, `Op`, …):
`SV/Lemmas/Blob.lean`.
-/
import SV.Lemmas.Blob

namespace SV.Props.C06b
open SV.Region SV.Blob SV.Props.C06

/-! ## 2. walkChunks -/

/-- `walkChunks` fails exactly on a misaligned start and otherwise yields the closed-form list
`chunkList` (chunk `j` is `[b + j·chunk, min (b + j·chunk + chunk - 1) (size - 1)]`). -/
theorem walkChunks_spec (P : Params) (hc : 0 < P.chunk) (b e : Nat) (cs : List Chunk) :
    walkChunks P b e = some cs ↔ (b % P.chunk = 0 ∧ cs = chunkList P b e) := by
  rw [walkChunks_eq P hc]
  by_cases h : b % P.chunk = 0
  · simp only [h, if_true, Option.some.injEq, true_and]
    exact eq_comm
  · simp [h]

/-- The closed form really is the loop `for i := b; i <= e && i < size; i += chunk`:
index `j` exists iff the loop condition holds at `i = b + j·chunk`, and the `j`-th chunk is the
grid chunk starting there. -/
theorem chunkList_enum (P : Params) (hc : 0 < P.chunk) (b e : Nat) :
    (∀ j, j < (chunkList P b e).length ↔ (b + j * P.chunk ≤ e ∧ b + j * P.chunk < P.size)) ∧
    (∀ j (h : j < (chunkList P b e).length),
      (chunkList P b e)[j] =
        ⟨b + j * P.chunk, min (b + j * P.chunk + P.chunk - 1) (P.size - 1)⟩) := by
  refine ⟨?_, ?_⟩
  · intro j; rw [chunkList_length]; exact lt_numChunks_iff P hc b e j
  · intro j h; rw [chunkList_getElem]; rfl

/-- Fuel independence: every fuel `≥ size - i` (in particular `size + 1`, the fuel used by
`walkChunks`) gives the same list, the closed form. -/
theorem walkChunks_fuel_indep (P : Params) (hc : 0 < P.chunk) (e i fuel : Nat)
    (h : P.size - i ≤ fuel) :
    chunksFrom P e fuel i = chunksFrom P e (P.size + 1) i ∧
      chunksFrom P e fuel i = chunkList P i e :=
  ⟨chunksFrom_fuel_indep P hc e i fuel (P.size + 1) h (by omega),
   chunksFrom_eq_chunkList P hc e fuel i h⟩

/-- Every chunk of a walk is non-empty, aligned, inside the blob, at most `chunk` long and a chunk
of the grid; neighbours are consecutive (`next.b = prev.e + 1`, `prev` is a full chunk); the
chunks cover exactly `[b, min (ceil e - 1) (size - 1)]`, where `ceil e - 1` is the end of the
chunk containing `e`. -/
theorem walkChunks_chunks (P : Params) (hc : 0 < P.chunk) (b e : Nat) (cs : List Chunk)
    (h : walkChunks P b e = some cs) :
    (∀ c ∈ cs, c.b ≤ c.e ∧ c.b % P.chunk = 0 ∧ c.e < P.size ∧ 0 < c.size ∧ c.size ≤ P.chunk ∧
      b ≤ c.b ∧ c.b ≤ e ∧ GridChunk P c) ∧
    (∀ j (hj : j + 1 < cs.length),
      cs[j + 1].b = cs[j].e + 1 ∧ cs[j].e + 1 = cs[j].b + P.chunk) ∧
    (∀ x, (∃ c ∈ cs, c.b ≤ x ∧ x ≤ c.e) ↔ (b ≤ x ∧ x ≤ ceilU e P.chunk - 1 ∧ x < P.size)) := by
  obtain ⟨hb, rfl⟩ := (walkChunks_spec P hc b e cs).mp h
  refine ⟨?_, ?_, ?_⟩
  · intro c hcm
    obtain ⟨hg, h1, h2⟩ := gridChunk_of_mem_chunkList P hc b e hb c hcm
    have := hg.le hc
    refine ⟨this.1, hg.1, this.2.1, ?_, ?_, h1, h2, hg⟩ <;> simp only [Chunk.size] <;> omega
  · intro j hj
    have hj0 : j < (chunkList P b e).length := by omega
    rw [chunkList_getElem P b e (j + 1) hj, chunkList_getElem P b e j hj0]
    rw [chunkList_length] at hj
    have := (lt_numChunks_iff P hc b e (j + 1)).mp hj
    rw [Nat.succ_mul] at this
    simp only [chunkAt, Nat.succ_mul]
    omega
  · exact chunkList_cover P hc b e hb

-- non-vacuity
example : walkChunks ⟨10, 4⟩ 4 11 = some [⟨4, 7⟩, ⟨8, 9⟩] := by decide
example : walkChunks ⟨10, 4⟩ 5 11 = none := by decide
example : chunkList ⟨10, 4⟩ 0 11 = [⟨0, 3⟩, ⟨4, 7⟩, ⟨8, 9⟩] := by decide

/-! ## 3. placement of the chunks in the caller's buffer -/

/-- The piece `[lower, lower+expected)` of the true chunk data is the piece of the blob that
belongs at buffer position `base` (file position `o + base`).  True for every chunk. -/
theorem place_exact (B : Bytes) (o n : Nat) (c : Chunk) :
    slice (slice B c.b c.size) (place o n c).lower (place o n c).expected =
      slice B (o + (place o n c).base) (place o n c).expected :=
  place_slice B o n c

/-- The target intervals `[base, base+expected)` of the chunks of `ReadAt(o, n)` tile `[0, k)`,
`k = adjustBufferSize = min n (size - o)`. -/
theorem place_tiles (P : Params) (hc : 0 < P.chunk) (o n : Nat) (hn : 0 < n) (ho : o ≤ P.size)
    (cs : List Chunk)
    (h : walkChunks P (floorU o P.chunk) (ceilU (o + n - 1) P.chunk - 1) = some cs) :
    Tiles 0 (cs.map (place o n)) (adjust P n o) ∧ adjust P n o = min n (P.size - o) := by
  rw [walk_readAt P hc] at h
  cases h
  exact ⟨tiles_readAt P hc o n hn ho, adjust_eq P n o⟩

/-- For the chunks of `ReadAt(o, n)` the Go expression `chunk.size() - upperUnread - lowerUnread`
is never negative (the truncated subtraction in `place` is the Go integer arithmetic, no hidden
panic), `p[base : base+expectedSize]` lies inside the caller's buffer, and the cache read
`[lower, lower+expected)` lies inside the chunk. -/
theorem place_in_bounds (P : Params) (hc : 0 < P.chunk) (o n : Nat) (hn : 0 < n) (ho : o ≤ P.size)
    (cs : List Chunk)
    (h : walkChunks P (floorU o P.chunk) (ceilU (o + n - 1) P.chunk - 1) = some cs) :
    ∀ c ∈ cs, (o - c.b) + ((c.e + 1) - (o + n)) ≤ c.size ∧
      (place o n c).base + (place o n c).expected ≤ n ∧
      (place o n c).lower + (place o n c).expected ≤ c.size := by
  rw [walk_readAt P hc] at h
  cases h
  exact fun c hcm => place_bounds P hc o n hn ho c hcm

/-- `Tiles` in index form: the first interval starts at `a`, each next one starts where the
previous ends, the last one ends at `k`. -/
theorem tiles_index (a k : Nat) (ps : List Place) (h : Tiles a ps k) :
    (∀ h0 : 0 < ps.length, ps[0].base = a) ∧
    (∀ j (hj : j + 1 < ps.length), ps[j + 1].base = ps[j].base + ps[j].expected) ∧
    (∀ hne : ps ≠ [], (ps.getLast hne).base + (ps.getLast hne).expected = k) ∧
    (ps = [] → a = k) :=
  Tiles.index h

-- non-vacuity: size 10, chunk 4, ReadAt(o = 3, n = 6) touches all three chunks
example : walkChunks ⟨10, 4⟩ (floorU 3 4) (ceilU (3 + 6 - 1) 4 - 1) = some [⟨0, 3⟩, ⟨4, 7⟩, ⟨8, 9⟩] := by
  decide
example : Tiles 0 ([⟨0, 3⟩, ⟨4, 7⟩, ⟨8, 9⟩].map (place 3 6)) 6 := by decide

/-! ## 4. ReadAt is exact -/

/-- For every state satisfying the invariant (cache entries are true grid chunks, fetched set
well-formed and inside the blob), every offset/length and every honest reply: the invariant is
kept, the fetched coverage only grows, and the result is an error or exactly
`k = min n (size - o)` bytes equal to `B[o, o+k)`. -/
theorem readAt_exact (P : Params) (B : Bytes) (hc : 0 < P.chunk) (hB : B.length = P.size)
    (s : St) (hs : Inv P B s) (o n : Nat) (reply : Reply) (hr : HonestReply B reply) :
    CacheOK P B (readAt P s o n reply).1.cache ∧
    WF (readAt P s o n reply).1.fetched ∧
    InBlob P.size (readAt P s o n reply).1.fetched ∧
    (∀ x, cov x s.fetched → cov x (readAt P s o n reply).1.fetched) ∧
    ((readAt P s o n reply).2 = none ∨
      ∃ buf, (readAt P s o n reply).2 = some (min n (P.size - o), buf) ∧ buf.length = n ∧
        buf.take (min n (P.size - o)) = slice B o (min n (P.size - o))) := by
  obtain ⟨h1, h2, h3⟩ := readAt_spec P B hc hB s hs o n reply hr
  exact ⟨h1.cacheOK, h1.wf, h1.inBlob, h2, h3⟩

/-- `FetchedSize` is monotone under `ReadAt` and never exceeds the blob size. -/
theorem readAt_fetchedSize (P : Params) (B : Bytes) (hc : 0 < P.chunk) (hB : B.length = P.size)
    (s : St) (hs : Inv P B s) (o n : Nat) (reply : Reply) (hr : HonestReply B reply) :
    totalSize s.fetched ≤ totalSize (readAt P s o n reply).1.fetched ∧
    totalSize (readAt P s o n reply).1.fetched ≤ P.size := by
  obtain ⟨h1, h2, _⟩ := readAt_spec P B hc hB s hs o n reply hr
  exact fetchedSize_of_inv P _ s _ ((inv_iff P B s).mp hs) ((inv_iff P B _).mp h1) h2

/-- `Cache` (one `cacheAt`) keeps the invariant; `FetchedSize` is monotone and bounded. -/
theorem cacheAt_inv (P : Params) (B : Bytes) (hc : 0 < P.chunk)
    (s : St) (hs : Inv P B s) (o n : Nat) (reply : Reply) (hr : HonestReply B reply) :
    Inv P B (cacheAt P s o n reply).1 ∧
    totalSize s.fetched ≤ totalSize (cacheAt P s o n reply).1.fetched ∧
    totalSize (cacheAt P s o n reply).1.fetched ≤ P.size := by
  obtain ⟨h1, h2⟩ := cacheAt_spec P B hc s hs o n reply hr
  exact ⟨h1, fetchedSize_of_inv P _ s _ ((inv_iff P B s).mp hs) ((inv_iff P B _).mp h1) h2⟩

/-- The same for a cache that may hold truncated entries (a cache read returning short data):
if every entry is a prefix of the true bytes of its grid chunk (`CachePrefixOK`, weaker than
`CacheOK`), `ReadAt` still returns an error or exactly the right bytes, and keeps that weaker
invariant.  A short cache read is treated as a miss, never copied as if complete. -/
theorem readAt_exact_truncated_cache (P : Params) (B : Bytes) (hc : 0 < P.chunk)
    (hB : B.length = P.size) (s : St) (hcache : CachePrefixOK P B s.cache) (hwf : WF s.fetched)
    (hin : InBlob P.size s.fetched) (o n : Nat) (reply : Reply) (hr : HonestReply B reply) :
    CachePrefixOK P B (readAt P s o n reply).1.cache ∧
    WF (readAt P s o n reply).1.fetched ∧
    InBlob P.size (readAt P s o n reply).1.fetched ∧
    (∀ x, cov x s.fetched → cov x (readAt P s o n reply).1.fetched) ∧
    ((readAt P s o n reply).2 = none ∨
      ∃ buf, (readAt P s o n reply).2 = some (min n (P.size - o), buf) ∧ buf.length = n ∧
        buf.take (min n (P.size - o)) = slice B o (min n (P.size - o))) := by
  obtain ⟨h1, h2, h3⟩ := readAt_specQ P B _ (goodQ_prefix P B) hc hB s ⟨hcache, hwf, hin⟩
    o n reply hr
  exact ⟨h1.cacheQ, h1.wf, h1.inBlob, h2, h3⟩

-- non-vacuity: blob 0..9, chunk 4; chunk [4,7] cached, chunk [0,3] fetched before
-- (`exB`, `exS` are defined in SV/Lemmas/Blob.lean)

example : Inv ⟨10, 4⟩ exB exS := by
  refine ⟨?_, by decide, by intro l hl; simp [exS] at hl; subst hl; decide⟩
  intro c d h
  simp only [exS, Cache.get, List.find?_cons, List.find?_nil] at h
  split at h
  · rename_i hc; simp only [decide_eq_true_eq] at hc; subst hc
    simp only [Option.map_some, Option.some.injEq] at h; subst h
    exact ⟨by decide, by decide⟩
  · simp at h
example : HonestReply exB (.parts [⟨0, 3, [0, 1, 2, 3]⟩, ⟨8, 9, [8, 9]⟩]) := by
  intro p hp; simp at hp; rcases hp with rfl | rfl <;> decide
-- a short body is honest too (and leads to an error, not to wrong bytes)
example : HonestReply exB (.parts [⟨0, 3, [0, 1]⟩]) := by
  intro p hp; simp at hp; subst hp; decide
example : (readAt ⟨10, 4⟩ exS 3 6 (.parts [⟨0, 3, [0, 1, 2, 3]⟩, ⟨8, 9, [8, 9]⟩])).2
    = some (6, [3, 4, 5, 6, 7, 8]) := by decide
example : (readAt ⟨10, 4⟩ exS 3 6 (.parts [⟨0, 3, [0, 1]⟩])).2 = none := by decide
example : (readAt ⟨10, 4⟩ exS 8 5 (.parts [⟨8, 9, [8, 9]⟩])).2 = some (2, [8, 9, 0, 0, 0]) := by
  decide

/-! ## 5. histories -/

/-- Over any history of `ReadAt` / `Cache` / cache-entry loss / cache-entry truncation from the
empty state, each op with its own arbitrary honest reply: every read of the history returned an
error or exactly the right count and bytes; at the end no cache entry holds wrong bytes, and the
fetched set is well-formed and inside the blob. -/
theorem history_exact (P : Params) (B : Bytes) (hc : 0 < P.chunk) (hB : B.length = P.size)
    (ops : List Op) (hh : ∀ op ∈ ops, op.Honest B) :
    (CachePrefixOK P B (runOps P {} ops).cache ∧ WF (runOps P {} ops).fetched ∧
      InBlob P.size (runOps P {} ops).fetched) ∧
    ∀ t ∈ trace P {} ops,
      t.2.2 = none ∨ ∃ buf, t.2.2 = some (min t.2.1 (P.size - t.1), buf) ∧ buf.length = t.2.1 ∧
        buf.take (min t.2.1 (P.size - t.1)) = slice B t.1 (min t.2.1 (P.size - t.1)) := by
  obtain ⟨h1, _, h3⟩ := runOps_specQ P B _ (goodQ_prefix P B) hc hB ops {} (invQ_init P _) hh
    (Or.inr (truncClosed_prefix P B))
  exact ⟨⟨h1.cacheQ, h1.wf, h1.inBlob⟩, h3⟩

/-- Without truncation ops (the cache returns entries all-or-nothing, what C11 establishes for the
real cache) the strong invariant `CacheOK` holds after every history. -/
theorem history_cacheOK (P : Params) (B : Bytes) (hc : 0 < P.chunk) (hB : B.length = P.size)
    (ops : List Op) (hh : ∀ op ∈ ops, op.Honest B) (hnt : ∀ op ∈ ops, op.isTrunc = false) :
    Inv P B (runOps P {} ops) :=
  (runOps_spec P B hc hB ops {} (inv_init P B) hh hnt).1

/-- `FetchedSize` over a history: monotone from any reachable state on, and bounded. -/
theorem history_fetchedSize (P : Params) (B : Bytes) (hc : 0 < P.chunk) (hB : B.length = P.size)
    (pre ops : List Op) (hp : ∀ op ∈ pre, op.Honest B) (hh : ∀ op ∈ ops, op.Honest B) :
    totalSize (runOps P {} pre).fetched ≤ totalSize (runOps P (runOps P {} pre) ops).fetched ∧
    totalSize (runOps P (runOps P {} pre) ops).fetched ≤ P.size := by
  obtain ⟨h1, _, _⟩ := runOps_specQ P B _ (goodQ_prefix P B) hc hB pre {} (invQ_init P _) hp
    (Or.inr (truncClosed_prefix P B))
  obtain ⟨k1, k2, _⟩ := runOps_specQ P B _ (goodQ_prefix P B) hc hB ops _ h1 hh
    (Or.inr (truncClosed_prefix P B))
  exact fetchedSize_of_inv P _ _ _ h1 k1 k2

example : exB.length = (⟨10, 4⟩ : Params).size := by decide
example : ∀ op ∈ [Op.read 3 6 (.parts [⟨0, 9, exB⟩]), .drop ⟨4, 7⟩, .cache 0 10 .fail,
    .trunc ⟨0, 3⟩ 2, .read 5 2 (.parts [⟨4, 7, [4, 5, 6, 7]⟩]), .read 1 3 (.parts [⟨0, 3, [0, 1, 2, 3]⟩]),
    .read 0 2 .fail], op.Honest exB := by decide
-- the read at (1,3) after the truncation of [0,3] to 2 bytes refetches; the read at (0,2) is
-- served from the truncated entry
example : trace ⟨10, 4⟩ {} [.read 3 6 (.parts [⟨0, 9, exB⟩]), .drop ⟨4, 7⟩, .cache 0 10 .fail,
    .trunc ⟨0, 3⟩ 2, .read 5 2 (.parts [⟨4, 7, [4, 5, 6, 7]⟩]), .read 1 3 (.parts [⟨0, 3, [0, 1, 2, 3]⟩]),
    .read 0 2 .fail]
    = [(3, 6, some (6, [3, 4, 5, 6, 7, 8])), (5, 2, some (2, [5, 6])), (1, 3, some (3, [1, 2, 3])),
       (0, 2, some (2, [0, 1]))] := by decide
example : ∀ op ∈ [Op.read 3 6 (.parts [⟨0, 9, exB⟩]), .drop ⟨4, 7⟩, .cache 0 10 .fail],
    op.isTrunc = false := by decide
-- a truncated entry satisfies the weak invariant but not the strong one
example : QPrefix ⟨10, 4⟩ exB ⟨4, 7⟩ [4, 5] ∧ ¬ QExact ⟨10, 4⟩ exB ⟨4, 7⟩ [4, 5] := by
  refine ⟨⟨by decide, by decide⟩, fun h => absurd h.1 (by decide)⟩

/-! ## 1. bytesWriter -/

/-- However the stream `total` is cut into `Write` calls, a fresh `bytesWriter` over a buffer of
`len` bytes with offset `destOff` ends up holding `total[destOff, destOff+len)` (clipped to the
stream; the rest of the buffer is untouched), and the buffer length never changes. -/
theorem bytesWriter_correct (len destOff : Nat) (total : Bytes) (ps : List Bytes)
    (hps : ps.flatten = total) :
    let w := ps.foldl BW.write { dest := List.replicate len 0, destOff := destOff, current := 0 }
    w.dest.length = len ∧
    w.dest.take (min len (total.length - destOff)) =
      slice total destOff (min len (total.length - destOff)) ∧
    (destOff + len ≤ total.length → w.dest = slice total destOff len) := by
  subst hps
  exact bytesWriter_fold len destOff ps

/-- In the copying branch of `Write` the Go slice expressions `p[pBegin:pEnd]` and
`dest[destBase:]` are in bounds (no panic is hidden by the model's total list operations). -/
theorem bytesWriter_slices_in_bounds (w : BW) (p : Bytes)
    (h1 : ¬ (w.current - w.destOff > w.dest.length)) (h2 : ¬ (w.destOff - w.current ≥ p.length)) :
    let pEnd0 := w.destOff + w.dest.length - w.current
    let pEnd := if pEnd0 > p.length then p.length else pEnd0
    w.destOff - w.current ≤ pEnd ∧ pEnd ≤ p.length ∧ w.current - w.destOff ≤ w.dest.length := by
  simp only
  split <;> omega

example : ([[1, 2], [], [3, 4, 5], [6]] : List Bytes).flatten = [1, 2, 3, 4, 5, 6] := by decide
example : (([[1, 2], [], [3, 4, 5], [6]] : List Bytes).foldl BW.write
    { dest := List.replicate 3 0, destOff := 1, current := 0 }).dest = [2, 3, 4] := by decide
example : (([[1, 2], [3]] : List Bytes).foldl BW.write
    { dest := List.replicate 4 0, destOff := 1, current := 0 }).dest = [2, 3, 0, 0] := by decide

/-! ## 6. the request covers every missing chunk; an honest server allows success -/

/-- In multi-range and in single-range mode the ranges put into the Range header cover every byte
of every missing chunk. -/
theorem request_covers_missing (missing : List Chunk) (hne : ∀ c ∈ missing, c.b ≤ c.e)
    (single : Bool) :
    ∀ c ∈ missing, ∀ x : Int, (c.b : Int) ≤ x → x ≤ c.e → cov x (requestRanges single missing) :=
  request_covers missing hne single

/-- For missing chunks of the grid, every requested range is non-empty and starts / ends where a
grid chunk starts / ends (so the reply to it is chunk aligned). -/
theorem request_aligned (P : Params) (hc : 0 < P.chunk) (missing : List Chunk)
    (hm : ∀ c ∈ missing, GridChunk P c) (single : Bool) :
    ∀ r ∈ requestRanges single missing, r.b ≤ r.e ∧ GridStart P r.b ∧ GridEnd P r.e :=
  requestRanges_grid P hc missing hm single

/-- An honest server that answers exactly the requested ranges (one part per range, all its
bytes) is an `HonestReply` and makes `fetchRegions` succeed, from any state. -/
theorem honest_server_fetch_succeeds (P : Params) (B : Bytes) (hc : 0 < P.chunk)
    (hB : B.length = P.size) (missing : List Chunk) (hm : ∀ c ∈ missing, GridChunk P c)
    (single : Bool) (s : St) :
    HonestReply B (honestAnswer B (requestRanges single missing)) ∧
    ∃ got, (fetchMissing P s missing (honestAnswer B (requestRanges single missing))).2 = some got :=
  ⟨honestAnswer_honest B _, fetchMissing_honest_ok P B hc hB missing hm single s⟩

/-- `ReadAt` never fails against such a server: the chunks it asks for (`missingFor`) are grid
chunks, and the answer to `requestRanges` of them lets it succeed.  With the invariant the result
is then the exact bytes. -/
theorem honest_server_readAt_succeeds (P : Params) (B : Bytes) (hc : 0 < P.chunk)
    (hB : B.length = P.size) (s : St) (hs : Inv P B s) (o n : Nat) (single : Bool) :
    ∃ ms, missingFor P s o n = some ms ∧
      ∃ buf, (readAt P s o n (honestAnswer B (requestRanges single ms))).2
          = some (min n (P.size - o), buf) ∧
        buf.take (min n (P.size - o)) = slice B o (min n (P.size - o)) := by
  obtain ⟨ms, h1, h2⟩ := readAt_honest_ok P B hc hB s o n single
  refine ⟨ms, h1, ?_⟩
  obtain ⟨_, _, h3⟩ := readAt_spec P B hc hB s hs o n _ (honestAnswer_honest B (requestRanges single ms))
  rcases h3 with h3 | ⟨buf, h4, _, h5⟩
  · exact absurd h3 h2
  · exact ⟨buf, h4, h5⟩

/-- `Cache` never fails against such a server. -/
theorem honest_server_cacheAt_succeeds (P : Params) (B : Bytes) (hc : 0 < P.chunk)
    (hB : B.length = P.size) (s : St) (o n : Nat) (single : Bool) :
    (cacheAt P s o n (honestAnswer B (requestRanges single
      ((chunksFrom P (o + n - 1) (P.size + 1) (floorU o P.chunk)).filter
        (fun c => (s.cache.get c).isNone))))).2 = true :=
  cacheAt_honest_ok P B hc hB s o n single

-- non-vacuity: chunks [0,3] and [8,9] missing (the middle one cached)
example : ∀ c ∈ [(⟨0, 3⟩ : Chunk), ⟨8, 9⟩], GridChunk ⟨10, 4⟩ c := by decide
example : ∀ c ∈ [(⟨0, 3⟩ : Chunk), ⟨8, 9⟩], c.b ≤ c.e := by decide
example : requestRanges false [⟨0, 3⟩, ⟨8, 9⟩] = [⟨0, 3⟩, ⟨8, 9⟩] := by decide
example : requestRanges true [⟨0, 3⟩, ⟨8, 9⟩] = [⟨0, 9⟩] := by decide
example : requestRanges false [⟨4, 7⟩, ⟨0, 3⟩] = [⟨0, 7⟩] := by decide
example : missingFor ⟨10, 4⟩ exS 3 6 = some [⟨0, 3⟩, ⟨8, 9⟩] := by decide
example : (readAt ⟨10, 4⟩ exS 3 6 (honestAnswer exB (requestRanges true [⟨0, 3⟩, ⟨8, 9⟩]))).2
    = some (6, [3, 4, 5, 6, 7, 8]) := by decide

/-! ## 7. retry state machine of `httpFetcher.fetch` -/

/-- At most two blob requests per `fetch`, and never more than scripted replies consumed. -/
theorem fetchSM_at_most_two (st : FSt) (retry : Bool) (script : List Status) (refresh : Option Bool) :
    (fetchSM st retry script refresh).2.2 ≤ 2 ∧
    (fetchSM st retry script refresh).2.2 ≤ script.length :=
  fetchSM_le_two st retry script refresh

/-- With `retry = false` (the recursive call) at most one request, and the fetcher state is
unchanged. -/
theorem fetchSM_no_retry_one (st : FSt) (script : List Status) (refresh : Option Bool) :
    (fetchSM st false script refresh).2.2 ≤ 1 ∧ (fetchSM st false script refresh).1 = st :=
  fetchSM_no_retry st script refresh

/-- Single-range mode is never switched off. -/
theorem fetchSM_singleRange_mono (st : FSt) (retry : Bool) (script : List Status)
    (refresh : Option Bool) (h : st.singleRange = true) :
    (fetchSM st retry script refresh).1.singleRange = true :=
  fetchSM_single_mono st retry script refresh h

/-- The outcome is a body iff the last status consumed is 200 or 206. -/
theorem fetchSM_body_iff_last_ok (st : FSt) (retry : Bool) (script : List Status)
    (refresh : Option Bool) :
    (fetchSM st retry script refresh).2.1 = .body ↔
      ∃ s, (script.take (fetchSM st retry script refresh).2.2).getLast? = some s ∧
        (s = .ok200 ∨ s = .partial206) := by
  rw [fetchSM_body_iff]
  constructor
  · rintro ⟨s, h1, h2⟩; exact ⟨s, h1, by cases s <;> simp_all [isOK]⟩
  · rintro ⟨s, h1, h2 | h2⟩ <;> exact ⟨s, h1, by subst h2; rfl⟩

/-- A second request is sent only after a 403 (retry allowed, URL refresh succeeded; the range
mode is untouched) or after a 400 (retry allowed, not yet single-range; the mode is switched on
and nothing else changes): one retry per 403 and per 400. -/
theorem fetchSM_second_request (st : FSt) (retry : Bool) (script : List Status)
    (refresh : Option Bool) (h : (fetchSM st retry script refresh).2.2 = 2) :
    retry = true ∧
    ((script.head? = some .forbidden403 ∧ refresh.isSome ∧
        (fetchSM st retry script refresh).1.singleRange = st.singleRange) ∨
     (script.head? = some .badReq400 ∧ st.singleRange = false ∧
        (fetchSM st retry script refresh).1 = { st with singleRange := true })) :=
  fetchSM_two st retry script refresh h

/-- The URL changes only through a successful refresh after a 403. -/
theorem fetchSM_url (st : FSt) (retry : Bool) (script : List Status) (refresh : Option Bool) :
    (fetchSM st retry script refresh).1.redirected = st.redirected ∨
      (retry = true ∧ script.head? = some .forbidden403 ∧
        refresh = some (fetchSM st retry script refresh).1.redirected) :=
  fetchSM_redirect st retry script refresh

example : fetchSM {} true [.badReq400, .partial206, .other] none = (⟨true, false⟩, .body, 2) := by
  decide
example : fetchSM {} true [.forbidden403, .ok200] (some true) = (⟨false, true⟩, .body, 2) := by
  decide
example : fetchSM ⟨true, false⟩ true [.badReq400, .ok200] none = (⟨true, false⟩, .error, 1) := by
  decide

end SV.Props.C06b
