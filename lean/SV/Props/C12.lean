/-
C12 — A mounted layer stays usable; a released layer gives back all its resources
(`fs/layer.Resolver`: `Resolve`, the layer and blob TTL caches, `layerRef.Done/Close`, `layer.close`).

Only property theorems and their non-vacuity examples live here.

Composition with C10.  Both caches of the resolver are the C10 model `SV.Refcount.TTL`, used
unchanged; every state of `SV.LayerLife` keeps them reachable by TTL operations
(`SV.LayerLife.Reach`), so C10's theorems (`ttl_callback_iff_dead`, `ttl_held_not_finalised`,
`ttl_evicting_release_spares_newer`, `ttl_evicting_release_removes_own`) apply to them; on top the
invariant `SV.LayerLife.Inv` (SV/Lemmas/LayerLife.lean) links refCounter `i` of the layer cache to
`*layer` object `i` (closed iff its callback has run), likewise for blobs, and says that every layer
owns one closure of the blob cache, released iff the layer is closed.

Premises (see the model file): `Resolve` is atomic per name (per-name lock, re-checked on the sources
by checks/C12.py), the caches' own operations are atomic (C10), timer expiry is an operation enabled
at any time.  All theorems quantify over ALL operation sequences `ops` (Resolve with ANY failure
oracle, Done, Close, timer expiry of either cache, Refresh, reads) — `run ops` is the state after the
history `ops` from `NewResolver`.

Vocabulary: a layer instance is its index `lid` in `State.layers`; a holder (`*layerRef`) is a closure
`tok` of the layer cache, live while `tk.once = false`; `held toks id` counts the live closures of
refCounter `id` (for both caches refCounter index = object index).
-/
import SV.Lemmas.LayerLife
import SV.Props.C10

namespace SV.Props.C12
open SV.LayerLife SV.Refcount

/-! ## a mounted layer stays usable -/

/-- A layer with a holder that has not released it is open — not closed, reader, metadata and fs
cache open, its blob reference not released — and so is its blob (with its http cache); the holder's
reads and (registry permitting) refreshes succeed.  This holds after EVERY history: whatever expired,
whoever else resolved, failed, released or closed the same layer, whatever was refreshed. -/
theorem held_layer_open (ops : List Op) (tok : Nat) (tk : Tok)
    (ht : (run ops).lc.core.toks[tok]? = some tk) (hn : tk.once = false) :
    ∃ lid l bid b,
      layerOfTok (run ops) tok = some lid ∧ (run ops).layers[lid]? = some l ∧
      l.closed = false ∧ l.readerClosed = false ∧ l.metadataClosed = false ∧ l.cachesClosed = false ∧
      l.blobDone = 0 ∧
      blobOfTok (run ops) l.blobTok = some bid ∧ (run ops).blobs[bid]? = some b ∧
      b.closed = false ∧ b.cacheClosed = false ∧
      readRes (run ops) tok = .ok ∧ readOldRes (run ops) tok = .ok ∧
      ∀ reg, refreshRes (run ops) tok reg = (if reg then .ok else .err) := by
  have inv := Inv.run ops
  generalize run ops = s at *
  obtain ⟨l, r, hl, hr, hv, hc⟩ := held_open inv.l.reach inv.l.link ht hn
  obtain ⟨f1, f2, f3, f4⟩ := inv.l.flags _ l hl
  obtain ⟨btk, bid, b, _, _, hbt, hb, hbc, hbcc⟩ := open_layer_blob inv hl hc
  have hlt : layerOfTok s tok = some tk.rc := by simp [layerOfTok, ht, valOf_of hr, hv]
  refine ⟨tk.rc, l, bid, b, hlt, hl, hc, by rw [f1, hc], by rw [f2, hc], by rw [f3, hc],
    by rw [f4, hc]; rfl, hbt, hb, hbc, hbcc, ?_, ?_, ?_⟩
  · simp [readRes, hlt, hl, hc, f1, hbt, blobClosed, hb, hbc]
  · simp [readOldRes, hlt, hl, hc, f1, hbt, blobClosed, hb, hbc]
  · intro reg
    simp [refreshRes, hlt, hl, hc, hbt, blobClosed, hb, hbc]

/-- While it is cached a layer is open as well (the connectivity check of a cached layer can only
fail because of the registry). -/
theorem cached_layer_open (ops : List Op) (name lid : Nat) (hm : (run ops).lc.m name = some lid) :
    ∃ l, (run ops).layers[lid]? = some l ∧ l.name = name ∧ l.closed = false ∧
      ∀ probe, layerCheck (run ops) lid probe = probe := by
  have inv := Inv.run ops
  obtain ⟨l, _, hl, _, _, _, hn, hc⟩ := cached_open inv.l.reach inv.l.link hm
  exact ⟨l, hl, hn, hc, fun probe => layerCheck_open inv hl hc probe⟩

/-! ## one instance per layer -/

/-- Two holders obtained without an intervening eviction share one layer instance: after a
successful `Resolve` of `name` returned instance `a`, let ANY operations happen except the ones that
evict (`mayEvict`: the timer of `name`, an evicting release `Close`, a `Resolve` of `name` whose
connectivity check fails) — other names, failing resolves, releases, blob-cache expiry, refreshes
included; then every `Resolve` of `name` whose check passes returns the same instance `a`, with a
new live holder, whatever the rest of its failure oracle says. -/
theorem single_instance (ops : List Op) (name : Nat) (o1 : Oracle) (a tok1 : Nat) (mid : List Op) (o2 : Oracle)
    (h1 : (resolve (run ops) name o1).2.layer? = some (a, tok1))
    (hmid : ∀ op ∈ mid, mayEvict name op = false) (h2 : o2.lchk = true) :
    let s2 := runFrom (resolve (run ops) name o1).1 mid
    (resolve s2 name o2).2 = .hit a s2.lc.core.toks.length ∧
    (resolve s2 name o2).1.lc.core.toks[s2.lc.core.toks.length]? = some { rc := a, once := false } := by
  intro s2
  have inv := Inv.run ops
  have inv1 := inv.resolve name o1
  obtain ⟨_, _, hm1, _, _⟩ := resolve_ok_shape inv name o1 h1
  have inv2 : Inv s2 none := Inv.runFrom mid inv1
  have hm2 : s2.lc.m name = some a := keeps_entry_run mid inv1 hm1 hmid
  rw [resolve_hit' inv2 o2 hm2, h2, if_pos rfl]
  exact ⟨rfl, by simp⟩

/-- … and the layer a successful `Resolve` returns is cached under its name from then on (so the
premise of `single_instance` is what every successful `Resolve` establishes), the caller's closure
is new and live, and the instance is either the cached one (its check passed) or brand new. -/
theorem resolve_caches_result (ops : List Op) (name : Nat) (o : Oracle) (lid tok : Nat)
    (h : (resolve (run ops) name o).2.layer? = some (lid, tok)) :
    (resolve (run ops) name o).1.lc.m name = some lid ∧
    (run ops).lc.core.toks.length ≤ tok ∧
    (∃ tk, (resolve (run ops) name o).1.lc.core.toks[tok]? = some tk ∧ tk.rc = lid ∧ tk.once = false) ∧
    (((run ops).lc.m name = some lid ∧ o.lchk = true) ∨ lid = (run ops).layers.length) := by
  obtain ⟨h1, h2, h3, h4, _⟩ := resolve_ok_shape (Inv.run ops) name o h
  exact ⟨h3, h2, h4, h1⟩

/-- Only the three evicting operations can take a cached layer out of the cache. -/
theorem entry_stays (ops : List Op) (name a : Nat) (op : Op) (hm : (run ops).lc.m name = some a)
    (h : mayEvict name op = false) : (step (run ops) op).1.lc.m name = some a :=
  keeps_entry (Inv.run ops) hm h

/-- The `!added` branch of `Resolve` (a concurrent resolver added the layer first; the fresh layer is
closed and the cached one returned) is dead under the per-name lock: no `Resolve` returns `existing`. -/
theorem resolve_never_existing (ops : List Op) (name : Nat) (o : Oracle) (lid tok : Nat) :
    (resolve (run ops) name o).2 ≠ .existing lid tok := by
  intro h
  have inv := Inv.run ops
  cases hm : (run ops).lc.m name with
  | none =>
    rw [resolve_miss o hm] at h
    rcases (resolveFresh_spec inv hm o).res with ⟨hr, _⟩ | ⟨hr, _⟩ | ⟨hr, _⟩ <;> rw [hr] at h <;> cases h
  | some a =>
    rw [resolve_hit' inv o hm] at h
    cases hc : o.lchk with
    | true => rw [hc, if_pos rfl] at h; cases h
    | false =>
      rw [hc] at h
      simp only [Bool.false_eq_true, if_false] at h
      obtain ⟨inv3, hm3⟩ := afterBadCheck_inv inv hm
      rcases (resolveFresh_spec inv3 hm3 o).res with ⟨hr, _⟩ | ⟨hr, _⟩ | ⟨hr, _⟩ <;> rw [hr] at h <;> cases h

/-! ## a released layer gives back all its resources -/

/-- Once every holder of a layer instance has released it (`held … = 0`) and the cache does not
store it any more (expired, evicted by `Close` or by a failed check), the layer is closed: its
reader, metadata reader and fs cache (directory) are closed and it has released its blob reference —
exactly once.  (C10 `ttl_callback_iff_dead` on the layer cache.) -/
theorem released_layer_reclaimed (ops : List Op) (lid : Nat) (l : Layer)
    (hl : (run ops).layers[lid]? = some l)
    (hheld : held (run ops).lc.core.toks lid = 0)
    (hev : (run ops).lc.m l.name ≠ some lid) :
    l.closed = true ∧ l.readerClosed = true ∧ l.metadataClosed = true ∧ l.cachesClosed = true ∧
    l.blobDone = 1 ∧ ∃ tk, (run ops).bc.core.toks[l.blobTok]? = some tk ∧ tk.once = true := by
  have inv := Inv.run ops
  obtain ⟨r, hr, _, hn, hc⟩ := inv.l.link.obj hl
  obtain ⟨tops, htops⟩ := inv.l.reach
  have hdead := SV.Props.C10.ttl_callback_iff_dead tops lid r (by rw [← htops]; exact hr)
  rw [← htops] at hdead
  have hcalls : r.calls = 1 := hdead.mpr ⟨by unfold TTL.member; rw [← hn]; exact hev, hheld⟩
  have hcl : l.closed = true := by rw [hc, hcalls]; rfl
  obtain ⟨f1, f2, f3, f4⟩ := inv.l.flags _ l hl
  obtain ⟨tk, htk, ho⟩ := inv.x.btok _ l hl
  exact ⟨hcl, by rw [f1, hcl], by rw [f2, hcl], by rw [f3, hcl], by rw [f4, hcl]; rfl, tk, htk, by rw [ho, hcl]⟩

/-- … and conversely a layer is closed ONLY then: never while held, never while cached. -/
theorem closed_only_when_released (ops : List Op) (lid : Nat) (l : Layer)
    (hl : (run ops).layers[lid]? = some l) (hc : l.closed = true) :
    held (run ops).lc.core.toks lid = 0 ∧ (run ops).lc.m l.name ≠ some lid := by
  have inv := Inv.run ops
  obtain ⟨r, hr, _, hn, hcl⟩ := inv.l.link.obj hl
  obtain ⟨tops, htops⟩ := inv.l.reach
  have hdead := SV.Props.C10.ttl_callback_iff_dead tops lid r (by rw [← htops]; exact hr)
  rw [← htops] at hdead
  have hcalls : r.calls = 1 := by
    rw [hc] at hcl
    have := inv.l.reach.inv.calls_le_one hr
    cases hcc : r.calls with
    | zero => rw [hcc] at hcl; cases hcl
    | succ n => omega
  obtain ⟨h1, h2⟩ := hdead.mp hcalls
  exact ⟨h2, by unfold TTL.member at h1; rw [← hn] at h1; exact h1⟩

/-- The blob goes the same way: once it is out of the blob cache and every layer instance that uses
it is closed (each released its reference when it closed), the blob and its http cache (directory)
are closed. -/
theorem released_blob_reclaimed (ops : List Op) (bid : Nat) (b : Blob)
    (hb : (run ops).blobs[bid]? = some b)
    (hlayers : ∀ (i : Nat) (l : Layer), (run ops).layers[i]? = some l →
      blobOfTok (run ops) l.blobTok = some bid → l.closed = true)
    (hev : (run ops).bc.m b.name ≠ some bid) :
    b.closed = true ∧ b.cacheClosed = true := by
  have inv := Inv.run ops
  have hheld := blob_unheld inv hlayers
  obtain ⟨r, hr, _, hn, hc⟩ := inv.b.link.obj hb
  obtain ⟨tops, htops⟩ := inv.b.reach
  have hdead := SV.Props.C10.ttl_callback_iff_dead tops bid r (by rw [← htops]; exact hr)
  rw [← htops] at hdead
  have hcalls : r.calls = 1 := hdead.mpr ⟨by unfold TTL.member; rw [← hn]; exact hev, hheld⟩
  have hcl : b.closed = true := by rw [hc, hcalls]; rfl
  exact ⟨hcl, by rw [inv.b.flags _ b hb, hcl]⟩

/-- A closed layer released its blob reference WITH eviction (`l.blob.done(true)`): its blob is no
longer in the blob cache. -/
theorem closed_layer_blob_evicted (ops : List Op) (lid : Nat) (l : Layer)
    (hl : (run ops).layers[lid]? = some l) (hc : l.closed = true) :
    ∃ bid b, blobOfTok (run ops) l.blobTok = some bid ∧ (run ops).blobs[bid]? = some b ∧
      (run ops).bc.m b.name ≠ some bid := by
  have inv := Inv.run ops
  obtain ⟨tk, htk, _⟩ := inv.x.btok _ l hl
  obtain ⟨r, hr, hf⟩ := inv.f lid l tk hl hc htk
  obtain ⟨b, hb, hv, hn, _⟩ := inv.b.link.ok _ r hr
  refine ⟨tk.rc, b, by simp [blobOfTok, htk, valOf_of hr, hv], hb, ?_⟩
  intro hm
  have hmem : (run ops).bc.member tk.rc r := by unfold TTL.member; rw [← hn]; exact hm
  have := (inv.b.reach.inv.member_iff hr).mp hmem
  rw [hf] at this; cases this

/-- Both cache handles: when a layer is reclaimed (every holder released it and it is out of the
layer cache) and no other open layer instance uses its blob, then — besides the layer, its reader,
metadata and fs cache (`released_layer_reclaimed`) — the blob and its http cache directory are closed
too; no timer of the blob cache has to fire for that. -/
theorem released_layer_reclaims_blob (ops : List Op) (lid : Nat) (l : Layer)
    (hl : (run ops).layers[lid]? = some l)
    (hheld : held (run ops).lc.core.toks lid = 0)
    (hev : (run ops).lc.m l.name ≠ some lid)
    (hothers : ∀ (j : Nat) (lj : Layer), (run ops).layers[j]? = some lj → j ≠ lid →
      blobOfTok (run ops) lj.blobTok = blobOfTok (run ops) l.blobTok → lj.closed = true) :
    ∃ bid b, blobOfTok (run ops) l.blobTok = some bid ∧ (run ops).blobs[bid]? = some b ∧
      b.closed = true ∧ b.cacheClosed = true := by
  have hc := (released_layer_reclaimed ops lid l hl hheld hev).1
  obtain ⟨bid, b, hbt, hb, hm⟩ := closed_layer_blob_evicted ops lid l hl hc
  refine ⟨bid, b, hbt, hb, released_blob_reclaimed ops bid b hb ?_ hm⟩
  intro i li hli hbi
  by_cases e : i = lid
  · subst e; rw [hl] at hli; cases hli; exact hc
  · exact hothers i li hli e (by rw [hbi, hbt])

/-- The directories on disk are exactly the cache handles that are still open: one `fscache`
directory per open layer, one `httpcache` directory per open blob — nothing else, after any history
(in particular after failed resolves, and none at all once everything is reclaimed). -/
theorem dirs_match_open_handles (ops : List Op) :
    (run ops).fsDirs = (((run ops).layers.countP (fun l => !l.cachesClosed) : Nat) : Int) ∧
    (run ops).httpDirs = (((run ops).blobs.countP (fun b => !b.cacheClosed) : Nat) : Int) := by
  have inv := Inv.run ops
  constructor
  · rw [inv.l.dirs]
    congr 1
    apply List.countP_congr
    intro l hmem
    obtain ⟨i, hi⟩ := List.getElem?_of_mem hmem
    rw [(inv.l.flags i l hi).2.2.1]
  · rw [inv.b.dirs]
    congr 1
    apply List.countP_congr
    intro b hmem
    obtain ⟨i, hi⟩ := List.getElem?_of_mem hmem
    rw [inv.b.flags i b hi]

/-! ## resolving afresh -/

/-- After a layer instance `a` of `name` was reclaimed (closed), a `Resolve` of `name` for which the
registry answers (`bres`, `mres`) succeeds with an instance different from `a` that is open and
readable; and when nothing is cached under `name` it is a brand-new instance. -/
theorem reresolve_fresh (ops : List Op) (name a : Nat) (la : Layer) (o : Oracle)
    (ha : (run ops).layers[a]? = some la) (hclosed : la.closed = true)
    (hb : o.bres = true) (hr : o.mres = true) :
    ∃ lid tok, (resolve (run ops) name o).2.layer? = some (lid, tok) ∧ lid ≠ a ∧
      ((run ops).lc.m name = none → (resolve (run ops) name o).2 = .fresh (run ops).layers.length tok) ∧
      readRes (resolve (run ops) name o).1 tok = .ok ∧
      ∃ l, (resolve (run ops) name o).1.layers[lid]? = some l ∧ l.closed = false ∧ l.name = name := by
  have inv := Inv.run ops
  have inv1 := inv.resolve name o
  -- the call succeeds
  have hok : ∃ lid tok, (resolve (run ops) name o).2.layer? = some (lid, tok) ∧
      ((run ops).lc.m name = none → (resolve (run ops) name o).2 = .fresh (run ops).layers.length tok) := by
    cases hm : (run ops).lc.m name with
    | none =>
      rw [resolve_miss o hm]
      have := resolveFresh_ok inv hm hb hr
      exact ⟨_, _, by rw [this]; rfl, fun _ => this⟩
    | some c =>
      rw [resolve_hit' inv o hm]
      cases hc : o.lchk with
      | true => rw [if_pos rfl]; exact ⟨_, _, rfl, fun h => by cases h⟩
      | false =>
        simp only [Bool.false_eq_true, if_false]
        obtain ⟨inv3, hm3⟩ := afterBadCheck_inv inv hm
        have := resolveFresh_ok inv3 hm3 hb hr
        exact ⟨_, _, by rw [this]; rfl, fun h => by cases h⟩
  obtain ⟨lid, tok, hres, hfresh⟩ := hok
  obtain ⟨hshape, _, hm1, ⟨tk, htk, hrc, honce⟩, _⟩ := resolve_ok_shape inv name o hres
  -- the returned layer is open (it has a live holder now)
  obtain ⟨l, r, hl, hr', hv, hc⟩ := held_open inv1.l.reach inv1.l.link htk honce
  rw [hrc] at hl hr' hv
  obtain ⟨f1, _, _, _⟩ := inv1.l.flags _ l hl
  obtain ⟨_, bid, b, _, _, hbt, hb', hbc, _⟩ := open_layer_blob inv1 hl hc
  have hlt : layerOfTok (resolve (run ops) name o).1 tok = some lid := by
    simp [layerOfTok, htk, hrc, valOf_of hr', hv]
  obtain ⟨l2, _, hl2, _, _, _, hn2, _⟩ := cached_open inv1.l.reach inv1.l.link hm1
  rw [hl] at hl2; cases hl2
  refine ⟨lid, tok, hres, ?_, hfresh, ?_, l, hl, hc, hn2⟩
  · rcases hshape with ⟨hm, _⟩ | hnew
    · intro e
      subst e
      obtain ⟨l0, _, hl0, _, _, _, _, hc0⟩ := cached_open inv.l.reach inv.l.link hm
      rw [ha] at hl0; cases hl0
      rw [hclosed] at hc0; cases hc0
    · have := (List.getElem_of_getElem? ha).1
      omega
  · simp [readRes, hlt, hl, hc, f1, hbt, blobClosed, hb', hbc]

/-! ## a failed Resolve leaks nothing -/

/-- A `Resolve` that fails (blob resolution or metadata read; with or without a cached layer whose
check failed first) leaves: no layer object, no layer-cache entry and no blob-cache entry that was
not there before, no directory more than before, its own layer-cache closure released, and no
blob-cache closure that is not owned by one of the layers that existed before. -/
theorem failed_resolve_leaks_nothing (ops : List Op) (name : Nat) (o : Oracle)
    (hf : (resolve (run ops) name o).2.isErr = true) :
    let s := run ops
    let s' := (resolve (run ops) name o).1
    s'.layers.length = s.layers.length ∧
    (∀ k id, s'.lc.m k = some id → s.lc.m k = some id) ∧
    (∀ k id, s'.bc.m k = some id → s.bc.m k = some id) ∧
    s'.fsDirs ≤ s.fsDirs ∧ s'.httpDirs ≤ s.httpDirs ∧
    (∀ tok t, s'.lc.core.toks[tok]? = some t → s.lc.core.toks.length ≤ tok → t.once = true) ∧
    (∀ tok t, s'.bc.core.toks[tok]? = some t → t.once = false →
      ∃ i l, i < s.layers.length ∧ s'.layers[i]? = some l ∧ l.blobTok = tok ∧ l.closed = false) := by
  intro s s'
  have inv := Inv.run ops
  have inv1 : Inv s' none := inv.resolve name o
  obtain ⟨sub, htoks, _⟩ := resolve_err inv name o hf
  refine ⟨sub.nlay, sub.lcm, sub.bcm, sub.fs, sub.http, htoks, ?_⟩
  intro tok t ht ho
  rcases inv1.x.orphan tok t ht ho with ⟨i, l, hl, hbt⟩ | hp
  · obtain ⟨t', ht', hoc⟩ := inv1.x.btok i l hl
    rw [hbt, ht] at ht'; cases ht'
    refine ⟨i, l, ?_, hl, hbt, by rw [← hoc, ho]⟩
    have := (List.getElem_of_getElem? hl).1
    rw [sub.nlay] at this; exact this
  · cases hp

/-- The result of a failed `Resolve` is determined by the oracle alone in the simplest case (nothing
cached): the blob resolution failing gives `errBlob`, otherwise the metadata read failing gives
`errMeta`. -/
theorem failed_resolve_classes (ops : List Op) (name : Nat) (o : Oracle)
    (hf : (resolve (run ops) name o).2.isErr = true) : o.bres = false ∨ o.mres = false := by
  have inv := Inv.run ops
  cases hb : o.bres with
  | false => exact Or.inl rfl
  | true =>
    cases hr : o.mres with
    | false => exact Or.inr rfl
    | true =>
      exfalso
      cases hm : (run ops).lc.m name with
      | none =>
        rw [resolve_miss o hm, resolveFresh_ok inv hm hb hr] at hf; cases hf
      | some c =>
        rw [resolve_hit' inv o hm] at hf
        cases hc : o.lchk with
        | true => rw [hc, if_pos rfl] at hf; cases hf
        | false =>
          rw [hc] at hf
          simp only [Bool.false_eq_true, if_false] at hf
          obtain ⟨inv3, hm3⟩ := afterBadCheck_inv inv hm
          rw [resolveFresh_ok inv3 hm3 hb hr] at hf; cases hf

/-! ## non-vacuity -/

private def allOk : Oracle := ⟨true, true, true, true⟩

-- held under expiry: resolve, share, first holder done, timer: the second holder still reads
example : (run [.resolve 0 allOk, .resolve 0 allOk, .done 0 false, .expireL 0]).lc.core.toks[1]? = some ⟨0, false⟩ := by
  decide
example : readRes (run [.resolve 0 allOk, .resolve 0 allOk, .done 0 false, .expireL 0]) 1 = .ok := by decide
-- … and the last release reclaims everything (hypotheses of `released_layer_reclaimed`, both directories gone)
example : (run [.resolve 0 allOk, .resolve 0 allOk, .done 0 false, .expireL 0, .done 1 false]).layers
    = [⟨0, 0, true, true, true, true, 1⟩] := by decide
example : held (run [.resolve 0 allOk, .resolve 0 allOk, .done 0 false, .expireL 0, .done 1 false]).lc.core.toks 0 = 0 := by
  decide
example : ((run [.resolve 0 allOk, .expireL 0, .done 0 false]).fsDirs,
           (run [.resolve 0 allOk, .expireL 0, .done 0 false]).httpDirs) = (0, 0) := by decide
-- hypotheses of `single_instance`: a successful resolve, non-evicting ops in between (incl. a failing resolve of another name)
example : (resolve (run []) 0 allOk).2.layer? = some (0, 0) := by decide
example : ∀ op ∈ [Op.resolve 1 ⟨true, true, false, true⟩, .done 0 false, .expireB 0, .expireL 1],
    mayEvict 0 op = false := by decide
-- a failing check under a holder: the old instance stays open for its holder, the name gets a new one
example : (resolve (run [.resolve 0 allOk]) 0 ⟨false, true, true, true⟩).2 = .fresh 1 2 := by decide
example : readRes (resolve (run [.resolve 0 allOk]) 0 ⟨false, true, true, true⟩).1 0 = .ok := by decide
-- hypotheses of `reresolve_fresh`: layer 0 reclaimed, then the name resolves to layer 1
example : (run [.resolve 0 allOk, .done 0 true]).layers[0]? = some ⟨0, 0, true, true, true, true, 1⟩ := by decide
example : (resolve (run [.resolve 0 allOk, .done 0 true]) 0 allOk).2 = .fresh 1 1 := by decide
-- hypotheses of `released_layer_reclaims_blob`: an older instance shares the blob; when both are reclaimed the blob goes
example : ((run [.resolve 0 allOk, .resolve 0 ⟨false, true, true, true⟩, .done 0 false]).layers.map (·.closed),
           (run [.resolve 0 allOk, .resolve 0 ⟨false, true, true, true⟩, .done 0 false]).blobs.map (·.closed))
    = ([true, false], [false]) := by decide
example : ((run [.resolve 0 allOk, .resolve 0 ⟨false, true, true, true⟩, .done 0 false, .done 2 true]).layers.map (·.closed),
           (run [.resolve 0 allOk, .resolve 0 ⟨false, true, true, true⟩, .done 0 false, .done 2 true]).blobs.map (·.closed))
    = ([true, true], [true]) := by decide
-- failing resolves of every kind exist (hypothesis of `failed_resolve_leaks_nothing`)
example : (resolve (run []) 0 ⟨true, true, false, true⟩).2 = .errBlob := by decide
example : (resolve (run [.resolve 0 allOk, .expireL 0]) 0 ⟨true, true, true, false⟩).2 = .errMeta := by decide
example : (resolve (run [.resolve 0 allOk]) 0 ⟨false, false, false, true⟩).2 = .errBlob := by decide
-- the failed metadata read evicted the blob shared with the old holder; the holder still reads
example : readRes (resolve (run [.resolve 0 allOk, .expireL 0]) 0 ⟨true, true, true, false⟩).1 0 = .ok := by decide
example : (resolve (run [.resolve 0 allOk, .expireL 0]) 0 ⟨true, true, true, false⟩).1.bc.m 0 = none := by decide
end SV.Props.C12
