/-
C20 — Snapshot labels written at pull time reproduce the layer's source at mount time.

Only property theorems and their non-vacuity examples live here.
Model: `SV/Model/Labels.lean` (writers `defaultWriter` = AppendDefaultLabelsHandlerWrapper,
`extraOnCri` = AppendExtraLabelsHandler on containerd's AppendInfoHandlerWrapper; readers
`readSource defaultKeys` = FromDefaultLabels, `readSource criKeys` = sourceFromCRILabels,
`readBoth` = service.sources(cri, default); `mountPrefetch`, `mountNeighbours` = fs.Mount).
`reference.Parse` is the parameter `parseRef`.
-/
import SV.Lemmas.Labels

namespace SV.Props.C20
open SV.Labels

/-- Labels the snapshotter receives for child `i` when the image was pulled with the default handler. -/
def defaultLabelsAt (ref : Str) (pf : Int) (children : List Desc) (i : Nat) : Option Labels :=
  ((defaultWriter true ref pf children)[i]?).bind (·.ann)

/-- Labels the snapshotter receives for child `i` when the image was pulled with the extra handler on
top of containerd's CRI labels. -/
def extraLabelsAt (ref md : Str) (pf : Int) (children : List Desc) (i : Nat) : Option Labels :=
  match extraOnCri true ref md pf children with
  | .ok out => (out[i]?).bind (·.ann)
  | _ => none

/-- The stated domain "config first, then layers", seen from layer `c = children[i]`: every child from
`i` on is a layer, and their digests parse. -/
def TailOfLayers (children : List Desc) (i : Nat) (c : Desc) : Prop :=
  children[i]? = some c ∧
  (∀ l ∈ children.drop i, l.isLayer = true) ∧
  (∀ l ∈ children.drop i, digestValid l.digest = true)

/-- Weaker domain for the extra flavour (non-layer children may sit anywhere): `c = children[i]` is a
layer and the layers from `i` on have parsable digests. -/
def LayerAt (children : List Desc) (i : Nat) (c : Desc) : Prop :=
  children[i]? = some c ∧ c.isLayer = true ∧
  (∀ l ∈ children.drop i, l.isLayer = true → digestValid l.digest = true)

/-! ## every emitted label passes containerd's validation -/

/-- The rule of containerd's `labels.Validate`. -/
theorem validate_rule (k v : Str) : validate k v = true ↔ k.length + v.length ≤ 4096 := by
  unfold validate maxSize; exact decide_eq_true_iff

/-- `appendWithValidation` never returns an invalid value, whatever the URL list. -/
theorem appendWithValidation_valid (key : Str) (urls : List Str) (hk : key.length ≤ 4096) :
    validate key (appendWithValidation key urls) = true :=
  awv_valid key urls hk

/-- Default flavour, ALL manifests (any mix of layer / non-layer children, any annotations, any URL
lists): every label the handler adds to a child is valid, provided the reference and the digests
themselves fit under their keys. -/
theorem labels_valid_default (m : Bool) (ref : Str) (pf : Int) (children : List Desc)
    (hn : children.length < 2 ^ 63) (href : kRef.length + ref.length ≤ maxSize)
    (hdig : ∀ l ∈ children, kDigest.length + l.digest.length ≤ maxSize)
    (hpf : -(2 ^ 63) ≤ pf ∧ pf < 2 ^ 63) (i : Nat) (c : Desc) (hi : children[i]? = some c) :
    ∃ c', (defaultWriter m ref pf children)[i]? = some c' ∧ c'.digest = c.digest ∧ c'.urls = c.urls ∧
      ∀ a', c'.ann = some a' → ∀ k v, get a' k = some v →
        get (c.ann.getD []) k = some v ∨ validate k v = true := by
  have hcmem : c ∈ children := List.mem_of_getElem? hi
  unfold defaultWriter
  cases m with
  | false =>
    refine ⟨c, by simpa using hi, rfl, rfl, ?_⟩
    intro a' ha' k v hk; left; rw [ha']; exact hk
  | true =>
    simp only [if_true]
    rw [defaultChildren_getElem ref pf children i c hi]
    refine ⟨_, rfl, by split <;> rfl, by split <;> rfl, ?_⟩
    intro a' ha' k v hk
    split at ha'
    · simp only [Option.some.injEq] at ha'; subst ha'
      exact defaultLabels_valid ref pf c (children.drop i)
        (by rw [List.length_drop]; omega) href (hdig c hcmem) hpf k v hk
    · left; rw [ha']; exact hk

/-- Extra flavour on containerd's CRI labels, ALL manifests: whenever the handler succeeds, every
label it (or containerd's wrapper) added to a child is valid. -/
theorem labels_valid_extra (m : Bool) (ref md : Str) (pf : Int) (children out : List Desc)
    (href : kCriRef.length + ref.length ≤ maxSize) (hmd : kCriManifest.length + md.length ≤ maxSize)
    (hdig : ∀ l ∈ children, kCriDigest.length + l.digest.length ≤ maxSize)
    (hpf : -(2 ^ 63) ≤ pf ∧ pf < 2 ^ 63)
    (hok : extraOnCri m ref md pf children = .ok out) (i : Nat) (c : Desc) (hi : children[i]? = some c) :
    ∃ c', out[i]? = some c' ∧
      ∀ a', c'.ann = some a' → ∀ k v, get a' k = some v →
        get (c.ann.getD []) k = some v ∨ validate k v = true := by
  have hcmem : c ∈ children := List.mem_of_getElem? hi
  unfold extraOnCri extraWriter criWriter at hok
  cases m with
  | false =>
    simp only [Bool.false_eq_true, if_false, Outcome.ok.injEq] at hok; subst hok
    exact ⟨c, hi, fun a' ha' k v hk => by left; rw [ha']; exact hk⟩
  | true =>
    simp only [if_true] at hok
    obtain ⟨_, hall⟩ := extraChildren_ok _ pf _ out hok
    obtain ⟨c', hc', hout⟩ := hall i _ (criChildren_getElem ref md children i c hi)
    refine ⟨c', hout, ?_⟩
    cases hl : c.isLayer with
    | false =>
      simp only [hl, Bool.false_eq_true, if_false] at hc'
      unfold extraChild at hc'
      simp only [hl, Bool.not_false, if_true, Outcome.ok.injEq] at hc'
      subst hc'
      intro a' ha' k v hk; left; rw [ha']; exact hk
    | true =>
      rw [if_pos hl] at hc'
      obtain ⟨_, _, c3, _, _⟩ := criLabels_get ref md c (children.drop i)
      obtain ⟨a', ha', hv⟩ := extraChild_valid _ pf
        { c with ann := some (criLabels ref md c (children.drop i)) } c'
        (criLabels ref md c (children.drop i)) hpf hl rfl (by
          intro nl hnl
          rw [c3] at hnl; simp only [Option.some.injEq] at hnl; subst hnl
          have := criGetLayers_valid kCriLayers (children.drop i) [] (by decide)
          simp only [validate, decide_eq_true_eq] at this; omega) hc'
      intro a'' ha'' k v hk
      rw [ha'] at ha''; simp only [Option.some.injEq] at ha''; subst ha''
      rcases hv k v hk with h | h
      · exact criLabels_valid ref md c _ href (hdig c hcmem) hmd k v h
      · exact Or.inr h

/-- The extra handler writes into the annotation map without creating it; on top of containerd's
wrapper (which creates it for every layer) it never panics — for any manifest. -/
theorem extra_never_panics (m : Bool) (ref md : Str) (pf : Int) (children : List Desc) :
    extraOnCri m ref md pf children ≠ .panic := by
  unfold extraOnCri extraWriter criWriter
  cases m with
  | false => simp
  | true =>
    simp only [if_true]
    intro h
    obtain ⟨c, hc, hp⟩ := extraChildren_panic _ pf _ h
    obtain ⟨h1, h2⟩ := extraChild_panic _ pf c hp
    exact criChildren_ann ref md children c hc h1 h2


/-! ## reader ∘ writer -/

/-- What comes back for a URL list written under `key`: nothing was lost except by the size limit,
provided no URL contains a comma.  (`fitCount key 0 urls` = number of leading URLs that fit.)
An empty result is read back as the one-element list `[""]` — `strings.Split("", ",")`. -/
theorem urls_read_back (key : Str) (urls : List Str) (hc : ∀ u ∈ urls, ',' ∉ u) :
    (fitCount key 0 urls = 0 ∧ readURLs key urls = [[]]) ∨
    (0 < fitCount key 0 urls ∧ readURLs key urls = urls.take (fitCount key 0 urls) ∧
      readURLs key urls <+: urls) := by
  rw [readURLs_spec key urls hc]
  by_cases h : fitCount key 0 urls = 0
  · left; simp [h]
  · right; rw [if_neg h]; exact ⟨by omega, rfl, List.take_prefix _ _⟩

/-- … and the whole list comes back when it fits under the limit. -/
theorem urls_exact_when_fit (key : Str) (urls : List Str) (hc : ∀ u ∈ urls, ',' ∉ u) (hne : urls ≠ [])
    (hfit : key.length + (catComma urls).length ≤ maxSize) : readURLs key urls = urls := by
  have hall := fitCount_all key 0 urls (by omega)
  rw [readURLs_spec key urls hc, hall]
  have : urls.length ≠ 0 := by intro e; exact hne (List.length_eq_zero_iff.mp e)
  simp [this]

/-- NEGATIVE: with a comma inside a URL the reader returns two URLs, neither of which is the layer's. -/
theorem urls_comma_counterexample :
    readURLs kURLs [['h', ',', 'x']] = [['h'], ['x']] := by decide

/-- Default flavour, manifests in the stated domain (from the target on, only layers): the labels of
layer `c = children[i]` reproduce the reference, the digest, the layer's own URLs, and a neighbour list
that is — in manifest order, copies of the target skipped — the first `n` of the following layers, each
paired with the URLs written for ITS OWN descriptor under ITS OWN index. -/
theorem default_roundtrip {R : Type} (parseRef : Str → Option R) (ref : Str) (pf : Int)
    (children : List Desc) (i : Nat) (c : Desc) (r : R)
    (hdom : TailOfLayers children i c) (hr : parseRef ref = some r) :
    ∃ labels s, defaultLabelsAt ref pf children i = some labels ∧
      readSource parseRef defaultKeys labels = some s ∧
      s.name = r ∧ s.target = c.digest ∧ s.urls = readURLs kURLs c.urls ∧
      ∃ n, n = fitCount kLayers (c.digest.length + 1) ((children.drop (i + 1)).map (·.digest)) ∧
        n ≤ (children.drop (i + 1)).length ∧
        s.neighbours = nbSpec c.digest (fun m l => readURLs (urlsKey m) l.urls) 1 ((children.drop (i + 1)).take n) ∧
        s.neighbours.map (·.1) = (((children.drop (i + 1)).take n).map (·.digest)).filter (· ≠ c.digest) ∧
        ∀ p ∈ s.neighbours, ∃ m l, m < n ∧ (children.drop (i + 1))[m]? = some l ∧ l.digest ≠ c.digest ∧
          p = (l.digest, readURLs (urlsKey (m + 1)) l.urls) := by
  obtain ⟨hi, hlay, hdig⟩ := hdom
  have hdrop := drop_eq_cons_of_getElem? children i c hi
  rw [hdrop] at hlay hdig
  obtain ⟨hk, hread⟩ := default_read_spec parseRef ref pf c (children.drop (i + 1)) r hlay hdig hr
  have hkk : fitCount kLayers 0 ((c :: children.drop (i + 1)).map (·.digest)) - 1 =
      fitCount kLayers (c.digest.length + 1) ((children.drop (i + 1)).map (·.digest)) := by
    have hlen := (digestValid_length _ (hdig c (by simp))).2
    simp only [List.map_cons, fitCount]
    rw [if_pos (by rw [kLayers_length]; simp only [maxSize]; omega)]
    simp
  rw [hkk] at hread
  have hlab : defaultLabelsAt ref pf children i =
      some (defaultLabels ref pf c (c :: children.drop (i + 1))) := by
    unfold defaultLabelsAt defaultWriter
    simp only [if_true]
    rw [defaultChildren_getElem ref pf children i c hi, if_pos (hlay c (by simp)), hdrop]
    rfl
  refine ⟨_, _, hlab, hread, ?_⟩
  refine ⟨rfl, rfl, rfl, ?_⟩
  refine ⟨_, rfl, ?_, ?_, ?_, ?_⟩
  · have := fitCount_le kLayers (c.digest.length + 1) ((children.drop (i + 1)).map (·.digest))
    simpa using this
  · rfl
  · exact nbSpec_digests _ _ _ _
  · intro p hp
    obtain ⟨m, l, h1, h2, h3⟩ := nbSpec_mem _ _ _ _ p hp
    rw [List.getElem?_take] at h1
    split at h1
    · rename_i hm
      exact ⟨m, l, hm, h1, h2, by rw [h3, Nat.add_comm]⟩
    · exact absurd h1 (by simp)

/-- No neighbour is dropped when all following digests fit into the layers label. -/
theorem default_neighbours_complete_when_fit (c : Desc) (following : List Desc)
    (hfit : kLayers.length + (c.digest.length + 1 + (catComma (following.map (·.digest))).length) ≤ maxSize) :
    fitCount kLayers (c.digest.length + 1) (following.map (·.digest)) = following.length := by
  rw [fitCount_all kLayers _ _ (by omega)]; simp

/-- Extra flavour on containerd's CRI labels, ALL manifests with parsable layer digests (non-layer
children may sit anywhere) whose annotations do not pre-set the handler's keys: reference, digest and
own URLs come back; the neighbours are, in manifest order with copies of the target skipped, the first
`n` following LAYERS, each paired under its own index with the URLs the handler looked up BY DIGEST
(`urlsByDigest`: those of the first child carrying that digest). -/
theorem extra_roundtrip {R : Type} (parseRef : Str → Option R) (ref md : Str) (pf : Int)
    (children : List Desc) (i : Nat) (c : Desc) (r : R)
    (hdom : LayerAt children i c) (hnp : NoPreset (c.ann.getD []))
    (hothers : ∀ x ∈ children, x.isLayer = true → digestValid x.digest = true ∧ NoPreset (x.ann.getD []))
    (hr : parseRef ref = some r) :
    ∃ labels s, extraLabelsAt ref md pf children i = some labels ∧
      readSource parseRef criKeys labels = some s ∧
      s.name = r ∧ s.target = c.digest ∧ s.urls = readURLs kURLs c.urls ∧
      get labels kPrefetch = some (intDec pf) ∧
      ∃ n, n = fitCount kCriLayers c.digest.length ((layersOf (children.drop (i + 1))).map (·.digest)) ∧
        s.neighbours = nbSpec c.digest (fun m l => urlsByDigest children m l.digest) 1
          ((layersOf (children.drop (i + 1))).take n) ∧
        s.neighbours.map (·.1) =
          (((layersOf (children.drop (i + 1))).take n).map (·.digest)).filter (· ≠ c.digest) := by
  obtain ⟨hi, hcl, hdig⟩ := hdom
  have hdrop := drop_eq_cons_of_getElem? children i c hi
  -- every child is processed successfully
  have hurls : ∀ d, (layerFromDigest (criChildren ref md children) d).map (·.urls) =
      (layerFromDigest children d).map (·.urls) := fun d => layerFromDigest_cri ref md d children
  have hallok : ∀ x ∈ criChildren ref md children, ∃ x', extraChild (criChildren ref md children) pf x = .ok x' := by
    intro x hx
    obtain ⟨j, hj⟩ := List.getElem?_of_mem hx
    have hjlt : j < children.length := by
      have := (List.getElem?_eq_some_iff.mp hj).1
      have hlen := criChildren_length ref md children
      omega
    obtain ⟨y, hy⟩ : ∃ y, children[j]? = some y := ⟨children[j], by simp [hjlt]⟩
    rw [criChildren_getElem ref md children j y hy] at hj
    simp only [Option.some.injEq] at hj; subst hj
    rcases Bool.eq_false_or_eq_true y.isLayer with hyl | hyl
    rotate_left
    · exact ⟨y, by simp [extraChild, hyl]⟩
    · rw [if_pos hyl]
      have hymem : y ∈ children := List.mem_of_getElem? hy
      have hyd := drop_eq_cons_of_getElem? children j y hy
      obtain ⟨a', ha', _⟩ := extraChild_cri_spec (criChildren ref md children) children hurls ref md pf y
        (children.drop (j + 1)) hyl (by
          intro l hl
          rcases List.mem_cons.mp hl with e | e
          · subst e; exact (hothers _ hymem hyl).1
          · obtain ⟨h1, h2⟩ := mem_layersOf e
            exact (hothers l (List.mem_of_mem_drop h1) h2).1) (hothers y hymem hyl).2
      rw [hyd]; exact ⟨_, ha'⟩
  obtain ⟨out, hout⟩ := extraChildren_of_all_ok _ pf _ hallok
  obtain ⟨_, hall⟩ := extraChildren_ok _ pf _ out hout
  obtain ⟨c', hc', houti⟩ := hall i _ (criChildren_getElem ref md children i c hi)
  rw [if_pos hcl, hdrop] at hc'
  obtain ⟨a', ha', g1, g2, g3, g4, g5, g6⟩ := extraChild_cri_spec (criChildren ref md children) children hurls
    ref md pf c (children.drop (i + 1)) hcl (by
      intro l hl
      rcases List.mem_cons.mp hl with e | e
      · subst e; exact hdig _ (by rw [hdrop]; simp) hcl
      · obtain ⟨h1, h2⟩ := mem_layersOf e
        exact hdig l (by rw [hdrop]; simp [h1]) h2) hnp
  rw [ha'] at hc'
  simp only [Outcome.ok.injEq] at hc'; subst hc'
  have hlab : extraLabelsAt ref md pf children i = some a' := by
    unfold extraLabelsAt extraOnCri extraWriter criWriter
    simp only [if_true, hout, houti]; rfl
  have hread := extra_read_spec parseRef children a' ref c (layersOf (children.drop (i + 1)))
    (fitCount kCriLayers c.digest.length ((layersOf (children.drop (i + 1))).map (·.digest))) r
    (by
      intro l hl
      rcases List.mem_cons.mp hl with e | e
      · subst e; exact hdig _ (by rw [hdrop]; simp) hcl
      · obtain ⟨h1, h2⟩ := mem_layersOf e
        exact hdig l (by rw [hdrop]; simp [h1]) h2) hr g1 g2 g3 g4 g6
  refine ⟨a', _, hlab, hread, ?_⟩
  refine ⟨rfl, rfl, rfl, ?_, _, rfl, rfl, nbSpec_digests _ _ _ _⟩
  exact g5

/-- Under the consistency hypothesis "children with equal digests carry equal URL lists and equal
layer-ness", the by-digest lookup of the extra flavour returns the neighbour's OWN URLs. -/
theorem extra_neighbours_own_urls (children : List Desc) (l : Desc) (m : Nat) (hl : l ∈ children)
    (hlayer : l.isLayer = true)
    (hcons : ∀ x ∈ children, x.digest = l.digest → x.isLayer = true ∧ x.urls = l.urls) :
    urlsByDigest children m l.digest = readURLs (urlsKey m) l.urls := by
  obtain ⟨x, hx, hxu⟩ := layerFromDigest_consistent children l hl hlayer hcons
  unfold urlsByDigest; rw [hx]; simp only; rw [hxu]


/-! ### the statements of the property, one by one (corollaries of the two round-trip theorems) -/

/-- Same image reference and same layer digest (default flavour, stated domain). -/
theorem roundtrip_ref_digest {R : Type} (parseRef : Str → Option R) (ref : Str) (pf : Int)
    (children : List Desc) (i : Nat) (c : Desc) (r : R)
    (hdom : TailOfLayers children i c) (hr : parseRef ref = some r) :
    ∃ labels s, defaultLabelsAt ref pf children i = some labels ∧
      readSource parseRef defaultKeys labels = some s ∧ s.name = r ∧ s.target = c.digest := by
  obtain ⟨labels, s, h1, h2, h3, h4, _⟩ := default_roundtrip parseRef ref pf children i c r hdom hr
  exact ⟨labels, s, h1, h2, h3, h4⟩

/-- Same URLs for the layer: exactly the leading URLs that fit under the size limit (all of them when
they fit), provided no URL contains a comma; a list of which nothing fits reads back as `[""]`. -/
theorem roundtrip_target_urls {R : Type} (parseRef : Str → Option R) (ref : Str) (pf : Int)
    (children : List Desc) (i : Nat) (c : Desc) (r : R)
    (hdom : TailOfLayers children i c) (hr : parseRef ref = some r) (hc : ∀ u ∈ c.urls, ',' ∉ u) :
    ∃ labels s, defaultLabelsAt ref pf children i = some labels ∧
      readSource parseRef defaultKeys labels = some s ∧
      ((fitCount kURLs 0 c.urls = 0 ∧ s.urls = [[]]) ∨
       (0 < fitCount kURLs 0 c.urls ∧ s.urls = c.urls.take (fitCount kURLs 0 c.urls) ∧ s.urls <+: c.urls)) ∧
      (c.urls ≠ [] → kURLs.length + (catComma c.urls).length ≤ maxSize → s.urls = c.urls) := by
  obtain ⟨labels, s, h1, h2, _, _, h5, _⟩ := default_roundtrip parseRef ref pf children i c r hdom hr
  refine ⟨labels, s, h1, h2, ?_, ?_⟩
  · rw [h5]; exact urls_read_back kURLs c.urls hc
  · intro hne hfit; rw [h5]; exact urls_exact_when_fit kURLs c.urls hc hne hfit

/-- The neighbour list is a prefix, in manifest order, of the layers that follow (copies of the target
digest skipped); every neighbour is one of those layers, paired with a prefix of ITS OWN URLs (never
another layer's), provided no URL contains a comma. -/
theorem neighbours_prefix {R : Type} (parseRef : Str → Option R) (ref : Str) (pf : Int)
    (children : List Desc) (i : Nat) (c : Desc) (r : R)
    (hdom : TailOfLayers children i c) (hr : parseRef ref = some r)
    (hc : ∀ l ∈ children, ∀ u ∈ l.urls, ',' ∉ u) :
    ∃ labels s, defaultLabelsAt ref pf children i = some labels ∧
      readSource parseRef defaultKeys labels = some s ∧
      (∃ n, n ≤ (children.drop (i + 1)).length ∧
        s.neighbours.map (·.1) = (((children.drop (i + 1)).take n).map (·.digest)).filter (· ≠ c.digest)) ∧
      ∀ p ∈ s.neighbours, ∃ (m : Nat) (l : Desc), (children.drop (i + 1))[m]? = some l ∧ l.digest = p.1 ∧
        p.1 ≠ c.digest ∧ (p.2 = [[]] ∨ p.2 <+: l.urls) := by
  obtain ⟨labels, s, h1, h2, _, _, _, n, _, hn, _, hd, hm⟩ :=
    default_roundtrip parseRef ref pf children i c r hdom hr
  refine ⟨labels, s, h1, h2, ⟨n, hn, hd⟩, ?_⟩
  intro p hp
  obtain ⟨m, l, _, hl, hne, rfl⟩ := hm p hp
  refine ⟨m, l, hl, rfl, hne, ?_⟩
  have hlm : l ∈ children := List.mem_of_mem_drop (List.mem_of_getElem? hl)
  rcases urls_read_back (urlsKey (m + 1)) l.urls (hc l hlm) with ⟨_, h⟩ | ⟨_, _, h⟩
  · exact Or.inl h
  · exact Or.inr h

/-- The prefetch-size label round-trips (default flavour, ALL manifests). -/
theorem prefetch_roundtrip (dflt : Int) (ref : Str) (pf : Int) (children : List Desc) (i : Nat) (c : Desc)
    (hi : children[i]? = some c) (hl : c.isLayer = true) (hpf : -(2 ^ 63) ≤ pf ∧ pf < 2 ^ 63) :
    ∃ labels, defaultLabelsAt ref pf children i = some labels ∧ mountPrefetch dflt labels = pf := by
  obtain ⟨g1, g2, g3, g4, _⟩ := defaultLabels_fixed ref pf c (children.drop i)
  refine ⟨defaultLabels ref pf c (children.drop i), ?_, ?_⟩
  · unfold defaultLabelsAt defaultWriter
    simp only [if_true]
    rw [defaultChildren_getElem ref pf children i c hi, if_pos hl]; rfl
  · unfold mountPrefetch; rw [g3]; simp only; rw [parseInt64_intDec pf hpf]

/-! ## prefetch-size label -/

/-- `strconv.ParseInt(fmt.Sprintf("%d", n), 10, 64)` gives back `n` for every int64. -/
theorem prefetch_print_parse (n : Int) (h : -(2 ^ 63) ≤ n ∧ n < 2 ^ 63) : parseInt64 (intDec n) = some n :=
  parseInt64_intDec n h

/-- Whatever the snapshotter's configured default, a label written by the handlers wins and yields the
size the image was pulled with. -/
theorem prefetch_label_roundtrip (dflt pf : Int) (labels : Labels) (h : -(2 ^ 63) ≤ pf ∧ pf < 2 ^ 63)
    (hl : get labels kPrefetch = some (intDec pf)) : mountPrefetch dflt labels = pf := by
  unfold mountPrefetch; rw [hl]; simp only; rw [parseInt64_intDec pf h]

/-- Default flavour, ALL manifests: every layer child carries the prefetch label (and the reference and
digest labels) of this pull. -/
theorem default_fixed_labels (ref : Str) (pf : Int) (children : List Desc) (i : Nat) (c : Desc)
    (hi : children[i]? = some c) (hl : c.isLayer = true) :
    ∃ labels, defaultLabelsAt ref pf children i = some labels ∧
      get labels kRef = some ref ∧ get labels kDigest = some c.digest ∧
      get labels kPrefetch = some (intDec pf) ∧
      get labels kURLs = some (appendWithValidation kURLs c.urls) := by
  obtain ⟨g1, g2, g3, g4, _⟩ := defaultLabels_fixed ref pf c (children.drop i)
  refine ⟨defaultLabels ref pf c (children.drop i), ?_, g1, g2, g3, g4⟩
  unfold defaultLabelsAt defaultWriter
  simp only [if_true]
  rw [defaultChildren_getElem ref pf children i c hi, if_pos hl]; rfl

/-- A missing or unparsable prefetch label falls back to the configured default (never to garbage). -/
theorem prefetch_malformed_falls_back (dflt : Int) (labels : Labels)
    (h : get labels kPrefetch = none ∨ ∃ s, get labels kPrefetch = some s ∧ parseInt64 s = none) :
    mountPrefetch dflt labels = dflt := by
  unfold mountPrefetch
  rcases h with h | ⟨s, h1, h2⟩
  · rw [h]
  · rw [h1]; simp only; rw [h2]

/-! ## missing / malformed mandatory labels -/

/-- For EVERY label map (so for every subset of labels removed or corrupted): a source is accepted
only if the reference label is present and parses to exactly the returned name, and the digest label is
present, parses, and is exactly the returned target; moreover every entry of a layers label parses. -/
theorem accepted_source_is_named_by_labels {R : Type} (parseRef : Str → Option R) (ks : ReaderKeys)
    (labels : Labels) (s : Source R) (h : readSource parseRef ks labels = some s) :
    (∃ refStr, get labels ks.ref = some refStr ∧ parseRef refStr = some s.name) ∧
    get labels ks.digest = some s.target ∧ digestValid s.target = true ∧
    (∀ l, get labels ks.layers = some l → ∀ d ∈ splitComma l, digestValid d = true) :=
  readSource_some parseRef ks labels s h

theorem missing_or_malformed_rejected {R : Type} (parseRef : Str → Option R) (ks : ReaderKeys)
    (labels : Labels) :
    (get labels ks.ref = none → readSource parseRef ks labels = none) ∧
    (∀ rs, get labels ks.ref = some rs → parseRef rs = none → readSource parseRef ks labels = none) ∧
    (get labels ks.digest = none → readSource parseRef ks labels = none) ∧
    (∀ d, get labels ks.digest = some d → digestValid d = false → readSource parseRef ks labels = none) ∧
    (∀ l d, get labels ks.layers = some l → d ∈ splitComma l → digestValid d = false →
      readSource parseRef ks labels = none) := by
  refine ⟨?_, ?_, ?_, ?_, ?_⟩
  · intro h0
    cases h : readSource parseRef ks labels with
    | none => rfl
    | some s =>
      obtain ⟨⟨x, h1, _⟩, _⟩ := readSource_some parseRef ks labels s h
      rw [h0] at h1; exact absurd h1 (by simp)
  · intro rs h0 hp
    cases h : readSource parseRef ks labels with
    | none => rfl
    | some s =>
      obtain ⟨⟨x, h1, h2⟩, _⟩ := readSource_some parseRef ks labels s h
      rw [h0] at h1; simp only [Option.some.injEq] at h1; subst h1
      rw [hp] at h2; exact absurd h2 (by simp)
  · intro h0
    cases h : readSource parseRef ks labels with
    | none => rfl
    | some s =>
      obtain ⟨_, h1, _⟩ := readSource_some parseRef ks labels s h
      rw [h0] at h1; exact absurd h1 (by simp)
  · intro d h0 hv
    cases h : readSource parseRef ks labels with
    | none => rfl
    | some s =>
      obtain ⟨_, h1, h2, _⟩ := readSource_some parseRef ks labels s h
      rw [h0] at h1; simp only [Option.some.injEq] at h1; subst h1
      rw [hv] at h2; exact absurd h2 (by simp)
  · intro l d h0 hd hv
    cases h : readSource parseRef ks labels with
    | none => rfl
    | some s =>
      obtain ⟨_, _, _, h3⟩ := readSource_some parseRef ks labels s h
      have := h3 l h0 d hd
      rw [hv] at this; exact absurd this (by simp)

/-- The snapshotter's combination `sources(cri, default)` accepts only what one of the two readers
accepts (so the two theorems above apply to it). -/
theorem both_readers_accept_only_named_sources {R : Type} (parseRef : Str → Option R) (labels : Labels)
    (s : Source R) (h : readBoth parseRef labels = some s) :
    readSource parseRef criKeys labels = some s ∨
    (readSource parseRef criKeys labels = none ∧ readSource parseRef defaultKeys labels = some s) := by
  unfold readBoth at h
  split at h
  · rename_i s' hs'; simp only [Option.some.injEq] at h; subst h; exact Or.inl hs'
  · rename_i hn; exact Or.inr ⟨hn, h⟩

/-- fs.Mount pre-resolves exactly the reader's neighbour list (its own filter on the target digest
removes nothing, because the readers already skipped every copy of the target). -/
theorem mount_preresolves_reader_neighbours {R : Type} (parseRef : Str → Option R) (ks : ReaderKeys)
    (labels : Labels) (s : Source R) (h : readSource parseRef ks labels = some s) :
    mountNeighbours s = s.neighbours := by
  have hne := readSource_neighbours_ne_target parseRef ks labels s h
  unfold mountNeighbours
  rw [List.filter_cons]
  simp only [ne_eq, not_true_eq_false, decide_false, Bool.false_eq_true, if_false]
  apply List.filter_eq_self.mpr
  intro p hp; simpa using hne p hp


/-! ## where the code does NOT keep the property: proved counterexamples
(the harness replays exactly these manifests on the real handlers and readers, stream `hyp`) -/

section counterexamples
set_option maxRecDepth 200000

/-- `"sha256:" ++ c×64` -/
def dg (c : Char) : Str := ['s', 'h', 'a', '2', '5', '6', ':'] ++ List.replicate 64 c

def cfg : Desc := ⟨false, dg 'c', [], none⟩
def att : Desc := ⟨false, dg 'e', [], none⟩
def lyr (c : Char) (urls : List String) (ann : Option Labels := none) : Desc :=
  ⟨true, dg c, urls.map String.toList, ann⟩
def ref0 : Str := "ghcr.io/stargz-containers/ubuntu:22.04-esgz".toList

def manComma : List Desc := [cfg, lyr 'a' ["https://a/x,y"], lyr 'b' ["https://b/1,2", "https://b/3"]]
def manNonLayer : List Desc := [cfg, lyr 'a' ["https://a/"], att, lyr 'b' ["https://b/"], lyr 'd' ["https://d/"]]
def manDup : List Desc := [cfg, lyr 'a' ["https://first/"], lyr 'b' ["https://b/"], lyr 'a' ["https://third/"]]
def manPreset : List Desc :=
  [cfg, lyr 'a' ["https://a/"] (some [(kURLs, "https://preset/".toList), (kPrefetch, ['1']),
      (urlsKey 1, "https://preset/n".toList)]), lyr 'b' ["https://b/"]]

/-- A manifest inside "config first, then layers", with a comma inside URLs (`manComma`): the target's
URL and the neighbour's URLs come back split — no longer the layers' URLs.  Default flavour. -/
theorem comma_in_url_counterexample :
    (defaultLabelsAt ref0 5 manComma 1).bind (readSource some defaultKeys) =
      some { name := ref0, target := dg 'a',
             urls := ["https://a/x".toList, "y".toList],
             neighbours := [(dg 'b', ["https://b/1".toList, "2".toList, "https://b/3".toList])] } := by
  decide

/-- … and the same with the extra flavour / CRI reader. -/
theorem comma_in_url_counterexample_extra :
    (extraLabelsAt ref0 (dg 'f') 5 manComma 1).bind (readSource some criKeys) =
      some { name := ref0, target := dg 'a',
             urls := ["https://a/x".toList, "y".toList],
             neighbours := [(dg 'b', ["https://b/1".toList, "2".toList, "https://b/3".toList])] } := by
  decide

/-- A non-layer child between layers (`manNonLayer`, OUTSIDE the stated domain): the default writer's
URL index counts it, the layers label does not — neighbour `b` loses its URLs and neighbour `d` is
paired with `b`'s URLs. -/
theorem nonlayer_between_layers_counterexample :
    (defaultLabelsAt ref0 5 manNonLayer 1).bind (readSource some defaultKeys) =
      some { name := ref0, target := dg 'a', urls := ["https://a/".toList],
             neighbours := [(dg 'b', []), (dg 'd', ["https://b/".toList])] } := by
  decide

/-- Repeated digest with different URL lists (`manDup`), extra flavour: seen from layer `b`, the
following layer `a` (URL `third`) is paired with the URLs of the FIRST child with that digest. -/
theorem dup_digest_foreign_urls_counterexample :
    (extraLabelsAt ref0 (dg 'f') 5 manDup 2).bind (readSource some criKeys) =
      some { name := ref0, target := dg 'b', urls := ["https://b/".toList],
             neighbours := [(dg 'a', ["https://first/".toList])] } := by
  decide

/-- Keys pre-set in the manifest's own annotations (`manPreset`), extra flavour ("nop if this key is
already set"): URLs, neighbour URLs and prefetch size come from the manifest, not from this pull. -/
theorem preset_annotation_counterexample :
    ((extraLabelsAt ref0 (dg 'f') 5 manPreset 1).bind (readSource some criKeys) =
      some { name := ref0, target := dg 'a', urls := ["https://preset/".toList],
             neighbours := [(dg 'b', ["https://preset/n".toList])] }) ∧
    (extraLabelsAt ref0 (dg 'f') 5 manPreset 1).map (mountPrefetch 0) = some 1 := by
  decide

/-- Without containerd's wrapper (nil annotation map) the extra handler panics on the first layer. -/
theorem extra_without_wrapper_panics :
    extraWriter true 5 [cfg, lyr 'a' []] = .panic := by decide

end counterexamples

/-! ## non-vacuity: the hypotheses of the theorems above are satisfiable on non-trivial inputs -/

section nonvacuity
set_option maxRecDepth 200000

def manOK : List Desc :=
  [cfg, lyr 'a' ["https://a/1", "https://a/2"] (some [("org.opencontainers.image.title".toList, ['x'])]),
   lyr 'b' ["https://b/"], lyr 'a' ["https://a/1", "https://a/2"], lyr 'd' []]

example : TailOfLayers manOK 1 (lyr 'a' ["https://a/1", "https://a/2"]
    (some [("org.opencontainers.image.title".toList, ['x'])])) := ⟨by decide, by decide, by decide⟩
example : LayerAt manNonLayer 1 (lyr 'a' ["https://a/"]) := ⟨by decide, by decide, by decide⟩
example : NoPreset [("org.opencontainers.image.title".toList, ['x'])] :=
  ⟨by decide, by decide, fun j => by
    simp only [SV.Labels.get]; rw [if_neg (urlsKey_ne _ (by decide) j)]⟩
example : NoPreset ((none : Option Labels).getD []) := ⟨rfl, rfl, fun _ => rfl⟩
-- reference / digest length hypotheses of `labels_valid_*`
example : kRef.length + ref0.length ≤ maxSize ∧ kCriRef.length + ref0.length ≤ maxSize := by decide
example : ∀ l ∈ manOK, kDigest.length + l.digest.length ≤ maxSize := by decide
example : kCriManifest.length + (dg 'f').length ≤ maxSize := by decide
-- any parsable digest meets the digest-length hypothesis
example (d : Str) (h : digestValid d = true) : kDigest.length + d.length ≤ maxSize := by
  have := (digestValid_length d h).2; rw [kDigest_length]; simp only [maxSize]; omega
-- the round trip on `manOK` (target `a` is repeated further down and skipped there)
example : (defaultLabelsAt ref0 7 manOK 1).bind (readSource some defaultKeys) =
    some { name := ref0, target := dg 'a', urls := ["https://a/1".toList, "https://a/2".toList],
           neighbours := [(dg 'b', ["https://b/".toList]), (dg 'd', [[]])] } := by decide
example : (extraLabelsAt ref0 (dg 'f') 7 manOK 2).bind (readSource some criKeys) =
    some { name := ref0, target := dg 'b', urls := ["https://b/".toList],
           neighbours := [(dg 'a', ["https://a/1".toList, "https://a/2".toList]), (dg 'd', [[]])] } := by decide
-- consistency hypothesis of `extra_neighbours_own_urls` on `manOK`
example : ∀ x ∈ manOK, x.digest = dg 'a' → x.isLayer = true ∧ x.urls = ["https://a/1".toList, "https://a/2".toList] := by
  decide
-- no-comma hypothesis, fit hypothesis
example : ∀ u ∈ ["https://a/1".toList, "https://a/2".toList], ',' ∉ u := by decide
example : kURLs.length + (catComma ["https://a/1".toList, "https://a/2".toList]).length ≤ maxSize := by decide
example : digestValid (dg 'a') = true ∧ digestValid ("sha256:xyz".toList) = false := by decide
example : mountPrefetch (-7) [(kPrefetch, intDec (-9223372036854775808))] = -9223372036854775808 := by decide
example : parseInt64 "9223372036854775808".toList = none ∧ parseInt64 "+5".toList = some 5 ∧
    parseInt64 "1_000".toList = none ∧ parseInt64 [] = none := by decide

end nonvacuity

end SV.Props.C20
