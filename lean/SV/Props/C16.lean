/-
C16 — Store layers can be acquired, released and re-acquired in any order.

Only property theorems and their non-vacuity examples live here.  The model is `SV.Store`
(store/manager.go: getLayer, resolveLayer, cacheLayer, getCachedLayer, use, release; the counting
part of store/refs.go).  All theorems are about the state after an ARBITRARY history
`run T init h` of lookup / info / use / release operations, each lookup with its own registry
oracle (so transient registry errors are covered), proved through invariants of reachable states.
-/
import SV.Lemmas.Store

namespace SV.Props.C16
open SV.Store SV.Store.Map

/-- the image `r` contains a layer whose (verified) TOC digest is `t`. -/
def Member (T : Truth) (r t : Nat) : Prop := ∃ ls d, T.images r = some ls ∧ (d, t) ∈ ls

/-! ## Lookup -/

/-- After ANY history in which no layer resolution failed, a lookup (diff / blob of (ref, TOC
digest)) with a healthy registry succeeds exactly when the image contains a layer with that TOC
digest — whatever was used, released, released to zero and looked up again before.  The history
may contain lookups whose manifest could not be fetched: registry errors on the manifest and
lookups ABANDONED BY THEIR CLIENT (cancelled context; `Op.Healthy` leaves `o.manifest` free, and
the layers are resolved on `context.Background()`): neither leaves a trace. -/
theorem lookup_succeeds_iff_member (T : Truth) (hfun : T.Functional) (h : List Op)
    (hh : ∀ op, op ∈ h → op.Healthy) (o : Oracle) (ho : o.Healthy) (r t : Nat) :
    (lookup T o (run T init h) r t).2.isOk = true ↔ Member T r t := by
  obtain ⟨hI, _, hR⟩ := reach_ok T hfun h hh
  constructor
  · intro hok
    rcases lookup_res T o _ r t hI with ⟨he, _⟩ | ⟨l, _, hl⟩
    · rw [he] at hok; cases hok
    · obtain ⟨ls, hi, hin⟩ := (lookup_inv_ext T o _ r t hI).1.member _ _ _ hl
      exact ⟨ls, l.digest, hi, hin⟩
  · rintro ⟨ls, d, hi, hin⟩
    cases hq : lay (run T init h) r t with
    | some l => rw [lookup_of_cached T o _ r t hI l hq]; rfl
    | none =>
      obtain ⟨d', hin', hmem⟩ := hR r ls d t hi hin hq
      obtain ⟨l, hl⟩ := lookup_of_resolvable T o _ r t hI ls hi (hfun r ls hi)
        (Or.inr (ho.1 r)) d' hin' hmem (ho.2 r d')
      rw [hl]; rfl

/-- A TOC digest that no layer of the image has is never served — after any history, with any
registry behaviour, for unknown images too. -/
theorem unknown_digest_fails (T : Truth) (h : List Op) (o : Oracle) (r t : Nat)
    (hn : ¬ Member T r t) : (lookup T o (run T init h) r t).2 = .err := by
  have hI := reach_inv T _ ⟨h, rfl⟩
  rcases lookup_res T o _ r t hI with ⟨he, _⟩ | ⟨l, _, hl⟩
  · exact he
  · obtain ⟨ls, hi, hin⟩ := (lookup_inv_ext T o _ r t hI).1.member _ _ _ hl
    exact absurd ⟨ls, l.digest, hi, hin⟩ hn

/-- With registry errors anywhere in the history: a lookup of an existing layer fails only if the
manifest cannot be obtained, or if for EVERY layer with that TOC digest the resolution fails
(an error is memoised for it, or it has no resolve status and the registry refuses it now). -/
theorem lookup_fails_only_if_resolution_fails (T : Truth) (hfun : T.Functional)
    (hinj : T.Injective) (h : List Op) (o : Oracle) (r t : Nat) (ls : List (Nat × Nat))
    (hi : T.images r = some ls) (hfail : (lookup T o (run T init h) r t).2 = .err) :
    (r ∉ (run T init h).disk ∧ o.manifest r = false) ∨
    ∀ d, (d, t) ∈ ls →
      mem (run T init h) r d = some .err ∨
      (mem (run T init h) r d = none ∧ o.layer r d = false) := by
  obtain ⟨hI, hO⟩ := reach_okCached T hfun hinj h
  by_cases hman : r ∈ (run T init h).disk ∨ o.manifest r = true
  · right
    intro d hin
    cases hm : mem (run T init h) r d with
    | some x =>
      cases x with
      | err => exact Or.inl rfl
      | ok =>
        exfalso
        have hp := hO r ls d t hi hin hm
        cases hq : lay (run T init h) r t with
        | none => exact hp hq
        | some l => rw [lookup_of_cached T o _ r t hI l hq] at hfail; cases hfail
    | none =>
      right
      refine ⟨rfl, ?_⟩
      cases hq : o.layer r d with
      | false => rfl
      | true =>
        exfalso
        obtain ⟨l, hl⟩ := lookup_of_resolvable T o _ r t hI ls hi (hfun r ls hi) hman d hin hm hq
        rw [hl] at hfail; cases hfail
  · left
    constructor
    · intro hd; exact hman (Or.inl hd)
    · cases hq : o.manifest r with
      | false => rfl
      | true => exact absurd (Or.inr hq) hman

/-- …and conversely: if the registry answers now and no error is memoised for the layer, the
lookup succeeds, whatever errors the history contained. -/
theorem lookup_succeeds_if_no_memoised_error (T : Truth) (hfun : T.Functional)
    (hinj : T.Injective) (h : List Op) (o : Oracle) (r t d : Nat) (ls : List (Nat × Nat))
    (hi : T.images r = some ls) (hin : (d, t) ∈ ls)
    (hman : r ∈ (run T init h).disk ∨ o.manifest r = true) (ho : o.layer r d = true)
    (hmem : mem (run T init h) r d ≠ some .err) :
    (lookup T o (run T init h) r t).2.isOk = true := by
  cases hq : (lookup T o (run T init h) r t).2 with
  | err =>
    exfalso
    rcases lookup_fails_only_if_resolution_fails T hfun hinj h o r t ls hi hq with ⟨h1, h2⟩ | h1
    · rcases hman with hm | hm
      · exact h1 hm
      · rw [hm] at h2; cases h2
    · rcases h1 d hin with e | ⟨_, e⟩
      · exact hmem e
      · rw [ho] at e; cases e
  | layer l => rfl
  | count n => rfl
  | info i => rfl

/-- A successful lookup returns the cached instance, it sits under the TOC digest that was asked
for (so `Verify(directory name)` in layernode.Lookup succeeds), it belongs to the image, and
`Done()` was never called on it. -/
theorem lookup_returns_verified_live_layer (T : Truth) (h : List Op) (o : Oracle) (r t : Nat)
    (l : Layer) (hl : (lookup T o (run T init h) r t).2 = .layer l) :
    l.toc = t ∧ lay (lookup T o (run T init h) r t).1 r t = some l ∧
    l.id ∉ (lookup T o (run T init h) r t).1.done ∧ Member T r t := by
  have hI := reach_inv T _ ⟨h, rfl⟩
  have hI' := (lookup_inv_ext T o _ r t hI).1
  rcases lookup_res T o _ r t hI with ⟨he, _⟩ | ⟨l', hl', hlay⟩
  · rw [he] at hl; cases hl
  · rw [hl'] at hl; cases hl
    obtain ⟨ls, hi, hin⟩ := hI'.member _ _ _ hlay
    exact ⟨hI'.key _ _ _ hlay, hlay, hI'.live _ _ _ hlay, ls, _, hi, hin⟩

/-! ## Use counts -/

/-- Use counts are never negative: every stored count (LayerManager and refPool) is at least 1,
`use` returns at least 1 and `release` never returns a negative number — after any history. -/
theorem count_nonneg (T : Truth) (h : List Op) (r t : Nat) :
    (∀ c, cnt (run T init h) r t = some c → 1 ≤ c) ∧
    (∀ c, get (run T init h).pool r = some c → 1 ≤ c) ∧
    (∃ n, (use (run T init h) r t).2 = .count n ∧ 1 ≤ n) ∧
    ((release (run T init h) r t).2 = .err ∨
      ∃ n, (release (run T init h) r t).2 = .count n ∧ 0 ≤ n) := by
  have hI := reach_inv T _ ⟨h, rfl⟩
  refine ⟨hI.pos r t, hI.ppos r, ?_, ?_⟩
  · refine ⟨_, use_res _ r t, ?_⟩
    cases hc : cnt (run T init h) r t with
    | none => simp
    | some c => have := hI.pos _ _ _ hc; simp; omega
  · cases hc : cnt (run T init h) r t with
    | none => left; rw [release_untracked _ r t hc]
    | some c =>
      have hp := hI.pos _ _ _ hc
      by_cases h1 : 1 < c
      · right; rw [release_keep _ r t c hc h1]; exact ⟨c - 1, rfl, by omega⟩
      · have hc1 : c ≤ 1 := by omega
        obtain ⟨_, _, _, _, _, _, _, g8, g9⟩ := release_drop_spec _ r t c hc hc1
        cases hl : lay (run T init h) r t with
        | none => left; exact (g8 hl).1
        | some l => right; exact ⟨c - 1, (g9 l hl).1, by omega⟩

/-! ## A layer with outstanding uses is never released -/

/-- One step: whatever operation comes next (on this or any other layer or image), a cached
layer that still has a use count afterwards (by `count_nonneg` a stored count is ≥ 1, i.e. there
are outstanding uses) is still cached afterwards — the same instance — and `Done()` has not been
called on it. -/
theorem in_use_never_released (T : Truth) (s : St) (hI : Inv T s) (op : Op) (r t : Nat)
    (l : Layer) (c : Int) (hl : lay s r t = some l) (hc : cnt (step T s op).1 r t = some c) :
    lay (step T s op).1 r t = some l ∧ l.id ∉ (step T s op).1.done := by
  cases op with
  | lookup o r0 t0 =>
    have hE := (lookup_inv_ext T o s r0 t0 hI).2
    exact ⟨hE.layMono _ _ _ hl, by show l.id ∉ (lookup T o s r0 t0).1.done; rw [hE.dn]; exact hI.live _ _ _ hl⟩
  | info o r0 t0 =>
    obtain ⟨e1, _, _, e4, _, _⟩ := info_fields T o s r0 t0
    refine ⟨?_, ?_⟩
    · show lay (info T o s r0 t0).1 r t = some l; unfold lay at *; rw [e1]; exact hl
    · show l.id ∉ (info T o s r0 t0).1.done; rw [e4]; exact hI.live _ _ _ hl
  | use r0 t0 =>
    obtain ⟨e1, _, e3, _⟩ := use_fields s r0 t0
    refine ⟨?_, ?_⟩
    · show lay (use s r0 t0).1 r t = some l; unfold lay at *; rw [e1]; exact hl
    · show l.id ∉ (use s r0 t0).1.done; rw [e3]; exact hI.live _ _ _ hl
  | release r0 t0 =>
    show lay (release s r0 t0).1 r t = some l ∧ l.id ∉ (release s r0 t0).1.done
    have hc' : cnt (release s r0 t0).1 r t = some c := hc
    cases h0 : cnt s r0 t0 with
    | none => rw [release_untracked s r0 t0 h0]; exact ⟨hl, hI.live _ _ _ hl⟩
    | some c0 =>
      by_cases h1 : 1 < c0
      · rw [release_keep s r0 t0 c0 h0 h1]; exact ⟨hl, hI.live _ _ _ hl⟩
      · have hc1 : c0 ≤ 1 := by omega
        obtain ⟨g1, _, _, _, _, _, _, g8, g9⟩ := release_drop_spec s r0 t0 c0 h0 hc1
        have hne : ¬ (r = r0 ∧ t = t0) := by
          intro hx; rw [g1, if_pos hx] at hc'; cases hc'
        cases hl0 : lay s r0 t0 with
        | none =>
          obtain ⟨_, k2, k3⟩ := g8 hl0
          refine ⟨by unfold lay at *; rw [k2]; exact hl, by rw [k3]; exact hI.live _ _ _ hl⟩
        | some l0 =>
          obtain ⟨_, k2, k3, _, _⟩ := g9 l0 hl0
          refine ⟨by rw [k3, if_neg hne]; exact hl, ?_⟩
          rw [k2]
          intro hm
          rcases List.mem_cons.mp hm with e | e
          · exact hne (hI.uniq _ _ _ _ _ _ hl hl0 e)
          · exact hI.live _ _ _ hl e

/-- Along a whole history: once a layer is cached, as long as it has outstanding uses after every
further operation, it stays cached (the same instance) and is never `Done()` — whatever else
happens to other layers and images, including their release to zero. -/
theorem in_use_layer_kept_along_history (T : Truth) (h : List Op) (r t : Nat) (l : Layer)
    (hl : lay (run T init h) r t = some l) (h' : List Op)
    (hpos : ∀ p, p <+: h' → p ≠ [] → ∃ c, cnt (run T (run T init h) p) r t = some c ∧ 0 < c) :
    lay (run T (run T init h) h') r t = some l ∧ l.id ∉ (run T (run T init h) h').done := by
  have hI := reach_inv T _ ⟨h, rfl⟩
  generalize run T init h = s at hI hl hpos
  induction h' generalizing s with
  | nil => exact ⟨hl, hI.live _ _ _ hl⟩
  | cons op ops ih =>
    have h1 : run T s (op :: ops) = run T (step T s op).1 ops := rfl
    rw [h1]
    obtain ⟨c, hc, _⟩ := hpos [op] (by simp) (by simp)
    have hc' : cnt (step T s op).1 r t = some c := hc
    obtain ⟨hl1, _⟩ := in_use_never_released T s hI op r t l c hl hc'
    apply ih _ (step_inv T s op hI) hl1
    intro p hp hne
    have : (op :: p) <+: (op :: ops) := by
      obtain ⟨q, hq⟩ := hp; exact ⟨q, by simp [← hq]⟩
    obtain ⟨c2, h2, h3⟩ := hpos (op :: p) this (by simp)
    exact ⟨c2, h2, h3⟩

/-- In every reachable state `Done()` has been called on no cached layer, and instance
identities are not shared between cache entries. -/
theorem cached_layers_are_live (T : Truth) (h : List Op) (r t : Nat) (l : Layer)
    (hl : lay (run T init h) r t = some l) :
    l.id ∉ (run T init h).done ∧ l.toc = t ∧ Member T r t := by
  have hI := reach_inv T _ ⟨h, rfl⟩
  obtain ⟨ls, hi, hin⟩ := hI.member _ _ _ hl
  exact ⟨hI.live _ _ _ hl, hI.key _ _ _ hl, ls, l.digest, hi, hin⟩

/-! ## The last release drops the layer and its resolution bookkeeping -/

/-- When the last use of a cached layer is released (count 1 → 0): the call returns 0, the
counter entry and the cached layer are gone, `Done()` was called on that instance, the resolve
status of its layer digest is reset, and — if it was the last counted layer of the image — the
resolve status of the whole image is reset.  A later lookup (registry answering for that layer)
resolves again and succeeds with a NEW instance that is not `Done()`. -/
theorem last_release_resets (T : Truth) (hfun : T.Functional) (h : List Op) (r t : Nat) (l : Layer)
    (hc : cnt (run T init h) r t = some 1) (hl : lay (run T init h) r t = some l) :
    (release (run T init h) r t).2 = .count 0 ∧
    cnt (release (run T init h) r t).1 r t = none ∧
    lay (release (run T init h) r t).1 r t = none ∧
    l.id ∈ (release (run T init h) r t).1.done ∧
    mem (release (run T init h) r t).1 r l.digest = none ∧
    (AllGone (run T init h) r t → ∀ d, mem (release (run T init h) r t).1 r d = none) ∧
    ∀ o : Oracle, (r ∈ (run T init h).disk ∨ o.manifest r = true) → o.layer r l.digest = true →
      ∃ l', (lookup T o (release (run T init h) r t).1 r t).2 = .layer l' ∧ l'.id ≠ l.id ∧
        l'.id ∉ (lookup T o (release (run T init h) r t).1 r t).1.done := by
  have hI := reach_inv T _ ⟨h, rfl⟩
  generalize run T init h = s at hI hc hl
  obtain ⟨g1, g2, g3, _, _, _, g7, _, g9⟩ := release_drop_spec s r t 1 hc (by omega)
  obtain ⟨k1, k2, k3, k4, _⟩ := g9 l hl
  have hI' := release_inv T s r t hI
  refine ⟨k1, ?_, ?_, ?_, k4, g7, ?_⟩
  · rw [g1]; simp
  · rw [k3]; simp
  · rw [k2]; simp
  · intro o hman ho
    obtain ⟨ls, hi, hin⟩ := hI.member _ _ _ hl
    have hman' : r ∈ (release s r t).1.disk ∨ o.manifest r = true := by rw [g3]; exact hman
    obtain ⟨l', hl'⟩ := lookup_of_resolvable T o _ r t hI' ls hi (hfun r ls hi) hman'
      l.digest hin k4 ho
    refine ⟨l', hl', ?_, ?_⟩
    · rcases lookup_res T o _ r t hI' with ⟨he, _⟩ | ⟨l2, hl2, hlay2⟩
      · rw [he] at hl'; cases hl'
      · rw [hl2] at hl'; cases hl'
        rcases (lookup_inv_ext T o _ r t hI').2.layNew _ _ _ hlay2 with e | e
        · rw [k3] at e; simp at e
        · have := hI.fresh _ _ _ hl; rw [g2] at e; omega
    · rcases lookup_res T o _ r t hI' with ⟨he, _⟩ | ⟨l2, hl2, hlay2⟩
      · rw [he] at hl'; cases hl'
      · rw [hl2] at hl'; cases hl'
        exact (lookup_inv_ext T o _ r t hI').1.live _ _ _ hlay2

/-! ## Releasing what is not tracked -/

/-- Releasing an untracked reference or layer returns an error and changes nothing in the
LayerManager: layers, counters, resolve status, `Done()` set stay as they are (for EVERY state,
reachable or not).  Only `refPool.release`, which `release` calls first, has run. -/
theorem release_untracked_errors (s : St) (r t : Nat) (hc : cnt s r t = none) :
    (release s r t).2 = .err ∧
    (release s r t).1 = { s with pool := poolRelease s.pool r } := by
  rw [release_untracked s r t hc]; exact ⟨rfl, rfl⟩

/-! ## The defect repaired by b2d0982 (what the theorems above exclude) -/

/-- registry used by the concrete witnesses: image 0 = two layers, image 1 = one layer. -/
def T0 : Truth := ⟨fun r => if r = 0 then some [(10, 20), (11, 21)] else if r = 1 then some [(12, 22)] else none⟩

def hy : Oracle := Oracle.healthy

/-- Old `release`: after `lookup; use; release` the layer is gone but its resolve status says
"already resolved", so the next lookup fails although the registry is healthy and the image
contains the layer — `lookup_succeeds_iff_member` and `last_release_resets` are false for it. -/
theorem releaseBuggy_breaks_lookup_after_release :
    (lookup T0 hy (runBuggy T0 init [.lookup hy 0 20, .use 0 20, .release 0 20]) 0 20).2 = .err := by
  decide

/-- Old `release`: the counter entry stays at 0 after the last release and a second release
drives it to −1 (`count_nonneg` is false for it). -/
theorem releaseBuggy_count_negative :
    cnt (runBuggy T0 init [.lookup hy 0 20, .use 0 20, .release 0 20]) 0 20 = some 0 ∧
    cnt (runBuggy T0 init [.lookup hy 0 20, .use 0 20, .release 0 20, .release 0 20]) 0 20
      = some (-1) := by
  decide

/-- Old `release`, second witness of DESIGN.md: a sibling layer still in use. -/
theorem releaseBuggy_breaks_lookup_with_sibling_in_use :
    (lookup T0 hy (runBuggy T0 init
      [.lookup hy 0 20, .lookup hy 0 21, .use 0 20, .use 0 21, .release 0 20]) 0 20).2 = .err := by
  decide

/-! ## What does NOT hold (documented, proved on witnesses) -/

/-- "If the image has the layer and the registry is healthy NOW, the lookup succeeds" — false for
the current code when an earlier resolution failed: the error is memoised until the last use of
the image is released.  (`lookup_succeeds_if_no_memoised_error` is the statement that holds.) -/
def HealthyNowSuffices : Prop :=
  ∀ (T : Truth) (h : List Op) (r t : Nat), T.Functional → T.Injective → Member T r t →
    (lookup T Oracle.healthy (run T init h) r t).2.isOk = true

/-- registry that refuses layer digest 10 (one transient error). -/
def bad : Oracle := ⟨fun _ => true, fun _ d => decide (d ≠ 10)⟩

theorem T0_functional : T0.Functional := by
  intro r ls hi d t t' h1 h2
  unfold T0 at hi
  by_cases h0 : r = 0
  · simp [h0] at hi; subst hi; simp at h1 h2; omega
  · by_cases h1' : r = 1
    · simp [h1'] at hi; subst hi; simp at h1 h2; omega
    · simp [h0, h1'] at hi

theorem T0_injective : T0.Injective := by
  intro r ls hi d d' t h1 h2
  unfold T0 at hi
  by_cases h0 : r = 0
  · simp [h0] at hi; subst hi; simp at h1 h2; omega
  · by_cases h1' : r = 1
    · simp [h1'] at hi; subst hi; simp at h1 h2; omega
    · simp [h0, h1'] at hi

theorem transient_error_is_memoised : ¬ HealthyNowSuffices := by
  intro hs
  have := hs T0 [.lookup bad 0 20] 0 20 T0_functional T0_injective ⟨_, 10, rfl, by simp⟩
  revert this
  decide

/-- "When the last use of an image is released, ALL its layers are dropped" — false for the
current code: only the released layer is dropped; layers that were resolved along with it but
never used stay cached (and `Done()` is never called on them), although the resolve status of the
whole image is reset.  (`last_release_resets` is the statement that holds.) -/
def LastReleaseDropsAllLayers : Prop :=
  ∀ (T : Truth) (h : List Op) (r t : Nat), T.Functional → T.Injective →
    cnt (run T init h) r t = some 1 → AllGone (run T init h) r t →
    ∀ t', lay (release (run T init h) r t).1 r t' = none

theorem T0_allGone : AllGone (run T0 init [.lookup hy 0 20, .use 0 20]) 0 20 := by
  intro t' _
  show get2 (run T0 init [.lookup hy 0 20, .use 0 20]).refcounter 0 t' = none
  have : (run T0 init [.lookup hy 0 20, .use 0 20]).refcounter = [(0, [(20, 1)])] := by decide
  rw [this]; simp [get2, inner, get_cons]; omega

theorem unused_siblings_survive_last_release : ¬ LastReleaseDropsAllLayers := by
  intro hs
  have := hs T0 [.lookup hy 0 20, .use 0 20] 0 20 T0_functional T0_injective (by decide) T0_allGone 21
  revert this
  decide

/-- the surviving sibling is the instance that the first lookup cached, it is not `Done`, and
its resolve status is gone (so it would be resolved a second time and discarded as a duplicate). -/
theorem unused_sibling_state_after_last_release :
    lay (run T0 init [.lookup hy 0 20, .use 0 20, .release 0 20]) 0 21 = some ⟨1, 11, 21⟩ ∧
    1 ∉ (run T0 init [.lookup hy 0 20, .use 0 20, .release 0 20]).done ∧
    mem (run T0 init [.lookup hy 0 20, .use 0 20, .release 0 20]) 0 11 = none := by decide

/-- client gone before the manifest was fetched (its context is cancelled; the registry is fine). -/
def gone : Oracle := ⟨fun _ => false, fun _ _ => true⟩

/-- an abandoned lookup is a healthy operation in the sense of `lookup_succeeds_iff_member`, it
fails, memoises nothing, and the next lookup succeeds. -/
example : (Op.lookup gone 0 20).Healthy ∧ (lookup T0 gone init 0 20).2 = .err ∧
    mem (run T0 init [.lookup gone 0 20]) 0 10 = none ∧
    (lookup T0 hy (run T0 init [.lookup gone 0 20]) 0 20).2 = .layer ⟨0, 10, 20⟩ :=
  ⟨fun _ _ => rfl, by decide, by decide, by decide⟩

/-! ## Non-vacuity: the hypotheses are satisfiable and the conclusions are not trivial -/

/-- the repaired `release` on the first witness history: the lookup succeeds, with a new instance. -/
example :
    (lookup T0 hy (run T0 init [.lookup hy 0 20, .use 0 20, .release 0 20]) 0 20).2
      = .layer ⟨2, 10, 20⟩ := by decide

/-- …and on the second one (sibling still in use). -/
example :
    (lookup T0 hy (run T0 init
      [.lookup hy 0 20, .lookup hy 0 21, .use 0 20, .use 0 21, .release 0 20]) 0 20).2
      = .layer ⟨2, 10, 20⟩ := by decide

/-- `last_release_resets`: its hypotheses hold after `lookup; use`. -/
example : cnt (run T0 init [.lookup hy 0 20, .use 0 20]) 0 20 = some 1 ∧
    lay (run T0 init [.lookup hy 0 20, .use 0 20]) 0 20 = some ⟨0, 10, 20⟩ ∧
    AllGone (run T0 init [.lookup hy 0 20, .use 0 20]) 0 20 :=
  ⟨by decide, by decide, T0_allGone⟩

/-- `in_use_never_released`: a sibling is released to zero while layer 21 is in use. -/
example : cnt (step T0 (run T0 init [.lookup hy 0 20, .use 0 20, .use 0 21]) (.release 0 20)).1 0 21
    = some 1 ∧ lay (run T0 init [.lookup hy 0 20, .use 0 20, .use 0 21]) 0 21 = some ⟨1, 11, 21⟩ := by
  decide

/-- the error path: after the transient error and the release of the image's last use the
lookup works again (`lookup_succeeds_if_no_memoised_error` applies: the status was reset). -/
example :
    mem (run T0 init [.lookup bad 0 20, .use 0 21, .release 0 21]) 0 10 = none ∧
    (lookup T0 hy (run T0 init [.lookup bad 0 20, .use 0 21, .release 0 21]) 0 20).2
      = .layer ⟨1, 10, 20⟩ := by decide

/-- `release_untracked_errors` leaves the LayerManager alone but not the refPool: releasing an
untracked layer of a tracked image drops the pool's count although layer 20 is still in use. -/
example : (release (run T0 init [.use 0 20]) 0 21).2 = .err ∧
    get (run T0 init [.use 0 20]).pool 0 = some 1 ∧
    get (release (run T0 init [.use 0 20]) 0 21).1.pool 0 = none := by decide

/-- `transient_error_is_memoised`, the history of the known finding: error, recovery, still failing. -/
example :
    (lookup T0 bad init 0 20).2 = .err ∧
    (lookup T0 hy (run T0 init [.lookup bad 0 20]) 0 20).2 = .err ∧
    mem (run T0 init [.lookup bad 0 20]) 0 10 = some .err := by decide

end SV.Props.C16
