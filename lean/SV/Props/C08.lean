/-
C08 — Snapshotter keeps snapshot metadata, directories and backend mounts in step.
Only property theorems and their non-vacuity examples live here.
-/
import SV.Lemmas.Snap

namespace SV.Props.C08
open SV.Snap

/-- A backend mount implies its directory — in EVERY state a crash can expose: after any history
of calls with any backend outcomes, at any prefix of the atomic steps of the call in flight. -/
theorem mount_implies_dir (cfg0 : Config) (s : State) (h : Reachable cfg0 s) :
    ∀ n ∈ s.mounts, Dir.id n ∈ s.dirs :=
  (inv_reachable h).mountDir

end SV.Props.C08
