/-
C08 — Snapshotter keeps snapshot metadata, directories and backend mounts in step.
Only property theorems and their non-vacuity examples live here.

Setting (see `SV/Model/Snap.lean`): a history is a list of calls, each with its own `Oracle`
(the outcome of every backend Mount/Check/Unmount of that call); `runOps (init cfg0) hist` is the
state after the history; `plan s orc op` is the list of atomic steps of the next call and
`Reachable cfg0 s` says that `s` is the state after some history and some prefix of the steps of
the call in flight.  All theorems quantify over ALL histories, configurations and oracles.
Sequential semantics: one call in flight.
-/
import SV.Lemmas.Snap
import SV.Lemmas.SnapConc

namespace SV.Props.C08
open SV.Snap

/-- the key whose parent chain `mounts()` checks for a call that can return a mount list -/
def checkKeyOf : Op → Option String
  | .prepare _ p _ => some p
  | .view _ p _ => some p
  | .mounts k => some k
  | _ => none

/-- the key of the snapshot a returned mount list is for -/
def keyOf : Op → String
  | .prepare k _ _ => k
  | .view k _ _ => k
  | .mounts k => k
  | _ => ""

/-- A backend mount implies its directory — in EVERY state a crash can expose: after any history
of calls with any backend outcomes, at any prefix of the atomic steps of the call in flight. -/
theorem mount_implies_dir (cfg0 : Config) (s : State) (h : Reachable cfg0 s) :
    ∀ n ∈ s.mounts, Dir.id n ∈ s.dirs :=
  (inv_reachable h).mountDir

/-- No mount list is handed out for a chain that contains a remote layer whose Check fails:
whenever Prepare / View / Mounts returns mounts, every remote-labelled snapshot on the chain that
was checked (from the parent, resp. from the key itself) had a successful Check in this call. -/
theorem mounts_unavailable_on_failed_check (s : State) (orc : Oracle) (op : Op) (m : MountSpec)
    (h : (runOp s orc op).2 = .mounts m) :
    ∃ ck ch, checkKeyOf op = some ck ∧ chainOf (runOp s orc op).1 ck = some ch ∧
      ∀ c ∈ ch, isRemote c.labels = true → orc.checkOk c.id = true := by
  unfold runOp at h ⊢
  rcases plan_mounts_cases h with ⟨k, p, l, rfl, hp⟩ | ⟨k, p, l, rfl, hp⟩ | ⟨k, rfl, hp⟩
  · rw [hp] at h ⊢
    obtain ⟨st1, sn, pids, _, hm, hst, _⟩ := preparePlan_mounts h
    obtain ⟨_, ch, h1, h2⟩ := mountsPlan_result' hm
    exact ⟨p, ch, rfl, by rw [hst]; exact h1, h2⟩
  · rw [hp] at h ⊢
    obtain ⟨st1, sn, pids, _, hm, hst⟩ := viewPlan_mounts h
    obtain ⟨_, ch, h1, h2⟩ := mountsPlan_result' hm
    exact ⟨p, ch, rfl, by rw [hst]; exact h1, h2⟩
  · rw [hp] at h ⊢
    obtain ⟨hst, sn, ps, _, _, _, ch, h1, h2⟩ := mountsOp_spec h
    exact ⟨k, ch, rfl, by rw [hst]; exact h1, h2⟩

/-- ... and conversely a failing Check on the chain makes the call fail (it cannot return mounts). -/
theorem failed_check_no_mounts (s : State) (orc : Oracle) (op : Op) (ck : String) (ch : List Snap) (c : Snap)
    (hck : checkKeyOf op = some ck) (hch : chainOf (runOp s orc op).1 ck = some ch) (hc : c ∈ ch)
    (hr : isRemote c.labels = true) (hfail : orc.checkOk c.id = false) :
    ∀ m, (runOp s orc op).2 ≠ .mounts m := by
  intro m hm
  obtain ⟨ck', ch', h1, h2, h3⟩ := mounts_unavailable_on_failed_check s orc op m hm
  rw [hck] at h1
  cases h1
  rw [hch] at h2
  cases h2
  rw [h3 c hc hr] at hfail
  cases hfail

/-- Lower directories are listed nearest parent first: the mount list returned for a snapshot is
`mountSpec sn (ids of ch)` where `ch` is the chain obtained by following parent links from the
snapshot's parent (`IsChain`: head = the parent, next = the parent's parent, …). -/
theorem lowerdir_nearest_parent_first (cfg0 : Config) (hist : List (Op × Oracle)) (orc : Oracle) (op : Op)
    (m : MountSpec) (h : (runOp (runOps (init cfg0) hist) orc op).2 = .mounts m) :
    ∃ sn ch, findKey (runOp (runOps (init cfg0) hist) orc op).1.snaps (keyOf op) = some sn ∧
      IsChain (runOps (init cfg0) hist).snaps sn.parent ch ∧ m = mountSpec sn (ch.map (·.id)) := by
  have hinv := inv_runOps (inv_init cfg0) hist
  generalize runOps (init cfg0) hist = s at h hinv ⊢
  unfold runOp at h ⊢
  rcases plan_mounts_cases h with ⟨k, p, l, rfl, hp⟩ | ⟨k, p, l, rfl, hp⟩ | ⟨k, rfl, hp⟩
  · rw [hp] at h ⊢
    obtain ⟨st1, sn, pids, hc, hm, hst, _⟩ := preparePlan_mounts h
    obtain ⟨hf, hpar, _, _, _, ps, hps, hmm, _⟩ := create_mounts_spec hinv hc hm
    refine ⟨sn, ps, by rw [hst]; exact hf, ?_, hmm⟩
    rw [hpar]; exact chain_isChain _ _ _ hps
  · rw [hp] at h ⊢
    obtain ⟨st1, sn, pids, hc, hm, hst⟩ := viewPlan_mounts h
    obtain ⟨hf, hpar, _, _, _, ps, hps, hmm, _⟩ := create_mounts_spec hinv hc hm
    refine ⟨sn, ps, by rw [hst]; exact hf, ?_, hmm⟩
    rw [hpar]; exact chain_isChain _ _ _ hps
  · rw [hp] at h ⊢
    obtain ⟨hst, sn, ps, hf, hps, hmm, _⟩ := mountsOp_spec h
    exact ⟨sn, ps, by rw [hst]; exact hf, chain_isChain _ _ _ hps, hmm⟩

/-- the `lowerdir=` option is exactly that chain, and it is never empty -/
theorem overlay_lowerdir_is_chain (sn : Snap) (pids : List Nat) (up : Option Nat) (lower : List Nat)
    (h : mountSpec sn pids = .overlay up lower) : lower = pids ∧ pids ≠ [] :=
  mountSpec_overlay h

/-- the parent chain of every live snapshot exists (no dangling parent link, the walk terminates) -/
theorem parent_chain_total (cfg0 : Config) (s : State) (h : Reachable cfg0 s) (sn : Snap) (hsn : sn ∈ s.snaps) :
    ∃ ch, chainOf s sn.key = some ch ∧ IsChain s.snaps sn.key ch := by
  have hinv := inv_reachable h
  apply chainOf_total hinv
  right
  exact hasKey_true.mpr ⟨sn, hinv.findKey_of_mem hsn⟩

/-- A backend mount is released only after its snapshot has been removed, or while closing:
at every Unmount step of every call other than Close, no live snapshot owns that directory. -/
theorem unmount_only_after_removed_or_close (cfg0 : Config) (hist : List (Op × Oracle)) (orc : Oracle) (op : Op)
    (pre post : List Step) (n : Nat) (ok : Bool)
    (hsplit : (plan (runOps (init cfg0) hist) orc op).1 = pre ++ .fsUnmount (.id n) ok :: post) :
    (∃ order, op = .close order) ∨
    ∀ a ∈ (applySteps (runOps (init cfg0) hist) pre).snaps, a.id ≠ n := by
  have hinv := inv_runOps (inv_init cfg0) hist
  by_cases hc : ∃ order, op = .close order
  · exact Or.inl hc
  · right
    have hs := plan_safe hinv orc op (fun order e => hc ⟨order, e⟩)
    rw [hsplit] at hs
    rcases allSteps_split hs with h | h
    · cases h
    · exact h

/-- ... and always before its directory is deleted: at every RemoveAll step the directory carries
no backend mount any more. -/
theorem unmount_before_rmdir (cfg0 : Config) (hist : List (Op × Oracle)) (orc : Oracle) (op : Op)
    (pre post : List Step) (d : Dir)
    (hsplit : (plan (runOps (init cfg0) hist) orc op).1 = pre ++ .rmdir d :: post) :
    ∀ n, d = .id n → n ∉ (applySteps (runOps (init cfg0) hist) pre).mounts := by
  have hinv := inv_runOps (inv_init cfg0) hist
  have hs := plan_stepsOk hinv orc op
  rw [hsplit] at hs
  exact stepsOk_split hs

/-- A directory is deleted only if no live snapshot owns it — or, during Close, if it belongs to a
remote snapshot (whose directory restore recreates). -/
theorem rmdir_only_orphans_or_close (cfg0 : Config) (hist : List (Op × Oracle)) (orc : Oracle) (op : Op)
    (pre post : List Step) (d : Dir)
    (hsplit : (plan (runOps (init cfg0) hist) orc op).1 = pre ++ .rmdir d :: post) :
    liveDir (applySteps (runOps (init cfg0) hist) pre).snaps d = false ∨
    ((∃ order, op = .close order) ∧ remoteDir (applySteps (runOps (init cfg0) hist) pre).snaps d = true) := by
  have hinv := inv_runOps (inv_init cfg0) hist
  by_cases hc : ∃ order, op = .close order
  · obtain ⟨order, rfl⟩ := hc
    by_cases hcl : (runOps (init cfg0) hist).closed = true
    · simp [plan, hcl] at hsplit
    · have hs := closePlan_safe (runOps (init cfg0) hist) orc order
      simp only [plan, hcl, Bool.false_eq_true, if_false] at hsplit
      rw [hsplit] at hs
      rcases allSteps_split hs with h | ⟨_, h⟩
      · exact Or.inl h
      · exact Or.inr ⟨⟨order, rfl⟩, h⟩
  · have hs := plan_safe hinv orc op (fun order e => hc ⟨order, e⟩)
    rw [hsplit] at hs
    rcases allSteps_split hs with h | ⟨h, _⟩
    · exact Or.inl h
    · cases h

/-- The outcomes C08 allows for a `Prepare` whose labels name the target `target`. -/
def PrepareOutcome (s s' : State) (r : Res) (key target : String) (labels : Labels) : Prop :=
  -- AlreadyExists and the target is a committed snapshot; if this call created it, it carries the
  -- caller's labels plus the remote label, has exactly one live backend mount on its (existing)
  -- directory, and the active key has been consumed
  (r = .err .exists ∧ ∃ t, findKey s'.snaps target = some t ∧ t.kind = .committed ∧
      (hasKey s.snaps target = false →
        t.labels = lset labels remoteLabel remoteVal ∧ isRemote t.labels = true ∧
        s'.mounts.count t.id = 1 ∧ Dir.id t.id ∈ s'.dirs ∧ hasKey s'.snaps key = false)) ∨
  -- AlreadyExists of the key itself (createSnapshot): nothing changed
  (r = .err .exists ∧ hasKey s.snaps key = true ∧ s'.snaps = s.snaps) ∨
  -- fallback: an ordinary active snapshot with exactly the caller's labels, no backend mount,
  -- nothing newly committed
  (∃ m, r = .mounts m ∧ ∃ a, findKey s'.snaps key = some a ∧ a.kind = .active ∧ a.labels = labels ∧
      a.id ∉ s'.mounts ∧ committedOf s'.snaps = committedOf s.snaps) ∨
  -- any other error: no new committed snapshot
  (∃ e, r = .err e ∧ e ≠ .exists ∧ committedOf s'.snaps = committedOf s.snaps)

private theorem prepare_outcomes_aux (s : State) (hinv : Inv s) (hopen : s.closed = false) (orc : Oracle)
    (key parent target : String) (labels : Labels)
    (ht : lget labels targetLabel = some target)
    (hne : target ≠ key)
    (hT : ∀ t, findKey s.snaps target = some t → t.kind = .committed) :
    PrepareOutcome s (runOp s orc (.prepare key parent labels)).1 (runOp s orc (.prepare key parent labels)).2
      key target labels := by
  have hc := createPlan_stepsOk hinv orc .active key parent labels
  simp only [runOp, plan, hopen, Bool.false_eq_true, if_false]
  unfold preparePlan
  split
  · -- createSnapshot failed
    rename_i st1 e heq
    obtain ⟨h1, _⟩ := createPlan_err heq
    by_cases he : e = .exists
    · subst he
      exact Or.inr (Or.inl ⟨rfl, createPlan_err_exists heq, h1⟩)
    · exact Or.inr (Or.inr (Or.inr ⟨e, rfl, he, by rw [h1]⟩))
  · rename_i st1 sn pids heq
    rw [heq] at hc
    obtain ⟨ps, hchk, _, _, _, hsn, hst⟩ := createPlan_ok heq
    have hinv1 : Inv (applySteps s st1) := inv_steps hinv hc
    have hid : sn.id = s.seq + 1 := by rw [hsn]
    have hkey : sn.key = key := by rw [hsn]
    have hkind : sn.kind = .active := by rw [hsn]
    have hlab : sn.labels = labels := by rw [hsn]
    have hmem : sn ∈ (applySteps s st1).snaps := by rw [hst]; exact mem_insertSnap.mpr (Or.inl rfl)
    have hfk : findKey (applySteps s st1).snaps key = some sn := by rw [← hkey]; exact hinv1.findKey_of_mem hmem
    have hsnaps1 : (applySteps s st1).snaps = insertSnap sn s.snaps := by rw [hst]; rfl
    have hmounts1 : (applySteps s st1).mounts = s.mounts := by rw [hst]; rfl
    have hnm : sn.id ∉ s.mounts := fun hm => by have := hinv.mountBound _ hm; omega
    have hcomm1 : committedOf (applySteps s st1).snaps = committedOf s.snaps := by
      rw [hsnaps1]; exact committedOf_insert (by rw [hkind]; simp)
    simp only [ht]
    split
    · -- backend Mount succeeded
      rename_i hmo
      split
      · -- target = "" : CommitActive fails with a bolt error
        refine Or.inr (Or.inr (Or.inr ⟨.other, rfl, by simp, ?_⟩))
        simp only [applySteps_append, applySteps_cons, applySteps_nil, applyStep, if_true]
        exact hcomm1
      · rename_i htne
        split
        · -- the target exists already
          rename_i hhas
          obtain ⟨t, hft⟩ := hasKey_true.mp hhas
          have hft' : findKey s.snaps target = some t := by
            rw [hsnaps1, findKey_insertSnap_ne (by rw [hkey]; exact hne)] at hft; exact hft
          refine Or.inl ⟨rfl, t, ?_, hT t hft', ?_⟩
          · simp only [applySteps_append, applySteps_cons, applySteps_nil, applyStep, if_true]
            exact hft
          · intro hno
            rw [hasKey_false] at hno
            exact absurd (findKey_some hft').2 (hno t (findKey_some hft').1)
        · -- internal commit as the target
          rename_i hhas
          have hhas' : hasKey (applySteps s st1).snaps target = false := by simpa using hhas
          let t : Snap := { sn with key := target, kind := .committed, labels := lset labels remoteLabel remoteVal }
          have hfinal : (applySteps s (st1 ++ [Step.fsMount sn.id labels true, Step.marker "prepare.mounted"] ++
              [Step.marker "commit.beforetx", Step.txCommitActive key target (lset labels remoteLabel remoteVal),
               Step.marker "prepare.targetcommitted"])) =
              { applySteps s st1 with mounts := sn.id :: s.mounts,
                                      snaps := insertSnap t (removeKey (applySteps s st1).snaps key) } := by
            simp only [applySteps_append, applySteps_cons, applySteps_nil, applyStep, if_true, commitActive, hfk, hmounts1]
            rfl
          have hok : StepsOk s (st1 ++ [Step.fsMount sn.id labels true, Step.marker "prepare.mounted"] ++
              [Step.marker "commit.beforetx", Step.txCommitActive key target (lset labels remoteLabel remoteVal),
               Step.marker "prepare.targetcommitted"]) := by
            have := preparePlan_stepsOk hinv orc key parent labels
            unfold preparePlan at this
            rw [heq] at this
            simp only [ht] at this
            rw [if_pos hmo, if_neg htne, if_neg hhas] at this
            exact this
          have hinv' := inv_steps hinv hok
          rw [hfinal] at hinv'
          rw [hfinal]
          have htmem : t ∈ insertSnap t (removeKey (applySteps s st1).snaps key) := mem_insertSnap.mpr (Or.inl rfl)
          refine Or.inl ⟨rfl, t, hinv'.findKey_of_mem htmem, rfl, ?_⟩
          intro _
          refine ⟨rfl, isRemote_lset _ _, ?_, ?_, ?_⟩
          · show (sn.id :: s.mounts).count sn.id = 1
            rw [List.count_cons_self, List.count_eq_zero.mpr hnm]
          · show Dir.id sn.id ∈ (applySteps s st1).dirs
            rw [hst, hid]; simp [created]
          · rw [hasKey_false]
            intro a ha
            rcases mem_insertSnap.mp ha with rfl | ha
            · exact hne
            · exact (mem_removeKey.mp ha).2
    · -- backend Mount failed: fall back to an ordinary snapshot
      have hstate : applySteps s (st1 ++ Step.fsMount sn.id labels false ::
          (mountsPlan (applySteps s st1) orc sn pids parent).1) = applySteps s st1 := by
        rw [applySteps_append, applySteps_cons]
        show applySteps (applySteps s st1) _ = _
        exact mountsPlan_state _ _ _ _ _
      simp only [hstate]
      rcases mountsPlan_res_cases (applySteps s st1) orc sn pids parent with ⟨m, hr⟩ | hr
      · rw [hr]
        refine Or.inr (Or.inr (Or.inl ⟨m, rfl, sn, hfk, hkind, hlab, ?_, hcomm1⟩))
        rw [hmounts1]; exact hnm
      · rw [hr]
        exact Or.inr (Or.inr (Or.inr ⟨.unavailable, rfl, by simp, hcomm1⟩))


/-- the target label does not name an uncommitted snapshot (nor the key being prepared) -/
def TargetNotUncommitted (s : State) (key target : String) : Prop :=
  target ≠ key ∧ ∀ t, findKey s.snaps target = some t → t.kind = .committed

/-- Prepare with a target label, after ANY history and for ANY backend outcomes: it reports
AlreadyExists with the target committed — and, if this very call created it, labelled remote (the
caller's labels plus the remote label), with exactly one live backend mount on its existing
directory and the active key consumed — or AlreadyExists because the key exists (nothing changed),
or it falls back to an ordinary active snapshot with exactly the caller's labels and no backend
mount, or it fails leaving no new committed snapshot.
PARTIAL: needs `TargetNotUncommitted`; see `PrepareTargetOutcomesFull` / `prepare_target_outcomes_full_false`. -/
theorem prepare_target_outcomes_partial (cfg0 : Config) (hist : List (Op × Oracle)) (orc : Oracle)
    (key parent target : String) (labels : Labels)
    (ht : lget labels targetLabel = some target)
    (hT : TargetNotUncommitted (runOps (init cfg0) hist) key target) :
    PrepareOutcome (runOps (init cfg0) hist)
      (runOp (runOps (init cfg0) hist) orc (.prepare key parent labels)).1
      (runOp (runOps (init cfg0) hist) orc (.prepare key parent labels)).2 key target labels := by
  have hinv := inv_runOps (inv_init cfg0) hist
  generalize runOps (init cfg0) hist = s at hinv hT ⊢
  by_cases hcl : s.closed = true
  · -- the store is closed: the call fails without touching anything
    have : plan s orc (.prepare key parent labels) = ([], .err .other) := by simp [plan, hcl]
    simp only [runOp, this, applySteps_nil]
    exact Or.inr (Or.inr (Or.inr ⟨.other, rfl, by simp, rfl⟩))
  · exact prepare_outcomes_aux s hinv (by simpa using hcl) orc key parent target labels ht hT.1 hT.2

/-- the statement of C08 for Prepare without the extra hypothesis -/
def PrepareTargetOutcomesFull : Prop :=
  ∀ (cfg0 : Config) (hist : List (Op × Oracle)) (orc : Oracle) (key parent target : String) (labels : Labels),
    lget labels targetLabel = some target →
    PrepareOutcome (runOps (init cfg0) hist)
      (runOp (runOps (init cfg0) hist) orc (.prepare key parent labels)).1
      (runOp (runOps (init cfg0) hist) orc (.prepare key parent labels)).2 key target labels

def okOracle : Oracle := ⟨fun _ => true, fun _ => true, fun _ => true⟩

/-- The full statement is FALSE (known finding `prepare-exists-target-not-committed`, replayed on
the implementation by scenario S4 of the harness): `Prepare("a1")` then `Prepare("k2", target "a1")`
reports AlreadyExists although `a1` is an active snapshot. -/
theorem prepare_target_outcomes_full_false : ¬ PrepareTargetOutcomesFull := by
  intro h
  have h1 := h {} [(.prepare "a1" "" [], okOracle)] okOracle "k2" "" "a1" [(targetLabel, "a1")] (by decide)
  have hr : (runOp (runOps (init {}) [(.prepare "a1" "" [], okOracle)]) okOracle
      (.prepare "k2" "" [(targetLabel, "a1")])).2 = .err .exists := by decide
  have hf : findKey (runOp (runOps (init {}) [(.prepare "a1" "" [], okOracle)]) okOracle
      (.prepare "k2" "" [(targetLabel, "a1")])).1.snaps "a1" = some ⟨"a1", 1, .active, "", []⟩ := by decide
  have hk : hasKey (runOps (init {}) [(.prepare "a1" "" [], okOracle)]).snaps "k2" = false := by decide
  rcases h1 with ⟨_, t, h2, h3, _⟩ | ⟨_, h2, _⟩ | ⟨m, h2, _⟩ | ⟨e, h2, h3, _⟩
  · rw [hf] at h2
    cases h2
    cases h3
  · rw [hk] at h2; cases h2
  · rw [hr] at h2; cases h2
  · rw [hr] at h2
    cases h2
    exact h3 rfl

/-- After Cleanup the snapshot directories on disk are exactly those of live snapshots
(histories whose restarts restore; the model has no RemoveAll failures). -/
theorem cleanup_exact (cfg0 : Config) (hist : List (Op × Oracle)) (hro : RestoreOn hist) (orc : Oracle)
    (order : List Dir) (hopen : (runOps (init cfg0) hist).closed = false) :
    (runOp (runOps (init cfg0) hist) orc (.cleanup order)).2 = .ok ∧
    ∀ d, d ∈ (runOp (runOps (init cfg0) hist) orc (.cleanup order)).1.dirs ↔
      ∃ a ∈ (runOp (runOps (init cfg0) hist) orc (.cleanup order)).1.snaps, d = Dir.id a.id := by
  have hq := qdirs_runOps (inv_init cfg0) (qdirs_init cfg0) hist hro
  generalize runOps (init cfg0) hist = s at hq hopen ⊢
  simp only [runOp, plan, hopen, Bool.false_eq_true, if_false, cleanupPlan]
  obtain ⟨c1, _, _, _, _, c6, _⟩ := cleanupSteps_state orc (arrange order (s.dirs.filter (fun d => !liveDir s.snaps d))) s
  refine ⟨trivial, ?_⟩
  intro d
  rw [c6, c1, mem_arrange]
  constructor
  · rintro ⟨hd, hnot⟩
    have hl : liveDir s.snaps d = true := by
      cases hld : liveDir s.snaps d with
      | true => rfl
      | false => exact absurd (List.mem_filter.mpr ⟨hd, by simp [hld]⟩) hnot
    cases d with
    | temp t => simp [liveDir] at hl
    | id n =>
      simp only [liveDir, List.any_eq_true, beq_iff_eq] at hl
      obtain ⟨a, ha, rfl⟩ := hl
      exact ⟨a, ha, rfl⟩
  · rintro ⟨a, ha, rfl⟩
    have hd : Dir.id a.id ∈ s.dirs := by
      rcases hq a ha with h | ⟨_, h⟩
      · exact h
      · rw [hopen] at h; cases h
    refine ⟨hd, ?_⟩
    intro hm
    have := (List.mem_filter.mp hm).2
    simp only [liveDir, Bool.not_eq_eq_eq_not, Bool.not_true, List.any_eq_false, beq_iff_eq] at this
    exact this a ha rfl

/-- The remote label appears only through the internal commit of a Prepare naming that target,
on a snapshot that carries a live backend mount: for every step of every call that does not set
the label itself, a snapshot that is remote after the step either was remote before it, or the step
is that commit. -/
theorem remote_label_only_via_prepare (cfg0 : Config) (hist : List (Op × Oracle)) (orc : Oracle) (op : Op)
    (hop : CleanOp op) (pre post : List Step) (st : Step)
    (hsplit : (plan (runOps (init cfg0) hist) orc op).1 = pre ++ st :: post)
    (a : Snap) (ha : a ∈ (applyStep (applySteps (runOps (init cfg0) hist) pre) st).snaps)
    (hr : isRemote a.labels = true) :
    (∃ b ∈ (applySteps (runOps (init cfg0) hist) pre).snaps, b.key = a.key ∧ b.id = a.id ∧ isRemote b.labels = true) ∨
    (∃ key lb, st = .txCommitActive key a.key lb ∧ targetOf op = some a.key ∧ a.kind = .committed ∧
       a.id ∈ (applySteps (runOps (init cfg0) hist) pre).mounts) := by
  have hinv0 := inv_runOps (inv_init cfg0) hist
  generalize runOps (init cfg0) hist = s at hinv0 hsplit ha ⊢
  have hok := plan_stepsOk hinv0 orc op
  have hrs := plan_remoteSafe hinv0 orc op hop
  rw [hsplit] at hok hrs
  have hinv : Inv (applySteps s pre) := inv_steps hinv0 (stepsOk_append.mp hok).1
  have hok1 := stepsOk_split hok
  have hrs1 := allSteps_split hrs
  generalize applySteps s pre = s' at hinv hok1 hrs1 ha ⊢
  have same : a ∈ s'.snaps →
      (∃ b ∈ s'.snaps, b.key = a.key ∧ b.id = a.id ∧ isRemote b.labels = true) ∨
      (∃ key lb, st = .txCommitActive key a.key lb ∧ targetOf op = some a.key ∧ a.kind = .committed ∧
         a.id ∈ s'.mounts) := fun h => Or.inl ⟨a, h, rfl, rfl, hr⟩
  cases st with
  | txCreate sn =>
    rcases mem_insertSnap.mp ha with rfl | ha
    · have : isRemote a.labels = false := hrs1
      rw [this] at hr; cases hr
    · exact same ha
  | txCommitActive key name lb =>
    obtain ⟨_, _, sn, hf, _⟩ := hok1
    simp only [applyStep, commitActive, hf] at ha
    rcases mem_insertSnap.mp ha with rfl | ha
    · right
      obtain ⟨htgt, sn', hf', hm⟩ := hrs1 hr
      rw [hf] at hf'; cases hf'
      exact ⟨key, lb, rfl, htgt, rfl, hm⟩
    · exact same (mem_removeKey.mp ha).1
  | txRemove key => exact same (mem_removeKey.mp ha).1
  | txUpdate key lb =>
    obtain ⟨y, hy, rfl⟩ := mem_updateLabels.mp ha
    left
    refine ⟨y, hy, ?_, ?_, ?_⟩
    · split <;> rfl
    · split <;> rfl
    · revert hr
      split
      · rename_i hk
        have hk' : y.key = key := by simpa using hk
        intro hr
        have := hrs1 y (by rw [← hk']; exact hinv.findKey_of_mem hy)
        rw [← this]; exact hr
      · exact id
  | fsMount id l ok => cases ok <;> exact same ha
  | fsUnmount d ok => cases d <;> exact same ha
  | mkdirId id => rw [(mkdirId_facts s' id).2.2.2.1] at ha; exact same ha
  | mkdirFs id => exact same ha
  | mkTemp t => exact same ha
  | rename t id => exact same ha
  | rmdir d => exact same ha
  | fsCheck id ok => exact same ha
  | dbClose => exact same ha
  | crash cfg => exact same ha
  | opened => exact same ha
  | marker m => exact same ha

/-- ... hence, in histories whose calls do not set the label themselves, only committed snapshots
are ever remote — in every state a crash can expose. -/
theorem remote_snapshots_are_committed (cfg0 : Config) (s : State) (h : CleanReachable cfg0 s) :
    ∀ a ∈ s.snaps, isRemote a.labels = true → a.kind = .committed :=
  (cinv_reachable h).remoteCommitted


/-! ### concurrent callers: the interleaved semantics (`SV/Model/SnapConc.lean`)

`CReach {} cfg c`: `c` is reachable by ANY interleaving of the atomic steps of any number of
concurrent Prepare / View / Commit / Update / Remove / Cleanup calls, where only bolt's single writer
(a lock held from createSnapshot's `TransactionContext(ctx, true)` to its commit, and by every other
write transaction) restricts the schedule.  Assumption built into the semantics: no Remove(k) /
Commit(_, k) runs concurrently with a Prepare/View that is creating the same key k. -/

open SV.Snap.Conc

/-- a backend mount implies its directory, in every state of every interleaving -/
theorem mount_implies_dir_concurrent (cfg : Config) (c : CState) (h : CReach {} cfg c) :
    ∀ n ∈ c.s.mounts, Dir.id n ∈ c.s.dirs :=
  (cinvar_reachable h).inv.mountDir

/-- the directory of a live snapshot is never removed: in every state of every interleaving every
snapshot in the metadata has its directory (this is what the seeded change C08-A breaks) -/
theorem live_snapshot_dirs_never_removed_concurrent (cfg : Config) (c : CState) (h : CReach {} cfg c) :
    ∀ a ∈ c.s.snaps, Dir.id a.id ∈ c.s.dirs :=
  (cinvar_reachable h).allDirs

/-- whatever a cleanup loop in flight is still going to unmount / delete is owned by no live snapshot
(so in particular no directory of a live snapshot with a live mount is ever unmounted) -/
theorem unmount_only_after_removed_concurrent (cfg : Config) (c : CState) (h : CReach {} cfg c)
    (i : Nat) (ds : List Dir) (u : Bool) (hpc : c.th i = .clean ds u) :
    ∀ d ∈ ds, ∀ n, d = Dir.id n → ∀ a ∈ c.s.snaps, a.id ≠ n := by
  have := (cinvar_reachable h).tok i
  rw [hpc] at this
  intro d hd n hn
  have hdead := this.1 d hd
  rw [hn] at hdead
  exact hdead.2

/-- when a thread is about to `RemoveAll` a directory (it has called Unmount on it), the directory
carries no backend mount — whatever the other threads did in between -/
theorem unmount_before_rmdir_concurrent (cfg : Config) (c : CState) (h : CReach {} cfg c)
    (i : Nat) (d : Dir) (r : List Dir) (hpc : c.th i = .clean (d :: r) true) :
    ∀ n, d = Dir.id n → n ∉ c.s.mounts := by
  have := (cinvar_reachable h).tok i
  rw [hpc] at this
  exact this.2 rfl d r rfl

/-- the metadata invariant itself (distinct keys and ids, committed parents, …) and the writer
lock discipline hold in every interleaving -/
theorem invariant_concurrent (cfg : Config) (c : CState) (h : CReach {} cfg c) : CInvar c :=
  cinvar_reachable h

/-- at a quiescent state of a concurrent run (whatever happened before), one Cleanup leaves exactly
the directories of the live snapshots -/
theorem cleanup_exact_concurrent (cfg : Config) (c : CState) (h : CReach {} cfg c) (orc : Oracle) (order : List Dir) :
    (runOp c.s orc (.cleanup order)).2 = .ok ∧
    ∀ d, d ∈ (runOp c.s orc (.cleanup order)).1.dirs ↔ ∃ a ∈ (runOp c.s orc (.cleanup order)).1.snaps, d = Dir.id a.id :=
  cleanup_exact_of_allDirs c.s (closed_reachable h) (cinvar_reachable h).allDirs orc order

/-- The Prepare-with-target outcome under concurrency: when the internal commit of a Prepare that has
mounted its snapshot fires — after ANY interleaving with other calls — the target becomes a committed
snapshot with the caller's labels plus the remote label, it carries a live backend mount (exactly
one: the mount table has no duplicates) and its directory exists. -/
theorem prepare_target_commit_concurrent (cfg : Config) (c : CState) (h : CReach {} cfg c)
    (i : Nat) (T : String) (sn : Snap) (hpc : c.th i = .prepCommit T sn) (hok : commitOk c.s T sn.key) :
    ∃ t, findKey (applyStep c.s (.txCommitActive sn.key T (lset sn.labels remoteLabel remoteVal))).snaps T = some t ∧
      t.kind = .committed ∧ t.id = sn.id ∧ t.labels = lset sn.labels remoteLabel remoteVal ∧ isRemote t.labels = true ∧
      t.id ∈ (applyStep c.s (.txCommitActive sn.key T (lset sn.labels remoteLabel remoteVal))).mounts ∧
      (applyStep c.s (.txCommitActive sn.key T (lset sn.labels remoteLabel remoteVal))).mounts.Nodup ∧
      Dir.id t.id ∈ (applyStep c.s (.txCommitActive sn.key T (lset sn.labels remoteLabel remoteVal))).dirs := by
  have hci := cinvar_reachable h
  have htok := hci.tok i
  rw [hpc] at htok
  obtain ⟨⟨a, ha, hai, hak⟩, hm⟩ := htok
  have hstep : StepOk c.s (.txCommitActive sn.key T (lset sn.labels remoteLabel remoteVal)) := hok
  obtain ⟨_, _, sn0, hf0, _⟩ := hok
  have hsn0 := findKey_some hf0
  have ha0 : a = sn0 := hci.inv.keyInj ha hsn0.1 (by rw [hak, hsn0.2])
  have hinv' := inv_step hci.inv hstep
  have had' : AllDirs (applyStep c.s (.txCommitActive sn.key T (lset sn.labels remoteLabel remoteVal))) :=
    allDirs_step hci.allDirs (st := .txCommitActive sn.key T (lset sn.labels remoteLabel remoteVal)) trivial
  have hmem : ({ sn0 with key := T, kind := .committed, labels := lset sn.labels remoteLabel remoteVal } : Snap) ∈
      (applyStep c.s (.txCommitActive sn.key T (lset sn.labels remoteLabel remoteVal))).snaps := by
    simp only [applyStep, commitActive, hf0]
    exact mem_insertSnap.mpr (Or.inl rfl)
  refine ⟨_, hinv'.findKey_of_mem hmem, rfl, by rw [← ha0]; exact hai, rfl, isRemote_lset _ _, ?_, hinv'.mountNodup, ?_⟩
  · show sn0.id ∈ c.s.mounts
    rw [← ha0, hai]; exact hm
  · exact had' _ hmem

/-! #### the seeded change C08-A as a model-level counterexample

With `cleanupReadTx` (Cleanup scans the directories under a READ transaction, i.e. without the writer
lock) the invariant FAILS: Prepare("k") renames its directory, the concurrent Cleanup scans (directory 1
on disk, no id 1 in the metadata), unmounts and deletes it, Prepare commits. -/

def raceOp : Op := .prepare "k" "" []
def raceSnap : Snap := ⟨"k", 1, .active, "", []⟩
def race0 : CState := cinit {}
def race1 : CState := { race0 with th := setPc race0.th 0 (.idle raceOp), orc := fun j => if j = 0 then okOracle else race0.orc j }
def race2 : CState := { race1 with th := setPc race1.th 1 (.idle (.cleanup [])), orc := fun j => if j = 1 then okOracle else race1.orc j }
def race3 : CState := { (race2.run 0 (.mkTemp race2.tmp) (.crRename none race2.tmp raceSnap)) with tmp := race2.tmp + 1 }
def race4 : CState := race3.run 0 (.rename 0 1) (.crCommit none raceSnap)
def race5 : CState := race4.goto 1 (.clean [Dir.id 1] false)
def race6 : CState := race5.run 1 (.fsUnmount (.id 1) true) (.clean [Dir.id 1] true)
def race7 : CState := race6.run 1 (.rmdir (.id 1)) (.clean [] false)
def race8 : CState := race7.run 0 (.txCreate raceSnap) .done

theorem race_reachable : CReach { cleanupReadTx := true } {} race8 := by
  have s1 : CStep { cleanupReadTx := true } race0 race1 :=
    CStep.spawn race0 0 raceOp okOracle rfl (by intro j; constructor <;> intro k _ <;> simp [race0, cinit, PC.consumes, PC.ownKey])
  have s2 : CStep { cleanupReadTx := true } race1 race2 :=
    CStep.spawn race1 1 (.cleanup []) okOracle rfl (by intro j; constructor <;> intro k hk <;> simp [PC.consumes, PC.ownKey] at hk)
  have s3 : CStep { cleanupReadTx := true } race2 race3 :=
    CStep.createBegin race2 0 .active "k" "" [] rfl (by decide)
      (by
        intro j
        simp only [race2, race1, race0, cinit, setPc]
        split
        · rfl
        · split <;> rfl)
      ⟨⟨[], rfl, rfl⟩, by decide⟩
  have s4 : CStep { cleanupReadTx := true } race3 race4 := CStep.rename race3 0 none 0 raceSnap rfl
  have s5 : CStep { cleanupReadTx := true } race4 race5 :=
    CStep.cleanupScan race4 1 [] rfl (by intro hf; cases hf)
  have s6 : CStep { cleanupReadTx := true } race5 race6 := CStep.cleanUnmount race5 1 (.id 1) [] rfl
  have s7 : CStep { cleanupReadTx := true } race6 race7 := CStep.cleanRmdir race6 1 (.id 1) [] rfl
  have s8 : CStep { cleanupReadTx := true } race7 race8 := CStep.createCommit race7 0 none raceSnap rfl
  exact .step (.step (.step (.step (.step (.step (.step (.step .init s1) s2) s3) s4) s5) s6) s7) s8

/-- ... and in the state reached the live snapshot "k" has no directory: the invariant (and
`live_snapshot_dirs_never_removed_concurrent`) is false for the `cleanupReadTx` variant. -/
theorem cleanupReadTx_breaks_invariant :
    ∃ c, CReach { cleanupReadTx := true } {} c ∧ (∃ a ∈ c.s.snaps, Dir.id a.id ∉ c.s.dirs) ∧ ¬ CInvar c := by
  have hbad : ∃ a ∈ race8.s.snaps, Dir.id a.id ∉ race8.s.dirs := ⟨raceSnap, by decide, by decide⟩
  refine ⟨race8, race_reachable, hbad, ?_⟩
  intro hinv
  obtain ⟨a, ha, hd⟩ := hbad
  exact hd (hinv.allDirs a ha)

/-! ### non-vacuity: the hypotheses are met by concrete non-trivial histories -/

/-- layer c1 prepared remotely, a container on top of it -/
def demoHist : List (Op × Oracle) :=
  [(.prepare "k1" "" [(targetLabel, "c1")], okOracle), (.prepare "k2" "c1" [], okOracle)]

example : RestoreOn demoHist := by
  intro p hp cfg h
  simp [demoHist] at hp
  rcases hp with rfl | rfl <;> cases h
example : CleanHist demoHist := by
  intro p hp
  simp [demoHist] at hp
  rcases hp with rfl | rfl <;> (show isRemote _ = false; decide)
example : (runOps (init {}) demoHist).closed = false := by decide
example : TargetNotUncommitted (runOps (init {}) demoHist) "k3" "c3" := by
  refine ⟨by decide, ?_⟩
  intro t h
  have : findKey (runOps (init {}) demoHist).snaps "c3" = none := by decide
  rw [this] at h; cases h
-- the created-by-this-call outcome really occurs: remote, mounted once, key consumed
example : (runOp (runOps (init {}) demoHist) okOracle (.prepare "k3" "c1" [(targetLabel, "c3")])).2 = .err .exists := by decide
example : (runOp (runOps (init {}) demoHist) okOracle (.prepare "k3" "c1" [(targetLabel, "c3")])).1.mounts = [3, 1] := by decide
-- and the fallback outcome when the backend Mount fails
example : (runOp (runOps (init {}) demoHist) ⟨fun _ => false, fun _ => true, fun _ => true⟩
    (.prepare "k3" "c1" [(targetLabel, "c3")])).2 = .mounts (.overlay (some 3) [1]) := by decide
-- a failing Check of the remote parent makes Mounts unavailable
example : (runOp (runOps (init {}) demoHist) ⟨fun _ => true, fun _ => false, fun _ => true⟩ (.mounts "k2")).2
    = .err .unavailable := by decide
example : (runOp (runOps (init {}) demoHist) okOracle (.mounts "k2")).2 = .mounts (.overlay (some 2) [1]) := by decide
-- an Unmount step exists in a plan (sync removal), so the trace theorems are not vacuous
example : (plan (runOps (init {}) demoHist) okOracle (.remove "k2" [])).1 =
    [.txRemove "k2", .marker "remove.txcommitted", .fsUnmount (.id 2) true, .marker "cleanupdir.unmounted",
     .rmdir (.id 2), .marker "cleanupdir.removed"] := by decide

end SV.Props.C08

