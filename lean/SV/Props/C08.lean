/-
C08 — Snapshotter keeps snapshot metadata, directories and backend mounts in step.
Only property theorems and their non-vacuity examples live here.

Setting (see `SV/Model/Snap.lean`): a history is a list of calls, each with its own `Oracle`
(the outcome of every backend Mount/Check/Unmount of that call); `runOps (init cfg0) hist` is the
state after the history; `plan s orc op` is the list of atomic steps of the next call and
`Reachable cfg0 s` says that `s` is the state after some history and some prefix of the steps of
the call in flight.  All theorems quantify over ALL histories, configurations and oracles.
Sequential semantics: one call in flight.
-/
import SV.Lemmas.Snap

namespace SV.Props.C08
open SV.Snap

/-- the key whose parent chain `mounts()` checks for a call that can return a mount list -/
def checkKeyOf : Op → Option String
  | .prepare _ p _ => some p
  | .view _ p _ => some p
  | .mounts k => some k
  | _ => none

/-- the key of the snapshot a returned mount list is for -/
def keyOf : Op → String
  | .prepare k _ _ => k
  | .view k _ _ => k
  | .mounts k => k
  | _ => ""

/-- A backend mount implies its directory — in EVERY state a crash can expose: after any history
of calls with any backend outcomes, at any prefix of the atomic steps of the call in flight. -/
theorem mount_implies_dir (cfg0 : Config) (s : State) (h : Reachable cfg0 s) :
    ∀ n ∈ s.mounts, Dir.id n ∈ s.dirs :=
  (inv_reachable h).mountDir

/-- No mount list is handed out for a chain that contains a remote layer whose Check fails:
whenever Prepare / View / Mounts returns mounts, every remote-labelled snapshot on the chain that
was checked (from the parent, resp. from the key itself) had a successful Check in this call. -/
theorem mounts_unavailable_on_failed_check (s : State) (orc : Oracle) (op : Op) (m : MountSpec)
    (h : (runOp s orc op).2 = .mounts m) :
    ∃ ck ch, checkKeyOf op = some ck ∧ chainOf (runOp s orc op).1 ck = some ch ∧
      ∀ c ∈ ch, isRemote c.labels = true → orc.checkOk c.id = true := by
  unfold runOp at h ⊢
  rcases plan_mounts_cases h with ⟨k, p, l, rfl, hp⟩ | ⟨k, p, l, rfl, hp⟩ | ⟨k, rfl, hp⟩
  · rw [hp] at h ⊢
    obtain ⟨st1, sn, pids, _, hm, hst, _⟩ := preparePlan_mounts h
    obtain ⟨_, ch, h1, h2⟩ := mountsPlan_result' hm
    exact ⟨p, ch, rfl, by rw [hst]; exact h1, h2⟩
  · rw [hp] at h ⊢
    obtain ⟨st1, sn, pids, _, hm, hst⟩ := viewPlan_mounts h
    obtain ⟨_, ch, h1, h2⟩ := mountsPlan_result' hm
    exact ⟨p, ch, rfl, by rw [hst]; exact h1, h2⟩
  · rw [hp] at h ⊢
    obtain ⟨hst, sn, ps, _, _, _, ch, h1, h2⟩ := mountsOp_spec h
    exact ⟨k, ch, rfl, by rw [hst]; exact h1, h2⟩

/-- ... and conversely a failing Check on the chain makes the call fail (it cannot return mounts). -/
theorem failed_check_no_mounts (s : State) (orc : Oracle) (op : Op) (ck : String) (ch : List Snap) (c : Snap)
    (hck : checkKeyOf op = some ck) (hch : chainOf (runOp s orc op).1 ck = some ch) (hc : c ∈ ch)
    (hr : isRemote c.labels = true) (hfail : orc.checkOk c.id = false) :
    ∀ m, (runOp s orc op).2 ≠ .mounts m := by
  intro m hm
  obtain ⟨ck', ch', h1, h2, h3⟩ := mounts_unavailable_on_failed_check s orc op m hm
  rw [hck] at h1
  cases h1
  rw [hch] at h2
  cases h2
  rw [h3 c hc hr] at hfail
  cases hfail

/-- Lower directories are listed nearest parent first: the mount list returned for a snapshot is
`mountSpec sn (ids of ch)` where `ch` is the chain obtained by following parent links from the
snapshot's parent (`IsChain`: head = the parent, next = the parent's parent, …). -/
theorem lowerdir_nearest_parent_first (cfg0 : Config) (hist : List (Op × Oracle)) (orc : Oracle) (op : Op)
    (m : MountSpec) (h : (runOp (runOps (init cfg0) hist) orc op).2 = .mounts m) :
    ∃ sn ch, findKey (runOp (runOps (init cfg0) hist) orc op).1.snaps (keyOf op) = some sn ∧
      IsChain (runOps (init cfg0) hist).snaps sn.parent ch ∧ m = mountSpec sn (ch.map (·.id)) := by
  have hinv := inv_runOps (inv_init cfg0) hist
  generalize runOps (init cfg0) hist = s at h hinv ⊢
  unfold runOp at h ⊢
  rcases plan_mounts_cases h with ⟨k, p, l, rfl, hp⟩ | ⟨k, p, l, rfl, hp⟩ | ⟨k, rfl, hp⟩
  · rw [hp] at h ⊢
    obtain ⟨st1, sn, pids, hc, hm, hst, _⟩ := preparePlan_mounts h
    obtain ⟨hf, hpar, _, _, _, ps, hps, hmm, _⟩ := create_mounts_spec hinv hc hm
    refine ⟨sn, ps, by rw [hst]; exact hf, ?_, hmm⟩
    rw [hpar]; exact chain_isChain _ _ _ hps
  · rw [hp] at h ⊢
    obtain ⟨st1, sn, pids, hc, hm, hst⟩ := viewPlan_mounts h
    obtain ⟨hf, hpar, _, _, _, ps, hps, hmm, _⟩ := create_mounts_spec hinv hc hm
    refine ⟨sn, ps, by rw [hst]; exact hf, ?_, hmm⟩
    rw [hpar]; exact chain_isChain _ _ _ hps
  · rw [hp] at h ⊢
    obtain ⟨hst, sn, ps, hf, hps, hmm, _⟩ := mountsOp_spec h
    exact ⟨sn, ps, by rw [hst]; exact hf, chain_isChain _ _ _ hps, hmm⟩

/-- the `lowerdir=` option is exactly that chain, and it is never empty -/
theorem overlay_lowerdir_is_chain (sn : Snap) (pids : List Nat) (up : Option Nat) (lower : List Nat)
    (h : mountSpec sn pids = .overlay up lower) : lower = pids ∧ pids ≠ [] :=
  mountSpec_overlay h

/-- the parent chain of every live snapshot exists (no dangling parent link, the walk terminates) -/
theorem parent_chain_total (cfg0 : Config) (s : State) (h : Reachable cfg0 s) (sn : Snap) (hsn : sn ∈ s.snaps) :
    ∃ ch, chainOf s sn.key = some ch ∧ IsChain s.snaps sn.key ch := by
  have hinv := inv_reachable h
  apply chainOf_total hinv
  right
  exact hasKey_true.mpr ⟨sn, hinv.findKey_of_mem hsn⟩

/-- A backend mount is released only after its snapshot has been removed, or while closing:
at every Unmount step of every call other than Close, no live snapshot owns that directory. -/
theorem unmount_only_after_removed_or_close (cfg0 : Config) (hist : List (Op × Oracle)) (orc : Oracle) (op : Op)
    (pre post : List Step) (n : Nat) (ok : Bool)
    (hsplit : (plan (runOps (init cfg0) hist) orc op).1 = pre ++ .fsUnmount (.id n) ok :: post) :
    (∃ order, op = .close order) ∨
    ∀ a ∈ (applySteps (runOps (init cfg0) hist) pre).snaps, a.id ≠ n := by
  have hinv := inv_runOps (inv_init cfg0) hist
  by_cases hc : ∃ order, op = .close order
  · exact Or.inl hc
  · right
    have hs := plan_safe hinv orc op (fun order e => hc ⟨order, e⟩)
    rw [hsplit] at hs
    rcases allSteps_split hs with h | h
    · cases h
    · exact h

/-- ... and always before its directory is deleted: at every RemoveAll step the directory carries
no backend mount any more. -/
theorem unmount_before_rmdir (cfg0 : Config) (hist : List (Op × Oracle)) (orc : Oracle) (op : Op)
    (pre post : List Step) (d : Dir)
    (hsplit : (plan (runOps (init cfg0) hist) orc op).1 = pre ++ .rmdir d :: post) :
    ∀ n, d = .id n → n ∉ (applySteps (runOps (init cfg0) hist) pre).mounts := by
  have hinv := inv_runOps (inv_init cfg0) hist
  have hs := plan_stepsOk hinv orc op
  rw [hsplit] at hs
  exact stepsOk_split hs

/-- A directory is deleted only if no live snapshot owns it — or, during Close, if it belongs to a
remote snapshot (whose directory restore recreates). -/
theorem rmdir_only_orphans_or_close (cfg0 : Config) (hist : List (Op × Oracle)) (orc : Oracle) (op : Op)
    (pre post : List Step) (d : Dir)
    (hsplit : (plan (runOps (init cfg0) hist) orc op).1 = pre ++ .rmdir d :: post) :
    liveDir (applySteps (runOps (init cfg0) hist) pre).snaps d = false ∨
    ((∃ order, op = .close order) ∧ remoteDir (applySteps (runOps (init cfg0) hist) pre).snaps d = true) := by
  have hinv := inv_runOps (inv_init cfg0) hist
  by_cases hc : ∃ order, op = .close order
  · obtain ⟨order, rfl⟩ := hc
    by_cases hcl : (runOps (init cfg0) hist).closed = true
    · simp [plan, hcl] at hsplit
    · have hs := closePlan_safe (runOps (init cfg0) hist) orc order
      simp only [plan, hcl] at hsplit
      rw [hsplit] at hs
      rcases allSteps_split hs with h | ⟨_, h⟩
      · exact Or.inl h
      · exact Or.inr ⟨⟨order, rfl⟩, h⟩
  · have hs := plan_safe hinv orc op (fun order e => hc ⟨order, e⟩)
    rw [hsplit] at hs
    rcases allSteps_split hs with h | ⟨h, _⟩
    · exact Or.inl h
    · cases h

end SV.Props.C08
