/-
C06 — regenerated tie (widened).  `SV/Gen/Remote.lean` is produced from the CURRENT Go sources by
`tools/go2lean` on every run: `region.size`, `regionSet.totalSize` (a `for range` loop, translated
to `List.foldl`) and `superRegion` of fs/remote/util.go.  A Go `region` is translated to the pair
`(b, e)`.  The theorems state that the translated code is the hand-written model `SV.Region`.
Not modelled by the translation: int64 overflow; the index panic of `regs[0]` on an empty slice
(the translation yields `default`; the theorem is stated for non-empty lists, where the model
returns `some`).
-/
import SV.Gen.Remote
import SV.Model.Region

namespace SV.Props.C06gen2
open SV

/-- a translated region (pair) as a model region -/
def toR (p : Int × Int) : Region.Region := ⟨p.1, p.2⟩

theorem region_size_eq (b e : Int) : Gen.Remote.region_size b e = Region.Region.size ⟨b, e⟩ := by
  unfold Gen.Remote.region_size Region.Region.size
  rfl

private theorem foldl_total (rs : List (Int × Int)) (a : Int) :
    List.foldl (fun (a1 : Int) (e0 : Int × Int) => a1 + Gen.Remote.region_size e0.1 e0.2) a rs
      = a + Region.totalSize (rs.map toR) := by
  induction rs generalizing a with
  | nil => simp [Region.totalSize]
  | cons r rs ih =>
    simp only [List.foldl_cons, List.map_cons, Region.totalSize, ih]
    simp only [Gen.Remote.region_size, Region.Region.size, toR]
    omega

/-- Go `regionSet.totalSize()` (the loop over `rs.rs`) is the model's `totalSize`, for every list. -/
theorem totalSize_eq (rs : List (Int × Int)) : Gen.Remote.totalSize rs = Region.totalSize (rs.map toR) := by
  unfold Gen.Remote.totalSize
  simpa using foldl_total rs 0

/-- one iteration of the translated `superRegion` loop -/
private def stepG (s e : Int × Int) : Int × Int :=
  let s : Int × Int := if decide (e.1 < s.1) = true then (e.1, s.2) else s
  if decide (e.2 > s.2) = true then (s.1, e.2) else s

private def stepM (s reg : Region.Region) : Region.Region :=
  let s := if reg.b < s.b then { s with b := reg.b } else s
  if reg.e > s.e then { s with e := reg.e } else s

private theorem step_eq (s e : Int × Int) : toR (stepG s e) = stepM (toR s) (toR e) := by
  unfold stepG stepM toR
  by_cases h1 : e.1 < s.1 <;> by_cases h2 : e.2 > s.2 <;> simp [h1, h2]

private theorem foldl_super (l : List (Int × Int)) (s : Int × Int) :
    toR (List.foldl stepG s l) = List.foldl stepM (toR s) (l.map toR) := by
  induction l generalizing s with
  | nil => rfl
  | cons x xs ih => simp only [List.foldl_cons, List.map_cons, ih, step_eq]

/-- Go `superRegion(regs)` on a non-empty slice is the model's `superRegion`. -/
theorem superRegion_eq (r0 : Int × Int) (rest : List (Int × Int)) :
    Region.superRegion ((r0 :: rest).map toR) = some (toR (Gen.Remote.superRegion (r0 :: rest))) := by
  have h : Gen.Remote.superRegion (r0 :: rest) = List.foldl stepG r0 (r0 :: rest) := rfl
  rw [h, foldl_super]
  rfl

example : Gen.Remote.superRegion [(5, 9), (2, 3), (7, 20)] = (2, 20) ∧ Gen.Remote.totalSize [(0, 9), (20, 24)] = 15 := by
  decide

end SV.Props.C06gen2
