/-
C19 — Image conversion emits descriptors that describe exactly the blobs it wrote
(nativeconverter/estargz, nativeconverter/zstdchunked, nativeconverter/estargz/externaltoc).

Only property theorems and their non-vacuity examples live here.

The model (SV/Model/Convert.lean) is a thin data flow: the builders (`estargz.Build`,
`Writer.AppendTarLossLess`), SHA-256 (`H`), the decompressor and TOC parser are PARAMETERS.  What is
assumed about them is `BuildSound` (the decompression of the emitted blob is the stream whose digest /
length the accessors report, and the TOC `Open` finds is the TOC whose digest the accessor reports);
the Go harness recomputes exactly these facts from the committed blob on every conversion.  The
theorems therefore show that the CONVERTERS wire the right accessor to the right descriptor field, put
the blob under the digest they report whatever an interrupted run left under the writer ref, key the
TOC map by the converted digest, and that the shared map does not depend on the schedule.

Premise for "any schedule": the only state shared by concurrent layer conversions of one converter
instance is the layer-digest -> TOC map, whose writes are atomic (a mutex in the Go code).  The premise
is OBSERVED on every run, not read off the source: many layers go through ONE converter instance lined
up right before the map write, without and with the race detector, and the resulting TOC image is
recomputed by the oracle; a schedule of N conversions is then a permutation of their puts.
The option slices the converter closures capture are NOT covered by this premise (see the findings the
harness replays: shared-opts).
-/
import SV.Lemmas.Convert

namespace SV.Props.C19
open SV.Convert

/-- The build a conversion by converter `t` is made from. -/
def BuiltBy (E : Env) (t : Target) (o : List Opt) (src : Src) (b : Built) : Prop :=
  match t with
  | .esgz | .extToc => E.build o src.blob = some b
  | .zstdchunked => E.buildZstd o src.blob = some b
  | .extTocLossless => E.buildLossless o src.blob = some b

/-- Descriptor, store entry and label of a successful conversion, for every converter, every store
state (in particular: whatever bytes an interrupted earlier conversion left under the writer ref) and
every option list: digest and size are those of the built blob, the annotations are the TOC digest and
the length of its decompression; afterwards the store holds bytes hashing to the digest; if the digest
was new the store holds exactly the built blob labelled with the SHA-256 of its decompression; and no
other blob changed. -/
theorem desc_describes_blob (E : Env) (t : Target) (o : List Opt) (s s' : Store) (src : Src) (d : Desc)
    (wf : s.WF E.H) (h : convert E t o s src = (s', .ok d)) :
    ∃ b, BuiltBy E t o src b ∧
      d.digest = E.H b.blob ∧ d.size = b.blob.length ∧
      d.tocAnn = E.H b.tocJSON ∧ d.uncompressedAnn = b.stream.length ∧
      (∃ e, s'.lookup d.digest = some e ∧ E.H e.bytes = d.digest) ∧
      (s.lookup d.digest = none → s'.lookup d.digest = some ⟨b.blob, some (E.H b.stream)⟩) ∧
      (∀ d0 e0, s.lookup d0 = some e0 → s'.lookup d0 = some e0) := by
  cases t with
  | esgz =>
    simp only [convert] at h
    generalize hx : convertEsgz E o s src = x at h
    obtain ⟨s1, r, ob⟩ := x
    simp only [Prod.mk.injEq] at h
    obtain ⟨h1, h2⟩ := h; subst h1; subst h2
    obtain ⟨b, _, hb, _, _, hs, hd⟩ := convertEsgz_ok E o s src _ d ob hx
    rw [writeAndDescribe_desc] at hd
    refine ⟨b, hb, by rw [hd], by rw [hd], by rw [hd], by rw [hd], ?_, ?_, ?_⟩
    · have := writeAndDescribe_present E s (.esgz, src.digest) b (gzipTargetMT src.mt) wf
      rw [writeAndDescribe_desc] at this
      rw [hs, hd]; exact this
    · intro hn; rw [hd] at hn ⊢; rw [hs]
      exact (writeAndDescribe_committed E s _ b _).1 hn
    · intro d0 e0 h0; rw [hs, writeAndDescribe_store]; exact Store.commit_mono _ _ _ _ _ _ _ h0
  | zstdchunked =>
    simp only [convert] at h
    generalize hx : convertZstd E o s src = x at h
    obtain ⟨s1, r, ob⟩ := x
    simp only [Prod.mk.injEq] at h
    obtain ⟨h1, h2⟩ := h; subst h1; subst h2
    obtain ⟨b, m, _, hb, _, _, _, hs, hd⟩ := convertZstd_ok E o s src _ d ob hx
    rw [writeAndDescribe_desc] at hd
    refine ⟨b, hb, by rw [hd], by rw [hd], by rw [hd], by rw [hd], ?_, ?_, ?_⟩
    · have := writeAndDescribe_present E s (.zstd, src.digest) b src.mt wf
      rw [writeAndDescribe_desc] at this
      rw [hs, hd]; exact this
    · intro hn; rw [hd] at hn ⊢; rw [hs]
      exact (writeAndDescribe_committed E s _ b _).1 hn
    · intro d0 e0 h0; rw [hs, writeAndDescribe_store]; exact Store.commit_mono _ _ _ _ _ _ _ h0
  | extToc =>
    simp only [convert] at h
    generalize hx : convertExt E false o s src = x at h
    obtain ⟨s2, r, p⟩ := x
    simp only [Prod.mk.injEq] at h
    obtain ⟨h1, h2⟩ := h; subst h1; subst h2
    obtain ⟨b, toc, s1, hin, _, hs2, _⟩ := convertExt_ok E false o s src _ d p hx
    simp only [Bool.false_eq_true, if_false] at hin
    obtain ⟨b', hb', hb, _, _, hs, hd⟩ := convertEsgz_ok E o s src _ d _ hin
    injection hb' with hb'; subst hb'
    rw [writeAndDescribe_desc] at hd
    refine ⟨b, hb, by rw [hd], by rw [hd], by rw [hd], by rw [hd], ?_, ?_, ?_⟩
    · have := writeAndDescribe_present E s (.esgz, src.digest) b (gzipTargetMT src.mt) wf
      rw [writeAndDescribe_desc] at this
      obtain ⟨e, he, hh⟩ := this
      refine ⟨e, ?_, by rw [hd]; exact hh⟩
      rw [hs2, hd]; apply Store.commit_mono; rw [hs]; exact he
    · intro hn; rw [hd] at hn ⊢; rw [hs2]; apply Store.commit_mono; rw [hs]
      exact (writeAndDescribe_committed E s _ b _).1 hn
    · intro d0 e0 h0; rw [hs2]; apply Store.commit_mono
      rw [hs, writeAndDescribe_store]; exact Store.commit_mono _ _ _ _ _ _ _ h0
  | extTocLossless =>
    simp only [convert] at h
    generalize hx : convertExt E true o s src = x at h
    obtain ⟨s2, r, p⟩ := x
    simp only [Prod.mk.injEq] at h
    obtain ⟨h1, h2⟩ := h; subst h1; subst h2
    obtain ⟨b, toc, s1, hin, _, hs2, _⟩ := convertExt_ok E true o s src _ d p hx
    simp only [if_true] at hin
    obtain ⟨b', org, hb', hb, _, _, _, _, _, hs, hd⟩ := convertLossless_ok E o s src _ d _ hin
    injection hb' with hb'; subst hb'
    rw [writeAndDescribe_desc] at hd
    refine ⟨b, hb, by rw [hd], by rw [hd], by rw [hd], by rw [hd], ?_, ?_, ?_⟩
    · have := writeAndDescribe_present E s (.esgz, src.digest) b (gzipTargetMT src.mt) wf
      rw [writeAndDescribe_desc] at this
      obtain ⟨e, he, hh⟩ := this
      refine ⟨e, ?_, by rw [hd]; exact hh⟩
      rw [hs2, hd]; apply Store.commit_mono; rw [hs]; exact he
    · intro hn; rw [hd] at hn ⊢; rw [hs2]; apply Store.commit_mono; rw [hs]
      exact (writeAndDescribe_committed E s _ b _).1 hn
    · intro d0 e0 h0; rw [hs2]; apply Store.commit_mono
      rw [hs, writeAndDescribe_store]; exact Store.commit_mono _ _ _ _ _ _ _ h0

/-- The annotated TOC digest is a digest `VerifyTOC` accepts for the built blob (with the TOC blob the
external-TOC compressor buffered, where there is one) and the ONLY one it accepts.  Assumes
`BuildSound` (the TOC `Open` parses from the emitted blob is the TOC JSON the builder digested) —
recomputed by the harness for every conversion with `estargz.Open` + `VerifyTOC`. -/
theorem toc_annotation_verifies (E : Env) (sound : BuildSound E) (t : Target) (o : List Opt) (s s' : Store)
    (src : Src) (d : Desc) (wf : s.WF E.H) (h : convert E t o s src = (s', .ok d)) :
    ∃ b, BuiltBy E t o src b ∧ d.digest = E.H b.blob ∧
      verifyTOC E b.blob b.tocBlob d.tocAnn ∧
      ∀ d', verifyTOC E b.blob b.tocBlob d' → d' = d.tocAnn := by
  obtain ⟨b, hb, hdg, _, htoc, _⟩ := desc_describes_blob E t o s s' src d wf h
  have hs : E.tocOf b.blob b.tocBlob = some b.tocJSON := by
    cases t with
    | esgz => exact (sound.gz o src.blob b hb).2
    | extToc => exact (sound.gz o src.blob b hb).2
    | zstdchunked => exact (sound.zs o src.blob b hb).2
    | extTocLossless => exact (sound.ll o src.blob b hb).2
  refine ⟨b, hb, hdg, ⟨b.tocJSON, hs, htoc.symm⟩, ?_⟩
  rintro d' ⟨toc, h1, h2⟩
  rw [hs] at h1; injection h1 with h1; subst h1; rw [htoc, h2]

/-- The uncompressed-size annotation and the store label are length and SHA-256 of the
DECOMPRESSION OF THE COMMITTED BLOB (not of the source). Assumes `BuildSound`. -/
theorem uncompressed_describes_committed (E : Env) (sound : BuildSound E) (t : Target) (o : List Opt)
    (s s' : Store) (src : Src) (d : Desc) (wf : s.WF E.H) (h : convert E t o s src = (s', .ok d))
    (fresh : s.lookup d.digest = none) :
    ∃ e stream, s'.lookup d.digest = some e ∧ E.decomp e.bytes = some stream ∧
      d.uncompressedAnn = stream.length ∧ e.label = some (E.H stream) ∧ d.size = e.bytes.length := by
  obtain ⟨b, hb, _, hsz, _, hu, _, hfresh, _⟩ := desc_describes_blob E t o s s' src d wf h
  have hs : E.decomp b.blob = some b.stream := by
    cases t with
    | esgz => exact (sound.gz o src.blob b hb).1
    | extToc => exact (sound.gz o src.blob b hb).1
    | zstdchunked => exact (sound.zs o src.blob b hb).1
    | extTocLossless => exact (sound.ll o src.blob b hb).1
  exact ⟨_, b.stream, hfresh fresh, hs, hu, rfl, hsz⟩

/-- A retried conversion: two stores that differ only in what interrupted runs left under writer
refs give the same descriptor and the same blobs. -/
theorem retry_ignores_leftover (E : Env) (t : Target) (o : List Opt) (blobs : List (Digest × Entry))
    (i1 i2 : List (Ref × Bytes)) (src : Src) :
    (convert E t o ⟨blobs, i1⟩ src).2 = (convert E t o ⟨blobs, i2⟩ src).2 ∧
    (convert E t o ⟨blobs, i1⟩ src).1.blobs = (convert E t o ⟨blobs, i2⟩ src).1.blobs := by
  have key : ∀ (k : RefKind) (b : Built) (m : MT) (i : List (Ref × Bytes)),
      (writeAndDescribe E ⟨blobs, i⟩ (k, src.digest) b m).2 =
        { mt := m, digest := E.H b.blob, size := b.blob.length, tocAnn := E.H b.tocJSON,
          uncompressedAnn := b.stream.length } ∧
      (writeAndDescribe E ⟨blobs, i⟩ (k, src.digest) b m).1.blobs =
        (match blobs.lookup (E.H b.blob) with
          | some _ => blobs
          | none => (E.H b.blob, ⟨b.blob, some (E.H b.stream)⟩) :: blobs) := by
    intro k b m i
    refine ⟨writeAndDescribe_desc _ _ _ _ _, ?_⟩
    rw [writeAndDescribe_store]
    unfold Store.commit Store.lookup
    cases blobs.lookup (E.H b.blob) <;> simp
  cases t with
  | esgz =>
    simp only [convert, convertEsgz, Store.lookup]
    by_cases hl : isLayerType src.mt = true <;> simp only [hl, Bool.not_true, Bool.false_eq_true, if_false, if_true, Bool.not_false, and_self]
    cases blobs.lookup src.digest <;> simp only [and_self]
    cases E.build o src.blob <;> simp only [and_self]
    rename_i _ b
    simp [(key .esgz b (gzipTargetMT src.mt) i1), (key .esgz b (gzipTargetMT src.mt) i2)]
  | zstdchunked =>
    simp only [convert, convertZstd, Store.lookup]
    by_cases hl : isLayerType src.mt = true <;> simp only [hl, Bool.not_true, Bool.false_eq_true, if_false, if_true, Bool.not_false, and_self]
    cases blobs.lookup src.digest <;> simp only [and_self]
    cases E.buildZstd o src.blob <;> simp only [and_self]
    rename_i _ b
    cases zstdTargetMT src.mt <;>
      simp [(key .zstd b src.mt i1), (key .zstd b src.mt i2)]
  | extToc =>
    simp only [convert, convertExt, convertEsgz, Store.lookup, Bool.false_eq_true, if_false]
    by_cases hl : isLayerType src.mt = true <;> simp only [hl, Bool.not_true, Bool.false_eq_true, if_false, if_true, Bool.not_false, and_self]
    cases blobs.lookup src.digest <;> simp only [and_self]
    cases E.build o src.blob <;> simp only [and_self]
    rename_i _ b
    cases htb : b.tocBlob <;> simp only [Option.bind_some, htb]
    · simp [(key .esgz b (gzipTargetMT src.mt) i1), (key .esgz b (gzipTargetMT src.mt) i2)]
    · have k1 := key .esgz b (gzipTargetMT src.mt) i1
      have k2 := key .esgz b (gzipTargetMT src.mt) i2
      refine ⟨by simp [k1.1, k2.1], ?_⟩
      unfold Store.commit Store.lookup
      rw [k1.2, k2.2]
      split <;> split <;> simp_all
  | extTocLossless =>
    simp only [convert, convertExt, convertLossless, Store.lookup, if_true]
    by_cases hl : isLayerType src.mt = true <;> simp only [hl, Bool.not_true, Bool.false_eq_true, if_false, if_true, Bool.not_false, and_self]
    cases blobs.lookup src.digest <;> simp only [and_self]
    cases E.buildLossless o src.blob <;> cases E.decomp src.blob <;> simp only [and_self]
    rename_i _ b org
    by_cases h1 : E.H b.stream = E.H org <;> simp only [h1, ne_eq, not_true_eq_false, not_false_eq_true, if_true, if_false, and_self]
    by_cases h2 : b.stream.length = org.length <;> simp only [h2, not_true_eq_false, not_false_eq_true, if_true, if_false, and_self]
    cases htb : b.tocBlob <;> simp only [Option.bind_some, htb]
    · simp [(key .esgz b (gzipTargetMT src.mt) i1), (key .esgz b (gzipTargetMT src.mt) i2)]
    · have k1 := key .esgz b (gzipTargetMT src.mt) i1
      have k2 := key .esgz b (gzipTargetMT src.mt) i2
      refine ⟨by simp [k1.1, k2.1], ?_⟩
      unfold Store.commit Store.lookup
      rw [k1.2, k2.2]
      split <;> split <;> simp_all

/-- Lossless conversion keeps the DiffID: a successful lossless conversion was made from a blob whose
decompression has the digest and the length of the source's decompression; the label written for a new
blob is the source's DiffID. -/
theorem lossless_keeps_diffid (E : Env) (o : List Opt) (s s' : Store) (src : Src) (d : Desc)
    (wf : s.WF E.H) (h : convert E .extTocLossless o s src = (s', .ok d)) :
    ∃ b org, E.buildLossless o src.blob = some b ∧ E.decomp src.blob = some org ∧
      d.digest = E.H b.blob ∧
      E.H b.stream = E.H org ∧ b.stream.length = org.length ∧ d.uncompressedAnn = org.length ∧
      (s.lookup d.digest = none → s'.lookup d.digest = some ⟨b.blob, some (E.H org)⟩) := by
  obtain ⟨b0, hb0, hdg, _, _, hu, _, hfresh, _⟩ := desc_describes_blob E .extTocLossless o s s' src d wf h
  simp only [convert] at h
  generalize hx : convertExt E true o s src = x at h
  obtain ⟨s2, r, p⟩ := x
  simp only [Prod.mk.injEq] at h
  obtain ⟨h1, h2⟩ := h; subst h1; subst h2
  obtain ⟨b, toc, s1, hin, _, _, _⟩ := convertExt_ok E true o s src _ d p hx
  simp only [if_true] at hin
  obtain ⟨b', org, hb', hb, hdec, hH, hlen, _⟩ := convertLossless_ok E o s src _ d _ hin
  injection hb' with hb'; subst hb'
  have : b0 = b := by
    simp only [BuiltBy] at hb0; rw [hb] at hb0; injection hb0 with e; exact e.symm
  subst this
  exact ⟨b0, org, hb, hdec, hdg, hH, hlen, by rw [hu, hlen], by rw [← hH]; exact hfresh⟩

/-- …hence, where SHA-256 does not collide on the two streams, the decompressed bytes are the
source's decompressed bytes. -/
theorem lossless_keeps_stream (E : Env) (o : List Opt) (s s' : Store) (src : Src) (d : Desc)
    (wf : s.WF E.H) (h : convert E .extTocLossless o s src = (s', .ok d))
    (nocoll : ∀ a b : Bytes, E.H a = E.H b → a = b) :
    ∃ b, E.buildLossless o src.blob = some b ∧ d.digest = E.H b.blob ∧ E.decomp src.blob = some b.stream := by
  obtain ⟨b, org, hb, hdec, hdg, hH, _⟩ := lossless_keeps_diffid E o s s' src d wf h
  exact ⟨b, hb, hdg, by rw [hdec, nocoll _ _ hH]⟩

/-- The lossless double check compares BOTH the DiffID and the size: a build whose stream has another
digest or another length than the source is refused and nothing is committed. -/
theorem lossless_rejects_mismatch (E : Env) (o : List Opt) (s : Store) (src : Src) (b : Built) (org : Bytes)
    (hb : E.buildLossless o src.blob = some b) (hd : E.decomp src.blob = some org)
    (hm : E.H b.stream ≠ E.H org ∨ b.stream.length ≠ org.length) (hl : isLayerType src.mt = true)
    (e : Entry) (hi : s.lookup src.digest = some e) :
    convert E .extTocLossless o s src = (s, .err) := by
  simp only [convert, convertExt, convertLossless, hl, hi, hb, hd, if_true, Bool.not_true, Bool.false_eq_true, if_false]
  by_cases h1 : E.H b.stream = E.H org
  · rcases hm with hm | hm
    · exact absurd h1 hm
    · simp [h1, hm]
  · simp [h1]

/-! ## Media-type table -/

/-- The output media type of a successful conversion is the table's entry. -/
theorem convert_mediatype_is_table (E : Env) (t : Target) (o : List Opt) (s s' : Store) (src : Src) (d : Desc)
    (h : convert E t o s src = (s', .ok d)) : outMediaType t src.mt = .ok d.mt := by
  cases t with
  | esgz =>
    simp only [convert] at h
    generalize hx : convertEsgz E o s src = x at h
    obtain ⟨s1, r, ob⟩ := x
    simp only [Prod.mk.injEq] at h
    obtain ⟨h1, h2⟩ := h; subst h1; subst h2
    obtain ⟨b, _, _, hm, hl, _⟩ := convertEsgz_ok E o s src _ d ob hx
    simp [outMediaType, hl, hm]
  | zstdchunked =>
    simp only [convert] at h
    generalize hx : convertZstd E o s src = x at h
    obtain ⟨s1, r, ob⟩ := x
    simp only [Prod.mk.injEq] at h
    obtain ⟨h1, h2⟩ := h; subst h1; subst h2
    obtain ⟨b, m, _, _, hz, hm, hl, _⟩ := convertZstd_ok E o s src _ d ob hx
    simp [outMediaType, hl, hz, hm]
  | extToc =>
    simp only [convert] at h
    generalize hx : convertExt E false o s src = x at h
    obtain ⟨s2, r, p⟩ := x
    simp only [Prod.mk.injEq] at h
    obtain ⟨h1, h2⟩ := h; subst h1; subst h2
    obtain ⟨b, toc, s1, hin, _⟩ := convertExt_ok E false o s src _ d p hx
    simp only [Bool.false_eq_true, if_false] at hin
    obtain ⟨_, _, _, hm, hl, _⟩ := convertEsgz_ok E o s src _ d _ hin
    simp [outMediaType, hl, hm]
  | extTocLossless =>
    simp only [convert] at h
    generalize hx : convertExt E true o s src = x at h
    obtain ⟨s2, r, p⟩ := x
    simp only [Prod.mk.injEq] at h
    obtain ⟨h1, h2⟩ := h; subst h1; subst h2
    obtain ⟨b, toc, s1, hin, _⟩ := convertExt_ok E true o s src _ d p hx
    simp only [if_true] at hin
    obtain ⟨_, _, _, _, _, _, _, hm, hl, _⟩ := convertLossless_ok E o s src _ d _ hin
    simp [outMediaType, hl, hm]

/-- `MT.all` / `Target.all` really list every case (so the table the driver prints is the whole table). -/
theorem table_enumeration_complete : (∀ m : MT, m ∈ MT.all) ∧ (∀ t : Target, t ∈ Target.all) := by
  constructor
  · intro m; cases m <;> decide
  · intro t; cases t <;> decide

/-- The full demand on the table: EVERY row (4 converters × 19 media types) meets `rowOK`. -/
def MediatypeTableFull : Prop := ∀ (t : Target) (m : MT), rowOK t m = true

/-- All 76 rows, by exhaustive case analysis: a row meets the demand EXACTLY when it is not one of the
25 rows of `rowExc` (zstd-typed layer into a gzip-producing converter; non-layer type into an
external-TOC converter). The full statement `MediatypeTableFull` is false for the code as written —
see `mediatype_table_full_fails`; both exception classes are replayed on the implementation every run. -/
theorem mediatype_table_partial (t : Target) (m : MT) : rowOK t m = !rowExc t m := by
  cases t <;> cases m <;> decide

/-- The code as written does not meet the full table: eStargz conversion of an OCI zstd layer emits a
gzip blob under the `+zstd` media type, and the external-TOC converter panics on a non-layer type. -/
theorem mediatype_table_full_fails : ¬ MediatypeTableFull := by
  intro h
  have := h .esgz .ociLayerZstd
  revert this; decide

/-! ## External-TOC map and TOC image -/

/-- The put a successful external-TOC conversion contributes is keyed by the CONVERTED layer's
digest and carries digest and size of the TOC blob buffered for exactly that build; that TOC blob is
the one under which the layer verifies with the annotated digest (given `BuildSound`). -/
theorem exttoc_put_keyed_by_converted (E : Env) (sound : BuildSound E) (ll : Bool) (o : List Opt)
    (s s' : Store) (src : Src) (d : Desc) (p : Option (Digest × TocInfo))
    (h : convertExt E ll o s src = (s', .ok d, p)) :
    ∃ (b : Built) (toc : Bytes), b.tocBlob = some toc ∧ d.digest = E.H b.blob ∧
      p = some (d.digest, ⟨E.H toc, toc.length⟩) ∧ verifyTOC E b.blob (some toc) d.tocAnn := by
  obtain ⟨b, toc, s1, hin, htb, _, hp⟩ := convertExt_ok E ll o s src s' d p h
  cases ll with
  | false =>
    simp only [Bool.false_eq_true, if_false] at hin
    obtain ⟨_, hb', hb, _, _, _, hd⟩ := convertEsgz_ok E o s src _ d _ hin
    injection hb' with hb'; subst hb'
    rw [writeAndDescribe_desc] at hd
    refine ⟨b, toc, htb, by rw [hd], hp, ?_⟩
    have := (sound.gz o src.blob b hb).2
    rw [htb] at this
    exact ⟨b.tocJSON, this, by rw [hd]⟩
  | true =>
    simp only [if_true] at hin
    obtain ⟨_, _, hb', hb, _, _, _, _, _, _, hd⟩ := convertLossless_ok E o s src _ d _ hin
    injection hb' with hb'; subst hb'
    rw [writeAndDescribe_desc] at hd
    refine ⟨b, toc, htb, by rw [hd], hp, ?_⟩
    have := (sound.ll o src.blob b hb).2
    rw [htb] at this
    exact ⟨b.tocJSON, this, by rw [hd]⟩

/-- The put is a function of the input (source blob, media type, options): whatever the store states
the two conversions ran against (i.e. wherever the schedule placed them), two successful conversions
of the same source contribute the same put.  This discharges the consistency hypothesis of
`tocmap_order_independent` for duplicate layers. -/
theorem exttoc_put_function_of_input (E : Env) (ll : Bool) (o : List Opt) (s1 s2 s1' s2' : Store) (src : Src)
    (d1 d2 : Desc) (p1 p2 : Option (Digest × TocInfo))
    (h1 : convertExt E ll o s1 src = (s1', .ok d1, p1)) (h2 : convertExt E ll o s2 src = (s2', .ok d2, p2)) :
    p1 = p2 ∧ d1 = d2 := by
  obtain ⟨b1, t1, _, hin1, ht1, _, hp1⟩ := convertExt_ok E ll o s1 src s1' d1 p1 h1
  obtain ⟨b2, t2, _, hin2, ht2, _, hp2⟩ := convertExt_ok E ll o s2 src s2' d2 p2 h2
  cases ll with
  | false =>
    simp only [Bool.false_eq_true, if_false] at hin1 hin2
    obtain ⟨_, e1, hb1, _, _, _, hd1⟩ := convertEsgz_ok E o s1 src _ d1 _ hin1
    obtain ⟨_, e2, hb2, _, _, _, hd2⟩ := convertEsgz_ok E o s2 src _ d2 _ hin2
    injection e1 with e1; injection e2 with e2; subst e1; subst e2
    rw [hb1] at hb2; injection hb2 with hb2; subst hb2
    rw [ht1] at ht2; injection ht2 with ht2; subst ht2
    rw [writeAndDescribe_desc] at hd1 hd2
    have : d1 = d2 := by rw [hd1, hd2]
    subst this
    exact ⟨by rw [hp1, hp2], rfl⟩
  | true =>
    simp only [if_true] at hin1 hin2
    obtain ⟨_, _, e1, hb1, _, _, _, _, _, _, hd1⟩ := convertLossless_ok E o s1 src _ d1 _ hin1
    obtain ⟨_, _, e2, hb2, _, _, _, _, _, _, hd2⟩ := convertLossless_ok E o s2 src _ d2 _ hin2
    injection e1 with e1; injection e2 with e2; subst e1; subst e2
    rw [hb1] at hb2; injection hb2 with hb2; subst hb2
    rw [ht1] at ht2; injection ht2 with ht2; subst ht2
    rw [writeAndDescribe_desc] at hd1 hd2
    have : d1 = d2 := by rw [hd1, hd2]
    subst this
    exact ⟨by rw [hp1, hp2], rfl⟩

/-- Any schedule gives the same map: for every permutation `qs` of a history `ps` of atomic puts in
which equal layer digests carry equal TOC infos, the resulting finite map (sorted association list,
from any initial map) is the same — and so is the TOC image manifest. -/
theorem tocmap_order_independent (ps qs : List (Digest × TocInfo)) (m : TocMap) (hp : ps.Perm qs)
    (hc : ∀ p ∈ ps, ∀ q ∈ ps, p.1 = q.1 → p.2 = q.2) :
    TocMap.puts ps m = TocMap.puts qs m ∧ finalize (TocMap.puts ps m) = finalize (TocMap.puts qs m) := by
  have := TocMap.puts_perm ps qs m hp hc
  exact ⟨this, by rw [this]⟩

/-- Without the consistency hypothesis the map DOES depend on the order (why the hypothesis is there). -/
example : TocMap.puts [(1, ⟨10, 1⟩), (1, ⟨20, 2⟩)] ≠ TocMap.puts [(1, ⟨20, 2⟩), (1, ⟨10, 1⟩)] := by decide

/-- The TOC image maps EVERY converted layer digest to its TOC: after any consistent history of puts
(in any order), looking the layer digest up in the manifest the way `fetchTOCBlobFromManifest` does
returns the TOC info that was put for it; a digest never put is not found. -/
theorem tocimage_maps_every_layer (ps : List (Digest × TocInfo))
    (hc : ∀ p ∈ ps, ∀ q ∈ ps, p.1 = q.1 → p.2 = q.2) :
    (∀ p ∈ ps, fetchToc (finalize (TocMap.puts ps)) p.1 = some p.2) ∧
    (∀ k, (∀ p ∈ ps, p.1 ≠ k) → fetchToc (finalize (TocMap.puts ps)) k = none) := by
  have hs : (TocMap.puts ps []).Sorted := TocMap.puts_sorted ps [] (by simp [TocMap.Sorted])
  constructor
  · intro p hp
    exact fetchToc_finalize _ hs p.1 p.2 (TocMap.mem_puts ps [] hc p hp)
  · intro k hk
    apply fetchToc_finalize_none
    intro v hv
    rcases TocMap.mem_puts_inv ps [] _ hv with h | h
    · exact hk _ h rfl
    · cases h

/-- The manifest has exactly one layer per map entry (= per distinct converted digest), each
annotated with its layer digest, sorted by TOC digest. -/
theorem tocimage_one_layer_per_entry (ps : List (Digest × TocInfo)) :
    (finalize (TocMap.puts ps)).length = (TocMap.puts ps).length ∧
    (∀ l, l ∈ finalize (TocMap.puts ps) ↔ (l.layer, l.toc) ∈ TocMap.puts ps) ∧
    (TocMap.puts ps).Pairwise (fun a b => a.1 < b.1) ∧
    (finalize (TocMap.puts ps)).Pairwise (fun a b => a.toc.digest ≤ b.toc.digest) :=
  ⟨length_finalize _, fun l => mem_finalize _ l,
   TocMap.puts_sorted ps [] (by simp [TocMap.Sorted]), finalize_sorted _⟩

/-! ## Non-vacuity: a concrete environment in which every hypothesis above is met -/

/-- toy environment: "compression" prepends a marker byte, the TOC is the first two stream bytes -/
def exEnv : Env where
  H := fun b => b.foldl (fun h x => (h * 31 + x.toNat + 1) % 1000003) 7
  build := fun _ x => some ⟨1 :: x.tail, x.tail, x.tail.take 2, some (9 :: x.tail.take 2)⟩
  buildZstd := fun _ x => some ⟨2 :: x.tail, x.tail, x.tail.take 2, none⟩
  buildLossless := fun _ x => some ⟨1 :: x.tail, x.tail, x.tail.take 2, some (9 :: x.tail.take 2)⟩
  decomp := fun b => some b.tail
  tocOf := fun b _ => some (b.tail.take 2)

def exSrc : Src := ⟨.ociLayer, exEnv.H [0, 5, 6, 7], [0, 5, 6, 7]⟩
def exStore : Store :=
  { blobs := [(exEnv.H [0, 5, 6, 7], ⟨[0, 5, 6, 7], none⟩)], ingests := [((.esgz, exEnv.H [0, 5, 6, 7]), [42, 42])] }

example : BuildSound exEnv := ⟨by intro o x b h; cases h; exact ⟨rfl, rfl⟩,
  by intro o x b h; cases h; exact ⟨rfl, rfl⟩, by intro o x b h; cases h; exact ⟨rfl, rfl⟩⟩

/-- a retried lossless external-TOC conversion (leftover bytes under the ref) of an uncompressed OCI layer -/
example : (convert exEnv .extTocLossless [] exStore exSrc).2 =
    .ok ⟨.ociLayerGzip, exEnv.H [1, 5, 6, 7], 4, exEnv.H [5, 6], 3⟩ := by decide

example : (convert exEnv .extTocLossless [] exStore exSrc).1.lookup (exEnv.H [1, 5, 6, 7]) =
    some ⟨[1, 5, 6, 7], some (exEnv.H [5, 6, 7])⟩ := by decide

example : exStore.WF exEnv.H := by
  intro d e h
  simp only [Store.lookup, exStore, List.lookup] at h
  split at h
  · injection h with h; subst h; rename_i hd; simp at hd; subst hd; decide
  · cases h

example : (convert exEnv .zstdchunked [] exStore exSrc).2 =
    .ok ⟨.ociLayerZstd, exEnv.H [2, 5, 6, 7], 4, exEnv.H [5, 6], 3⟩ := by decide

example : (convertExt exEnv false [.chunkSize 4] exStore exSrc).2 =
    (.ok ⟨.ociLayerGzip, exEnv.H [1, 5, 6, 7], 4, exEnv.H [5, 6], 3⟩,
     some (exEnv.H [1, 5, 6, 7], ⟨exEnv.H [9, 5, 6], 3⟩)) := by decide

/-- a lossless build that alters the stream is refused -/
example : (convert { exEnv with buildLossless := fun _ x => some ⟨1 :: x.tail, x.tail ++ [0], x.tail.take 2, some [9]⟩ }
    .extTocLossless [] exStore exSrc).2 = .err := by decide

/-- three layers, two of them the same digest with the same TOC: consistent history, 3! schedules -/
example : (∀ p ∈ [((3 : Digest), (⟨30, 1⟩ : TocInfo)), (1, ⟨10, 1⟩), (3, ⟨30, 1⟩)],
    ∀ q ∈ [((3 : Digest), (⟨30, 1⟩ : TocInfo)), (1, ⟨10, 1⟩), (3, ⟨30, 1⟩)], p.1 = q.1 → p.2 = q.2) ∧
    finalize (TocMap.puts [(3, ⟨30, 1⟩), (1, ⟨10, 1⟩), (3, ⟨30, 1⟩)]) = [⟨⟨10, 1⟩, 1⟩, ⟨⟨30, 1⟩, 3⟩] := by
  decide

end SV.Props.C19
