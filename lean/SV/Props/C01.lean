/-
C01 — Verified layers never return bytes that do not match the TOC-pinned digests.

Only property theorems and their non-vacuity examples live here.  Model: `SV/Model/Verify.lean`
(the verification gate of one layer object: `VerifiableReader`, `reader`, `layer`, the ladder of
`filesystem.Mount`).  `H` (SHA-256) and `parse` (the metadata store) are uninterpreted parameters;
all claims are digest EQUALITIES, no collision assumption is used.  The theorems quantify over
ALL operation sequences (`run`), ALL adversary choices (the TOC bytes at every (re-)resolve, the
bytes of every compressed read, read failures) and ALL interleavings of the atomic steps
(`prefetchBegin` = `readAndCache` up to the end of its critical section, `prefetchCommit` = its
`w.Commit()`, `layerVerify` ∋ the critical section of `VerifyTOC`).

FINDING reflected here.  `Cache(WithReader(sr))` (`layer.backgroundFetch`) walks the blob through
`metadata.Reader.Clone(sr)`.  The memory metadata store's `Clone` re-parses the TOC from `sr` and
nobody compares the digest of that TOC, so prefetched chunks are compared with digests of the
adversary's choice (operation `prefetchBeginWith c reply dg`, `dg` arbitrary).  With that operation
the statements about BYTES are false (`*_full_false` below, witness replayed on the implementation
every run); they are proved for histories whose clone-based prefetches carried the TOC of the layer
object (`FaithfulRun`: always so for the db metadata store and for `Cache()` without `WithReader`)
and are therefore named `…_partial`.  The statements about the TOC DIGEST, the prefetch/verify
handshake and the configuration hold at full strength, clone-based prefetches included.
-/
import SV.Lemmas.Verify

namespace SV.Props.C01
open SV.Verify
set_option linter.unusedSectionVars false

section
variable {β δ : Type} [DecidableEq δ] (H : β → δ) (parse : β → Toc δ)

/-- A layer object after any history: created by a resolve with any TOC bytes, then any
operations (including evictions that re-resolve with other TOC bytes). -/
def reach (cfg : Cfg) (tb : β) (ops : List (Op β δ)) : St β δ := run H parse (init parse cfg tb) ops

/-- `filesystem.Mount` with the TOC digest label `D` (verification not disabled) succeeds only if
the TOC bytes actually hashed for this layer object hash to `D`; the layer is then `verified`.
Holds after ANY history, in particular for a layer that was already verified with another digest
or already skip-verified. -/
theorem mount_requires_digest (cfg : Cfg) (tb : β) (ops : List (Op β δ)) (l : Labels δ) (D : δ)
    (hcfg : cfg.disableVerification = false) (hl : l.toc = some (some D))
    (hm : (step H parse (reach H parse cfg tb ops) (.mount l)).2 = .ok) :
    (reach H parse cfg tb ops).tocActual H = D ∧
      (step H parse (reach H parse cfg tb ops) (.mount l)).1.layerR = .verified := by
  have hc : (reach H parse cfg tb ops).cfg.disableVerification = false := by
    unfold reach; rw [run_cfg]; exact hcfg
  generalize reach H parse cfg tb ops = s at hm hc ⊢
  simp only [step, mount, hc, hl] at hm ⊢
  rcases layerVerify_cases H s D with ⟨_, h⟩ | ⟨_, h, _⟩ | ⟨_, h, _, hd⟩
  · rw [h] at hm; cases hm
  · rw [h] at hm; cases hm
  · rw [h]; exact ⟨hd, rfl⟩

/-- The same for the stargz store (`layernode.Lookup`: `Verify(<digest in the directory name>)`). -/
theorem storeLookup_requires_digest (cfg : Cfg) (tb : β) (ops : List (Op β δ)) (D : δ)
    (hm : (step H parse (reach H parse cfg tb ops) (.storeLookup D)).2 = .ok) :
    (reach H parse cfg tb ops).tocActual H = D ∧
      (step H parse (reach H parse cfg tb ops) (.storeLookup D)).1.layerR = .verified := by
  generalize reach H parse cfg tb ops = s at hm ⊢
  simp only [step, storeLookup] at hm ⊢
  rcases layerVerify_cases H s D with ⟨_, h⟩ | ⟨_, h, _⟩ | ⟨_, h, _, hd⟩
  · rw [h] at hm; cases hm
  · rw [h] at hm; cases hm
  · rw [h]; exact ⟨hd, rfl⟩

/-- The same for a bare `layer.Verify(D)`. -/
theorem layerVerify_requires_digest (cfg : Cfg) (tb : β) (ops : List (Op β δ)) (D : δ)
    (hm : (step H parse (reach H parse cfg tb ops) (.layerVerify D)).2 = .ok) :
    (reach H parse cfg tb ops).tocActual H = D := by
  generalize reach H parse cfg tb ops = s at hm ⊢
  simp only [step] at hm
  rcases layerVerify_cases H s D with ⟨_, h⟩ | ⟨_, h, _⟩ | ⟨_, h, _, hd⟩
  · rw [h] at hm; cases hm
  · rw [h] at hm; cases hm
  · exact hd

/-- For every history (clone-based prefetches with a foreign TOC included): every entry in the
chunk cache of a verified layer, and every prefetch writer still in flight, was COMPARED with a
chunk digest before it was written (nothing enters unchecked). Whether that digest was the one of
this layer's TOC is what `FaithfulRun` adds below. -/
theorem verified_layer_cache_all_compared (cfg : Cfg) (tb : β) (ops : List (Op β δ))
    (hv : (reach H parse cfg tb ops).layerR = .verified) :
    (∀ ke ∈ (reach H parse cfg tb ops).cache, ke.2.ver = true) ∧
    (∀ p ∈ (reach H parse cfg tb ops).pending, p.2.ver = true) := by
  have hi : InvF (reach H parse cfg tb ops) := invF_run H parse ops (invF_init parse cfg tb)
  generalize reach H parse cfg tb ops = s at hv hi ⊢
  have hl := (hi.ver hv).2.2
  refine ⟨hi.clean (by rw [hv]; simp) hl, fun p hp => ?_⟩
  cases h : p.2.ver with
  | true => rfl
  | false => have := hi.pend p hp h; rw [hl] at this; cases this

/-- Invariant, for every history whose clone-based prefetches carried the TOC of the layer object:
a verified layer's chunk cache (and every prefetch writer still in flight) holds only entries that
were compared with their recorded digest before insertion, and their bytes do match the digests
recorded in the TOC of this layer object. -/
theorem no_unverified_bytes_cached_for_verified_layer_partial (cfg : Cfg) (tb : β) (ops : List (Op β δ))
    (hf : FaithfulRun H parse (init parse cfg tb) ops)
    (hv : (reach H parse cfg tb ops).layerR = .verified) :
    (∀ ke ∈ (reach H parse cfg tb ops).cache,
        ke.2.ver = true ∧ PiecesGood H (reach H parse cfg tb ops).toc ke.2.pieces) ∧
    (∀ p ∈ (reach H parse cfg tb ops).pending,
        p.2.ver = true ∧ PiecesGood H (reach H parse cfg tb ops).toc p.2.pieces) := by
  have hi : Inv H (reach H parse cfg tb ops) := inv_run H parse ops (inv_init H parse cfg tb) hf
  obtain ⟨h1, h2⟩ := verified_layer_cache_all_compared H parse cfg tb ops hv
  generalize reach H parse cfg tb ops = s at hv hi h1 h2 ⊢
  exact ⟨fun ke hke => ⟨h1 ke hke, hi.good ke hke (h1 ke hke)⟩,
         fun p hp => ⟨h2 p hp, hi.pgood p hp (h2 p hp)⟩⟩

/-- After a successful mount with TOC digest `D` (history `ops1` before it is arbitrary), for every
continuation `ops2` on the same layer object and every further operation `o`: whatever `o` returns
as file data consists of chunks whose bytes hash to the digest the TOC records for that chunk; and
that TOC is the one whose bytes hash to `D`.  Hypothesis `hf`: clone-based prefetches (before and
after the mount) carried the TOC of the layer object. -/
theorem reads_verified_partial (cfg : Cfg) (tb : β) (ops1 : List (Op β δ)) (l : Labels δ) (D : δ)
    (ops2 : List (Op β δ)) (o : Op β δ) (ps : List (Nat × β))
    (hcfg : cfg.disableVerification = false) (hl : l.toc = some (some D))
    (hm : (step H parse (reach H parse cfg tb ops1) (.mount l)).2 = .ok)
    (hne : NoEvict ops2)
    (hf : FaithfulRun H parse (init parse cfg tb) (ops1 ++ .mount l :: ops2))
    (ho : (step H parse (run H parse (step H parse (reach H parse cfg tb ops1) (.mount l)).1 ops2) o).2
            = .data ps) :
    PiecesGood H (reach H parse cfg tb ops1).toc ps ∧ H (reach H parse cfg tb ops1).tocBytes = D := by
  obtain ⟨hd, hv⟩ := mount_requires_digest H parse cfg tb ops1 l D hcfg hl hm
  obtain ⟨hf1, hf2⟩ := (faithfulRun_append H parse _ _ _).mp hf
  have hi0 : Inv H (reach H parse cfg tb ops1) := inv_run H parse ops1 (inv_init H parse cfg tb) hf1
  unfold reach at *
  generalize run H parse (init parse cfg tb) ops1 = s at hm hd hv hi0 ho hf2 ⊢
  have hi1 : Inv H (step H parse s (.mount l)).1 := inv_step H parse hi0 _ hf2.1
  have hf1' : Frame s (step H parse s (.mount l)).1 := frame_step H parse s _ rfl
  have hf3 := hf2.2
  generalize (step H parse s (.mount l)).1 = s1 at hv hi1 hf1' ho hf3
  have hi2 : Inv H (run H parse s1 ops2) := inv_run H parse ops2 hi1 hf3
  have hfr : Frame s1 (run H parse s1 ops2) := frame_run H parse ops2 s1 hne
  have hout := step_out H parse hi2 (hfr.verified hv) o ps ho
  rw [hfr.toc, hf1'.toc] at hout
  exact ⟨hout, hd⟩

/-- The prefetch / `VerifyTOC` race, all schedules.  A prefetched chunk that fails verification
(wrong bytes or no usable digest) and reaches its critical section
 * BEFORE the decision (`prohibitVerifyFailure` unset): is recorded, and from then on every
   `VerifyTOC` / `layer.Verify` / mount-with-digest of this layer object fails and the layer is
   never `verified`, whatever happens in between;
 * AFTER the decision: the call fails and changes nothing (no writer is left, nothing is
   committed). -/
theorem bad_prefetch_blocks_verify (cfg : Cfg) (tb : β) (ops0 : List (Op β δ)) (c : Nat) (b : β)
    (hmiss : cget (reach H parse cfg tb ops0).cache (.chunk c) = none)
    (hbad : chunkOk H (reach H parse cfg tb ops0).toc c b = false) :
    ((reach H parse cfg tb ops0).prohibit = false →
      ∀ (ops : List (Op β δ)), NoEvict ops → ∀ (D : δ) (l : Labels δ),
        let s2 := run H parse (step H parse (reach H parse cfg tb ops0) (.prefetchBegin c (some b))).1 ops
        (verifyTOC H s2 D).2 = .err ∧ (layerVerify H s2 D).2 = .err ∧ (storeLookup H s2 D).2 = .err ∧
        (s2.cfg.disableVerification = false → l.toc = some (some D) → (mount H s2 l).2 = .err) ∧
        s2.layerR ≠ .verified) ∧
    ((reach H parse cfg tb ops0).prohibit = true →
      step H parse (reach H parse cfg tb ops0) (.prefetchBegin c (some b))
        = (reach H parse cfg tb ops0, .err)) := by
  have hi0 : InvF (reach H parse cfg tb ops0) := invF_run H parse ops0 (invF_init parse cfg tb)
  generalize reach H parse cfg tb ops0 = s at hmiss hbad hi0 ⊢
  have hbad' : digOk H (s.toc.dig c) b = false := hbad
  constructor
  · intro hp ops hne D l
    have hl1 : (step H parse s (.prefetchBegin c (some b))).1.lastVerifyErr = true := by
      simp [step, prefetchBegin, prefetchDecide, prefetchDecideWith, hmiss, hbad', hp]
    have hi1 : InvF (step H parse s (.prefetchBegin c (some b))).1 := invF_step H parse hi0 _
    generalize (step H parse s (.prefetchBegin c (some b))).1 = s1 at hl1 hi1
    have hi2 : InvF (run H parse s1 ops) := invF_run H parse ops hi1
    have hl2 := (frame_run H parse ops s1 hne).lve hl1
    generalize run H parse s1 ops = s2 at hi2 hl2
    have hv : (verifyTOC H s2 D).2 = .err := by
      rcases verifyTOC_cases H s2 D with ⟨h, _⟩ | ⟨_, h, _⟩
      · rw [h]
      · rw [hl2] at h; cases h
    have hlv : (layerVerify H s2 D).2 = .err := by
      rcases layerVerify_cases H s2 D with ⟨_, h⟩ | ⟨_, h, _⟩ | ⟨_, _, h, _⟩
      · rw [h]
      · rw [h]
      · rw [hl2] at h; cases h
    refine ⟨hv, hlv, ?_, ?_, ?_⟩
    · unfold storeLookup
      split
      · rename_i s3 h3; rw [h3] at hlv; cases hlv
      · rfl
    · intro hd ht
      unfold mount
      simp only [hd, ht, Bool.false_eq_true, ↓reduceIte]
      split
      · rename_i s3 h3; rw [h3] at hlv; cases hlv
      · rfl
    · intro hver
      have := (hi2.ver hver).2.2
      rw [hl2] at this; cases this
  · intro hp
    simp [step, prefetchBegin, prefetchDecide, prefetchDecideWith, hmiss, hbad', hp]

/-- `filesystem.Mount` without a TOC digest label succeeds only under one of the two configuration
switches (`disable_verification`, or `allow_no_verification` together with the skip-verify label). -/
theorem unverified_requires_config (cfg : Cfg) (tb : β) (ops : List (Op β δ)) (l : Labels δ)
    (hl : l.toc = none)
    (hm : (step H parse (reach H parse cfg tb ops) (.mount l)).2 = .ok) :
    cfg.disableVerification = true ∨ (cfg.allowNoVerification = true ∧ l.skip = true) := by
  have hc : (reach H parse cfg tb ops).cfg = cfg := by unfold reach; rw [run_cfg]; rfl
  generalize reach H parse cfg tb ops = s at hm hc
  cases hd : cfg.disableVerification with
  | true => exact Or.inl rfl
  | false =>
    right
    rw [← hc] at hd
    simp only [step, mount, hd, hl] at hm
    cases ha : cfg.allowNoVerification with
    | false => rw [← hc] at ha; simp [ha] at hm
    | true =>
      cases hs : l.skip with
      | false => simp [hs] at hm
      | true => exact ⟨rfl, rfl⟩

/-- With both switches off, and the layer API reached only through the filesystem (mount, store
lookup, prefetch, reads, passthrough, eviction — no bare `SkipVerify`), EVERY byte any operation ever
returns is digest-correct with respect to the TOC of the layer object that served it, and that
layer object is `verified` — for all histories whose clone-based prefetches carried the TOC of the
layer object, with no assumption on which mounts succeeded. -/
theorem strict_config_reads_verified_partial (cfg : Cfg) (tb : β) (ops : List (Op β δ)) (o : Op β δ)
    (ps : List (Nat × β))
    (hd : cfg.disableVerification = false) (ha : cfg.allowNoVerification = false)
    (hns : ∀ o' ∈ ops, o'.isLayerSkip = false)
    (hf : FaithfulRun H parse (init parse cfg tb) ops)
    (ho : (step H parse (reach H parse cfg tb ops) o).2 = .data ps) :
    PiecesGood H (reach H parse cfg tb ops).toc ps ∧ (reach H parse cfg tb ops).layerR = .verified := by
  have hi : Inv H (reach H parse cfg tb ops) := inv_run H parse ops (inv_init H parse cfg tb) hf
  have hnsk : (reach H parse cfg tb ops).layerR ≠ .skipped :=
    strict_run H parse ops (init parse cfg tb) hd ha hns (by simp [init])
  generalize reach H parse cfg tb ops = s at hi hnsk ho ⊢
  cases hr : s.layerR with
  | skipped => exact absurd hr hnsk
  | none => exact absurd hr (step_data H parse s o ps ho).1
  | verified => exact ⟨step_out H parse hi hr o ps ho, rfl⟩

/-- With both switches off and no bare `SkipVerify`, data is only ever returned by a `verified` layer
object whose TOC hashes to a digest some mount presented — for ALL histories (full strength). -/
theorem strict_config_data_only_from_verified (cfg : Cfg) (tb : β) (ops : List (Op β δ)) (o : Op β δ)
    (ps : List (Nat × β))
    (hd : cfg.disableVerification = false) (ha : cfg.allowNoVerification = false)
    (hns : ∀ o' ∈ ops, o'.isLayerSkip = false)
    (ho : (step H parse (reach H parse cfg tb ops) o).2 = .data ps) :
    (reach H parse cfg tb ops).layerR = .verified := by
  have hnsk : (reach H parse cfg tb ops).layerR ≠ .skipped :=
    strict_run H parse ops (init parse cfg tb) hd ha hns (by simp [init])
  generalize reach H parse cfg tb ops = s at hnsk ho ⊢
  cases hr : s.layerR with
  | skipped => exact absurd hr hnsk
  | none => exact absurd hr (step_data H parse s o ps ho).1
  | verified => rfl

end

/-! ## the current `layer.Verify` against the old one -/

section
variable {β δ : Type} [DecidableEq δ] (H : β → δ) (parse : β → Toc δ)

/-- Current code: once skip-verify has taken effect on a layer object, every later `Verify` of that
object is refused and changes nothing, whatever digest is presented and whatever happens between. -/
theorem verify_after_skip_refused (s : St β δ) (hs : s.layerR = .skipped) (ops : List (Op β δ))
    (hne : NoEvict ops) (D : δ) :
    layerVerify H (run H parse s ops) D = (run H parse s ops, .err) := by
  have hsk := (frame_run H parse ops s hne).skipped hs
  rcases layerVerify_cases H (run H parse s ops) D with ⟨_, h⟩ | ⟨hn, _⟩ | ⟨hn, _⟩
  · exact h
  · exact absurd hsk hn
  · exact absurd hsk hn

/-- Current code: a verified layer object compares the digest again on every `Verify`. -/
theorem second_verify_compares (s : St β δ) (D : δ) (hd : H s.tocBytes ≠ D) :
    (layerVerify H s D).2 = .err := by
  rcases layerVerify_cases H s D with ⟨_, h⟩ | ⟨_, h, _⟩ | ⟨_, _, _, h⟩
  · rw [h]
  · rw [h]
  · exact absurd h hd

/-- Current code: `SkipVerify` after `Verify` keeps the verified reader. -/
theorem skip_after_verify_keeps_verified (s : St β δ) (hv : s.layerR = .verified) : layerSkip s = s := by
  simp [layerSkip, hv]

end

/-! Counterexamples for the old `layer.Verify` (`verifyBuggy`, the code before 843bce5), on the
instance `β = δ = Nat`, `H = id`: TOC bytes `1` (so the actual TOC digest is `1`), every chunk's
recorded digest is `7`. -/

def exToc : Toc Nat := ⟨fun _ => [0, 1], fun _ => some 7⟩
def exCfg : Cfg := { allowNoVerification := true }
def exInit : St Nat Nat := init (fun _ => exToc) exCfg 1
/-- a read of chunk 0 for which the adversary supplies bytes `5` (digest `5 ≠ 7`) -/
def exBadRead : List (Step Nat) := [{ c := 0, reply := some 5 }]

/-- skip → verify(D): the old code accepts ANY digest without comparing (here 999 ≠ 1), the mount
"with TOC digest" succeeds, and a read then returns bytes that do not match the recorded digest. -/
theorem verifyBuggy_skip_then_verify_accepts :
    let s1 := layerSkip exInit
    (verifyBuggy id s1 999).2 = .ok ∧ s1.tocActual id ≠ 999 ∧
    (mountBuggy id s1 ⟨some (some 999), false⟩).2 = .ok ∧
    (read id (verifyBuggy id s1 999).1 exBadRead).2 = .data [(0, 5)] ∧
    exToc.dig 0 ≠ some (id 5) := by
  refine ⟨rfl, by decide, rfl, rfl, by decide⟩

/-- verify(D₁ good) → verify(D₂ wrong): the old code accepts the wrong digest. -/
theorem verifyBuggy_second_verify_accepts_wrong :
    let s1 := (verifyBuggy id exInit 1).1
    (verifyBuggy id exInit 1).2 = .ok ∧ (verifyBuggy id s1 2).2 = .ok ∧ s1.tocActual id ≠ 2 := by
  refine ⟨rfl, rfl, by decide⟩

/-- skip → read (unverified bytes are cached) → verify(D good): the old code "verifies" the layer
while its cache holds unverified bytes; the later read serves them from the cache. -/
theorem verifyBuggy_serves_cached_unverified_bytes :
    let s1 := (read id (layerSkip exInit) exBadRead).1
    let s2 := (verifyBuggy id s1 1).1
    (verifyBuggy id s1 1).2 = .ok ∧
    (read id s2 [{ c := 0, reply := none }]).2 = .data [(0, 5)] := by
  refine ⟨rfl, rfl⟩

/-- The current code on the same three histories. -/
theorem layerVerify_rejects_the_counterexamples :
    (layerVerify id (layerSkip exInit) 999).2 = .err ∧
    (layerVerify id (layerVerify id exInit 1).1 2).2 = .err ∧
    (layerVerify id (read id (layerSkip exInit) exBadRead).1 1).2 = .err := by
  refine ⟨rfl, rfl, rfl⟩

/-! ## the statements about bytes at full strength, and why they are false for the current code

The memory metadata store's `Clone` re-parses the TOC from the section reader handed to
`Cache(WithReader(sr))` (`layer.backgroundFetch`) and nobody compares its digest: operation
`prefetchBeginWith c reply dg` with `dg` of the adversary's choice. -/

/-- The witness: the layer is verified with the right digest (`1`); the background fetch then walks
a blob whose chunk 0 has bytes `5` and whose (re-parsed, unverified) TOC pins digest `5` for it. -/
def exCloneOps : List (Op Nat Nat) := [.prefetchBeginWith 0 (some 5) (some 5), .prefetchCommit 0]

/-- On the current code a VERIFIED layer serves, from its chunk cache, bytes that do not match the
digest its TOC records: mount with the right digest, clone-based prefetch of a forged chunk with a
forged TOC, read. -/
theorem clone_prefetch_serves_forged_bytes :
    let l : Labels Nat := ⟨some (some 1), false⟩
    let s1 := (step id (fun _ => exToc) (reach id (fun _ => exToc) {} 1 []) (.mount l)).1
    let s2 := run id (fun _ => exToc) s1 exCloneOps
    (step id (fun _ => exToc) (reach id (fun _ => exToc) {} 1 []) (.mount l)).2 = .ok ∧
    s2.layerR = .verified ∧
    (step id (fun _ => exToc) s2 (.read [{ c := 0, reply := none }])).2 = .data [(0, 5)] ∧
    s2.toc.dig 0 = some 7 := by
  refine ⟨rfl, rfl, rfl, rfl⟩

/-- `reads_verified` without the hypothesis on clone-based prefetches. -/
def reads_verified_full : Prop :=
  ∀ (β δ : Type) [DecidableEq δ] (H : β → δ) (parse : β → Toc δ) (cfg : Cfg) (tb : β)
    (ops1 : List (Op β δ)) (l : Labels δ) (D : δ) (ops2 : List (Op β δ)) (o : Op β δ)
    (ps : List (Nat × β)),
    cfg.disableVerification = false → l.toc = some (some D) →
    (step H parse (reach H parse cfg tb ops1) (.mount l)).2 = .ok → NoEvict ops2 →
    (step H parse (run H parse (step H parse (reach H parse cfg tb ops1) (.mount l)).1 ops2) o).2
      = .data ps →
    PiecesGood H (reach H parse cfg tb ops1).toc ps

theorem reads_verified_full_false : ¬ reads_verified_full := by
  intro h
  have ht : (reach id (fun _ => exToc) {} 1 []).toc = exToc := rfl
  have h1 := h Nat Nat id (fun _ => exToc) {} 1 [] ⟨some (some 1), false⟩ 1 exCloneOps
    (.read [{ c := 0, reply := none }]) [(0, 5)] rfl rfl rfl
    (by
      intro o ho
      simp only [exCloneOps, List.mem_cons, List.not_mem_nil, or_false] at ho
      rcases ho with rfl | rfl <;> rfl)
    rfl
  have h2 := h1 (0, 5) (List.mem_cons_self ..)
  rw [ht] at h2
  exact absurd h2 (by decide)

/-- `no_unverified_bytes_cached_for_verified_layer` without that hypothesis. -/
def no_unverified_bytes_cached_for_verified_layer_full : Prop :=
  ∀ (β δ : Type) [DecidableEq δ] (H : β → δ) (parse : β → Toc δ) (cfg : Cfg) (tb : β)
    (ops : List (Op β δ)),
    (reach H parse cfg tb ops).layerR = .verified →
    ∀ ke ∈ (reach H parse cfg tb ops).cache,
      ke.2.ver = true ∧ PiecesGood H (reach H parse cfg tb ops).toc ke.2.pieces

theorem no_unverified_bytes_cached_for_verified_layer_full_false :
    ¬ no_unverified_bytes_cached_for_verified_layer_full := by
  intro h
  have hc : (reach id (fun _ => exToc) {} 1 (.layerVerify 1 :: exCloneOps)).cache
      = [(.chunk 0, ⟨[(0, 5)], true⟩)] := rfl
  have ht : (reach id (fun _ => exToc) {} 1 (.layerVerify 1 :: exCloneOps)).toc = exToc := rfl
  have h1 := h Nat Nat id (fun _ => exToc) {} 1 (.layerVerify 1 :: exCloneOps) rfl
    (.chunk 0, ⟨[(0, 5)], true⟩) (by rw [hc]; exact List.mem_cons_self ..)
  have h2 := h1.2 (0, 5) (List.mem_cons_self ..)
  rw [ht] at h2
  exact absurd h2 (by decide)

/-- `strict_config_reads_verified` without that hypothesis. -/
def strict_config_reads_verified_full : Prop :=
  ∀ (β δ : Type) [DecidableEq δ] (H : β → δ) (parse : β → Toc δ) (cfg : Cfg) (tb : β)
    (ops : List (Op β δ)) (o : Op β δ) (ps : List (Nat × β)),
    cfg.disableVerification = false → cfg.allowNoVerification = false →
    (∀ o' ∈ ops, o'.isLayerSkip = false) →
    (step H parse (reach H parse cfg tb ops) o).2 = .data ps →
    PiecesGood H (reach H parse cfg tb ops).toc ps

theorem strict_config_reads_verified_full_false : ¬ strict_config_reads_verified_full := by
  intro h
  have ht : (reach id (fun _ => exToc) {} 1 (.mount ⟨some (some 1), false⟩ :: exCloneOps)).toc = exToc := rfl
  have h1 := h Nat Nat id (fun _ => exToc) {} 1 (.mount ⟨some (some 1), false⟩ :: exCloneOps)
    (.read [{ c := 0, reply := none }]) [(0, 5)] rfl rfl
    (by
      intro o ho
      simp only [exCloneOps, List.mem_cons, List.not_mem_nil, or_false] at ho
      rcases ho with rfl | rfl | rfl <;> rfl)
    rfl
  have h2 := h1 (0, 5) (List.mem_cons_self ..)
  rw [ht] at h2
  exact absurd h2 (by decide)

/-- The partial theorems are not vacuous where it matters: a clone that carries the TOC of the layer
object (db store; memory store with an unchanged TOC range) rejects the forged chunk after the
decision and never commits it. -/
example :
    let s1 := (step id (fun _ => exToc) (reach id (fun _ => exToc) {} 1 []) (.layerVerify 1)).1
    FaithfulRun id (fun _ => exToc) s1 [.prefetchBeginWith 0 (some 5) (some 7)] ∧
    step id (fun _ => exToc) s1 (.prefetchBeginWith 0 (some 5) (some 7)) = (s1, .err) := by
  refine ⟨⟨rfl, trivial⟩, rfl⟩

/-! ## non-vacuity -/

/-- The hypotheses of `mount_requires_digest` / `reads_verified` are satisfiable: after a prefetch of a
good chunk, a mount with the right digest succeeds, a read of good bytes returns them, a read of bad
bytes fails, and the read through the cache returns the good bytes. -/
example :
    let l : Labels Nat := ⟨some (some 1), false⟩
    let s0 := reach id (fun _ => exToc) {} 1 [.prefetchBegin 1 (some 7), .prefetchCommit 0]
    (step id (fun _ => exToc) s0 (.mount l)).2 = .ok ∧
    (step id (fun _ => exToc) (step id (fun _ => exToc) s0 (.mount l)).1
        (.read [{ c := 0, reply := some 7 }, { c := 1, reply := none }])).2 = .data [(0, 7), (1, 7)] ∧
    (step id (fun _ => exToc) (step id (fun _ => exToc) s0 (.mount l)).1 (.read exBadRead)).2 = .err := by
  refine ⟨rfl, rfl, rfl⟩

/-- `bad_prefetch_blocks_verify`: both cases occur. -/
example :
    let s0 := reach id (fun _ => exToc) {} 1 []
    cget s0.cache (.chunk 0) = none ∧ chunkOk id s0.toc 0 5 = false ∧ s0.prohibit = false ∧
    (step id (fun _ => exToc) (step id (fun _ => exToc) s0 (.prefetchBegin 0 (some 5))).1
        (.layerVerify 1)).2 = .err ∧
    (step id (fun _ => exToc) (step id (fun _ => exToc) s0 (.layerVerify 1)).1
        (.prefetchBegin 0 (some 5))).2 = .err := by
  refine ⟨rfl, rfl, rfl, rfl, rfl⟩

/-- `unverified_requires_config`: a mount without digest does succeed under the switch. -/
example : (step id (fun _ => exToc) (reach id (fun _ => exToc) exCfg 1 []) (.mount ⟨none, true⟩)).2 = .ok := rfl

/-- passthrough on a verified layer: merged from a cached chunk and a fetched one, then served. -/
example :
    let s0 := reach id (fun _ => exToc) {} 1 [.layerVerify 1, .read [{ c := 0, reply := some 7 }]]
    let s1 := (step id (fun _ => exToc) s0 (.passthrough 3 (fun _ => some 7) (fun _ => []) true)).1
    (step id (fun _ => exToc) s1 (.readFd 3)).2 = .data [(0, 7), (1, 7)] := rfl

end SV.Props.C01
