/-
C01 — Verified layers never return bytes that do not match the TOC-pinned digests.

Only property theorems and their non-vacuity examples live here.  Model: `SV/Model/Verify.lean`
(the verification gate of one layer object: `VerifiableReader`, `reader`, `layer`, the ladder of
`filesystem.Mount`).  `H` (SHA-256) and `parse` (the metadata store) are uninterpreted parameters;
all claims are digest EQUALITIES, no collision assumption is used.  The theorems quantify over
ALL operation sequences (`run`), ALL adversary choices (the TOC bytes at every (re-)resolve, the
bytes of every compressed read, read failures) and ALL interleavings of the atomic steps
(`prefetchBegin` = `readAndCache` up to the end of its critical section, `prefetchCommit` = its
`w.Commit()`, `layerVerify` ∋ the critical section of `VerifyTOC`).

Statements about BYTES are phrased with `Pinned H parse D c b`: "`b` hashes to the digest that SOME
TOC whose bytes hash to `D` records for chunk `c`".  `D` is all the trusted manifest pins; with an
uninterpreted `H` this needs no collision assumption and covers `Cache(WithReader(sr))`
(`layer.backgroundFetch`), whose walk goes over `metadata.Reader.Clone(sr)`: the memory store's clone
re-parses the TOC from `sr`, and since a094525 `Cache` refuses it unless its digest equals the TOC
digest of the layer object (operation `prefetchBeginClone c reply tb'`, `tb'` = the adversary's TOC
bytes).  `reads_verified_same_toc` gives the form "matches the digest recorded in the TOC of THIS
layer object" under the one hypothesis it needs: TOC bytes with the digest of the layer's TOC record
the same chunk digests (SHA-256 collision-freeness on TOCs).  The behaviour before a094525 (no
comparison) is the model variant `prefetchWith`; `clone_prefetch_serves_forged_bytes` is its
counterexample and the scenario is a regression scenario of the harness.
-/
import SV.Lemmas.Verify

namespace SV.Props.C01
open SV.Verify
set_option linter.unusedSectionVars false

section
variable {β δ : Type} [DecidableEq δ] (H : β → δ) (parse : β → Toc δ)

/-- A layer object after any history: created by a resolve with any TOC bytes, then any
operations (including evictions that re-resolve with other TOC bytes). -/
def reach (cfg : Cfg) (tb : β) (ops : List (Op β δ)) : St β δ := run H parse (init parse cfg tb) ops

/-- `filesystem.Mount` with the TOC digest label `D` (verification not disabled) succeeds only if
the TOC bytes actually hashed for this layer object hash to `D`; the layer is then `verified`.
Holds after ANY history, in particular for a layer that was already verified with another digest
or already skip-verified. -/
theorem mount_requires_digest (cfg : Cfg) (tb : β) (ops : List (Op β δ)) (l : Labels δ) (D : δ)
    (hcfg : cfg.disableVerification = false) (hl : l.toc = some (some D))
    (hm : (step H parse (reach H parse cfg tb ops) (.mount l)).2 = .ok) :
    (reach H parse cfg tb ops).tocActual H = D ∧
      (step H parse (reach H parse cfg tb ops) (.mount l)).1.layerR = .verified := by
  have hc : (reach H parse cfg tb ops).cfg.disableVerification = false := by
    unfold reach; rw [run_cfg]; exact hcfg
  generalize reach H parse cfg tb ops = s at hm hc ⊢
  simp only [step, mount, hc, hl] at hm ⊢
  rcases layerVerify_cases H s D with ⟨_, h⟩ | ⟨_, h, _⟩ | ⟨_, h, _, hd⟩
  · rw [h] at hm; cases hm
  · rw [h] at hm; cases hm
  · rw [h]; exact ⟨hd, rfl⟩

/-- The same for the stargz store (`layernode.Lookup`: `Verify(<digest in the directory name>)`). -/
theorem storeLookup_requires_digest (cfg : Cfg) (tb : β) (ops : List (Op β δ)) (D : δ)
    (hm : (step H parse (reach H parse cfg tb ops) (.storeLookup D)).2 = .ok) :
    (reach H parse cfg tb ops).tocActual H = D ∧
      (step H parse (reach H parse cfg tb ops) (.storeLookup D)).1.layerR = .verified := by
  generalize reach H parse cfg tb ops = s at hm ⊢
  simp only [step, storeLookup] at hm ⊢
  rcases layerVerify_cases H s D with ⟨_, h⟩ | ⟨_, h, _⟩ | ⟨_, h, _, hd⟩
  · rw [h] at hm; cases hm
  · rw [h] at hm; cases hm
  · rw [h]; exact ⟨hd, rfl⟩

/-- The same for a bare `layer.Verify(D)`. -/
theorem layerVerify_requires_digest (cfg : Cfg) (tb : β) (ops : List (Op β δ)) (D : δ)
    (hm : (step H parse (reach H parse cfg tb ops) (.layerVerify D)).2 = .ok) :
    (reach H parse cfg tb ops).tocActual H = D := by
  generalize reach H parse cfg tb ops = s at hm ⊢
  simp only [step] at hm
  rcases layerVerify_cases H s D with ⟨_, h⟩ | ⟨_, h, _⟩ | ⟨_, h, _, hd⟩
  · rw [h] at hm; cases hm
  · rw [h] at hm; cases hm
  · exact hd

/-- For every history: every entry in the chunk cache of a verified layer, and every prefetch
writer still in flight, was COMPARED with a chunk digest before it was written (nothing enters
unchecked).  That the digest was one a TOC hashing to the layer's TOC digest records is
`no_unverified_bytes_cached_for_verified_layer`. -/
theorem verified_layer_cache_all_compared (cfg : Cfg) (tb : β) (ops : List (Op β δ))
    (hv : (reach H parse cfg tb ops).layerR = .verified) :
    (∀ ke ∈ (reach H parse cfg tb ops).cache, ke.2.ver = true) ∧
    (∀ p ∈ (reach H parse cfg tb ops).pending, p.2.ver = true) := by
  have hi : InvF (reach H parse cfg tb ops) := invF_run H parse ops (invF_init parse cfg tb)
  generalize reach H parse cfg tb ops = s at hv hi ⊢
  have hl := (hi.ver hv).2.2
  refine ⟨hi.clean (by rw [hv]; simp) hl, fun p hp => ?_⟩
  cases h : p.2.ver with
  | true => rfl
  | false => have := hi.pend p hp h; rw [hl] at this; cases this

/-- Invariant, for EVERY history: a verified layer's chunk cache (and every prefetch writer still in
flight) holds only entries that were compared with a chunk digest before insertion, and their bytes
are pinned by the TOC digest of the layer object. -/
theorem no_unverified_bytes_cached_for_verified_layer (cfg : Cfg) (tb : β) (ops : List (Op β δ))
    (hv : (reach H parse cfg tb ops).layerR = .verified) :
    (∀ ke ∈ (reach H parse cfg tb ops).cache, ke.2.ver = true ∧
        PiecesGood (Pinned H parse ((reach H parse cfg tb ops).tocActual H)) ke.2.pieces) ∧
    (∀ p ∈ (reach H parse cfg tb ops).pending, p.2.ver = true ∧
        PiecesGood (Pinned H parse ((reach H parse cfg tb ops).tocActual H)) p.2.pieces) := by
  have hi : Inv H parse (reach H parse cfg tb ops) := inv_run H parse ops (inv_init H parse cfg tb)
  obtain ⟨h1, h2⟩ := verified_layer_cache_all_compared H parse cfg tb ops hv
  generalize reach H parse cfg tb ops = s at hv hi h1 h2 ⊢
  exact ⟨fun ke hke => ⟨h1 ke hke, hi.good ke hke (h1 ke hke)⟩,
         fun p hp => ⟨h2 p hp, hi.pgood p hp (h2 p hp)⟩⟩

/-- After a successful mount with TOC digest `D` (the history `ops1` before it is arbitrary), for
every continuation `ops2` on the same layer object and every further operation `o`: whatever `o`
returns as file data consists of chunks whose bytes hash to a chunk digest recorded by a TOC that
hashes to `D`; and the TOC of the layer object hashes to `D`.  No hypothesis on the history. -/
theorem reads_verified (cfg : Cfg) (tb : β) (ops1 : List (Op β δ)) (l : Labels δ) (D : δ)
    (ops2 : List (Op β δ)) (o : Op β δ) (ps : List (Nat × β))
    (hcfg : cfg.disableVerification = false) (hl : l.toc = some (some D))
    (hm : (step H parse (reach H parse cfg tb ops1) (.mount l)).2 = .ok)
    (hne : NoEvict ops2)
    (ho : (step H parse (run H parse (step H parse (reach H parse cfg tb ops1) (.mount l)).1 ops2) o).2
            = .data ps) :
    PiecesGood (Pinned H parse D) ps ∧ H (reach H parse cfg tb ops1).tocBytes = D := by
  obtain ⟨hd, hv⟩ := mount_requires_digest H parse cfg tb ops1 l D hcfg hl hm
  have hi0 : Inv H parse (reach H parse cfg tb ops1) := inv_run H parse ops1 (inv_init H parse cfg tb)
  generalize reach H parse cfg tb ops1 = s at hm hd hv hi0 ho ⊢
  have hi1 : Inv H parse (step H parse s (.mount l)).1 := inv_step H parse hi0 _
  have hf1 : Frame s (step H parse s (.mount l)).1 := frame_step H parse s _ rfl
  generalize (step H parse s (.mount l)).1 = s1 at hv hi1 hf1 ho
  have hi2 : Inv H parse (run H parse s1 ops2) := inv_run H parse ops2 hi1
  have hfr : Frame s1 (run H parse s1 ops2) := frame_run H parse ops2 s1 hne
  have hout := step_out H parse hi2 (hfr.verified hv) o ps ho
  have hD : H (run H parse s1 ops2).tocBytes = D := by rw [hfr.tocBytes, hf1.tocBytes]; exact hd
  unfold Pin at hout
  rw [hD] at hout
  exact ⟨hout, hd⟩

/-- The same with "the digest recorded in the TOC of THIS layer object".  The one hypothesis:
TOC bytes that hash to the digest of the layer's TOC bytes record the same chunk digests
(collision-freeness of SHA-256 on TOCs; trivially true for the db store, whose clone keeps the
stored TOC, and whenever the blob source serves the TOC range unchanged). -/
theorem reads_verified_same_toc (cfg : Cfg) (tb : β) (ops1 : List (Op β δ)) (l : Labels δ) (D : δ)
    (ops2 : List (Op β δ)) (o : Op β δ) (ps : List (Nat × β))
    (hcfg : cfg.disableVerification = false) (hl : l.toc = some (some D))
    (hm : (step H parse (reach H parse cfg tb ops1) (.mount l)).2 = .ok)
    (hne : NoEvict ops2)
    (hinj : ∀ tb', H tb' = H (reach H parse cfg tb ops1).tocBytes →
      (parse tb').dig = (reach H parse cfg tb ops1).toc.dig)
    (ho : (step H parse (run H parse (step H parse (reach H parse cfg tb ops1) (.mount l)).1 ops2) o).2
            = .data ps) :
    PiecesGood (TocGood H (reach H parse cfg tb ops1).toc) ps := by
  obtain ⟨h1, h2⟩ := reads_verified H parse cfg tb ops1 l D ops2 o ps hcfg hl hm hne ho
  intro p hp
  obtain ⟨tb', ht, hdg⟩ := h1 p hp
  have := hinj tb' (by rw [ht, h2])
  unfold TocGood
  rw [← this]; exact hdg

/-- The prefetch / `VerifyTOC` race, all schedules.  A prefetched chunk that fails verification
(wrong bytes or no usable digest) and reaches its critical section
 * BEFORE the decision (`prohibitVerifyFailure` unset): is recorded, and from then on every
   `VerifyTOC` / `layer.Verify` / mount-with-digest of this layer object fails and the layer is
   never `verified`, whatever happens in between;
 * AFTER the decision: the call fails and changes nothing (no writer is left, nothing is
   committed). -/
theorem bad_prefetch_blocks_verify (cfg : Cfg) (tb : β) (ops0 : List (Op β δ)) (c : Nat) (b : β)
    (hmiss : cget (reach H parse cfg tb ops0).cache (.chunk c) = none)
    (hbad : chunkOk H (reach H parse cfg tb ops0).toc c b = false) :
    ((reach H parse cfg tb ops0).prohibit = false →
      ∀ (ops : List (Op β δ)), NoEvict ops → ∀ (D : δ) (l : Labels δ),
        let s2 := run H parse (step H parse (reach H parse cfg tb ops0) (.prefetchBegin c (some b))).1 ops
        (verifyTOC H s2 D).2 = .err ∧ (layerVerify H s2 D).2 = .err ∧ (storeLookup H s2 D).2 = .err ∧
        (s2.cfg.disableVerification = false → l.toc = some (some D) → (mount H s2 l).2 = .err) ∧
        s2.layerR ≠ .verified) ∧
    ((reach H parse cfg tb ops0).prohibit = true →
      step H parse (reach H parse cfg tb ops0) (.prefetchBegin c (some b))
        = (reach H parse cfg tb ops0, .err)) := by
  have hi0 : InvF (reach H parse cfg tb ops0) := invF_run H parse ops0 (invF_init parse cfg tb)
  generalize reach H parse cfg tb ops0 = s at hmiss hbad hi0 ⊢
  have hbad' : digOk H (s.toc.dig c) b = false := hbad
  constructor
  · intro hp ops hne D l
    have hl1 : (step H parse s (.prefetchBegin c (some b))).1.lastVerifyErr = true := by
      simp [step, prefetchBegin, prefetchDecide, prefetchDecideWith, hmiss, hbad', hp]
    have hi1 : InvF (step H parse s (.prefetchBegin c (some b))).1 := invF_step H parse hi0 _
    generalize (step H parse s (.prefetchBegin c (some b))).1 = s1 at hl1 hi1
    have hi2 : InvF (run H parse s1 ops) := invF_run H parse ops hi1
    have hl2 := (frame_run H parse ops s1 hne).lve hl1
    generalize run H parse s1 ops = s2 at hi2 hl2
    have hv : (verifyTOC H s2 D).2 = .err := by
      rcases verifyTOC_cases H s2 D with ⟨h, _⟩ | ⟨_, h, _⟩
      · rw [h]
      · rw [hl2] at h; cases h
    have hlv : (layerVerify H s2 D).2 = .err := by
      rcases layerVerify_cases H s2 D with ⟨_, h⟩ | ⟨_, h, _⟩ | ⟨_, _, h, _⟩
      · rw [h]
      · rw [h]
      · rw [hl2] at h; cases h
    refine ⟨hv, hlv, ?_, ?_, ?_⟩
    · unfold storeLookup
      split
      · rename_i s3 h3; rw [h3] at hlv; cases hlv
      · rfl
    · intro hd ht
      unfold mount
      simp only [hd, ht, Bool.false_eq_true, ↓reduceIte]
      split
      · rename_i s3 h3; rw [h3] at hlv; cases hlv
      · rfl
    · intro hver
      have := (hi2.ver hver).2.2
      rw [hl2] at this; cases this
  · intro hp
    simp [step, prefetchBegin, prefetchDecide, prefetchDecideWith, hmiss, hbad', hp]

/-- `filesystem.Mount` without a TOC digest label succeeds only under one of the two configuration
switches (`disable_verification`, or `allow_no_verification` together with the skip-verify label). -/
theorem unverified_requires_config (cfg : Cfg) (tb : β) (ops : List (Op β δ)) (l : Labels δ)
    (hl : l.toc = none)
    (hm : (step H parse (reach H parse cfg tb ops) (.mount l)).2 = .ok) :
    cfg.disableVerification = true ∨ (cfg.allowNoVerification = true ∧ l.skip = true) := by
  have hc : (reach H parse cfg tb ops).cfg = cfg := by unfold reach; rw [run_cfg]; rfl
  generalize reach H parse cfg tb ops = s at hm hc
  cases hd : cfg.disableVerification with
  | true => exact Or.inl rfl
  | false =>
    right
    rw [← hc] at hd
    simp only [step, mount, hd, hl] at hm
    cases ha : cfg.allowNoVerification with
    | false => rw [← hc] at ha; simp [ha] at hm
    | true =>
      cases hs : l.skip with
      | false => simp [hs] at hm
      | true => exact ⟨rfl, rfl⟩

/-- With both switches off, and the layer API reached only through the filesystem (mount, store
lookup, prefetch, background fetch, reads, passthrough, eviction — no bare `SkipVerify`), EVERY byte
any operation ever returns is pinned by the TOC digest of the layer object that served it, and that
layer object is `verified` — for all histories, with no assumption on which mounts succeeded. -/
theorem strict_config_reads_verified (cfg : Cfg) (tb : β) (ops : List (Op β δ)) (o : Op β δ)
    (ps : List (Nat × β))
    (hd : cfg.disableVerification = false) (ha : cfg.allowNoVerification = false)
    (hns : ∀ o' ∈ ops, o'.isLayerSkip = false)
    (ho : (step H parse (reach H parse cfg tb ops) o).2 = .data ps) :
    PiecesGood (Pinned H parse ((reach H parse cfg tb ops).tocActual H)) ps ∧
      (reach H parse cfg tb ops).layerR = .verified := by
  have hi : Inv H parse (reach H parse cfg tb ops) := inv_run H parse ops (inv_init H parse cfg tb)
  have hnsk : (reach H parse cfg tb ops).layerR ≠ .skipped :=
    strict_run H parse ops (init parse cfg tb) hd ha hns (by simp [init])
  generalize reach H parse cfg tb ops = s at hi hnsk ho ⊢
  cases hr : s.layerR with
  | skipped => exact absurd hr hnsk
  | none => exact absurd hr (step_data H parse s o ps ho).1
  | verified => exact ⟨step_out H parse hi hr o ps ho, rfl⟩

/-- With both switches off and no bare `SkipVerify`, data is only ever returned by a `verified` layer
object whose TOC hashes to a digest some mount presented — for ALL histories (full strength). -/
theorem strict_config_data_only_from_verified (cfg : Cfg) (tb : β) (ops : List (Op β δ)) (o : Op β δ)
    (ps : List (Nat × β))
    (hd : cfg.disableVerification = false) (ha : cfg.allowNoVerification = false)
    (hns : ∀ o' ∈ ops, o'.isLayerSkip = false)
    (ho : (step H parse (reach H parse cfg tb ops) o).2 = .data ps) :
    (reach H parse cfg tb ops).layerR = .verified := by
  have hnsk : (reach H parse cfg tb ops).layerR ≠ .skipped :=
    strict_run H parse ops (init parse cfg tb) hd ha hns (by simp [init])
  generalize reach H parse cfg tb ops = s at hnsk ho ⊢
  cases hr : s.layerR with
  | skipped => exact absurd hr hnsk
  | none => exact absurd hr (step_data H parse s o ps ho).1
  | verified => rfl

end

/-! ## the current `layer.Verify` against the old one -/

section
variable {β δ : Type} [DecidableEq δ] (H : β → δ) (parse : β → Toc δ)

/-- Current code: once skip-verify has taken effect on a layer object, every later `Verify` of that
object is refused and changes nothing, whatever digest is presented and whatever happens between. -/
theorem verify_after_skip_refused (s : St β δ) (hs : s.layerR = .skipped) (ops : List (Op β δ))
    (hne : NoEvict ops) (D : δ) :
    layerVerify H (run H parse s ops) D = (run H parse s ops, .err) := by
  have hsk := (frame_run H parse ops s hne).skipped hs
  rcases layerVerify_cases H (run H parse s ops) D with ⟨_, h⟩ | ⟨hn, _⟩ | ⟨hn, _⟩
  · exact h
  · exact absurd hsk hn
  · exact absurd hsk hn

/-- Current code: a verified layer object compares the digest again on every `Verify`. -/
theorem second_verify_compares (s : St β δ) (D : δ) (hd : H s.tocBytes ≠ D) :
    (layerVerify H s D).2 = .err := by
  rcases layerVerify_cases H s D with ⟨_, h⟩ | ⟨_, h, _⟩ | ⟨_, _, _, h⟩
  · rw [h]
  · rw [h]
  · exact absurd h hd

/-- Current code: `SkipVerify` after `Verify` keeps the verified reader. -/
theorem skip_after_verify_keeps_verified (s : St β δ) (hv : s.layerR = .verified) : layerSkip s = s := by
  simp [layerSkip, hv]

end

/-! Counterexamples for the old `layer.Verify` (`verifyBuggy`, the code before 843bce5), on the
instance `β = δ = Nat`, `H = id`: TOC bytes `1` (so the actual TOC digest is `1`), every chunk's
recorded digest is `7`. -/

def exToc : Toc Nat := ⟨fun _ => [0, 1], fun _ => some 7⟩
def exCfg : Cfg := { allowNoVerification := true }
def exInit : St Nat Nat := init (fun _ => exToc) exCfg 1
/-- a read of chunk 0 for which the adversary supplies bytes `5` (digest `5 ≠ 7`) -/
def exBadRead : List (Step Nat) := [{ c := 0, reply := some 5 }]

/-- skip → verify(D): the old code accepts ANY digest without comparing (here 999 ≠ 1), the mount
"with TOC digest" succeeds, and a read then returns bytes that do not match the recorded digest. -/
theorem verifyBuggy_skip_then_verify_accepts :
    let s1 := layerSkip exInit
    (verifyBuggy id s1 999).2 = .ok ∧ s1.tocActual id ≠ 999 ∧
    (mountBuggy id s1 ⟨some (some 999), false⟩).2 = .ok ∧
    (read id (verifyBuggy id s1 999).1 exBadRead).2 = .data [(0, 5)] ∧
    exToc.dig 0 ≠ some (id 5) := by
  refine ⟨rfl, by decide, rfl, rfl, by decide⟩

/-- verify(D₁ good) → verify(D₂ wrong): the old code accepts the wrong digest. -/
theorem verifyBuggy_second_verify_accepts_wrong :
    let s1 := (verifyBuggy id exInit 1).1
    (verifyBuggy id exInit 1).2 = .ok ∧ (verifyBuggy id s1 2).2 = .ok ∧ s1.tocActual id ≠ 2 := by
  refine ⟨rfl, rfl, by decide⟩

/-- skip → read (unverified bytes are cached) → verify(D good): the old code "verifies" the layer
while its cache holds unverified bytes; the later read serves them from the cache. -/
theorem verifyBuggy_serves_cached_unverified_bytes :
    let s1 := (read id (layerSkip exInit) exBadRead).1
    let s2 := (verifyBuggy id s1 1).1
    (verifyBuggy id s1 1).2 = .ok ∧
    (read id s2 [{ c := 0, reply := none }]).2 = .data [(0, 5)] := by
  refine ⟨rfl, rfl⟩

/-- The current code on the same three histories. -/
theorem layerVerify_rejects_the_counterexamples :
    (layerVerify id (layerSkip exInit) 999).2 = .err ∧
    (layerVerify id (layerVerify id exInit 1).1 2).2 = .err ∧
    (layerVerify id (read id (layerSkip exInit) exBadRead).1 1).2 = .err := by
  refine ⟨rfl, rfl, rfl⟩

/-! ## `Cache(WithReader)` before a094525 (variant `prefetchWith` with an unchecked digest)

The memory metadata store's `Clone` re-parses the TOC from the section reader handed to
`Cache(WithReader(sr))` (`layer.backgroundFetch`); nobody compared its digest. -/

/-- On the old code a VERIFIED layer serves, from its chunk cache, bytes no TOC hashing to the
verified digest pins: verify with the right digest (`1`), clone-based prefetch of chunk 0 with forged
bytes `5` against a forged TOC that records `5`, read.  The current operation refuses that clone
(its TOC bytes `2` hash to `2 ≠ 1`) and changes nothing. -/
theorem clone_prefetch_serves_forged_bytes :
    let s1 := (layerVerify id (init (fun _ => exToc) {} 1) 1).1
    let s2 := (prefetchWith id s1 0 (some 5) (some 5)).1
    (layerVerify id (init (fun _ => exToc) {} 1) 1).2 = .ok ∧ s2.layerR = .verified ∧
    (read id s2 [{ c := 0, reply := none }]).2 = .data [(0, 5)] ∧
    ¬ Pinned id (fun _ => exToc) (s2.tocActual id) 0 5 ∧
    step id (fun _ => exToc) s1 (.prefetchBeginClone 0 (some 5) 2) = (s1, .err) := by
  refine ⟨rfl, rfl, rfl, ?_, rfl⟩
  rintro ⟨tb, _, h⟩
  have h' : exToc.dig 0 = some (id 5) := h
  exact absurd h' (by decide)

/-! ## non-vacuity -/

/-- The hypotheses of `mount_requires_digest` / `reads_verified` are satisfiable: after a prefetch of a
good chunk, a mount with the right digest succeeds, a read of good bytes returns them, a read of bad
bytes fails, and the read through the cache returns the good bytes. -/
example :
    let l : Labels Nat := ⟨some (some 1), false⟩
    let s0 := reach id (fun _ => exToc) {} 1 [.prefetchBegin 1 (some 7), .prefetchCommit 0]
    (step id (fun _ => exToc) s0 (.mount l)).2 = .ok ∧
    (step id (fun _ => exToc) (step id (fun _ => exToc) s0 (.mount l)).1
        (.read [{ c := 0, reply := some 7 }, { c := 1, reply := none }])).2 = .data [(0, 7), (1, 7)] ∧
    (step id (fun _ => exToc) (step id (fun _ => exToc) s0 (.mount l)).1 (.read exBadRead)).2 = .err := by
  refine ⟨rfl, rfl, rfl⟩

/-- `bad_prefetch_blocks_verify`: both cases occur. -/
example :
    let s0 := reach id (fun _ => exToc) {} 1 []
    cget s0.cache (.chunk 0) = none ∧ chunkOk id s0.toc 0 5 = false ∧ s0.prohibit = false ∧
    (step id (fun _ => exToc) (step id (fun _ => exToc) s0 (.prefetchBegin 0 (some 5))).1
        (.layerVerify 1)).2 = .err ∧
    (step id (fun _ => exToc) (step id (fun _ => exToc) s0 (.layerVerify 1)).1
        (.prefetchBegin 0 (some 5))).2 = .err := by
  refine ⟨rfl, rfl, rfl, rfl, rfl⟩

/-- Background fetch through a clone with the same TOC bytes is accepted and verified as usual. -/
example :
    let s1 := (layerVerify id (init (fun _ => exToc) {} 1) 1).1
    (step id (fun _ => exToc) s1 (.prefetchBeginClone 1 (some 7) 1)).2 = .ok ∧
    (step id (fun _ => exToc) s1 (.prefetchBeginClone 1 (some 5) 1)).2 = .err := ⟨rfl, rfl⟩

/-- `unverified_requires_config`: a mount without digest does succeed under the switch. -/
example : (step id (fun _ => exToc) (reach id (fun _ => exToc) exCfg 1 []) (.mount ⟨none, true⟩)).2 = .ok := rfl

/-- passthrough on a verified layer: merged from a cached chunk and a fetched one, then served. -/
example :
    let s0 := reach id (fun _ => exToc) {} 1 [.layerVerify 1, .read [{ c := 0, reply := some 7 }]]
    let s1 := (step id (fun _ => exToc) s0 (.passthrough 3 (fun _ => some 7) (fun _ => []) true)).1
    (step id (fun _ => exToc) s1 (.readFd 3)).2 = .data [(0, 7), (1, 7)] := rfl

end SV.Props.C01
