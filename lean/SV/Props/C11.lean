/-
C11 — A chunk-cache hit returns exactly the bytes committed under that key.

Only property theorems and their non-vacuity examples live here.  The model is
`SV/Model/ChunkCache.lean` (directory cache = memory LRU + descriptor LRU + directory; `MemoryCache`),
the invariant and its preservation by every step are in `SV/Lemmas/ChunkCache*.lean`.

All theorems about `reach …` quantify over EVERY list of steps from `NewDirectoryCache`: steps of any
number of writers and readers in any order, i.e. every interleaving at the granularity of the model
(one LRU critical section / one file-system call / one goroutine-private action per step), every
capacity, every option combination.  A step whose guard is false is skipped, so the step lists also
contain all "impossible" attempts.
-/
import SV.Lemmas.ChunkCache

namespace SV.Props.C11
open SV.ChunkCache

/-- The state after `steps`, starting from `NewDirectoryCache(dir, cfg)` with the given capacities. -/
def reach (memCap fdCap : Nat) (cfg : Config) (steps : List Step) : State :=
  (State.new memCap fdCap cfg).run steps

theorem reach_inv (memCap fdCap : Nat) (cfg : Config) (steps : List Step) :
    Inv (reach memCap fdCap cfg steps) :=
  (Inv.new memCap fdCap cfg).run steps

/-- **Hit = committed value, whole string.**  In every reachable state, what any open reader sees
through `ReadAt` is defined (its buffer exists / its descriptor is open) and is, in full, one of the
values committed under the reader's key. -/
theorem reader_sees_committed (memCap fdCap : Nat) (cfg : Config) (steps : List Step)
    (r : Nat) (rd : Reader)
    (hr : (reach memCap fdCap cfg steps).readers[r]? = some rd) (ho : rd.phase = .opened) :
    ∃ v : Bytes, (reach memCap fdCap cfg steps).visible rd = some v ∧
      v ∈ (reach memCap fdCap cfg steps).committed rd.key :=
  (reach_inv memCap fdCap cfg steps).visible_committed hr ho

/-- … hence every `ReadAt(p, off)` returns exactly the corresponding slice of a committed value. -/
theorem readAt_of_committed (memCap fdCap : Nat) (cfg : Config) (steps : List Step)
    (r : Nat) (rd : Reader) (off n : Nat)
    (hr : (reach memCap fdCap cfg steps).readers[r]? = some rd) (ho : rd.phase = .opened) :
    ∃ v : Bytes, v ∈ (reach memCap fdCap cfg steps).committed rd.key ∧
      ((reach memCap fdCap cfg steps).visible rd).map (readAt · off n) = some (readAt v off n) := by
  obtain ⟨v, h1, h2⟩ := reader_sees_committed memCap fdCap cfg steps r rd hr ho
  exact ⟨v, h2, by rw [h1]; rfl⟩

/-- Every committed value (hence every value a reader can see) was written, in full, by a writer of that
key that called `Commit`: never by an aborted or still-open writer. -/
theorem committed_has_committing_writer (memCap fdCap : Nat) (cfg : Config) (steps : List Step)
    (k : Nat) (v : Bytes) (hv : v ∈ (reach memCap fdCap cfg steps).committed k) :
    ∃ (w : Nat) (wr : Writer), (reach memCap fdCap cfg steps).writers[w]? = some wr ∧ wr.key = k ∧
      wr.written = v ∧ wr.phase ≠ .opened ∧ wr.phase ≠ .aborted :=
  (reach_inv memCap fdCap cfg steps).comm k v hv

/-- **A pooled buffer is referenced by nobody**: no open reader, no entry of the memory LRU, no pending
(possibly background) commit, no open writer. -/
theorem no_pooled_while_referenced (memCap fdCap : Nat) (cfg : Config) (steps : List Step)
    (b : Nat) (bf : Buf)
    (hb : (reach memCap fdCap cfg steps).bufs[b]? = some bf) (hp : bf.owner = .pooled) :
    let s := reach memCap fdCap cfg steps
    (∀ (r : Nat) (rd : Reader) (rc : Nat), s.readers[r]? = some rd → rd.phase = .opened → rd.src ≠ .mem b rc) ∧
    (∀ e ∈ s.mem.order, ∀ x : RC, s.mem.rcs[e.2]? = some x → x.val ≠ b) ∧
    (∀ (w : Nat) (wr : Writer) (rc : Nat) (x : RC), s.writers[w]? = some wr →
      (wr.phase = .published rc ∨ wr.phase = .written rc ∨ wr.phase = .finishing rc) →
      s.mem.rcs[rc]? = some x → x.val ≠ b) ∧
    (∀ (w : Nat) (wr : Writer), s.writers[w]? = some wr → wr.phase = .opened → wr.direct = false →
      wr.buf ≠ b) := by
  intro s
  have hi : Inv s := reach_inv memCap fdCap cfg steps
  have hcached : ∀ (i : Nat) (x : RC), s.mem.rcs[i]? = some x → x.alive → x.val ≠ b := by
    intro i x hx ha hc
    obtain ⟨bf', h1, h2, _⟩ := hi.buf i x hx ha
    rw [hc] at h1
    have : bf' = bf := by rw [hb] at h1; simp at h1; exact h1.symm
    subst this
    rw [hp] at h2; cases h2
  refine ⟨?_, ?_, ?_, ?_⟩
  · intro r rd rc hr ho hs
    obtain ⟨x, h1, h2, _, h4⟩ := hi.reader_mem_alive hr ho hs
    exact hcached rc x h1 h4 h2
  · intro e he x hx
    obtain ⟨x', h1, h2, _⟩ := hi.mem.ord e he
    rw [hx] at h1; simp at h1; subst h1
    exact hcached e.2 x hx (hi.mem.alive_of_not_fin hx h2)
  · intro w wr rc x hw hph hx
    obtain ⟨x', h1, h2⟩ := hi.writer_mem_alive hw hph
    rw [hx] at h1; simp at h1; subst h1
    exact hcached rc x hx h2
  · intro w wr hw hph hd hc
    have hok := hi.wr w wr hw
    simp only [WrOk, hph, hd] at hok
    obtain ⟨⟨bf', h1, h2, _⟩, _⟩ := hok
    rw [hc] at h1
    have : bf' = bf := by rw [hb] at h1; simp at h1; exact h1.symm
    subst this
    rw [hp] at h2; cases h2

/-- The descriptor-cache analogue: a descriptor an open reader reads through is not closed. -/
theorem no_closed_while_referenced (memCap fdCap : Nat) (cfg : Config) (steps : List Step)
    (r : Nat) (rd : Reader) (f : Nat) (fo : FileObj)
    (hr : (reach memCap fdCap cfg steps).readers[r]? = some rd) (ho : rd.phase = .opened)
    (hs : (∃ rc, rd.src = .fdc f rc) ∨ (∃ d, rd.src = .own f d))
    (hf : (reach memCap fdCap cfg steps).files[f]? = some fo) : fo.closed = false := by
  have hi := reach_inv memCap fdCap cfg steps
  rcases hs with ⟨rc, hs⟩ | ⟨d, hs⟩
  · obtain ⟨x, h1, h2, _, h4⟩ := hi.reader_fd_alive hr ho hs
    obtain ⟨fo', g1, _, g3, _⟩ := hi.file rc x h1 h4
    rw [h2, hf] at g1; simp at g1; subst g1; exact g3
  · have hok := hi.rd r rd hr
    simp only [RdOk, ho, hs] at hok
    obtain ⟨fo', g1, _, g3, _⟩ := hok
    rw [hf] at g1; simp at g1; subst g1; exact g3

/-- **Work in progress is invisible.**  While a writer has not renamed its wip file, no path of the
cache directory names that file and no descriptor refers to it; and the buffer of a writer that has not
called `Commit` is neither in the memory LRU nor behind any reader. -/
theorem wip_never_visible (memCap fdCap : Nat) (cfg : Config) (steps : List Step)
    (w : Nat) (wr : Writer) (hw : (reach memCap fdCap cfg steps).writers[w]? = some wr) :
    let s := reach memCap fdCap cfg steps
    ((wr.phase = .opened ∨ (∃ rc, wr.phase = .published rc) ∨ (∃ rc, wr.phase = .written rc)) →
      (∀ k, s.disk k ≠ some wr.wip) ∧ (∀ (f : Nat) (fo : FileObj), s.files[f]? = some fo → fo.inode ≠ wr.wip)) ∧
    (wr.phase = .opened → wr.direct = false →
      (∀ (r : Nat) (rd : Reader) (rc : Nat), s.readers[r]? = some rd → rd.phase = .opened →
        rd.src ≠ .mem wr.buf rc) ∧
      (∀ e ∈ s.mem.order, ∀ x : RC, s.mem.rcs[e.2]? = some x → x.val ≠ wr.buf)) := by
  intro s
  have hi : Inv s := reach_inv memCap fdCap cfg steps
  have hok := hi.wr w wr hw
  have hwipfree : (∃ ino : Inode, s.inodes[wr.wip]? = some ino ∧ ino.st = .wip w) →
      (∀ k, s.disk k ≠ some wr.wip) ∧ (∀ (f : Nat) (fo : FileObj), s.files[f]? = some fo → fo.inode ≠ wr.wip) := by
    rintro ⟨ino, h1, h2⟩
    constructor
    · intro k hk
      obtain ⟨ino', g1, g2⟩ := hi.diskIno k _ hk
      rw [h1] at g1; simp at g1; subst g1
      rw [h2] at g2; cases g2
    · intro f fo hf hc
      obtain ⟨ino', g1, g2⟩ := hi.fileIno f fo hf
      rw [hc, h1] at g1; simp at g1; subst g1
      rw [h2] at g2; cases g2
  constructor
  · intro hph
    apply hwipfree
    rcases hph with hph | ⟨rc, hph⟩ | ⟨rc, hph⟩
    · simp only [WrOk, hph] at hok
      split at hok
      · obtain ⟨ino, h1, h2, _⟩ := hok; exact ⟨ino, h1, h2⟩
      · obtain ⟨_, ino, h1, h2, _⟩ := hok; exact ⟨ino, h1, h2⟩
    · simp only [WrOk, hph] at hok
      obtain ⟨_, _, ino, h1, h2, _⟩ := hok; exact ⟨ino, h1, h2⟩
    · simp only [WrOk, hph] at hok
      obtain ⟨_, ino, h1, h2, _⟩ := hok; exact ⟨ino, h1, h2⟩
  · intro hph hd
    simp only [WrOk, hph, hd] at hok
    obtain ⟨⟨bf, h1, h2, _⟩, _⟩ := hok
    have hcached : ∀ (i : Nat) (x : RC), s.mem.rcs[i]? = some x → x.alive → x.val ≠ wr.buf := by
      intro i x hx ha hc
      obtain ⟨bf', g1, g2, _⟩ := hi.buf i x hx ha
      rw [hc, h1] at g1; simp at g1; subst g1
      rw [h2] at g2; cases g2
    constructor
    · intro r rd rc hr ho hs
      obtain ⟨x, g1, g2, _, g4⟩ := hi.reader_mem_alive hr ho hs
      exact hcached rc x g1 g4 g2
    · intro e he x hx
      obtain ⟨x', g1, g2, _⟩ := hi.mem.ord e he
      rw [hx] at g1; simp at g1; subst g1
      exact hcached e.2 x hx (hi.mem.alive_of_not_fin hx g2)

/-- **An aborted writer's data never becomes visible.**  Its wip file is never named by the cache
directory nor opened, and whatever any open reader sees was written by a writer of the reader's key that
did call `Commit` (so it is not the aborted writer's data unless a committing writer wrote the same). -/
theorem aborted_never_visible (memCap fdCap : Nat) (cfg : Config) (steps : List Step) :
    let s := reach memCap fdCap cfg steps
    (∀ (w : Nat) (wr : Writer), s.writers[w]? = some wr → wr.phase = .aborted →
      (∀ k, s.disk k ≠ some wr.wip) ∧ (∀ (f : Nat) (fo : FileObj), s.files[f]? = some fo → fo.inode ≠ wr.wip)) ∧
    (∀ (r : Nat) (rd : Reader) (v : Bytes), s.readers[r]? = some rd → rd.phase = .opened →
      s.visible rd = some v →
      ∃ (w : Nat) (wr : Writer), s.writers[w]? = some wr ∧ wr.key = rd.key ∧ wr.written = v ∧
        wr.phase ≠ .opened ∧ wr.phase ≠ .aborted) := by
  intro s
  have hi : Inv s := reach_inv memCap fdCap cfg steps
  constructor
  · intro w wr hw hph
    have hok := hi.wr w wr hw
    simp only [WrOk, hph] at hok
    obtain ⟨ino, h1, h2, _⟩ := hok
    constructor
    · intro k hk
      obtain ⟨ino', g1, g2⟩ := hi.diskIno k _ hk
      rw [h1] at g1; simp at g1; subst g1
      rw [h2] at g2; cases g2
    · intro f fo hf hc
      obtain ⟨ino', g1, g2⟩ := hi.fileIno f fo hf
      rw [hc, h1] at g1; simp at g1; subst g1
      rw [h2] at g2; cases g2
  · intro r rd v hr ho hv
    obtain ⟨v', h1, h2⟩ := hi.visible_committed hr ho
    rw [hv] at h1; simp at h1; subst h1
    exact hi.comm _ _ h2

/-- **Publication by rename is atomic.**  (1) In every reachable state every path of the cache directory
names a file holding a complete committed value of that key — there is no state in which a partially
written file is reachable by `Get`.  (2) A published file is never modified by any later step, so a
descriptor opened before a re-commit keeps reading the old complete value. -/
theorem rename_atomic_publish (memCap fdCap : Nat) (cfg : Config) (steps : List Step) :
    let s := reach memCap fdCap cfg steps
    (∀ (k i : Nat), s.disk k = some i →
      ∃ ino : Inode, s.inodes[i]? = some ino ∧ ino.st = .pub k ∧ ino.data ∈ s.committed k) ∧
    (∀ (i : Nat) (ino : Inode) (k : Nat), s.inodes[i]? = some ino → ino.st = .pub k →
      ∀ more : List Step, (s.run more).inodes[i]? = some ino) := by
  intro s
  have hi : Inv s := reach_inv memCap fdCap cfg steps
  constructor
  · intro k i hk
    obtain ⟨ino, h1, h2⟩ := hi.diskIno k i hk
    exact ⟨ino, h1, h2, hi.inoComm i ino k h1 h2⟩
  · intro i ino k h1 h2 more
    exact hi.pub_immutable_run more h1 h2

/-- The rename step itself: it changes one directory entry, to a file that at that instant holds a
complete committed value, and touches no other file. -/
theorem rename_step (memCap fdCap : Nat) (cfg : Config) (steps : List Step) (w : Nat) (wr : Writer) (s' : State)
    (hw : (reach memCap fdCap cfg steps).writers[w]? = some wr)
    (h : (reach memCap fdCap cfg steps).commitRename w = some s') :
    let s := reach memCap fdCap cfg steps
    s'.disk wr.key = some wr.wip ∧ (∀ k, k ≠ wr.key → s'.disk k = s.disk k) ∧
    (∀ i, i ≠ wr.wip → s'.inodes[i]? = s.inodes[i]?) ∧
    (∃ ino : Inode, s'.inodes[wr.wip]? = some ino ∧ ino.data ∈ s'.committed wr.key) := by
  intro s
  have hi : Inv s := reach_inv memCap fdCap cfg steps
  have hi' : Inv s' := hi.commitRename h
  have hdisk : s'.disk wr.key = some wr.wip ∧ (∀ k, k ≠ wr.key → s'.disk k = s.disk k) ∧
      (∀ i, i ≠ wr.wip → s'.inodes[i]? = s.inodes[i]?) := by
    unfold State.commitRename at h
    rw [show (reach memCap fdCap cfg steps).writers[w]? = some wr from hw] at h
    simp only at h
    split at h
    · split at h
      · simp at h; subst h
        exact ⟨by simp, fun k hk => by simp [hk, s], fun i hi => set_get_ne hi⟩
      · split at h
        · simp at h; subst h
          exact ⟨by simp, fun k hk => by simp [hk, s], fun i hi => set_get_ne hi⟩
        · simp at h
      · simp at h
    · simp at h
  refine ⟨hdisk.1, hdisk.2.1, hdisk.2.2, ?_⟩
  obtain ⟨ino, h1, h2⟩ := hi'.diskIno wr.key wr.wip hdisk.1
  exact ⟨ino, h1, hi'.inoComm _ ino _ h1 h2⟩

/-- **Zero-length values are values.**  If only the empty string has been committed under a key, every
open reader of that key sees exactly the empty string (`some []`: a hit with zero bytes, not a miss and
not an error). -/
theorem zero_length_ok (memCap fdCap : Nat) (cfg : Config) (steps : List Step)
    (r : Nat) (rd : Reader)
    (hr : (reach memCap fdCap cfg steps).readers[r]? = some rd) (ho : rd.phase = .opened)
    (hz : ∀ v ∈ (reach memCap fdCap cfg steps).committed rd.key, v = []) :
    (reach memCap fdCap cfg steps).visible rd = some [] := by
  obtain ⟨v, h1, h2⟩ := reader_sees_committed memCap fdCap cfg steps r rd hr ho
  rw [hz v h2] at h1; exact h1

/-- **Duplicate `Add`, memory layer keeps the first value.**  When a second writer of a key that is
still in the memory LRU commits, the LRU keeps its refCounter and buffer (unchanged), the second writer's
buffer goes back to the pool, and its value only joins the committed set. -/
theorem duplicate_add_keeps_first_in_memory (memCap fdCap : Nat) (cfg : Config) (steps : List Step)
    (w : Nat) (wr : Writer) (id : Nat) (s' : State)
    (hw : (reach memCap fdCap cfg steps).writers[w]? = some wr)
    (hfind : find wr.key (reach memCap fdCap cfg steps).mem.order = some id)
    (h : (reach memCap fdCap cfg steps).commitMemPublish w = some s') :
    let s := reach memCap fdCap cfg steps
    find wr.key s'.mem.order = some id ∧
    (∃ x x' : RC, s.mem.rcs[id]? = some x ∧ s'.mem.rcs[id]? = some x' ∧ x'.val = x.val ∧
      s'.bufs[x.val]? = s.bufs[x.val]?) ∧
    (∃ bf : Buf, s'.bufs[wr.buf]? = some bf ∧ bf.owner = .pooled) ∧
    wr.written ∈ s'.committed wr.key ∧
    (∃ wr' : Writer, s'.writers[w]? = some wr' ∧ wr'.phase = .published id) := by
  intro s
  have hi : Inv s := reach_inv memCap fdCap cfg steps
  unfold State.commitMemPublish at h
  rw [show (reach memCap fdCap cfg steps).writers[w]? = some wr from hw] at h
  simp only at h
  split at h
  · rename_i hph
    obtain ⟨hopen, hd⟩ := hph
    have hok := hi.wr w wr hw
    simp only [WrOk, hopen, hd] at hok
    obtain ⟨⟨bf0, hbf0, hown0, _⟩, _⟩ := hok
    rw [show (reach memCap fdCap cfg steps).bufs[wr.buf]? = some bf0 from hbf0] at h
    simp only [Option.some.injEq] at h; subst h
    obtain ⟨l', id', added, fired, ha⟩ :
        ∃ l' id' added fired, s.mem.add wr.key wr.buf = (l', id', added, fired) := ⟨_, _, _, _, rfl⟩
    rw [show (reach memCap fdCap cfg steps).mem.add wr.key wr.buf = (l', id', added, fired) from ha]
    obtain ⟨_, hspec⟩ := LRU.add_spec (h' := fun j => if j = id' then memHolders s.readers s.writers j + 1
      else memHolders s.readers s.writers j) hi.mem ha (by simp) (fun j hj => by simp [hj])
    cases added with
    | true =>
      obtain ⟨hnone, _⟩ := hspec.fresh rfl
      rw [show find wr.key s.mem.order = some id from hfind] at hnone; simp at hnone
    | false =>
      obtain ⟨_, _, hf, x, x', hx, hx', _, hal, _, hval, _, hf'⟩ := hspec.existing rfl
      rw [show find wr.key s.mem.order = some id from hfind] at hf
      simp at hf; subst hf
      simp only [Bool.false_eq_true, if_false]
      refine ⟨hf', ⟨x, x', hx, hx', hval, ?_⟩, ⟨_, set_get_self (lt_of_get_some hbf0), rfl⟩,
        mem_addCommitted _ _ _, ⟨_, set_get_self (lt_of_get_some hw), rfl⟩⟩
      obtain ⟨bfx, g1, g2, _⟩ := hi.buf _ x hx hal
      have : x.val ≠ wr.buf := by
        intro hc
        rw [hc, hbf0] at g1; simp at g1; subst g1
        rw [hown0] at g2; cases g2
      exact set_get_ne this
  · simp at h

/-- **Duplicate `Add`, disk.**  The persistence that follows writes the CACHED buffer (after a duplicate
add: the first value, not the second writer's) and renames it into place: the directory entry ends with
that complete committed value. -/
theorem duplicate_add_disk_gets_cached_value (memCap fdCap : Nat) (cfg : Config) (steps : List Step)
    (w : Nat) (wr : Writer) (rc : Nat) (s1 s2 : State)
    (hw : (reach memCap fdCap cfg steps).writers[w]? = some wr) (hph : wr.phase = .published rc)
    (h1 : (reach memCap fdCap cfg steps).commitDiskWrite w none = some s1)
    (h2 : s1.commitRename w = some s2) :
    let s := reach memCap fdCap cfg steps
    ∃ (x : RC) (bf : Buf) (ino : Inode), s.mem.rcs[rc]? = some x ∧ s.bufs[x.val]? = some bf ∧
      s2.disk wr.key = some wr.wip ∧ s2.inodes[wr.wip]? = some ino ∧ ino.data = bf.data ∧
      bf.data ∈ s2.committed wr.key := by
  intro s
  have hi : Inv s := reach_inv memCap fdCap cfg steps
  have hok := hi.wr w wr hw
  simp only [WrOk, hph] at hok
  obtain ⟨_, ⟨x, hx, hkx⟩, ino0, hino0, _, hdata0⟩ := hok
  obtain ⟨x', hx', hal⟩ := hi.writer_mem_alive hw (Or.inl hph)
  rw [hx] at hx'; simp at hx'; subst hx'
  obtain ⟨bf, hbf, _, hbfc⟩ := hi.buf rc x hx hal
  unfold State.commitDiskWrite at h1
  rw [show (reach memCap fdCap cfg steps).writers[w]? = some wr from hw] at h1
  simp only [hph] at h1
  rw [show (reach memCap fdCap cfg steps).mem.rcs[rc]? = some x from hx] at h1
  simp only at h1
  rw [show (reach memCap fdCap cfg steps).bufs[x.val]? = some bf from hbf,
    show (reach memCap fdCap cfg steps).inodes[wr.wip]? = some ino0 from hino0] at h1
  simp only [Option.some.injEq] at h1; subst h1
  unfold State.commitRename at h2
  have hw1 : (setWPhase s.writers w wr (.written rc))[w]? = some { wr with phase := .written rc } :=
    set_get_self (lt_of_get_some hw)
  simp only at h2
  rw [hw1] at h2
  simp only at h2
  rw [set_get_self (lt_of_get_some hino0)] at h2
  simp only [Option.some.injEq] at h2; subst h2
  refine ⟨x, bf, { data := ino0.data ++ bf.data, st := .pub wr.key }, hx, hbf, by simp, ?_, ?_,
    by rw [← hkx]; exact hbfc⟩
  · simp only [List.set_set]
    exact set_get_self (lt_of_get_some hino0)
  · simp [hdata0]

/-! ### `MemoryCache` -/

open MemCache in
/-- `MemoryCache`: what a reader sees is, in full, a value committed under its key. -/
theorem memcache_reader_sees_committed (steps : List MStep) (r : Nat) (rd : MReader)
    (hr : (MState.run {} steps).readers[r]? = some rd) :
    ∃ v : Bytes, (MState.run {} steps).visible rd = some v ∧ v ∈ (MState.run {} steps).committed rd.key := by
  obtain ⟨d, h1, _, h3⟩ := (MInv.init.run steps).rd r rd hr
  exact ⟨d.data, by simp [MState.visible, h1], h3⟩

open MemCache in
/-- `MemoryCache`: a committed value was written in full by a writer of that key that called `Commit`. -/
theorem memcache_committed_has_committing_writer (steps : List MStep) (k : Nat) (v : Bytes)
    (hv : v ∈ (MState.run {} steps).committed k) :
    ∃ (w : Nat) (wr : MWriter), (MState.run {} steps).writers[w]? = some wr ∧ wr.key = k ∧ wr.written = v ∧
      wr.opened = false :=
  (MInv.init.run steps).comm k v hv

open MemCache in
/-- `MemoryCache`, duplicate `Add`: the map entry is REPLACED by the later commit (keeps the last), while a
reader opened before keeps the buffer it got. -/
theorem memcache_duplicate_add_keeps_last (s s' : MState) (w : Nat) (wr : MWriter)
    (hw : s.writers[w]? = some wr) (h : s.commit w = some s') :
    s'.membuf wr.key = some wr.buf ∧ s'.readers = s.readers ∧
      ∀ b, b ≠ wr.buf → s'.bufs[b]? = s.bufs[b]? := by
  unfold MState.commit at h
  rw [hw] at h
  simp only at h
  split at h
  · split at h
    · simp at h; subst h
      exact ⟨by simp, rfl, fun b hb => set_get_ne hb⟩
    · simp at h
  · simp at h

/-! ### Non-vacuity: concrete histories in which the hypotheses hold and hits happen -/

/-- two keys through a memory LRU of capacity 1: key 0 is evicted by key 1 while a reader holds it; the held
reader still sees `[1,2]`, a later `Get` of key 0 is served from disk with the same bytes. -/
def demoSteps : List Step :=
  [ .addOpen 0 {} none, .write 0 [1], .write 0 [2], .commitMemPublish 0, .getMem 0 {},
    .addOpen 1 {} none, .write 1 [7], .commitMemPublish 1,          -- evicts key 0 (held by reader 0)
    .commitDiskWrite 0 none, .commitRename 0, .commitDone 0,
    .getOpen 0 {}, .closeReader 0 ]                                 -- reader 0's release recycles buffer 0

example : ((reach 1 1 {} demoSteps).readers.map (fun rd => (rd.key, (reach 1 1 {} demoSteps).visible rd))) =
    [(0, some []), (0, some [1, 2])] := by decide

example : ((reach 1 1 {} (demoSteps.take 12)).readers.map
    (fun rd => (rd.key, rd.phase, (reach 1 1 {} (demoSteps.take 12)).visible rd))) =
    [(0, .opened, some [1, 2]), (0, .opened, some [1, 2])] := by decide

example : (reach 1 1 {} demoSteps).bufs.map (·.owner) = [.pooled, .cached 1] := by decide

/-- zero-length value, direct mode: committed, found on disk, read back as the empty string. -/
example : let s := reach 2 2 {} [.addOpen 5 { direct := true } none, .commitRename 0, .getOpen 5 {}]
    s.readers.map (fun rd => (rd.phase, s.visible rd)) = [(.opened, some [])] ∧ s.committed 5 = [[]] := by
  decide

/-- duplicate add: hypotheses of `duplicate_add_keeps_first_in_memory` are satisfiable. -/
example : let s := reach 2 2 {} [.addOpen 3 {} none, .write 0 [9], .commitMemPublish 0, .addOpen 3 {} none,
      .write 1 [8]]
    find 3 s.mem.order = some 0 ∧ (s.commitMemPublish 1).isSome = true := by decide

open MemCache in
example : let s := MState.run {} [.add 1, .write 0 [4], .commit 0, .get 1, .add 1, .write 1 [5], .commit 1, .get 1]
    s.readers.map (fun rd => s.visible rd) = [some [4], some [5]] := by decide

end SV.Props.C11
