/-
C10 — Refcounted caches finalise each value exactly once and never while it is held
(`TTLCache`, `LRUCache` in util/cacheutil).

Only property theorems and their non-vacuity examples live here.

Premise for "every interleaving": every exported method of both caches, the timer function and every
`done` closure takes the cache mutex first and holds it for its whole body (re-checked on the Go
sources by checks/C10.py on every run).  Every schedule of goroutines is therefore some sequence of
the atomic operations `TOp` / `LOp`, and all theorems below quantify over ALL such sequences
(`TTL.run ops`, `LRU.run cap ops` = the state after the history `ops` from a fresh cache), proved by
an invariant that every operation preserves (SV/Lemmas/Refcount.lean).

Vocabulary: a value is its refCounter's index `id` in `core.rcs`; `r.calls` = how often the
eviction callback ran for it; `held toks id` = closures handed out for it whose `once` has not fired
(= holders); `TTL.member` / `LRU.member` = the cache still stores it under its key.
-/
import SV.Lemmas.Refcount

namespace SV.Props.C10
open SV.Refcount

/-! ## TTLCache -/

/-- `refCounts` = 1 for cache membership + 1 per holder, after every history. -/
theorem ttl_refs_eq (ops : List TOp) (id : Nat) (r : RC)
    (hr : (TTL.run ops).core.rcs[id]? = some r) :
    r.refs = (if (TTL.run ops).m r.key = some id then 1 else 0) + (held (TTL.run ops).core.toks id : Int) := by
  have inv := TInv.run ops
  have h := (inv.core.ok id r hr).refs_eq
  have hm := inv.member_iff hr
  unfold TTL.member at hm
  by_cases c : (TTL.run ops).m r.key = some id
  · simp only [c, if_true]; simpa [hm.mp c] using h
  · have hf : r.finDone = true := by
      cases hf : r.finDone with
      | true => rfl
      | false => exact absurd (hm.mpr hf) c
    simp only [c, if_false]; simpa [hf] using h

/-- The callback runs at most once per value, whatever the history. -/
theorem ttl_callback_at_most_once (ops : List TOp) (id : Nat) (r : RC)
    (hr : (TTL.run ops).core.rcs[id]? = some r) : r.calls ≤ 1 :=
  ((TInv.run ops).core.ok id r hr).calls_le_one

/-- The callback has run (exactly once) iff the value has left the cache AND every closure
obtained for it has been called — so never while cached, never while held, and as soon as both
are true. -/
theorem ttl_callback_iff_dead (ops : List TOp) (id : Nat) (r : RC)
    (hr : (TTL.run ops).core.rcs[id]? = some r) :
    r.calls = 1 ↔ (¬ (TTL.run ops).member id r ∧ held (TTL.run ops).core.toks id = 0) := by
  have inv := TInv.run ops
  rw [(inv.core.ok id r hr).calls_iff, inv.member_iff hr]
  cases r.finDone <;> simp

/-- A holder never sees its value finalised: while a closure has not been called, the callback
of its value has not run. -/
theorem ttl_held_not_finalised (ops : List TOp) (tok : Nat) (t : Tok)
    (ht : (TTL.run ops).core.toks[tok]? = some t) (hn : t.once = false) :
    ∃ r, (TTL.run ops).core.rcs[t.rc]? = some r ∧ r.calls = 0 := by
  have inv := TInv.run ops
  have hlt := inv.core.tokLt t (List.mem_of_getElem? ht)
  refine ⟨_, List.getElem?_eq_getElem hlt, ?_⟩
  have ok := inv.core.ok t.rc _ (List.getElem?_eq_getElem hlt)
  have hp := held_pos_of_tok ht hn
  have h3 := ok.2.2
  have : ¬ (((TTL.run ops).core.rcs[t.rc]).finDone = true ∧ held (TTL.run ops).core.toks t.rc = 0) := by
    intro h; omega
  simpa [this] using h3

/-- `Get` only ever returns values whose callback has not run. -/
theorem ttl_cached_not_finalised (ops : List TOp) (k id : Nat) (hm : (TTL.run ops).m k = some id) :
    ∃ r, (TTL.run ops).core.rcs[id]? = some r ∧ r.key = k ∧ r.calls = 0 := by
  have inv := TInv.run ops
  obtain ⟨r, hr, hk, hf⟩ := inv.mOk k id hm
  refine ⟨r, hr, hk, ?_⟩
  have h3 := (inv.core.ok id r hr).2.2
  simpa [hf] using h3

/-- Nothing leaks: after any history, once every closure has been called and the key of every value
ever added has been removed, every value ever added has been finalised exactly once. -/
theorem ttl_no_leak (ops : List TOp) :
    (TTL.run (ops ++ (TTL.run ops).drainOps)).core.rcs.length = (TTL.run ops).core.rcs.length ∧
    ∀ (id : Nat) (r : RC), (TTL.run (ops ++ (TTL.run ops).drainOps)).core.rcs[id]? = some r → r.calls = 1 := by
  have h := (TInv.run ops).drained
  have e : TTL.run (ops ++ (TTL.run ops).drainOps)
      = (TTL.run ops).drainOps.foldl (fun s o => (s.step o).1) (TTL.run ops) := by
    simp [TTL.run, List.foldl_append]
  rw [e]; exact h

/-- Calling a closure again (non-evicting) changes nothing at all — in particular no second
decrement and no callback. -/
theorem ttl_double_done_harmless (ops : List TOp) (tok : Nat) (t : Tok)
    (ht : (TTL.run ops).core.toks[tok]? = some t) (ho : t.once = true) :
    (TTL.run ops).step (.done tok false) = (TTL.run ops, .unit) := by
  simp [TTL.step, TTL.done, ht, release_of_released ht ho]

/-- Calling a closure twice with the same argument (evicting or not) is the same as calling it
once. -/
theorem ttl_done_idempotent (ops : List TOp) (tok : Nat) (e : Bool) :
    (((TTL.run ops).step (.done tok e)).1.step (.done tok e)).1 = ((TTL.run ops).step (.done tok e)).1 := by
  generalize TTL.run ops = s
  simp only [TTL.step]
  cases ht : s.core.toks[tok]? with
  | none => simp [TTL.done, ht]
  | some t =>
    have ht1 := release_tok_lookup ht
    have hrel : (s.core.release tok).release tok = s.core.release tok := release_of_released ht1 rfl
    cases e with
    | false =>
      rw [TTL.done_false_eq, TTL.done_false_eq]
      simp only [hrel]
    | true =>
      have hcore := TTL.done_true_core (tok := tok) ht
      apply TTL.done_true_fix (t' := { t with once := true })
      · rw [hcore]; exact ht1
      · rfl
      · rw [hcore]; exact fin_fin _ _
      · intro r hr
        rw [hcore] at hr
        exact TTL.done_true_m ht hr

/-- `Add` of a key that is cached returns the cached value with `added = false`, hands out a new
closure for it, and does not replace it (the map is unchanged, the value keeps key and payload). -/
theorem ttl_add_existing_returns_cached (ops : List TOp) (k v id : Nat)
    (hm : (TTL.run ops).m k = some id) :
    ∃ r, (TTL.run ops).core.rcs[id]? = some r ∧
      ((TTL.run ops).step (.add k v)).2 = .got r.val (TTL.run ops).core.toks.length false ∧
      ((TTL.run ops).step (.add k v)).1.m = (TTL.run ops).m ∧
      ∃ r', ((TTL.run ops).step (.add k v)).1.core.rcs[id]? = some r' ∧ r'.val = r.val ∧ r'.key = k ∧
        r'.calls = 0 := by
  have inv := TInv.run ops
  obtain ⟨r, hr, hk, hf⟩ := inv.mOk k id hm
  refine ⟨r, hr, ?_, ?_, ?_⟩
  · simp [TTL.step, TTL.add, hm, Core.valOf, hr]
  · simp [TTL.step, TTL.add, hm]
  · have inv' := inv.add k v
    have hm' : ((TTL.run ops).add k v).1.m k = some id := by simp [TTL.add, hm]
    obtain ⟨r', hr', hk', hf'⟩ := inv'.mOk k id hm'
    refine ⟨r', hr', ?_, hk', ?_⟩
    · have : ((TTL.run ops).add k v).1.core = (TTL.run ops).core.newTok id := by simp [TTL.add, hm]
      rw [this] at hr'
      obtain ⟨r0, hr0, _, hv, _⟩ := (viewEq_newTok (TTL.run ops).core id id).2 r' hr'
      rw [hr] at hr0; cases hr0; exact hv
    · have h3 := (inv'.core.ok id r' hr').2.2
      simpa [hf'] using h3

/-- An evicting release (`done(true)`) by a holder of an old value does not remove any other value
from the cache — in particular not a newer value re-added under the same key. -/
theorem ttl_evicting_release_spares_newer (ops : List TOp) (tok : Nat) (t : Tok) (k id' : Nat)
    (ht : (TTL.run ops).core.toks[tok]? = some t)
    (hm : (TTL.run ops).m k = some id') (hne : id' ≠ t.rc) :
    ((TTL.run ops).step (.done tok true)).1.m k = some id' := by
  generalize TTL.run ops = s at *
  simp only [TTL.step, TTL.done, ht, if_true]
  split
  · exact hm
  · rename_i r hr
    split
    · rename_i hk
      simp only
      split
      · rename_i e; subst e; rw [hm] at hk; cases hk; exact absurd rfl hne
      · exact hm
    · exact hm

/-- … while it does remove its own value if that is still the cached one. -/
theorem ttl_evicting_release_removes_own (ops : List TOp) (tok : Nat) (t : Tok) (k : Nat)
    (ht : (TTL.run ops).core.toks[tok]? = some t) (hm : (TTL.run ops).m k = some t.rc) :
    ((TTL.run ops).step (.done tok true)).1.m k = none := by
  have inv := TInv.run ops
  generalize TTL.run ops = s at *
  obtain ⟨r0, hr0, hk0, _⟩ := inv.mOk k t.rc hm
  obtain ⟨r1, hr1, hk1, _, _⟩ := (viewEq_release s.core tok t.rc).1 r0 hr0
  have hr2 : ((s.core.release tok).fin t.rc).rcs[t.rc]? = some r1.finalize := by
    simp [fin_lookup, hr1]
  simp only [TTL.step, TTL.done, ht, if_true, hr2, RC.finalize_key, hk1, hk0, hm]

/-! ## LRUCache -/

theorem lru_refs_eq (cap : Nat) (ops : List LOp) (id : Nat) (r : RC)
    (hr : (LRU.run cap ops).core.rcs[id]? = some r) [Decidable ((LRU.run cap ops).member id r)] :
    r.refs = (if (LRU.run cap ops).member id r then 1 else 0) + (held (LRU.run cap ops).core.toks id : Int) := by
  have inv := LInv.run cap ops
  have h := (inv.inv0.core.ok id r hr).refs_eq
  have hm := inv.member_iff hr
  by_cases c : (LRU.run cap ops).member id r
  · simp only [c, if_true]; simpa [hm.mp c] using h
  · have hf : r.finDone = true := by
      cases hf : r.finDone with
      | true => rfl
      | false => exact absurd (hm.mpr hf) c
    simp only [c, if_false]; simpa [hf] using h

theorem lru_callback_at_most_once (cap : Nat) (ops : List LOp) (id : Nat) (r : RC)
    (hr : (LRU.run cap ops).core.rcs[id]? = some r) : r.calls ≤ 1 :=
  ((LInv.run cap ops).inv0.core.ok id r hr).calls_le_one

theorem lru_callback_iff_dead (cap : Nat) (ops : List LOp) (id : Nat) (r : RC)
    (hr : (LRU.run cap ops).core.rcs[id]? = some r) :
    r.calls = 1 ↔ (¬ (LRU.run cap ops).member id r ∧ held (LRU.run cap ops).core.toks id = 0) := by
  have inv := LInv.run cap ops
  rw [(inv.inv0.core.ok id r hr).calls_iff, inv.member_iff hr]
  cases r.finDone <;> simp

theorem lru_held_not_finalised (cap : Nat) (ops : List LOp) (tok : Nat) (t : Tok)
    (ht : (LRU.run cap ops).core.toks[tok]? = some t) (hn : t.once = false) :
    ∃ r, (LRU.run cap ops).core.rcs[t.rc]? = some r ∧ r.calls = 0 := by
  have inv := (LInv.run cap ops).inv0
  have hlt := inv.core.tokLt t (List.mem_of_getElem? ht)
  refine ⟨_, List.getElem?_eq_getElem hlt, ?_⟩
  have ok := inv.core.ok t.rc _ (List.getElem?_eq_getElem hlt)
  have hp := held_pos_of_tok ht hn
  have h3 := ok.2.2
  have : ¬ (((LRU.run cap ops).core.rcs[t.rc]).finDone = true ∧ held (LRU.run cap ops).core.toks t.rc = 0) := by
    intro h; omega
  simpa [this] using h3

theorem lru_cached_not_finalised (cap : Nat) (ops : List LOp) (k id : Nat)
    (hm : (k, id) ∈ (LRU.run cap ops).order) :
    ∃ r, (LRU.run cap ops).core.rcs[id]? = some r ∧ r.key = k ∧ r.calls = 0 := by
  have inv := (LInv.run cap ops).inv0
  obtain ⟨r, hr, hk, hf⟩ := inv.oOk k id hm
  refine ⟨r, hr, hk, ?_⟩
  have h3 := (inv.core.ok id r hr).2.2
  simpa [hf] using h3

theorem lru_no_leak (cap : Nat) (ops : List LOp) :
    (LRU.run cap (ops ++ (LRU.run cap ops).drainOps)).core.rcs.length = (LRU.run cap ops).core.rcs.length ∧
    ∀ (id : Nat) (r : RC),
      (LRU.run cap (ops ++ (LRU.run cap ops).drainOps)).core.rcs[id]? = some r → r.calls = 1 := by
  have h := (LInv.run cap ops).drained
  have e : LRU.run cap (ops ++ (LRU.run cap ops).drainOps)
      = (LRU.run cap ops).drainOps.foldl (fun s o => (s.step o).1) (LRU.run cap ops) := by
    simp [LRU.run, List.foldl_append]
  rw [e]; exact h

theorem lru_double_done_harmless (cap : Nat) (ops : List LOp) (tok : Nat) (t : Tok)
    (ht : (LRU.run cap ops).core.toks[tok]? = some t) (ho : t.once = true) :
    (LRU.run cap ops).step (.done tok) = (LRU.run cap ops, .unit) := by
  simp [LRU.step, LRU.done, ht, release_of_released ht ho]

theorem lru_done_idempotent (cap : Nat) (ops : List LOp) (tok : Nat) :
    (((LRU.run cap ops).step (.done tok)).1.step (.done tok)).1 = ((LRU.run cap ops).step (.done tok)).1 := by
  generalize LRU.run cap ops = s
  simp only [LRU.step, LRU.done_eq]
  cases ht : s.core.toks[tok]? with
  | none => simp [Core.release, ht]
  | some t => rw [release_of_released (release_tok_lookup ht) rfl]

/-- `Add` of a cached key returns the cached value with `added = false` and keeps exactly the same
set of entries (only the recency order changes). -/
theorem lru_add_existing_returns_cached (cap : Nat) (ops : List LOp) (k v id : Nat)
    (hm : (k, id) ∈ (LRU.run cap ops).order) :
    ∃ r, (LRU.run cap ops).core.rcs[id]? = some r ∧
      ((LRU.run cap ops).step (.add k v)).2 = .got r.val (LRU.run cap ops).core.toks.length false ∧
      (∀ e, e ∈ ((LRU.run cap ops).step (.add k v)).1.order ↔ e ∈ (LRU.run cap ops).order) ∧
      ∃ r', ((LRU.run cap ops).step (.add k v)).1.core.rcs[id]? = some r' ∧ r'.val = r.val ∧ r'.key = k ∧
        r'.calls = 0 := by
  have inv := LInv.run cap ops
  generalize LRU.run cap ops = s at *
  obtain ⟨r, hr, hk, hf⟩ := inv.inv0.oOk k id hm
  have hfind := find_of_mem inv.inv0.nodup hm
  have hst : (s.step (.add k v)) =
      ({ s with order := (k, id) :: eraseKey k s.order, core := s.core.newTok id },
        .got (s.core.valOf id) s.core.toks.length false) := by
    simp [LRU.step, LRU.add, innerGet_of_find_some hfind]
  refine ⟨r, hr, ?_, ?_, ?_⟩
  · rw [hst]; simp [Core.valOf, hr]
  · rw [hst]; exact moveToFront_mem inv.inv0.nodup hm
  · rw [hst]
    obtain ⟨r', hr', hk', hv', hf'⟩ := (viewEq_newTok s.core id id).1 r hr
    refine ⟨r', hr', hv', hk'.trans hk, ?_⟩
    have inv' := inv.hit hfind
    have h3 := (inv'.inv0.core.ok id r' hr').2.2
    simpa [hf'.trans hf] using h3

/-- Releasing a closure never changes which values are cached (LRU `done` has no evicting form). -/
theorem lru_release_keeps_entries (cap : Nat) (ops : List LOp) (tok : Nat) :
    ((LRU.run cap ops).step (.done tok)).1.order = (LRU.run cap ops).order := by
  simp [LRU.step, LRU.done_eq]

/-- A bounded LRU never holds more than `MaxEntries` entries, whatever is still held. -/
theorem lru_size_bound (cap : Nat) (ops : List LOp) (hc : cap ≠ 0) :
    (LRU.run cap ops).order.length ≤ cap := by
  have h := (LInv.run cap ops).capOk
  rw [LRU.run_cap] at h
  exact h hc

/-! ## non-vacuity -/

-- the model can express a double callback: a second `dec` at zero fires again
example : (RC.dec (RC.dec { key := 0, val := 0, refs := 1 })).calls = 2 := by decide

-- hypotheses of `ttl_evicting_release_spares_newer`: value 0 held by closure 0, expired, key re-added
example : (TTL.run [.add 0 10, .expire 0, .add 0 11]).core.toks[0]? = some ⟨0, false⟩ := by decide
example : (TTL.run [.add 0 10, .expire 0, .add 0 11]).m 0 = some 1 := by decide
-- … and what the old holder's evicting release does: value 0 finalised once, value 1 still cached
example : (TTL.run [.add 0 10, .expire 0, .add 0 11, .done 0 true]).m 0 = some 1 := by decide
example : ((TTL.run [.add 0 10, .expire 0, .add 0 11, .done 0 true]).core.rcs.map (·.calls)) = [1, 0] := by
  decide
-- both sides of `ttl_callback_iff_dead` occur: held after removal (not yet), then released (fired)
example : ((TTL.run [.add 0 10, .get 0, .remove 0, .done 0 false]).core.rcs.map (·.calls)) = [0] := by decide
example : held (TTL.run [.add 0 10, .get 0, .remove 0, .done 0 false]).core.toks 0 = 1 := by decide
example : ((TTL.run [.add 0 10, .get 0, .remove 0, .done 0 false, .done 1 false]).core.rcs.map (·.calls)) = [1] := by
  decide
-- hypotheses of `ttl_double_done_harmless` / `ttl_add_existing_returns_cached`
example : (TTL.run [.add 0 10, .done 0 false]).core.toks[0]? = some ⟨0, true⟩ := by decide
example : ((TTL.run [.add 0 10]).step (.add 0 11)).2 = .got 10 1 false := by decide
-- draining a state with a held, already replaced value and a cached one
example : (TTL.run [.add 0 10, .expire 0, .add 0 11]).drainOps
    = [.done 0 false, .done 1 false, .remove 0, .remove 0] := by decide
-- LRU: capacity eviction while held does not fire; the release does; the bound is tight
example : ((LRU.run 1 [.add 0 10, .add 1 11]).order, (LRU.run 1 [.add 0 10, .add 1 11]).core.rcs.map (·.calls))
    = ([(1, 1)], [0, 0]) := by decide
example : ((LRU.run 1 [.add 0 10, .add 1 11, .done 0]).core.rcs.map (·.calls)) = [1, 0] := by decide
example : (LRU.run 2 [.add 0 10, .add 1 11, .get 0, .add 2 12]).order = [(2, 2), (0, 0)] := by decide
example : (LRU.run 0 [.add 0 10, .add 1 11, .add 2 12]).order.length = 3 := by decide
example : (LRU.run 1 [.add 0 10, .add 1 11, .add 0 12]).member 2 ⟨0, 12, 2, true, false, 0⟩ := by
  unfold LRU.member; decide

end SV.Props.C10
