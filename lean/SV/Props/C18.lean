/-
C18 — Registry credentials and custom headers reach only their own image and host.

Only property theorems and their non-vacuity examples live here.

Keychain (service/keychain/cri/cri.go, service/resolver/cri.go, service/resolver/registry.go):
all theorems hold for EVERY normalisation function `norm` (ParseDockerRef + reference.Parse is a
parameter), every history of connect / PullImage / RemoveImage requests starting from the empty
keychain (every schedule is such a history: the map is only touched under `configMu`), every
queried host and reference, every auth config.

Fetcher headers (fs/remote/resolver.go): all theorems hold for every list of configured registry
hosts, every authorizer behaviour, every server script (answers to the requests in the order
they are sent, including redirects whose Location is again a registry host, 401, 403, 400,
transport errors, scripts that end early) and every history of ReadAt/Cache, Check, Refresh.
They speak about sequences of atomic operations; the last section shows that the claim is FALSE
for two goroutines sharing one fetcher (`header` is read outside `urlMu`).
-/
import SV.Lemmas.Creds

namespace SV.Props.C18
open SV.Creds

/-! ### credentials: only the latest pull of exactly that reference -/

/-- A non-empty answer for `(host, ref)` is what `ParseAuth` makes of the auth config of a
PullImage request whose image normalises to exactly `ref`, that arrived when the backend was
connected, and after which no PullImage / RemoveImage named `ref` again — i.e. of the MOST RECENT
pull of that reference, not followed by a remove. -/
theorem creds_only_for_latest_pull (norm : String → Option Ref) (hist : List KOp)
    (host : String) (ref : Ref) (u s : Bytes)
    (h : credentials (krun norm {} hist) host ref = .ok u s) (hne : u ≠ [] ∨ s ≠ []) :
    ∃ pre image auth ok post,
      hist = pre ++ KOp.pull image auth ok :: post ∧ norm image = some ref ∧
      (krun norm {} pre).connected = true ∧
      (∀ op ∈ post, touches norm ref op = false) ∧
      parseAuth auth (aliasHost host) = .ok u s := by
  unfold credentials at h
  cases hc : (krun norm {} hist).config ref with
  | none =>
    simp [hc] at h
    rcases h with ⟨rfl, rfl⟩
    simp at hne
  | some a =>
    simp only [hc] at h
    rcases config_origin norm hist {} kinv_init ref a hc with ⟨h0, _⟩ | ⟨pre, image, ok, post, he, hn, hcn, hp⟩
    · cases h0
    · exact ⟨pre, image, a, ok, post, he, hn, hcn, hp, h⟩

/-- Conversely (so that the theorem above is not vacuous): after a connected pull of `ref` that
nobody named again, the answer for `ref` IS `ParseAuth` of that pull's auth config — whatever
happened before and whatever other images were pulled or removed since. -/
theorem creds_answer_is_latest_pull (norm : String → Option Ref) (pre post : List KOp)
    (image : String) (auth : Option AuthConfig) (ok : Bool) (host : String) (ref : Ref)
    (hc : (krun norm {} pre).connected = true) (hn : norm image = some ref)
    (hp : ∀ op ∈ post, touches norm ref op = false) :
    credentials (krun norm {} (pre ++ KOp.pull image auth ok :: post)) host ref =
      parseAuth auth (aliasHost host) := by
  rw [krun_append, krun_cons, credentials, krun_untouched norm post ref _ hp,
    kstep_pull_stores norm _ image auth ok ref hc hn]

/-- No pull of exactly `ref` in the history (other tags of the same repository, other
repositories, other registries do not count) ⇒ nothing is offered for `ref`. -/
theorem creds_none_for_other_references (norm : String → Option Ref) (hist : List KOp)
    (host : String) (ref : Ref)
    (h : ∀ image auth ok, KOp.pull image auth ok ∈ hist → norm image ≠ some ref) :
    credentials (krun norm {} hist) host ref = .ok [] [] := by
  cases hr : credentials (krun norm {} hist) host ref with
  | err =>
    -- an error needs a stored entry as well
    unfold credentials at hr
    cases hc : (krun norm {} hist).config ref with
    | none => simp [hc] at hr
    | some a =>
      rcases config_origin norm hist {} kinv_init ref a hc with ⟨h0, _⟩ | ⟨pre, image, ok, post, he, hn, _, _⟩
      · cases h0
      · exact absurd hn (h image a ok (by simp [he]))
  | ok u s =>
    by_cases hne : u ≠ [] ∨ s ≠ []
    · obtain ⟨pre, image, auth, ok, post, he, hn, _, _, _⟩ :=
        creds_only_for_latest_pull norm hist host ref u s hr hne
      exact absurd hn (h image auth ok (by simp [he]))
    · have : u = [] ∧ s = [] := by
        constructor
        · exact Classical.byContradiction fun hh => hne (Or.inl hh)
        · exact Classical.byContradiction fun hh => hne (Or.inr hh)
      rw [this.1, this.2]

/-- A non-empty answer is never given when the pull request named a server address that does not
denote the host being contacted (after the docker.io aliasing of `credentials`). -/
theorem creds_never_on_address_mismatch (norm : String → Option Ref) (hist : List KOp)
    (host : String) (ref : Ref) (u s : Bytes)
    (h : credentials (krun norm {} hist) host ref = .ok u s) (hne : u ≠ [] ∨ s ≠ []) :
    ∃ a, (krun norm {} hist).config ref = some (some a) ∧
      (a.serverAddress = "" ∨ urlHost a.serverAddress = some (aliasHost host)) := by
  unfold credentials at h
  cases hc : (krun norm {} hist).config ref with
  | none =>
    simp [hc] at h
    rcases h with ⟨rfl, rfl⟩
    simp at hne
  | some cfg =>
    simp only [hc] at h
    obtain ⟨a, rfl, haddr, _⟩ := parseAuth_nonEmpty cfg (aliasHost host) u s h hne
    exact ⟨a, rfl, haddr⟩

/-- The same, as a statement about `ParseAuth` alone: with a non-empty server address that does
not denote `host` the result is empty (or the parse error of the address). -/
theorem parseAuth_empty_on_address_mismatch (a : AuthConfig) (host : String)
    (h1 : a.serverAddress ≠ "") (h2 : urlHost a.serverAddress ≠ some host) :
    (parseAuth (some a) host = .ok [] [] ∧ urlHost a.serverAddress ≠ none) ∨
    (parseAuth (some a) host = .err ∧ urlHost a.serverAddress = none) := by
  simp only [parseAuth, h1, ne_eq, not_false_eq_true, if_true]
  cases hu : urlHost a.serverAddress with
  | none => right; exact ⟨rfl, rfl⟩
  | some hh =>
    left
    have : host ≠ hh := by
      intro e; subst e; exact h2 hu
    simp [this]

/-- After RemoveImage of an image that normalises to `ref`, nothing is offered for `ref` until it
is pulled again — whatever else happens (pulls/removes of other references, connects). -/
theorem creds_gone_after_remove (norm : String → Option Ref) (pre post : List KOp)
    (image : String) (ok : Bool) (host : String) (ref : Ref) (hn : norm image = some ref)
    (hp : ∀ img auth ok', KOp.pull img auth ok' ∈ post → norm img ≠ some ref) :
    credentials (krun norm {} (pre ++ KOp.remove image ok :: post)) host ref = .ok [] [] := by
  have hcfg : (krun norm {} (pre ++ KOp.remove image ok :: post)).config ref = none := by
    cases hc : (krun norm {} (pre ++ KOp.remove image ok :: post)).config ref with
    | none => rfl
    | some a =>
      exfalso
      rw [krun_append, krun_cons] at hc
      have hi := kstep_inv norm _ (KOp.remove image ok) (krun_inv norm pre {} kinv_init)
      rcases config_origin norm post _ hi ref a hc with ⟨h0, _⟩ | ⟨p, img, ok', q, he, hn', _, _⟩
      · rw [kstep_remove_clears norm _ (krun_inv norm pre {} kinv_init) image ok ref hn] at h0
        cases h0
      · exact hp img a ok' (by simp [he]) hn'
  simp [credentials, hcfg]

/-! ### multiCredsFuncs -/

/-- The first credential function with a non-empty answer wins; the ones behind it are not
consulted (their answer — even an error — does not matter). -/
theorem first_nonempty_wins (pre post : List (String → Ref → Res)) (f : String → Ref → Res)
    (host : String) (ref : Ref) (u s : Bytes)
    (hpre : ∀ g ∈ pre, g host ref = .ok [] []) (hf : f host ref = .ok u s)
    (hne : u ≠ [] ∨ s ≠ []) :
    multiCreds (pre ++ f :: post) host ref = .ok u s := by
  rw [multiCreds_skip_empty pre (f :: post) host ref hpre]
  simp [multiCreds, hf, hne]

/-- Conversely every non-empty answer of the combination is the answer of the first function
that is not empty, and all functions before it answered empty without error. -/
theorem first_nonempty_wins_conv (fs : List (String → Ref → Res)) (host : String) (ref : Ref)
    (u s : Bytes) (h : multiCreds fs host ref = .ok u s) (hne : u ≠ [] ∨ s ≠ []) :
    ∃ pre f post, fs = pre ++ f :: post ∧ (∀ g ∈ pre, g host ref = .ok [] []) ∧
      f host ref = .ok u s := by
  induction fs with
  | nil =>
    simp [multiCreds] at h
    rcases h with ⟨rfl, rfl⟩
    simp at hne
  | cons g gs ih =>
    simp only [multiCreds] at h
    cases hg : g host ref with
    | err => simp [hg] at h
    | ok u' s' =>
      simp only [hg] at h
      by_cases hne' : u' ≠ [] ∨ s' ≠ []
      · simp only [hne', if_true] at h
        cases h
        exact ⟨[], g, gs, rfl, by simp, hg⟩
      · simp only [hne', if_false] at h
        obtain ⟨pre, f, post, he, hp, hf⟩ := ih h
        have he' : u' = [] ∧ s' = [] := by
          constructor
          · exact Classical.byContradiction fun hh => hne' (Or.inl hh)
          · exact Classical.byContradiction fun hh => hne' (Or.inr hh)
        refine ⟨g :: pre, f, post, by simp [he], ?_, hf⟩
        intro g' hg'
        rcases List.mem_cons.mp hg' with rfl | hg'
        · rw [hg, he'.1, he'.2]
        · exact hp g' hg'

/-- An error of the combination is the error of the first function that does not answer empty. -/
theorem multiCreds_error_from_first_nonempty (fs : List (String → Ref → Res)) (host : String)
    (ref : Ref) (h : multiCreds fs host ref = .err) :
    ∃ pre f post, fs = pre ++ f :: post ∧ (∀ g ∈ pre, g host ref = .ok [] []) ∧
      f host ref = .err := by
  induction fs with
  | nil => simp [multiCreds] at h
  | cons g gs ih =>
    simp only [multiCreds] at h
    cases hg : g host ref with
    | err => exact ⟨[], g, gs, rfl, by simp, hg⟩
    | ok u' s' =>
      simp only [hg] at h
      by_cases hne' : u' ≠ [] ∨ s' ≠ []
      · simp [hne'] at h
      · simp only [hne', if_false] at h
        obtain ⟨pre, f, post, he, hp, hf⟩ := ih h
        have he' : u' = [] ∧ s' = [] := by
          constructor
          · exact Classical.byContradiction fun hh => hne' (Or.inl hh)
          · exact Classical.byContradiction fun hh => hne' (Or.inr hh)
        refine ⟨g :: pre, f, post, by simp [he], ?_, hf⟩
        intro g' hg'
        rcases List.mem_cons.mp hg' with rfl | hg'
        · rw [hg, he'.1, he'.2]
        · exact hp g' hg'

/-! ### configured headers: only to the host they were configured for -/

/-- `RegistryHostsFromConfig`: the `i`-th returned host carries a header table only if it is
mirror `i` and that mirror was configured with one — never the table of another mirror, and the
registry of the reference itself (the last host) carries none. -/
theorem config_headers_stay_with_their_mirror (mirrors : List Bool) (i j : Nat)
    (h : (hostHeaders mirrors)[i]? = some (some j)) : j = i ∧ mirrors[i]? = some true := by
  have := hostHeadersFrom_spec mirrors 0 i j h
  simpa using this


/-- Resolve a blob (`newHTTPFetcher` over all configured hosts, falling through on failures),
then run ANY history of ReadAt/Cache, Check and Refresh operations against ANY server script:
every request that carries the header set configured for registry host `j` goes to host `j`
(never to a redirect target, never to another mirror), and the fetcher state keeps the
invariant "stored header set non-empty ⇒ the stored URL is on the fetcher's own host". -/
theorem headers_only_to_registry_host (cfg : FCfg) (resolveScript : List Ans) (ops : List FOp) :
    (∀ r ∈ (newFetcher cfg.az cfg.force cfg.hosts resolveScript).1, r.confined) ∧
    ∀ st, (newFetcher cfg.az cfg.force cfg.hosts resolveScript).2.1 = some st →
      st.inv ∧ (∀ r ∈ (frun cfg st ops).1, r.confined) ∧ (frun cfg st ops).2.inv := by
  have h := newFetcherFrom_spec cfg.az cfg.force cfg.hosts 0 resolveScript
  refine ⟨h.1, ?_⟩
  intro st hst
  have hi := h.2 st hst
  exact ⟨hi, frun_spec cfg ops st hi⟩

/-- The same, path by path, from any fetcher state satisfying the invariant: `redirect` (initial
and from `refreshURL`), `getSize` (HEAD and GET fallback), `fetch` (including the 403-refresh and
the 400-retry), `check` (including its refresh). -/
theorem every_request_path_confined (az : Authz) (st : FState) (sc : List Ans) (hi : st.inv) :
    (∀ r ∈ (redirect az st.host st.org sc).1, r.confined) ∧
    (∀ r ∈ (getSize az st.url st.hdr sc).1, r.confined) ∧
    (∀ r ∈ (refreshURL az st sc).1, r.confined) ∧
    (∀ r ∈ (fetch az st sc).1, r.confined) ∧
    (∀ r ∈ (check az st sc).1, r.confined) :=
  ⟨redirect_confined az st.host st.org sc hi.1,
   getSize_confined az st.url st.hdr sc (inv_req st hi),
   (refreshURL_spec az st sc hi).1,
   (fetch_spec az st sc hi).1,
   (check_spec az st sc hi).1⟩

/-- After a redirect the stored header set is empty — wherever the Location points, even back to
the registry host — and it stays empty until a refresh is answered 2xx by the registry host
itself; only then the original header set is stored again, together with the original URL. -/
theorem stored_headers_empty_after_redirect (az : Authz) (st st' : FState) (sc : List Ans)
    (h : (refreshURL az st sc).2.1 = some st') :
    ((∀ loc, (roundTrip az .redirect (.reg st.host) st.org sc).2.1 = .redirect loc →
        st'.hdr = none ∧ st'.url = loc) ∧
     (st'.hdr ≠ none →
        (roundTrip az .redirect (.reg st.host) st.org sc).2.1.isBody = true ∧
        st'.hdr = st.org ∧ st'.url = .reg st.host)) := by
  unfold refreshURL redirect at h
  rcases hrt : roundTrip az .redirect (.reg st.host) st.org sc with ⟨l, a, r⟩
  rw [hrt] at h
  simp only at h
  cases hres : redirectResult st.host st.org a with
  | none => simp [hres] at h
  | some p =>
    obtain ⟨u, hd⟩ := p
    simp only [hres] at h
    cases h
    constructor
    · intro loc ha
      simp only at ha
      subst ha
      simp [redirectResult] at hres
      exact ⟨hres.2.symm, hres.1.symm⟩
    · intro hne
      rcases redirectResult_spec st.host st.org a u hd hres with h0 | ⟨h1, h2, h3⟩
      · exact absurd h0 hne
      · exact ⟨h3, h1, h2⟩

/-- The invariant in words: a fetcher whose URL is not on its own registry host stores no
configured header. -/
theorem redirected_fetcher_stores_no_header (st : FState) (hi : st.inv)
    (h : st.url ≠ .reg st.host) : st.hdr = none := by
  cases hh : st.hdr with
  | none => rfl
  | some j => exact absurd (hi.2 j hh).2 h

/-! ### non-vacuity -/

/-- A fetcher resolved through a redirect to a foreign host: the probe carries host 0's headers
to host 0, the size probe goes to the foreign host without them. -/
example :
    newFetcher .absent false [⟨true, true⟩] [.redirect .other, .ok200] =
      ([⟨.redirect, .reg 0, some 0⟩, ⟨.head, .other, none⟩],
       some ⟨0, some 0, .other, none, false⟩, []) := by decide

/-- 403 on the redirected URL, the refresh lands on the registry host itself (2xx): the header
set is stored again and the retried fetch carries it — to the registry host. -/
example :
    fetch .absent ⟨0, some 0, .other, none, false⟩ [.forbidden403, .ok200, .partial206] =
      ([⟨.fetch, .other, none⟩, ⟨.redirect, .reg 0, some 0⟩, ⟨.fetch, .reg 0, some 0⟩],
       ⟨0, some 0, .reg 0, some 0, false⟩, true, []) := by decide

/-- The first mirror fails, the second host is used with ITS header set. -/
example :
    (newFetcher .retry false [⟨true, true⟩, ⟨false, true⟩, ⟨true, true⟩]
      [.other, .unauth401, .ok200, .ok200]).1 =
      [⟨.redirect, .reg 0, some 0⟩, ⟨.redirect, .reg 2, some 2⟩, ⟨.redirect, .reg 2, some 2⟩,
       ⟨.head, .reg 2, some 2⟩] := by decide

/-- Keychain: the second pull of the same reference overwrites the first, another tag is a
different reference, a remove deletes (with the identity as normalisation). -/
example :
    let a1 : AuthConfig := { username := [117], password := [49] }
    let a2 : AuthConfig := { identityToken := [116] }
    let hist := [KOp.connect, .pull "r/a:1" (some a1) true, .pull "r/a:2" (some a1) true,
                 .pull "r/a:1" (some a2) false, .remove "r/a:2" true]
    credentials (krun some {} hist) "r" "r/a:1" = .ok [] [116] ∧
    credentials (krun some {} hist) "r" "r/a:2" = .ok [] [] ∧
    credentials (krun some {} hist) "r" "r/a" = .ok [] [] := by
  refine ⟨?_, ?_, ?_⟩ <;> simp [krun, kstep, credentials, parseAuth, parseAuthForms]

/-! ### two goroutines sharing one fetcher: the claim does NOT extend

`fetch`/`check` read `f.url` under `urlMu` and `f.header` outside it (resolver.go, the
`maps.Copy(req.Header, f.header)` lines), `refreshURL` writes both under `urlMu`.  In the model:
a request may combine the `url` of the state before a concurrent `refreshURL` with the `header`
of the state after it. -/

/-- Full statement for concurrent use: whatever refresh another goroutine completes between the
two reads, the request is confined. -/
def headers_only_to_registry_host_concurrent : Prop :=
  ∀ (az : Authz) (k : ReqKind) (s1 s2 : FState) (sc : List Ans),
    s1.inv → (refreshURL az s1 sc).2.1 = some s2 → (splitReq k s1 s2).confined

/-- What IS provable: the request is confined when both reads see the same state (they would,
if `header` were read under `urlMu` together with `url`), or when the refresh did not move the
URL back to the registry host. -/
theorem headers_only_to_registry_host_concurrent_partial (az : Authz) (k : ReqKind)
    (s1 s2 : FState) (sc : List Ans) (hi : s1.inv) (hr : (refreshURL az s1 sc).2.1 = some s2)
    (hatomic : s2 = s1 ∨ s2.hdr = none ∨ s1.url = .reg s1.host) :
    (splitReq k s1 s2).confined := by
  have h2 := ((refreshURL_spec az s1 sc hi).2 s2 hr)
  intro j hj
  simp only [splitReq] at hj ⊢
  rcases hatomic with rfl | h | h
  · exact inv_req _ hi j hj
  · rw [h] at hj; cases hj
  · obtain ⟨e, _⟩ := h2.1.2 j hj
    rw [h, e, h2.2.1]

/-- The full statement is false: resolved through a redirect (URL on a foreign host, no stored
headers), a concurrent refresh that is answered 2xx by the registry host stores the configured
header set again; a fetch that read the old URL before and the header after sends the
configured headers to the foreign host. -/
theorem headers_only_to_registry_host_concurrent_fails :
    ¬ headers_only_to_registry_host_concurrent := by
  intro h
  have := h .absent .fetch ⟨0, some 0, .other, none, false⟩ ⟨0, some 0, .reg 0, some 0, false⟩
    [.ok200] ⟨by intro j hj; cases hj; rfl, by intro j hj; cases hj⟩ (by decide) 0 rfl
  simp [splitReq] at this

/-- The witness state of the counterexample is a state the code really reaches. -/
example :
    (newFetcher .absent false [⟨true, true⟩] [.redirect .other, .ok200]).2.1 =
      some ⟨0, some 0, .other, none, false⟩ := by decide

end SV.Props.C18
