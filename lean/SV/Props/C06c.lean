/-
C06 part C — the two parts of fs/remote/blob.go that part B left outside the model:

(1) the shared single-flight path  fetchRange → handleSharedFetch → copyFetchedChunks
    (`readAtShared`, explicit `bytesWriter`s, adversarial cache loss between the leader's commit and
    the follower's copy, retry with restarted writers as of repo commit c4f4279; the code before
    that commit is `readAtSharedOld`, kept for the documented counterexamples);
(2) `Cache(offset, size)` with `prefetchChunkSize > chunkSize` (`cacheCalls`, `runCalls`).

Only property theorems and their non-vacuity examples live here.
Model: `SV/Model/BlobShared.lean`; lemmas and vocabulary: `SV/Lemmas/BlobShared.lean`.
-/
import SV.Lemmas.BlobShared

namespace SV.Props.C06c
open SV.Region SV.Blob SV.Props.C06

/-! ## 1. the shared fetch -/

/-- The shared fetch of the current code (writers restarted before a retry, commit c4f4279): a
follower's (and, after retries, leader's) successful read is byte exact for every cache that never
holds wrong bytes (`CachePrefixOK`: entries may be truncated), every number of rounds, every map
iteration order and every cache loss between commit and copy, eviction and truncation alike.  The
weak cache invariant and the fetched-set invariants are kept, coverage only grows. -/
theorem shared_fetch_exact (P : Params) (B : Bytes) (hc : 0 < P.chunk) (hB : B.length = P.size)
    (s : St) (hcache : CachePrefixOK P B s.cache) (hwf : WF s.fetched)
    (hin : InBlob P.size s.fetched) (o n : Nat) (script : List Round)
    (hr : ∀ r ∈ script, r.Honest B) :
    (CachePrefixOK P B (readAtShared P s o n script).1.cache ∧
      WF (readAtShared P s o n script).1.fetched ∧
      InBlob P.size (readAtShared P s o n script).1.fetched) ∧
    (∀ x, cov x s.fetched → cov x (readAtShared P s o n script).1.fetched) ∧
    ∀ k buf, (readAtShared P s o n script).2 = .ok k buf →
      k = min n (P.size - o) ∧ buf.length = n ∧ buf.take k = slice B o k := by
  obtain ⟨h1, h2, h3⟩ := readAtShared_exact P B hc hB s ⟨hcache, hwf, hin⟩ o n script hr
  exact ⟨⟨h1.cacheQ, h1.wf, h1.inBlob⟩, h2, h3⟩

/-- BEFORE commit c4f4279 (`readAtSharedOld`: the retry kept `bytesWriter.current`) the read could
succeed with wrong bytes.  Blob `0..9`, chunk size 4, empty state, `ReadAt(p[0:6], 3)`; all server
replies are honest.  Round 1: another goroutine leads the fetch of chunks [0,3] [4,7] [8,9];
afterwards the cache delivers only 2 of the 4 bytes of [4,7]; the follower copies [0,3], then 2
bytes of [4,7] (`bytesWriter.current = 2`), `io.CopyN` fails, `fetchRange` is retried.  Round 2:
the caller leads, `fetchRegions` writes the whole chunk [4,7] into the same writer, which places
it 2 bytes too late: `ReadAt` returned 6, nil and `3 4 5 4 5 8` instead of `3 4 5 6 7 8`.
The current code returns the right bytes on the same script. -/
theorem shared_fetch_inexact_after_partial_copy :
    Inv ⟨10, 4⟩ exB {} ∧
    (∀ r ∈ [Round.follow (.parts [⟨0, 9, exB⟩]) [.trunc ⟨4, 7⟩ 2] [⟨0, 3⟩, ⟨4, 7⟩, ⟨8, 9⟩],
            Round.lead (.parts [⟨0, 9, exB⟩])], r.Honest exB) ∧
    (readAtSharedOld ⟨10, 4⟩ {} 3 6
      [.follow (.parts [⟨0, 9, exB⟩]) [.trunc ⟨4, 7⟩ 2] [⟨0, 3⟩, ⟨4, 7⟩, ⟨8, 9⟩],
       .lead (.parts [⟨0, 9, exB⟩])]).2 = .ok 6 [3, 4, 5, 4, 5, 8] ∧
    slice exB 3 6 = [3, 4, 5, 6, 7, 8] ∧
    (readAtShared ⟨10, 4⟩ {} 3 6
      [.follow (.parts [⟨0, 9, exB⟩]) [.trunc ⟨4, 7⟩ 2] [⟨0, 3⟩, ⟨4, 7⟩, ⟨8, 9⟩],
       .lead (.parts [⟨0, 9, exB⟩])]).2 = .ok 6 [3, 4, 5, 6, 7, 8] :=
  ⟨inv_init _ _, by decide, by decide, by decide, by decide⟩

/-- The same without any loss between commit and copy: it was enough that the cache ALREADY held
a truncated entry for the chunk (that is why it was a miss); the leader's commit keeps the first
value, the follower's copy is partial, the old retry misplaced the data.
State: entry [4,7] ↦ `4 5`; `ReadAt(p[0:4], 4)` returned 4, nil and `4 5 4 5`. -/
theorem shared_fetch_inexact_with_truncated_entry :
    CachePrefixOK ⟨10, 4⟩ exB [(⟨4, 7⟩, [4, 5])] ∧
    (readAtSharedOld ⟨10, 4⟩ { cache := [(⟨4, 7⟩, [4, 5])], fetched := [] } 4 4
      [.follow (.parts [⟨4, 7, [4, 5, 6, 7]⟩]) [] [⟨4, 7⟩],
       .lead (.parts [⟨4, 7, [4, 5, 6, 7]⟩])]).2 = .ok 4 [4, 5, 4, 5] ∧
    slice exB 4 4 = [4, 5, 6, 7] ∧
    (readAtShared ⟨10, 4⟩ { cache := [(⟨4, 7⟩, [4, 5])], fetched := [] } 4 4
      [.follow (.parts [⟨4, 7, [4, 5, 6, 7]⟩]) [] [⟨4, 7⟩],
       .lead (.parts [⟨4, 7, [4, 5, 6, 7]⟩])]).2 = .ok 4 [4, 5, 6, 7] := by
  refine ⟨?_, by decide, by decide, by decide⟩
  intro c d h
  simp only [Cache.get, List.find?_cons, List.find?_nil] at h
  split at h
  · rename_i hc; simp only [decide_eq_true_eq] at hc; subst hc
    simp only [Option.map_some, Option.some.injEq] at h; subst h
    exact ⟨by decide, by decide⟩
  · simp at h

/-- The old code was exact under the extra hypothesis that cache reads are all-or-nothing per chunk
(`CacheOK`, whole-entry losses only: `Round.OK`) — the hypothesis the two counterexamples
violate. -/
theorem shared_fetch_old_exact_if_all_or_nothing (P : Params) (B : Bytes) (hc : 0 < P.chunk)
    (hB : B.length = P.size) (s : St) (hs : Inv P B s) (o n : Nat) (script : List Round)
    (hr : ∀ r ∈ script, r.OK B) :
    Inv P B (readAtSharedOld P s o n script).1 ∧
    ∀ k buf, (readAtSharedOld P s o n script).2 = .ok k buf →
      k = min n (P.size - o) ∧ buf.length = n ∧ buf.take k = slice B o k := by
  obtain ⟨h1, _, h3⟩ := readAtSharedOld_exact P B hc hB s hs o n script hr
  exact ⟨h1, h3⟩

/-- The state invariants do not depend on the cache-invariant flavour: for any `Q`-style invariant
the generic statement is `readAtShared_state`; here for `CachePrefixOK`, with the count. -/
theorem shared_fetch_state_any_loss (P : Params) (B : Bytes) (hc : 0 < P.chunk)
    (s : St) (hcache : CachePrefixOK P B s.cache) (hwf : WF s.fetched)
    (hin : InBlob P.size s.fetched) (o n : Nat) (script : List Round)
    (hr : ∀ r ∈ script, r.Honest B) :
    CachePrefixOK P B (readAtShared P s o n script).1.cache ∧
    WF (readAtShared P s o n script).1.fetched ∧
    InBlob P.size (readAtShared P s o n script).1.fetched ∧
    (∀ x, cov x s.fetched → cov x (readAtShared P s o n script).1.fetched) ∧
    ∀ k buf, (readAtShared P s o n script).2 = .ok k buf → k = min n (P.size - o) := by
  obtain ⟨h1, h2, h3⟩ := readAtShared_state P B _ (goodQ_prefix P B) (truncClosed_prefix P B) hc s
    ⟨hcache, hwf, hin⟩ o n script hr
  exact ⟨h1.cacheQ, h1.wf, h1.inBlob, h2, h3⟩

/-- Before and after the commit the code is the same function until a copy fails. -/
theorem shared_fetch_same_until_copy_fails (P : Params) (pd : Pending) (s : St) (reply : Reply)
    (rest : List Round) :
    fetchRangeShared P pd s (.lead reply :: rest) =
      fetchRangeSharedOld P pd s (.lead reply :: rest) :=
  fetchRangeShared_lead_eq_old P pd s reply rest

/-- On the leader path the explicit-writer model is the (differentially validated) `readAt`: same
state, same outcome, same buffer, for every reply, honest or not. -/
theorem shared_leader_is_readAt (P : Params) (hc : 0 < P.chunk) (s : St) (o n : Nat)
    (reply : Reply) (rest : List Round) :
    (readAtShared P s o n (.lead reply :: rest)).1 = (readAt P s o n reply).1 ∧
    (readAtShared P s o n (.lead reply :: rest)).2 =
      (match (readAt P s o n reply).2 with
       | none => SharedOut.err
       | some kb => SharedOut.ok kb.1 kb.2) :=
  readAtShared_lead_eq P hc s o n reply rest

/-- The split of a stream into `Write` calls (`io.CopyN` uses 32 KiB pieces) does not matter. -/
theorem bytesWriter_split_irrelevant (ps : List Bytes) (w : BW) :
    ps.foldl BW.write w = w.write ps.flatten :=
  BW.fold_eq_write ps w

/-- A round in which the caller leads terminates (result or error) and ignores later rounds. -/
theorem shared_lead_terminates (P : Params) (pd : Pending) (s : St) (reply : Reply)
    (rest : List Round) :
    fetchRangeShared P pd s (.lead reply :: rest) = fetchRangeShared P pd s [.lead reply] ∧
    (fetchRangeShared P pd s (.lead reply :: rest)).2 ≠ .outOfFuel ∧
    (fetchRangeShared P pd s (.lead reply :: rest)).2 ≠ .badScript :=
  fetchRangeShared_lead P pd s reply rest

/-- A follower round does exactly one of: reject a script whose `order` is not a permutation of
the caller's chunks; return the leader's error; finish after a complete copy; or — some `Get` or
copy failed — restart the writers and call `fetchRange` again on the state after the loss (the
next round is then again a leader or a follower round). -/
theorem shared_follow_step (P : Params) (pd : Pending) (s : St) (lr : Reply)
    (loss : List Loss) (order : List Chunk) (rest : List Round) :
    let r := fetchRangeShared P pd s (.follow lr loss order :: rest)
    let L := fetchMissing P s pd.missing lr
    let s'' : St := { L.1 with cache := loss.foldl Cache.lose L.1.cache }
    let C := copyInOrder s''.cache pd.ws order
    (order.isPerm pd.missing = false ∧ r = (s, .badScript)) ∨
    (order.isPerm pd.missing = true ∧ L.2 = none ∧ r = (L.1, .err)) ∨
    (order.isPerm pd.missing = true ∧ L.2.isSome ∧ C.2 = true ∧
      r = (s'', finish P { pd with ws := C.1 })) ∨
    (order.isPerm pd.missing = true ∧ L.2.isSome ∧ C.2 = false ∧
      r = fetchRangeShared P { pd with ws := resetWs C.1 } s'' rest) :=
  fetchRangeShared_follow P pd s lr loss order rest

/-- The retry loop is bounded by the script: it runs out of rounds only if every round was a
follower round (whose copy failed); a script containing a leader round always terminates. -/
theorem shared_outOfFuel_only_followers (P : Params) (hc : 0 < P.chunk) (s : St) (o n : Nat)
    (script : List Round) (h : (readAtShared P s o n script).2 = .outOfFuel) :
    ∀ r ∈ script, ∃ lr loss order, r = .follow lr loss order :=
  readAtShared_outOfFuel P hc s o n script h

-- non-vacuity / behaviour of the model
example : ∀ r ∈ [Round.follow (.parts [⟨0, 9, exB⟩]) [.evict ⟨4, 7⟩] [⟨8, 9⟩, ⟨0, 3⟩, ⟨4, 7⟩],
    Round.follow (.parts [⟨0, 9, exB⟩]) [] [⟨4, 7⟩, ⟨0, 3⟩, ⟨8, 9⟩]], r.OK exB := by decide
-- evicted entry: the copy fails, the retry (again as a follower) succeeds
example : (readAtShared ⟨10, 4⟩ {} 3 6
    [.follow (.parts [⟨0, 9, exB⟩]) [.evict ⟨4, 7⟩] [⟨8, 9⟩, ⟨0, 3⟩, ⟨4, 7⟩],
     .follow (.parts [⟨0, 9, exB⟩]) [] [⟨4, 7⟩, ⟨0, 3⟩, ⟨8, 9⟩]]).2
    = .ok 6 [3, 4, 5, 6, 7, 8] := by decide
example : (readAtShared ⟨10, 4⟩ {} 3 6
    [.follow (.parts [⟨0, 9, exB⟩]) [.evict ⟨4, 7⟩] [⟨8, 9⟩, ⟨0, 3⟩, ⟨4, 7⟩]]).2 = .outOfFuel := by
  decide
example : (readAtShared ⟨10, 4⟩ {} 3 6 [.follow (.parts [⟨0, 9, exB⟩]) [] [⟨0, 3⟩, ⟨8, 9⟩]]).2
    = .badScript := by decide
example : (readAtShared ⟨10, 4⟩ {} 3 6 [.follow .fail [] [⟨0, 3⟩, ⟨4, 7⟩, ⟨8, 9⟩]]).2 = .err := by
  decide
-- truncation, then again a follower round with a complete entry
example : (readAtShared ⟨10, 4⟩ {} 3 6
    [.follow (.parts [⟨0, 9, exB⟩]) [.trunc ⟨4, 7⟩ 3] [⟨4, 7⟩, ⟨0, 3⟩, ⟨8, 9⟩],
     .follow (.parts [⟨0, 9, exB⟩]) [.evict ⟨4, 7⟩] [⟨0, 3⟩, ⟨4, 7⟩, ⟨8, 9⟩],
     .lead (.parts [⟨0, 9, exB⟩])]).2 = .ok 6 [3, 4, 5, 6, 7, 8] := by decide

/-! ## 2. `Cache` with `prefetchChunkSize > chunkSize` -/

/-- The pieces: each is non-empty, at most `fetchSize = chunk·(prefetch/chunk)` long, inside
`[o, o+n)`; together they cover `[o, o+n)`; two pieces sharing a byte are the same piece. -/
theorem cache_split_pieces (P : Params) (hc : 0 < P.chunk) (prefetch o n : Nat)
    (h : P.chunk < prefetch) :
    (∀ p ∈ cacheCalls P prefetch o n,
      o ≤ p.1 ∧ 0 < p.2 ∧ p.2 ≤ P.chunk * (prefetch / P.chunk) ∧ p.1 + p.2 ≤ o + n) ∧
    (∀ x, o ≤ x → x < o + n → ∃ p ∈ cacheCalls P prefetch o n, p.1 ≤ x ∧ x < p.1 + p.2) ∧
    (∀ p ∈ cacheCalls P prefetch o n, ∀ q ∈ cacheCalls P prefetch o n, ∀ x,
      p.1 ≤ x → x < p.1 + p.2 → q.1 ≤ x → x < q.1 + q.2 → p = q) := by
  rw [cacheCalls_split P prefetch o n h]
  have hF := fetchSize_pos P hc prefetch h
  refine ⟨?_, ?_, ?_⟩
  · intro p hp
    obtain ⟨⟨j, hj⟩, h2, h3⟩ := mem_piecesFrom _ _ _ _ p hp
    have : 0 ≤ j * (P.chunk * (prefetch / P.chunk)) := Nat.zero_le _
    omega
  · intro x h1 h2
    exact piecesFrom_cover _ _ hF _ _ x (by omega) h1 h2
  · intro p hp q hq x h1 h2 h3 h4
    exact piecesFrom_disjoint _ _ _ _ p q hp hq x ⟨h1, h2⟩ ⟨h3, h4⟩

/-- The chunk sets of the pieces: their union is the chunk set of the whole range; inside one piece
every chunk occurs once (starts strictly increase); for a chunk-aligned offset the pieces' chunk
sets are pairwise disjoint, i.e. every chunk of the range is handled by exactly one `cacheAt`. -/
theorem cache_split_chunks (P : Params) (hc : 0 < P.chunk) (prefetch o n : Nat)
    (h : P.chunk < prefetch) (hn : 0 < n) :
    (∀ ch, ch ∈ rangeChunks P o n ↔ ∃ p ∈ cacheCalls P prefetch o n, ch ∈ rangeChunks P p.1 p.2) ∧
    (∀ p ∈ cacheCalls P prefetch o n, (rangeChunks P p.1 p.2).Pairwise (fun a c => a.b < c.b)) ∧
    (o % P.chunk = 0 → ∀ p ∈ cacheCalls P prefetch o n, ∀ q ∈ cacheCalls P prefetch o n, ∀ ch,
      ch ∈ rangeChunks P p.1 p.2 → ch ∈ rangeChunks P q.1 q.2 → p = q) :=
  ⟨fun ch => cacheCalls_chunks P hc prefetch o n h hn ch,
   fun p _ => rangeChunks_sorted P hc p.1 p.2,
   fun ho p hp q hq ch h1 h2 => cacheCalls_disjoint P hc prefetch o n h ho p q hp hq ch h1 h2⟩

/-- Whatever the cache holds when a piece runs: a chunk of the range that is missing at that moment
is among the chunks that piece asks for, and the piece's request (multi or single range) covers
every byte of it. -/
theorem cache_split_requests (P : Params) (hc : 0 < P.chunk) (prefetch o n : Nat)
    (h : P.chunk < prefetch) (hn : 0 < n) (ch : Chunk) (hch : ch ∈ rangeChunks P o n) :
    ∃ p ∈ cacheCalls P prefetch o n, ch ∈ rangeChunks P p.1 p.2 ∧
      ∀ (cache : Cache), cache.get ch = none → ∀ (single : Bool) (x : Int),
        (ch.b : Int) ≤ x → x ≤ ch.e →
        cov x (requestRanges single
          ((rangeChunks P p.1 p.2).filter (fun c => (cache.get c).isNone))) :=
  cacheSplit_requests P hc prefetch o n h hn ch hch

/-- `cacheAt` walks exactly `rangeChunks`, and without the split `Cache` is one `cacheAt`. -/
theorem cache_calls_unsplit (P : Params) (hc : 0 < P.chunk) (prefetch o n : Nat)
    (h : prefetch ≤ P.chunk) (s : St) (r : Reply) :
    cacheCalls P prefetch o n = [(o, n)] ∧
    runCalls P s [((o, n), r)] = ((cacheAt P s o n r).1, (cacheAt P s o n r).2) ∧
    walkChunks P (floorU o P.chunk) (ceilU (o + n - 1) P.chunk - 1) = some (rangeChunks P o n) := by
  refine ⟨by unfold cacheCalls; rw [if_pos h], ?_, cacheAt_walk P hc o n⟩
  rw [runCalls_cons]
  simp [runCalls]

/-- The pieces run in ANY order (`calls` is any permutation of the pieces, each with its own honest
reply), from any state in which cached chunks are covered (`CacheCovered`, true along every history
from the empty state): the invariant holds afterwards, coverage only grows, and if all pieces
succeed every byte of every chunk of the range is covered.  If moreover no reply delivers outside
the range's chunk span, the final coverage is exactly `old ∪ range` — the same for every order. -/
theorem cache_split_covers (P : Params) (B : Bytes) (hc : 0 < P.chunk) (prefetch o n : Nat)
    (h : P.chunk < prefetch) (hn : 0 < n) (s : St) (hcache : CachePrefixOK P B s.cache)
    (hwf : WF s.fetched) (hin : InBlob P.size s.fetched) (hcc : CacheCovered s)
    (calls : List ((Nat × Nat) × Reply))
    (hperm : (calls.map (·.1)).Perm (cacheCalls P prefetch o n))
    (hh : ∀ call ∈ calls, HonestReply B call.2) :
    (CachePrefixOK P B (runCalls P s calls).1.cache ∧ WF (runCalls P s calls).1.fetched ∧
      InBlob P.size (runCalls P s calls).1.fetched ∧ CacheCovered (runCalls P s calls).1) ∧
    (∀ x, cov x s.fetched → cov x (runCalls P s calls).1.fetched) ∧
    ((runCalls P s calls).2 = true → ∀ ch ∈ rangeChunks P o n, ∀ x : Int,
      (ch.b : Int) ≤ x → x ≤ ch.e → cov x (runCalls P s calls).1.fetched) ∧
    ((∀ call ∈ calls, ReplyWithin P (floorU o P.chunk) (ceilU (o + n - 1) P.chunk - 1) call.2) →
      (runCalls P s calls).2 = true →
      ∀ x : Int, cov x (runCalls P s calls).1.fetched ↔
        (cov x s.fetched ∨ ((floorU o P.chunk : Int) ≤ x ∧
          x ≤ (ceilU (o + n - 1) P.chunk - 1 : Nat) ∧ x < P.size))) := by
  obtain ⟨h1, h2, h3, h4, h5⟩ := cacheSplit_cov P B _ (goodQ_prefix P B) hc prefetch o n h hn s
    ⟨hcache, hwf, hin⟩ hcc calls hperm hh
  exact ⟨⟨h1.cacheQ, h1.wf, h1.inBlob, h3⟩, h2, h4, h5⟩

/-- The side condition of `cache_split_covers` is an invariant of the system: after every history of
`ReadAt` / `Cache` / entry loss / entry truncation from the empty state every cached chunk is
covered by the fetched set. -/
theorem history_cacheCovered (P : Params) (B : Bytes) (hc : 0 < P.chunk) (hB : B.length = P.size)
    (ops : List Op) (hh : ∀ op ∈ ops, op.Honest B) : CacheCovered (runOps P {} ops) :=
  runOps_cacheCovered P B _ (goodQ_prefix P B) (truncClosed_prefix P B) hc hB ops {}
    (invQ_init P _) cacheCovered_init hh

/-- Order independence, spelled out: two runs of the pieces in different orders (even with
different honest replies that stay inside the range), both successful, end with the same fetched
coverage, hence with the same `FetchedSize`. -/
theorem cache_split_order_independent (P : Params) (B : Bytes) (hc : 0 < P.chunk)
    (prefetch o n : Nat) (h : P.chunk < prefetch) (hn : 0 < n) (s : St)
    (hcache : CachePrefixOK P B s.cache) (hwf : WF s.fetched) (hin : InBlob P.size s.fetched)
    (hcc : CacheCovered s) (calls₁ calls₂ : List ((Nat × Nat) × Reply))
    (hp₁ : (calls₁.map (·.1)).Perm (cacheCalls P prefetch o n))
    (hp₂ : (calls₂.map (·.1)).Perm (cacheCalls P prefetch o n))
    (hh₁ : ∀ call ∈ calls₁, HonestReply B call.2) (hh₂ : ∀ call ∈ calls₂, HonestReply B call.2)
    (hw₁ : ∀ call ∈ calls₁,
      ReplyWithin P (floorU o P.chunk) (ceilU (o + n - 1) P.chunk - 1) call.2)
    (hw₂ : ∀ call ∈ calls₂,
      ReplyWithin P (floorU o P.chunk) (ceilU (o + n - 1) P.chunk - 1) call.2)
    (ok₁ : (runCalls P s calls₁).2 = true) (ok₂ : (runCalls P s calls₂).2 = true) :
    (∀ x : Int, cov x (runCalls P s calls₁).1.fetched ↔ cov x (runCalls P s calls₂).1.fetched) ∧
    totalSize (runCalls P s calls₁).1.fetched = totalSize (runCalls P s calls₂).1.fetched := by
  obtain ⟨a1, _, _, _, a5⟩ := cacheSplit_cov P B _ (goodQ_prefix P B) hc prefetch o n h hn s
    ⟨hcache, hwf, hin⟩ hcc calls₁ hp₁ hh₁
  obtain ⟨b1, _, _, _, b5⟩ := cacheSplit_cov P B _ (goodQ_prefix P B) hc prefetch o n h hn s
    ⟨hcache, hwf, hin⟩ hcc calls₂ hp₂ hh₂
  have hiff : ∀ x : Int, cov x (runCalls P s calls₁).1.fetched ↔
      cov x (runCalls P s calls₂).1.fetched := by
    intro x; rw [a5 hw₁ ok₁ x, b5 hw₂ ok₂ x]
  refine ⟨hiff, ?_⟩
  rw [totalSize_eq_count P.size _ a1.wf a1.inBlob, totalSize_eq_count P.size _ b1.wf b1.inBlob]
  have e1 := countCov_mono P.size _ _ (fun x hx => (hiff x).mp hx)
  have e2 := countCov_mono P.size _ _ (fun x hx => (hiff x).mpr hx)
  omega

-- non-vacuity: blob of 40 bytes, chunk 4, prefetch chunk 9 ⇒ fetch size 8
example : cacheCalls ⟨40, 4⟩ 9 3 30 = [(3, 8), (11, 8), (19, 8), (27, 6)] := by decide
example : cacheCalls ⟨40, 4⟩ 9 4 16 = [(4, 8), (12, 8)] := by decide
example : cacheCalls ⟨40, 4⟩ 4 3 30 = [(3, 30)] := by decide
-- unaligned offset: neighbouring pieces share the chunk around their boundary
example : (⟨8, 11⟩ : Chunk) ∈ rangeChunks ⟨40, 4⟩ 3 8 ∧ (⟨8, 11⟩ : Chunk) ∈ rangeChunks ⟨40, 4⟩ 11 8 := by
  decide
example : rangeChunks ⟨40, 4⟩ 4 8 = [⟨4, 7⟩, ⟨8, 11⟩] ∧ rangeChunks ⟨40, 4⟩ 12 8 = [⟨12, 15⟩, ⟨16, 19⟩] := by
  decide
example : CacheCovered {} := cacheCovered_init
-- the two pieces of Cache(4, 16) in both orders, each answered with exactly its range
example : (runCalls ⟨20, 4⟩ {} [((4, 8), .parts [⟨4, 11, [4, 5, 6, 7, 8, 9, 10, 11]⟩]),
    ((12, 8), .parts [⟨12, 19, [12, 13, 14, 15, 16, 17, 18, 19]⟩])]).2 = true := by decide
example : (runCalls ⟨20, 4⟩ {} [((12, 8), .parts [⟨12, 19, [12, 13, 14, 15, 16, 17, 18, 19]⟩]),
    ((4, 8), .parts [⟨4, 11, [4, 5, 6, 7, 8, 9, 10, 11]⟩])]).1.fetched = [⟨4, 19⟩] := by decide
example : ReplyWithin ⟨20, 4⟩ (floorU 4 4) (ceilU (4 + 16 - 1) 4 - 1)
    (.parts [⟨12, 19, [12, 13, 14, 15, 16, 17, 18, 19]⟩]) := by
  intro p hp; simp at hp; subst hp; decide

end SV.Props.C06c
