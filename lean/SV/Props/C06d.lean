/-
C06 part D — the HTTP wire level of the blob fetcher (fs/remote/resolver.go `httpFetcher.fetch`,
`parseRange`, the part readers; fs/remote/blob.go `contentRangeRegexp`, `fetchRegions`).

Only property theorems and non-vacuity examples.  Model: SV/Model/HttpRange.lean, lemmas:
SV/Lemmas/HttpRange.lean.  The C06b theorems speak about part-level replies `(region, bytes)`
and assume `HonestReply`; here that hypothesis is discharged from the bytes on the wire.
-/
import SV.Lemmas.HttpRange

namespace SV.Props.C06d
open SV.Region SV.Blob SV.HttpRange

/-! ## 1. parseRange -/

/-- Exactly which headers `parseRange` accepts and what it returns: the header contains
`bytes D1-D2/D3` with three non-empty digit strings, `D3` not followed by a digit, no anchored
match of the regexp starts further left, and the numbers returned are the values of `D1 D2 D3`,
all below 2^63.  (In particular the returned numbers are numerals of the header; a `*` size or an
absent size is never accepted.) -/
theorem parseRange_accepts_iff (h : Str) (b e sz : Nat) :
    parseRange h = some (b, e, sz) ↔
      ∃ pre d1 d2 d3 post,
        h = pre ++ (bytesSp ++ d1 ++ [45] ++ d2 ++ [47] ++ d3 ++ post) ∧
        d1 ≠ [] ∧ d1.all isDigit = true ∧ d2 ≠ [] ∧ d2.all isDigit = true ∧
        d3 ≠ [] ∧ d3.all isDigit = true ∧ NoDigitHead post ∧
        (∀ k, k < pre.length → matchHere (h.drop k) = none) ∧
        decVal d1 = b ∧ decVal d2 = e ∧ decVal d3 = sz ∧ b < two63 ∧ e < two63 ∧ sz < two63 := by
  constructor
  · intro hp
    unfold parseRange at hp
    cases hf : findMatch h with
    | none => rw [hf] at hp; cases hp
    | some m =>
      obtain ⟨d1, d2, d3⟩ := m
      rw [hf] at hp
      simp only at hp
      cases h1 : parseDec63 d1 with
      | none => rw [h1] at hp; cases hp
      | some b' =>
        cases h2 : parseDec63 d2 with
        | none => rw [h1, h2] at hp; cases hp
        | some e' =>
          cases h3 : parseDec63 d3 with
          | none => rw [h1, h2, h3] at hp; cases hp
          | some sz' =>
            rw [h1, h2, h3] at hp
            simp only [Option.some.injEq, Prod.mk.injEq] at hp
            obtain ⟨rfl, rfl, rfl⟩ := hp
            obtain ⟨n1, a1, v1, l1⟩ := (parseDec63_some _ _).mp h1
            obtain ⟨n2, a2, v2, l2⟩ := (parseDec63_some _ _).mp h2
            obtain ⟨n3, a3, v3, l3⟩ := (parseDec63_some _ _).mp h3
            obtain ⟨pre, s, hps, hm, hnone⟩ := (findMatch_some h _).mp hf
            obtain ⟨_, _, _, _, r5, hs, hd3⟩ := matchHere_some s d1 d2 d3 hm
            rcases hd3 with ⟨hd3, _⟩ | ⟨hnd, hd3⟩
            · refine ⟨pre, d1, d2, d3, r5.dropWhile isDigit, ?_, n1, a1, n2, a2, n3, a3, ?_, hnone,
                v1, v2, v3, l1, l2, l3⟩
              · rw [hps, hs, hd3]
                simp only [List.append_assoc, List.takeWhile_append_dropWhile]
              · unfold NoDigitHead
                generalize r5 = l
                induction l with
                | nil => rfl
                | cons c cs ih =>
                  rw [List.dropWhile_cons]
                  split
                  · exact ih
                  · rename_i hc
                    rw [List.takeWhile_cons]; simp [hc]
            · -- the `\\*` alternative yields only backslashes: ParseInt rejects it
              exfalso
              cases r5 with
              | nil => simp at hd3; exact n3 hd3
              | cons c cs =>
                rw [List.takeWhile_cons] at hd3
                split at hd3
                · rename_i hc
                  simp only [decide_eq_true_eq] at hc
                  subst hc; subst hd3
                  simp only [List.all_cons, Bool.and_eq_true] at a3
                  exact absurd a3.1 (by decide)
                · exact n3 hd3
  · rintro ⟨pre, d1, d2, d3, post, hh, n1, a1, n2, a2, n3, a3, hp, hnone, v1, v2, v3, l1, l2, l3⟩
    have hm := matchHere_formatted d1 d2 d3 post n1 a1 n2 a2 n3 a3 hp
    have hf : findMatch h = some (d1, d2, d3) := (findMatch_some h _).mpr ⟨pre, _, hh, hm, hnone⟩
    have p1 : parseDec63 d1 = some b := (parseDec63_some _ _).mpr ⟨n1, a1, v1, l1⟩
    have p2 : parseDec63 d2 = some e := (parseDec63_some _ _).mpr ⟨n2, a2, v2, l2⟩
    have p3 : parseDec63 d3 = some sz := (parseDec63_some _ _).mpr ⟨n3, a3, v3, l3⟩
    unfold parseRange
    rw [hf]
    simp only [p1, p2, p3]

/-- Round trip: the Content-Range an honest server writes is read back exactly, for all int64
values. -/
theorem parseRange_roundtrip (b e size : Nat) (hb : b < two63) (he : e < two63) (hs : size < two63) :
    parseRange (fmtContentRange b e size) = some (b, e, size) := by
  rw [parseRange_accepts_iff]
  refine ⟨[], fmtNat b, fmtNat e, fmtNat size, [], by simp [fmtContentRange],
    fmtNat_ne_nil _, fmtNat_all _, fmtNat_ne_nil _, fmtNat_all _, fmtNat_ne_nil _, fmtNat_all _,
    rfl, by intro k hk; simp at hk, decVal_fmtNat _, decVal_fmtNat _, decVal_fmtNat _, hb, he, hs⟩

/-- A value ≥ 2^63 in any of the three positions is rejected (strconv range error), never
wrapped. -/
theorem parseRange_rejects_overflow (b e size : Nat) (h : two63 ≤ b ∨ two63 ≤ e ∨ two63 ≤ size) :
    parseRange (fmtContentRange b e size) = none := by
  cases hp : parseRange (fmtContentRange b e size) with
  | none => rfl
  | some r =>
    obtain ⟨b', e', s'⟩ := r
    exfalso
    -- the leftmost match is the one at position 0, whose numerals are those of b e size
    have hm := matchHere_formatted (fmtNat b) (fmtNat e) (fmtNat size) [] (fmtNat_ne_nil _)
      (fmtNat_all _) (fmtNat_ne_nil _) (fmtNat_all _) (fmtNat_ne_nil _) (fmtNat_all _) rfl
    have hf := findMatch_of_matchHere _ _ hm
    simp only [List.append_nil] at hf
    unfold parseRange at hp
    unfold fmtContentRange at hp
    rw [hf] at hp
    simp only at hp
    have k : ∀ n, two63 ≤ n → parseDec63 (fmtNat n) = none := by
      intro n hn
      cases hq : parseDec63 (fmtNat n) with
      | none => rfl
      | some v =>
        obtain ⟨_, _, hv, hl⟩ := (parseDec63_some _ _).mp hq
        rw [decVal_fmtNat] at hv; omega
    rcases h with h | h | h
    · simp [k b h] at hp
    · cases hb : parseDec63 (fmtNat b) <;> simp [hb, k e h] at hp
    · cases hb : parseDec63 (fmtNat b) <;> cases he : parseDec63 (fmtNat e) <;>
        simp [hb, he, k size h] at hp

-- non-vacuity / behaviour on the interesting strings
-- "bytes 0-5/10"
example : parseRange [98, 121, 116, 101, 115, 32, 48, 45, 53, 47, 49, 48] = some (0, 5, 10) := by decide
-- "bytes 0-5/*": the `*` size of RFC 7233 is NOT accepted (the regexp alternative is `\\*`)
example : parseRange [98, 121, 116, 101, 115, 32, 48, 45, 53, 47, 42] = none := by decide
-- "xbytes 0-5/10y": unanchored
example : parseRange [120, 98, 121, 116, 101, 115, 32, 48, 45, 53, 47, 49, 48, 121] = some (0, 5, 10) := by
  decide
-- "bytes 1-2/ bytes 3-4/5": the leftmost match decides, the later well-formed one is ignored
example : parseRange [98, 121, 116, 101, 115, 32, 49, 45, 50, 47, 32, 98, 121, 116, 101, 115, 32, 51, 45, 52, 47, 53]
    = none := by decide
example : (9223372036854775807 : Nat) < two63 := by decide

/-! ## 3. bytes on the wire honest ⇒ the part-level hypothesis of C06b -/

/-- Wire-level honesty: every part that announces a position (its Content-Range is accepted by
`parseRange`; position 0 for a 200) carries the blob bytes starting at that position.  Nothing is
assumed about the announced end, the announced size, the number or order of parts, lengths,
unparsable headers or the status. -/
def WireHonest (B : Bytes) (w : Wire) : Prop :=
  (w.status = 200 → w.body = slice B 0 w.body.length) ∧
  (w.status = 206 → w.ctype = .other → ∀ b e sz, parseRange w.contentRange = some (b, e, sz) →
    w.body = slice B b w.body.length) ∧
  (w.status = 206 → w.ctype = .multipart → ∀ cr body, MItem.part cr body ∈ w.items →
    ∀ b e sz, parseRange cr = some (b, e, sz) → body = slice B b body.length)

theorem multiStream_honest (B : Bytes) (items : List MItem)
    (h : ∀ cr body, MItem.part cr body ∈ items →
      ∀ b e sz, parseRange cr = some (b, e, sz) → body = slice B b body.length) :
    ∀ p ∈ (multiStream items).1, p.data = slice B p.b p.data.length := by
  induction items with
  | nil => intro p hp; simp [multiStream] at hp
  | cons it rest ih =>
    cases it with
    | broken => intro p hp; simp [multiStream] at hp
    | part cr body =>
      intro p hp
      unfold multiStream at hp
      cases hpr : parseRange cr with
      | none => rw [hpr] at hp; simp at hp
      | some r =>
        obtain ⟨b, e, sz⟩ := r
        rw [hpr] at hp
        simp only [List.mem_cons] at hp
        rcases hp with rfl | hp
        · exact h cr body (List.mem_cons_self ..) b e sz hpr
        · exact ih (fun cr' body' hm => h cr' body' (List.mem_cons_of_mem _ hm)) p hp

theorem toPartsP_honest (P : Params) (B : Bytes) (ps : List WPart)
    (h : ∀ p ∈ ps, p.data = slice B p.b p.data.length) :
    ∀ q ∈ toPartsP P ps, HonestPart B q := by
  induction ps with
  | nil => intro q hq; simp [toPartsP] at hq
  | cons p ps ih =>
    intro q hq
    have hp := h p (List.mem_cons_self ..)
    have ih' := ih (fun p' hm => h p' (List.mem_cons_of_mem _ hm))
    unfold toPartsP at hq
    split at hq
    · split at hq
      · exact ih' q hq
      · simp only [List.mem_cons] at hq
        rcases hq with rfl | hq
        · exact hp
        · exact ih' q hq
    · simp only [List.mem_cons] at hq
      rcases hq with rfl | hq
      · exact hp
      · exact ih' q hq

/-- Wire-level honesty gives the `HonestReply` hypothesis of the C06b theorems, for every server
personality (whole body, single range, multipart, errors). -/
theorem wire_honest_reply (P : Params) (B : Bytes) (w : Wire) (h : WireHonest B w) :
    HonestReply B (toReply P w) := by
  obtain ⟨h200, h206s, h206m⟩ := h
  unfold toReply
  cases hst : stream w with
  | none => trivial
  | some r =>
    obtain ⟨ps, bad⟩ := r
    simp only
    apply toPartsP_honest
    unfold stream at hst
    split at hst
    · rename_i hs
      cases hcl : parseInt64 w.contentLength with
      | none => rw [hcl] at hst; cases hst
      | some L =>
        rw [hcl] at hst
        simp only [Option.some.injEq, Prod.mk.injEq] at hst
        obtain ⟨rfl, _⟩ := hst
        intro p hp
        simp only [List.mem_singleton] at hp
        subst hp
        exact h200 hs
    · split at hst
      · rename_i _ hs
        cases hct : w.ctype with
        | bad => rw [hct] at hst; cases hst
        | multipart =>
          rw [hct] at hst
          simp only [Option.some.injEq] at hst
          have := multiStream_honest B w.items (h206m hs hct)
          rw [hst] at this
          exact this
        | other =>
          rw [hct] at hst
          simp only at hst
          cases hpr : parseRange w.contentRange with
          | none => rw [hpr] at hst; cases hst
          | some r =>
            obtain ⟨b, e, sz⟩ := r
            rw [hpr] at hst
            simp only [Option.some.injEq, Prod.mk.injEq] at hst
            obtain ⟨rfl, _⟩ := hst
            intro p hp
            simp only [List.mem_singleton] at hp
            subst hp
            exact h206s hs hct b e sz hpr
      · cases hst

/-- The wire-level `fetchRegions` refines the part-level one: same state; same result, or an
error where the part-level model (which has no "stream ended in an error" flag) succeeds. -/
theorem fetchMissingW_refines (P : Params) (s : St) (missing : List Chunk) (w : Wire) :
    (fetchMissingW P s missing w).1 = (fetchMissing P s missing (toReply P w)).1 ∧
    ((fetchMissingW P s missing w).2 = (fetchMissing P s missing (toReply P w)).2 ∨
      (fetchMissingW P s missing w).2 = none) := by
  unfold fetchMissingW fetchMissing toReply
  by_cases hm : missing.isEmpty = true
  · simp [hm]
  · simp only [hm, Bool.false_eq_true, if_false]
    cases hst : stream w with
    | none => simp
    | some r =>
      obtain ⟨ps, bad⟩ := r
      simp only
      rw [storePartsW_eq]
      cases hsp : storeParts P s (toPartsP P ps) with
      | mk s' r =>
        cases r with
        | none => simp
        | some got =>
          cases bad
          · simp
          · simp only [if_true]
            split <;> simp

/-- `ReadAt` over a wire reply refines `ReadAt` over the part-level reply it stands for. -/
theorem readAtW_refines (P : Params) (s : St) (o n : Nat) (w : Wire) :
    (readAtW P s o n w).1 = (readAt P s o n (toReply P w)).1 ∧
    ((readAtW P s o n w).2 = (readAt P s o n (toReply P w)).2 ∨ (readAtW P s o n w).2 = none) := by
  unfold readAtW readAt
  split
  · simp
  · cases walkChunks P (floorU o P.chunk) (ceilU (o + n - 1) P.chunk - 1) with
    | none => simp
    | some cs =>
      simp only
      obtain ⟨h1, h2⟩ := fetchMissingW_refines P s (SV.Blob.classify o n s.cache cs).2 w
      revert h1 h2
      cases fetchMissingW P s (SV.Blob.classify o n s.cache cs).2 w with
      | mk s1 r1 =>
        cases fetchMissing P s (SV.Blob.classify o n s.cache cs).2 (toReply P w) with
        | mk s2 r2 =>
          intro h1 h2
          simp only at h1 h2
          subst h1
          cases r1 <;> cases r2 <;> simp_all

/-- END TO END: bytes on the wire honest ⇒ `ReadAt` is byte-exact.  For every state satisfying the
invariant, every offset / length and every wire reply (any status, media type, Content-Length,
Content-Range strings, part list, broken multipart body) that is honest at the wire level:
the invariant is kept and the result is an error or exactly `min n (size - o)` bytes equal to
`B[o, …)`. -/
theorem wire_honest_readAt_exact (P : Params) (B : Bytes) (hc : 0 < P.chunk) (hB : B.length = P.size)
    (s : St) (hs : Inv P B s) (o n : Nat) (w : Wire) (hw : WireHonest B w) :
    Inv P B (readAtW P s o n w).1 ∧
    (∀ x, cov x s.fetched → cov x (readAtW P s o n w).1.fetched) ∧
    ((readAtW P s o n w).2 = none ∨
      ∃ buf, (readAtW P s o n w).2 = some (min n (P.size - o), buf) ∧ buf.length = n ∧
        buf.take (min n (P.size - o)) = slice B o (min n (P.size - o))) := by
  obtain ⟨r1, r2⟩ := readAtW_refines P s o n w
  obtain ⟨h1, h2, h3⟩ := readAt_spec P B hc hB s hs o n (toReply P w) (wire_honest_reply P B w hw)
  rw [r1]
  refine ⟨h1, h2, ?_⟩
  rcases r2 with r2 | r2
  · rw [r2]; exact h3
  · exact Or.inl r2

/-- Over any history of reads, each answered by its own wire-honest reply, from the empty state:
every read is an error or exact (the invariant is inductive). -/
theorem wire_honest_history_exact (P : Params) (B : Bytes) (hc : 0 < P.chunk) (hB : B.length = P.size)
    (ops : List (Nat × Nat × Wire)) (hw : ∀ op ∈ ops, WireHonest B op.2.2) :
    ∀ s, Inv P B s →
      Inv P B (ops.foldl (fun s op => (readAtW P s op.1 op.2.1 op.2.2).1) s) := by
  induction ops with
  | nil => intro s hs; exact hs
  | cons op ops ih =>
    intro s hs
    simp only [List.foldl_cons]
    exact ih (fun op' hm => hw op' (List.mem_cons_of_mem _ hm)) _
      (wire_honest_readAt_exact P B hc hB s hs op.1 op.2.1 op.2.2 (hw op (List.mem_cons_self ..))).1

-- non-vacuity: blob 0..7, chunk 4; a multipart reply "bytes 0-3/8" carrying [0,1,2,3]
def exB8 : Bytes := [0, 1, 2, 3, 4, 5, 6, 7]
def crA : Str := [98, 121, 116, 101, 115, 32, 48, 45, 51, 47, 56]           -- "bytes 0-3/8"
def exHonest : Wire := { status := 206, ctype := .multipart, items := [.part crA [0, 1, 2, 3]] }
/-- the same Content-Range on the bytes of the NEXT chunk: a server lying about the position -/
def exLying : Wire := { status := 206, ctype := .multipart, items := [.part crA [4, 5, 6, 7]] }

example : parseRange crA = some (0, 3, 8) := by decide
example : WireHonest exB8 exHonest := by
  unfold WireHonest
  refine ⟨by decide, by intro _ h; exact absurd h (by decide), ?_⟩
  intro _ _ cr body hm b e sz hp
  simp only [exHonest, List.mem_singleton, MItem.part.injEq] at hm
  obtain ⟨rfl, rfl⟩ := hm
  have : parseRange crA = some (0, 3, 8) := by decide
  rw [this] at hp
  simp only [Option.some.injEq, Prod.mk.injEq] at hp
  obtain ⟨rfl, _, _⟩ := hp
  decide
example : (readAtW ⟨8, 4⟩ {} 1 2 exHonest).2 = some (2, [1, 2]) := by decide

/-! ## 4. the boundary: a server lying about positions -/

/-- Whatever the server sends — honest or not, any wire reply at all — a successful `ReadAt`
reports exactly `min n (size - o)` bytes.  (Count and buffer size never depend on the reply; only
the byte VALUES can be wrong.) -/
theorem any_server_count_exact (P : Params) (s : St) (o n : Nat) (w : Wire) :
    (readAtW P s o n w).2 = none ∨
      ∃ buf, (readAtW P s o n w).2 = some (min n (P.size - o), buf) := by
  unfold readAtW
  split
  · rename_i h
    right
    refine ⟨List.replicate n 0, ?_⟩
    rcases h with h | h
    · subst h; simp
    · have : P.size - o = 0 := by omega
      simp [this]
  · cases walkChunks P (floorU o P.chunk) (ceilU (o + n - 1) P.chunk - 1) with
    | none => left; rfl
    | some cs =>
      simp only
      cases fetchMissingW P s (SV.Blob.classify o n s.cache cs).2 w with
      | mk s1 r1 =>
        cases r1 with
        | none => left; rfl
        | some got => right; rw [← adjust_eq]; exact ⟨_, rfl⟩

/-- A lying server is an honest server of another blob: if the replies are consistent with ANY
byte string `B'` of the blob's length (each announced position carries `B'` bytes), reads return
`B'` — the code is a faithful function of (Content-Range, bytes) and nothing in it can tell `B'`
from the real blob.  Detection is the digest verification of C01, not this layer. -/
theorem lying_server_serves_its_own_blob (P : Params) (B' : Bytes) (hc : 0 < P.chunk)
    (hB : B'.length = P.size) (o n : Nat) (w : Wire) (hw : WireHonest B' w) :
    (readAtW P {} o n w).2 = none ∨
      ∃ buf, (readAtW P {} o n w).2 = some (min n (P.size - o), buf) ∧
        buf.take (min n (P.size - o)) = slice B' o (min n (P.size - o)) := by
  obtain ⟨_, _, h⟩ := wire_honest_readAt_exact P B' hc hB {} (inv_init P B') o n w hw
  rcases h with h | ⟨buf, h1, _, h2⟩
  · exact Or.inl h
  · exact Or.inr ⟨buf, h1, h2⟩

/-- …and such a lie is not detected: a part announcing `bytes 0-3/8` but carrying the bytes of the
next chunk is accepted, cached under chunk [0,3] and returned. -/
theorem lying_position_undetected :
    ¬ WireHonest exB8 exLying ∧
    (readAtW ⟨8, 4⟩ {} 1 2 exLying).2 = some (2, [5, 6]) ∧
    slice exB8 1 2 = [1, 2] ∧
    -- the poisoned cache entry then serves later reads without any request
    (readAtW ⟨8, 4⟩ (readAtW ⟨8, 4⟩ {} 1 2 exLying).1 0 4 { status := 500 }).2
      = some (4, [4, 5, 6, 7]) := by
  refine ⟨?_, by decide, by decide, by decide⟩
  intro h
  have := h.2.2 rfl rfl crA [4, 5, 6, 7] (by simp [exLying]) 0 3 8 (by decide)
  revert this
  decide

/-- What IS detected, for any content: a part announcing a start that is not chunk aligned makes
the fetch fail (no byte of it is used). -/
theorem misaligned_part_is_error (P : Params) (s : St) (missing : List Chunk) (w : Wire)
    (p : WPart) (bad : Bool) (rest : List WPart)
    (hst : stream w = some (p :: rest, bad)) (hmis : p.b % P.chunk ≠ 0) (hm : missing ≠ []) :
    fetchMissingW P s missing w = (s, none) := by
  unfold fetchMissingW
  have : missing.isEmpty = false := by cases missing <;> simp_all
  rw [this, hst]
  simp only [Bool.false_eq_true, if_false]
  rw [storePartsW]
  have : walkChunksI P p.b p.e = none := by unfold walkChunksI; rw [if_pos hmis]
  rw [this]

/-! ## 5. status 200 -/

/-- 200 with a Content-Length that `strconv.ParseInt` accepts is the single part
`region{0, L-1}` over the whole body; an unparsable Content-Length is a fetch error. -/
theorem status200_region (w : Wire) (h : w.status = 200) :
    stream w = (parseInt64 w.contentLength).map
      (fun L => ([⟨0, sub1wrap L, w.body⟩], false)) := by
  unfold stream
  rw [if_pos h]
  cases parseInt64 w.contentLength <;> rfl

/-- Content-Length ≤ 0 (but not the int64 minimum, where `L-1` wraps to 2^63-1): the region is
`[0, L-1]` with `L-1 < 0`, the chunk loop does not run, no byte is read, the state is unchanged and
`fetchRegions` reports "failed to fetch region" — an error, no crash and no hang. -/
theorem status200_nonpositive_length (P : Params) (s : St) (missing : List Chunk) (w : Wire)
    (L : Int) (h : w.status = 200) (hL : parseInt64 w.contentLength = some L)
    (h0 : L ≤ 0) (hmin : L ≠ -(two63 : Int)) (hm : missing ≠ []) :
    stream w = some ([⟨0, L - 1, w.body⟩], false) ∧ fetchMissingW P s missing w = (s, none) := by
  have hst : stream w = some ([⟨0, L - 1, w.body⟩], false) := by
    rw [status200_region w h, hL]
    simp [sub1wrap, hmin]
  refine ⟨hst, ?_⟩
  unfold fetchMissingW
  have hme : missing.isEmpty = false := by cases missing <;> simp_all
  rw [hme, hst]
  simp only [Bool.false_eq_true, if_false]
  have hw : walkChunksI P 0 (L - 1) = some [] := by
    unfold walkChunksI
    rw [if_neg (by simp), if_pos (by omega)]
  simp only [storePartsW, hw, storeChunks]
  cases missing with
  | nil => exact absurd rfl hm
  | cons c cs => simp

/-- The int64 minimum wraps: Content-Length "-9223372036854775808" is the region
`[0, 9223372036854775807]`. -/
theorem status200_min_wraps (w : Wire) (h : w.status = 200)
    (hL : parseInt64 w.contentLength = some (-(two63 : Int))) :
    stream w = some ([⟨0, (two63 : Int) - 1, w.body⟩], false) := by
  rw [status200_region w h, hL]
  simp [sub1wrap]

-- "0", "-7", "+5", "" , "5x"
example : parseInt64 [48] = some 0 := by decide
example : parseInt64 [45, 55] = some (-7) := by decide
example : parseInt64 [43, 53] = some 5 := by decide
example : parseInt64 [] = none := by decide
example : parseInt64 [53, 120] = none := by decide
example : (fetchMissingW ⟨8, 4⟩ {} [⟨0, 3⟩] { status := 200, contentLength := [48], body := [1, 2, 3, 4] })
    = ({}, none) := by
  exact (status200_nonpositive_length ⟨8, 4⟩ {} [⟨0, 3⟩] _ 0 rfl (by decide) (by decide) (by decide)
    (by simp)).2

/-! ## 2. the Range header -/

/-- `len(rs) == 0` is the error "no request queried"; nothing is sent. -/
theorem rangeHeader_empty (single : Bool) : rangeHeader single [] = .noRequest := rfl

/-- Range-header round trip.  For every non-empty request list of non-empty, non-negative regions
(what `fetchRegions` passes: chunks), in multi-range and in single-range mode: `fetch` neither
panics (`superRegion(requests)[0]`, `ranges[:len(ranges)-1]`) nor refuses; the header it sends,
read by a server-side RFC 7233 parser, is exactly the request list `reqs` — the squashed regions,
or in single-range mode the one region spanning them. -/
theorem rangeHeader_roundtrip (single : Bool) (rs : List Region) (hne : rs ≠ [])
    (h : ∀ r ∈ rs, 0 ≤ r.b ∧ r.b ≤ r.e) :
    ∃ reqs hdr, requests single rs = some reqs ∧ rangeHeader single rs = .header hdr ∧
      rfcParse hdr = some (pairsOf reqs) ∧ reqs ≠ [] ∧ (∀ r ∈ reqs, 0 ≤ r.b ∧ r.b ≤ r.e) ∧
      (single = false → reqs = squash rs) ∧
      (single = true → ∃ r, reqs = [r] ∧ (∀ x ∈ squash rs, r.b ≤ x.b ∧ x.e ≤ r.e) ∧
        (∃ x ∈ squash rs, r.b = x.b) ∧ (∃ x ∈ squash rs, r.e = x.e)) := by
  obtain ⟨hw, hn, hnn⟩ := squash_spec rs h [] ⟨by simp, by simp⟩ (by simp)
  have hsq : squash rs ≠ [] := hnn hne
  have key : ∀ reqs, requests single rs = some reqs → reqs ≠ [] →
      (∀ r ∈ reqs, 0 ≤ r.b ∧ r.b ≤ r.e) →
      ∃ hdr, rangeHeader single rs = .header hdr ∧ rfcParse hdr = some (pairsOf reqs) := by
    intro reqs hr hrne hrr
    obtain ⟨p1, p2⟩ := rfcParse_header reqs hrne (fun r hm => by have := hrr r hm; omega)
    refine ⟨_, ?_, p2⟩
    unfold rangeHeader
    rw [if_neg hne, hr]
    simp only [if_neg p1]
  cases single with
  | false =>
    have hr : requests false rs = some (squash rs) := by simp [requests]
    have hrr : ∀ r ∈ squash rs, 0 ≤ r.b ∧ r.b ≤ r.e := fun r hm => ⟨hn r hm, hw.1 r hm⟩
    obtain ⟨hdr, k1, k2⟩ := key _ hr hsq hrr
    exact ⟨_, hdr, hr, k1, k2, hsq, hrr, fun _ => rfl, fun hc => by cases hc⟩
  | true =>
    obtain ⟨r, hsr, hall, ⟨x, hx, hbx⟩, ⟨y, hy, hey⟩⟩ := (superRegion_spec (squash rs)).2 hsq
    have hr : requests true rs = some [r] := by simp [requests, hsr]
    have hrr : ∀ r' ∈ [r], 0 ≤ r'.b ∧ r'.b ≤ r'.e := by
      intro r' hm
      simp only [List.mem_singleton] at hm
      subst hm
      have := hn x hx
      have := hw.1 x hx
      have := hall x hx
      omega
    obtain ⟨hdr, k1, k2⟩ := key _ hr (by simp) hrr
    exact ⟨_, hdr, hr, k1, k2, by simp, hrr, (fun hc => by cases hc),
      fun _ => ⟨r, rfl, hall, ⟨x, hx, hbx⟩, ⟨y, hy, hey⟩⟩⟩

-- non-vacuity: chunks [4,7], [0,3], [12,15] -> "bytes=0-7,12-15" / single: "bytes=0-15"
example : ∀ r ∈ [(⟨4, 7⟩ : Region), ⟨0, 3⟩, ⟨12, 15⟩], 0 ≤ r.b ∧ r.b ≤ r.e := by decide
example : requests false [⟨4, 7⟩, ⟨0, 3⟩, ⟨12, 15⟩] = some [⟨0, 7⟩, ⟨12, 15⟩] := by decide
example : requests true [⟨4, 7⟩, ⟨0, 3⟩, ⟨12, 15⟩] = some [⟨0, 15⟩] := by decide
-- "bytes=0-7,12-15"
example : rfcParse [98, 121, 116, 101, 115, 61, 48, 45, 55, 44, 49, 50, 45, 49, 53] = some [(0, 7), (12, 15)] := by
  decide
-- a trailing comma (the untrimmed string) is not a valid header
example : rfcParse [98, 121, 116, 101, 115, 61, 48, 45, 55, 44] = none := by decide

end SV.Props.C06d
