/-
C02 — Lazily served files and metadata equal the source tar under any access history.

Model: SV/Model/LazyRead.lean (mirrors estargz `ChunkEntryForOffset`, fs/reader `file.ReadAt`
as of 42545b8, `verifyAndCache`, `cacheWithReader`, fs/layer `entryToAttr` /
`fileModeToSystemMode`, and the specification `tarView`).
Every theorem below is universally quantified over chunk tables / offsets / caches / histories /
what the lower layers deliver; the hypotheses are spelled out and instantiated by the examples at
the end.
-/
import SV.Model.LazyRead
import SV.Lemmas.LazyRead
import SV.Lemmas.MetaTar

namespace SV.Props.C02
open SV.LazyRead

/-- **Chunk lookup.** For a contiguous chunk table (both stores' `ChunkEntryForOffset`, binary search
as coded): an offset before EOF yields the unique chunk containing it, an offset at or after EOF
yields none. -/
theorem chunk_lookup_correct (v : Variant) (t : List Chunk) (h : Contig 0 t) (x : Nat) :
    (x < total t →
      ∃ c, chunkEntryForOffset v t x = some c ∧ c ∈ t ∧ c.off ≤ x ∧ x < c.off + c.size ∧
        ∀ c' ∈ t, c'.off ≤ x → x < c'.off + c'.size → c' = c) ∧
    (total t ≤ x → chunkEntryForOffset v t x = none) := by
  have hs := lookup_spec v h x
  refine ⟨?_, hs.2⟩
  intro hx
  obtain ⟨c, hc, hm, h1, h2⟩ := hs.1 hx
  exact ⟨c, hc, hm, h1, h2, fun c' hc' h1' h2' => contig_unique h x c c' hm hc' h1 h2 h1' h2'⟩

/-- The binary search never indexes outside the table, whatever the table looks like (no panic even
on a non-conforming TOC). -/
theorem chunk_lookup_in_range (t : List Chunk) (x : Nat) :
    searchFirst t.length (chunkPred t x) ≤ t.length := by
  unfold searchFirst
  exact (searchLoop_range _ _ 0 t.length (Nat.zero_le _)).2

/-- **Byte exactness under any access history.** Start from empty caches and run ANY sequence of
reads, prefetch-stores (`readAndCache` of single chunks or whole `cacheWithReader` walks), evictions
and truncations of cache entries, where everything accepted from the lower layers is genuine
(`OpOK`: digest verification, or an honest blob when verification is off). Then every read
`ReadAt(off, n)` of a well-formed file that succeeds returns exactly `content[off .. min(off+n, size))`
— in particular it is short at EOF and never wrong. -/
theorem read_exact_any_history (content : Nat → Bytes) (E : Env) (ops : List Op)
    (hops : ∀ op ∈ ops, OpOK content E op)
    (f : FileInfo) (hf : WF content f) (u : Under) (hu : Honest content E u) (off n : Nat) (b : Bytes) :
    (step E (runOps E ops Cache.empty) (.read f off n u)).2 = .ok b →
      b = slice (content f.id) off n ∧ b.length = min n ((content f.id).length - off) := by
  intro h
  have hc := runOps_ok ops Cache.empty hops (cacheOK_empty content)
  have := (fileReadAt_exact hf hu _ hc off n).2 b h
  exact ⟨this, by rw [this]; simp⟩

/-- `CacheOK` (every cached entry is a prefix of the genuine chunk) is an invariant of every history. -/
theorem cache_ok_any_history (content : Nat → Bytes) (E : Env) (ops : List Op)
    (hops : ∀ op ∈ ops, OpOK content E op) : CacheOK content (runOps E ops Cache.empty) :=
  runOps_ok ops Cache.empty hops (cacheOK_empty content)

/-- The loop of `file.ReadAt` terminates for every chunk table (well formed or not), cache and
lower-layer behaviour: the model's fuel `n + 1` is never exhausted. -/
theorem read_terminates (E : Env) (u : Under) (f : FileInfo) (c : Cache) (off n : Nat) :
    (fileReadAt E u f c off n).2 ≠ .diverge :=
  fileReadAt_ne_diverge E u f c off n

/-- A read whose chunks are all cached is served without touching the lower layer: the result does
not depend on `u` at all and the cache is left alone. -/
theorem read_cached_is_local (content : Nat → Bytes) (E : Env) (u : Under) (f : FileInfo)
    (hf : WF content f) (c : Cache) (hc : CacheExact content c) (hall : AllCached f c) (off n : Nat) :
    fileReadAt E u f c off n = (c, .ok (slice (content f.id) off n)) :=
  fileReadAt_cached u hf c hc hall off n

/-! ### attribute conversion -/

/-- the `S_IFMT` part of the result is the type's constant: permission and special bits stay below -/
theorem sysmode_type_bits (m : FileMode) : fileModeToSystemMode m / 4096 = typeBits m.type / 4096 := by
  unfold fileModeToSystemMode
  have h1 := Nat.mod_lt m.perm (show 0 < 512 by decide)
  cases m.type <;> cases m.setuid <;> cases m.setgid <;> cases m.sticky <;>
    simp only [typeBits, S_IFREG, S_IFDIR, S_IFLNK, S_IFCHR, S_IFBLK, S_IFIFO, S_IFSOCK, S_ISUID, S_ISGID, S_ISVTX,
      if_true, Bool.false_eq_true, if_false] <;> omega

/-- `fileModeToSystemMode`: the file type bits (`S_IFMT`) determine the entry type — the conversion
is injective on the type. -/
theorem attr_conversion_type_injective (m1 m2 : FileMode)
    (h : fileModeToSystemMode m1 / 4096 = fileModeToSystemMode m2 / 4096) : m1.type = m2.type := by
  rw [sysmode_type_bits, sysmode_type_bits] at h
  revert h
  cases m1.type <;> cases m2.type <;> decide

/-- the permission bits pass unchanged -/
theorem attr_conversion_perm_preserved (m : FileMode) :
    fileModeToSystemMode m % 512 = m.perm % 512 := by
  unfold fileModeToSystemMode
  cases m.type <;> cases m.setuid <;> cases m.setgid <;> cases m.sticky <;>
    simp only [typeBits, S_IFREG, S_IFDIR, S_IFLNK, S_IFCHR, S_IFBLK, S_IFIFO, S_IFSOCK, S_ISUID, S_ISGID, S_ISVTX,
      if_true, Bool.false_eq_true, if_false] <;> omega

/-- setuid / setgid / sticky map to `S_ISUID` / `S_ISGID` / `S_ISVTX` and nothing else sets them -/
theorem attr_conversion_special_bits (m : FileMode) :
    (fileModeToSystemMode m / 2048 % 2 = 1 ↔ m.setuid = true) ∧
    (fileModeToSystemMode m / 1024 % 2 = 1 ↔ m.setgid = true) ∧
    (fileModeToSystemMode m / 512 % 2 = 1 ↔ m.sticky = true) := by
  unfold fileModeToSystemMode
  have h1 := Nat.mod_lt m.perm (show 0 < 512 by decide)
  cases m.type <;> cases m.setuid <;> cases m.setgid <;> cases m.sticky <;>
    simp only [typeBits, S_IFREG, S_IFDIR, S_IFLNK, S_IFCHR, S_IFBLK, S_IFIFO, S_IFSOCK, S_ISUID, S_ISGID, S_ISVTX,
      if_true, Bool.false_eq_true, if_false, iff_true, iff_false] <;>
    refine ⟨?_, ?_, ?_⟩ <;> omega

/-- Through `TOCEntry.Stat().Mode()` and `fileModeToSystemMode` the low twelve bits of the tar
header's mode (permissions + setuid/setgid/sticky) arrive unchanged next to the type bits. -/
theorem attr_conversion_header_mode (n : Node) (h : n.mode < 4096) :
    fileModeToSystemMode n.toAttr.mode = typeBits n.type + n.mode := by
  unfold fileModeToSystemMode Node.toAttr
  simp only [decide_eq_true_eq]
  by_cases h1 : n.mode / 2048 % 2 = 1 <;> by_cases h2 : n.mode / 1024 % 2 = 1 <;>
    by_cases h3 : n.mode / 512 % 2 = 1 <;>
    simp only [h1, h2, h3, if_true, if_false, S_ISUID, S_ISGID, S_ISVTX] <;> omega

/-- `entryToAttr`: a symlink's size is the length of its target, a link count of zero shows as one,
sizes and owners of other entries pass through. -/
theorem attr_conversion_entry (ino : Nat) (e : Attr) :
    (entryToAttr ino e).nlink ≥ 1 ∧
    (e.mode.type = .symlink → (entryToAttr ino e).size = e.linkName.utf8ByteSize) ∧
    (e.mode.type ≠ .symlink → (entryToAttr ino e).size = e.size) ∧
    (e.numLink % 4294967296 ≠ 0 → (entryToAttr ino e).nlink = e.numLink % 4294967296) ∧
    (entryToAttr ino e).mode = fileModeToSystemMode e.mode := by
  unfold entryToAttr
  refine ⟨?_, ?_, ?_, ?_, rfl⟩
  · simp only []; split <;> omega
  · intro h; simp [h]
  · intro h; simp [h]
  · intro h; simp [h]

/-! ### metadata: the specification -/

/-- The full metadata statement: the tree a metadata store builds from the TOC that `Build` writes
for `tar` shows, at every path, the node `tarView tar` describes — for EVERY tar.  `interp` stands
for "Build, then the store's TOC interpreter, then `GetAttr`/`GetChild`".
Proved below (`metadata_equal_tar_partial`) for both stores' models (`Toc.memTree`, `Toc.dbTree` of
C05) on the decidable fragment `MetaTar.TarOK`.  Still open for the full statement:
  * link counts (the proved relation `AttrMatches` covers type+mode, size, owner, device numbers,
    symlink target, xattrs and which paths exist — not `nlink`; the stores' NumLink bookkeeping has
    no closed form in C05's invariant yet);
  * archives outside the fragment: an entry for the root itself, a directory entry after its
    content (both are where the two real stores are known to differ: db-root-attr-read-before-init,
    db-dir-nlink-double-counted-late-dir-entry), names not spelled plainly (reduced to plain ones
    by `cleanName` in both models, composition not formalised), mtime (not part of `TarEntry`).
All of it is compared on every run, path by path, by the correspondence (`stat`/`ls`/`xattr`) and
by the Go oracle. -/
def MetadataEqualTar (interp : List TarEntry → View) : Prop :=
  ∀ tar p, (interp tar).node p = (tarView tar).node p

/-- the archive's entries, by clean name, last duplicate winning -/
def liveEntries (tar : List TarEntry) : List (Path × TarEntry) :=
  dedupLast (tar.map fun e => (cleanName e.name, e))

theorem dedupLast_sublist (l : List (Path × TarEntry)) : ∀ x ∈ dedupLast l, x ∈ l := by
  induction l with
  | nil => intro x h; cases h
  | cons y ys ih =>
    intro x h
    unfold dedupLast at h
    split at h
    · exact List.mem_cons_of_mem _ (ih x h)
    · rcases List.mem_cons.mp h with h | h
      · exact h ▸ List.mem_cons_self
      · exact List.mem_cons_of_mem _ (ih x h)

/-- after `dedupLast` every name occurs once: an entry is never followed by another of its name -/
theorem dedupLast_unique (l : List (Path × TarEntry)) :
    ∀ (pre : List (Path × TarEntry)) (x : Path × TarEntry) (post : List (Path × TarEntry)),
      dedupLast l = pre ++ x :: post → ∀ y ∈ post, y.1 ≠ x.1 := by
  induction l with
  | nil => intro pre x post h; cases pre <;> simp [dedupLast] at h
  | cons z zs ih =>
    intro pre x post h
    unfold dedupLast at h
    split at h
    · exact ih pre x post h
    · rename_i hany
      cases pre with
      | nil =>
        simp at h
        obtain ⟨rfl, rfl⟩ := h
        intro y hy hne
        apply hany
        simp only [List.any_eq_true, decide_eq_true_eq]
        exact ⟨y, dedupLast_sublist zs y hy, hne⟩
      | cons p ps =>
        simp at h
        exact ih ps x post h.2

/-- **What the specification says about a path with its own (non-hardlink) entry** — "last duplicate
wins", attributes come from that header (a fact about `tarView` alone). -/
theorem spec_last_duplicate_wins (tar : List TarEntry) (p : Path) (e : TarEntry)
    (he : findEntry (liveEntries tar) p = some e) (hnl : e.type ≠ .hardlink) :
    ∃ n, (tarView tar).node p = some n ∧
      n.type = ntypeOf e.type ∧ n.mode = e.mode % 4096 ∧ n.uid = e.uid ∧ n.gid = e.gid ∧
      n.xattrs = e.xattrs ∧ n.content = e.content ∧
      (e.type = .reg → n.size = e.size) ∧ (e.type = .symlink → n.link = e.link) ∧
      ((e.type = .char ∨ e.type = .block) → n.devMajor = e.devMajor ∧ n.devMinor = e.devMinor) := by
  -- p is one of the named paths
  have hmem : p ∈ (liveEntries tar).map (·.1) := by
    unfold findEntry at he
    cases hf : List.find? (fun x => decide (x.1 = p)) (liveEntries tar) with
    | none => simp [hf] at he
    | some x =>
      have h1 := List.find?_some hf
      have h2 := List.mem_of_find?_eq_some hf
      simp at h1
      exact List.mem_map.mpr ⟨x, h2, h1⟩
  have hres : resolve (liveEntries tar) ((liveEntries tar).length + 1) p = some (p, e) := by
    simp [resolve, he, hnl]
  have hcont : ((([] : Path) :: (liveEntries tar).map (·.1) ++ ((liveEntries tar).map (·.1)).flatMap ancestors).eraseDups).contains p = true := by
    simp only [List.contains_eq_mem, List.mem_eraseDups, decide_eq_true_eq]
    simp only [List.cons_append, List.mem_cons, List.mem_append]
    exact Or.inr (Or.inl hmem)
  unfold tarView
  simp only [liveEntries] at he hres hcont
  simp only [hcont, he, hres, Bool.not_true, Bool.false_eq_true, if_false]
  refine ⟨_, rfl, rfl, rfl, rfl, rfl, rfl, rfl, ?_, ?_, ?_⟩
  · intro h; simp [h]
  · intro h; simp [h]
  · intro h; simp [h]

/-- a hardlink is another name of what it resolves to: same node -/
theorem metadata_hardlink_same_node (tar : List TarEntry) (p q : Path) (e : TarEntry)
    (hr : resolve (liveEntries tar) ((liveEntries tar).length + 1) p = some (q, e))
    (hq : resolve (liveEntries tar) ((liveEntries tar).length + 1) q = some (q, e))
    (hp : findEntry (liveEntries tar) p ≠ none) (hq' : findEntry (liveEntries tar) q ≠ none)
    (hpc : (tarView tar).paths.contains p = true) (hqc : (tarView tar).paths.contains q = true) :
    (tarView tar).node p = (tarView tar).node q := by
  unfold tarView at *
  simp only [liveEntries] at *
  cases h1 : findEntry (dedupLast (tar.map fun e => (cleanName e.name, e))) p with
  | none => exact absurd h1 hp
  | some e1 =>
    cases h2 : findEntry (dedupLast (tar.map fun e => (cleanName e.name, e))) q with
    | none => exact absurd h2 hq'
    | some e2 =>
      simp only [hpc, hqc, h1, h2, hr, hq, Bool.not_true, Bool.false_eq_true, if_false]

/-! ### metadata: the stores' trees against the specification -/

/-- **Metadata equals the tar, both stores (partial: fragment `TarOK`, link counts excepted).**
For every tar of the decidable fragment `MetaTar.TarOK` — plain names, any duplicates (the builder's
`importTar` keeps the last), explicit or implicit parent directories at any depth, regular files,
directories, symlinks, char/block devices, fifos, hardlinks and hardlink chains to earlier
non-directories, arbitrary modes, owners, device numbers and xattrs — and for the TOC the builder's
entry translation `MetaTar.tocOfTar` writes for it:
  * both TOC interpreters accept the TOC and their canonical views coincide (C05);
  * walking children maps from the root (what `GetChild` does), the memory store's tree has a node
    at path `p` exactly when `tarView tar` describes one, and then the node's `metadata.Attr`
    matches the described node: Go file mode of (type, header mode), size, uid, gid, device
    numbers, symlink target, xattrs (`MetaTar.AttrMatches`); a hardlink name leads to its target's
    node; an ancestor without entry is a 0755 root:root directory; nothing else exists;
  * the same holds for the db store's tree as far as a container can observe attributes
    (`Toc.normalise` = `entryToAttr`). -/
theorem metadata_equal_tar_partial (xv : Bytes → String) (tar : List TarEntry) (ok : MetaTar.TarOK xv tar) :
    ∃ tm td, Toc.memTree (MetaTar.tocOfTar xv tar) = .accept tm ∧
      Toc.dbTree (MetaTar.tocOfTar xv tar) = .accept td ∧ Toc.view tm = Toc.view td ∧
      ∀ p, MetaTar.PathMatches xv tm tar p ∧ MetaTar.PathMatchesN xv td tar p :=
  MetaTar.both_trees_match ok

/-- Listings: below any directory the memory store serves exactly the names the tar describes
(a name is served iff the path exists in `tarView`). -/
theorem metadata_listing_equal_partial (xv : Bytes → String) (tar : List TarEntry) (ok : MetaTar.TarOK xv tar) :
    ∃ tm, Toc.memTree (MetaTar.tocOfTar xv tar) = .accept tm ∧
      ∀ (p : Path) (b : String),
        (Toc.walkKids (fun k => (tm.node k).kids) tm.root (p ++ [b])).isSome =
          ((tarView tar).node (p ++ [b])).isSome := by
  obtain ⟨tm, hm, h⟩ := MetaTar.mem_tree_matches ok
  refine ⟨tm, hm, fun p b => ?_⟩
  have := h (p ++ [b])
  unfold MetaTar.PathMatches at this
  cases hw : Toc.walkKids (fun k => (tm.node k).kids) tm.root (p ++ [b]) with
  | none => rw [hw] at this; simp only [] at this; rw [this]; rfl
  | some k => rw [hw] at this; simp only [] at this; obtain ⟨n, hn, _⟩ := this; rw [hn]; rfl

/-! ### non-vacuity -/

/-- a three-chunk file, its payload and a verifying environment -/
def exTable : List Chunk := [⟨0, 4⟩, ⟨4, 4⟩, ⟨8, 2⟩]
def exContent : Nat → Bytes := fun _ => [1, 2, 3, 4, 5, 6, 7, 8, 9, 10]
def exFile : FileInfo := { id := 0, variant := .mem, table := exTable, size := 10, firstOff := 100 }
def exEnv : Env :=
  { verify := fun id b => b == trueChunk exContent id, co := fun _ => some [] }
def exUnder : Under := fun id => some (trueChunk exContent id)

example : Contig 0 exTable := by decide
example : chunkEntryForOffset .mem exTable 5 = some ⟨4, 4⟩ := by decide
example : chunkEntryForOffset .db exTable 9 = some ⟨8, 2⟩ := by decide
example : chunkEntryForOffset .mem exTable 10 = none := by decide

theorem exWF : WF exContent exFile := ⟨by decide, by decide, by decide⟩

theorem exHonest : Honest exContent exEnv exUnder := by
  intro id b _ _ hv
  simpa [exEnv] using hv

/-- the hypotheses of `read_exact_any_history` are met by a history that reads, evicts, truncates
and prefetch-stores -/
example : ∀ op ∈ [Op.read exFile 3 4 exUnder, Op.evict ⟨0, 4, 4⟩, Op.truncate ⟨0, 0, 4⟩ 2,
    Op.cacheFiles (fun o => decide (o < 200)) [exFile] exUnder], OpOK exContent exEnv op := by
  intro op h
  simp only [List.mem_cons, List.mem_nil_iff, or_false] at h
  rcases h with h | h | h | h <;> subst h
  · exact ⟨exWF, exHonest⟩
  · trivial
  · trivial
  · exact exHonest

/-- …and a read after that history really succeeds (crossing a truncated and an evicted chunk) -/
example : (step exEnv (runOps exEnv [Op.read exFile 3 4 exUnder, Op.evict ⟨0, 4, 4⟩, Op.truncate ⟨0, 0, 4⟩ 2]
    Cache.empty) (.read exFile 1 20 exUnder)).2 = .ok [2, 3, 4, 5, 6, 7, 8, 9, 10] := by decide

/-- a lying lower layer is refused (error), never served -/
example : (fileReadAt exEnv (fun _ => some [9, 9, 9, 9]) exFile Cache.empty 0 4).2 = .err := by decide

/-- a tar whose view exercises duplicates, implicit parents and a hardlink -/
def exTar : List TarEntry :=
  let e (name : Path) (t : EType) (mode size : Nat) (lp : Path) (c : Nat) : TarEntry :=
    { name := name, type := t, mode := mode, uid := 0, gid := 0, size := size, link := "", linkPath := lp,
      devMajor := 0, devMinor := 0, xattrs := [], content := c }
  [e [".", "a", "f"] .reg 0o644 5 [] 0, e ["a", "g"] .hardlink 0 0 ["", "a", "f"] 1,
   e ["a", "f"] .reg 0o2755 7 [] 2]

example : ((tarView exTar).node ["a", "f"]).map (fun n => (n.mode, n.size, n.nlink, n.content)) =
    some (0o2755, 7, 2, 2) := by decide
example : ((tarView exTar).node ["a", "g"]).map (·.content) = some 2 := by decide
example : ((tarView exTar).node ["a"]).map (fun n => (n.type, n.mode, n.nlink)) = some (.dir, 0o755, 2) := by decide
example : ((tarView exTar).node []).map (·.nlink) = some 3 := by decide

/-- rendering of xattr values used by the example -/
def exXv : Bytes → String := fun b => String.ofList (b.map fun c => Char.ofNat c.toNat)

/-- a tar of the fragment `TarOK`: a duplicate name (the second `a/b/f` wins), implicit parents
`a` and `a/b`, a hardlink and a hardlink to that hardlink, a symlink, a sticky directory declared
before its content, a character device with large minor number, xattrs everywhere -/
def exTar2 : List TarEntry :=
  let e (name : Path) (t : EType) (mode size : Nat) (lp : Path) (c : Nat) : TarEntry :=
    { name := name, type := t, mode := mode, uid := 1000, gid := 5, size := size, link := "../t", linkPath := lp,
      devMajor := 4, devMinor := 300, xattrs := [("user.k", [118])], content := c }
  [e ["a", "b", "f"] .reg 0o644 5 [] 0, e ["a", "b", "f"] .reg 0o2755 7 [] 1,
   e ["a", "l1"] .hardlink 0 0 ["a", "b", "f"] 2, e ["l2"] .hardlink 0 0 ["a", "l1"] 3,
   e ["s"] .symlink 0o777 0 [] 4, e ["d"] .dir 0o1777 0 [] 5, e ["d", "c"] .char 0o600 0 [] 6]

set_option maxRecDepth 100000 in
/-- the hypothesis of `metadata_equal_tar_partial` is decidable and met by that tar -/
example : MetaTar.TarOK exXv exTar2 := by decide

/-- …whose view is not trivial: the chain `l2 → a/l1 → a/b/f` ends at the LAST `a/b/f` -/
example : ((tarView exTar2).node ["l2"]).map (fun n => (n.type, n.mode, n.size, n.content)) =
    some (.reg, 0o2755, 7, 1) := by decide
example : ((tarView exTar2).node ["a", "b"]).map (fun n => (n.type, n.mode, n.uid)) = some (.dir, 0o755, 0) := by decide
example : (tarView exTar2).node ["a", "x"] = none := by decide

end SV.Props.C02
