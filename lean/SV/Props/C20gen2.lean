/-
C20 — regenerated tie (widened).  `SV/Gen/Labels.lean` is produced from the CURRENT Go sources by
`tools/go2lean` on every run: the label-key constants of fs/source/source.go, fs/config/config.go
and service/cri.go, emitted as the values go/types computes (each string also as a character
list).  The theorems state that they are the keys the hand-written C20 model (`SV.Labels`) uses,
so an edit of a key in the Go code breaks a proof obligation here.
-/
import SV.Gen.Labels
import SV.Model.Labels

namespace SV.Props.C20gen2
open SV

theorem targetRefLabel_eq : Gen.Labels.targetRefLabel_chars = Labels.kRef := rfl
theorem targetDigestLabel_eq : Gen.Labels.targetDigestLabel_chars = Labels.kDigest := rfl
theorem targetImageLayersLabel_eq : Gen.Labels.targetImageLayersLabel_chars = Labels.kLayers := rfl
theorem targetImageURLsLabelPrefix_eq : Gen.Labels.targetImageURLsLabelPrefix_chars = Labels.kURLsPrefix := rfl
theorem targetURLsLabel_eq : Gen.Labels.targetURLsLabel_chars = Labels.kURLs := rfl
theorem targetPrefetchSizeLabel_eq : Gen.Labels.TargetPrefetchSizeLabel_chars = Labels.kPrefetch := rfl
theorem criTargetRefLabel_eq : Gen.Labels.criTargetRefLabel_chars = Labels.kCriRef := rfl
theorem criTargetLayerDigestLabel_eq : Gen.Labels.criTargetLayerDigestLabel_chars = Labels.kCriDigest := rfl
theorem criTargetImageLayersLabel_eq : Gen.Labels.criTargetImageLayersLabel_chars = Labels.kCriLayers := rfl
/-- The CRI writer and the default writer use the SAME urls keys (service/cri.go repeats the
constants of fs/source/source.go). -/
theorem cri_urls_keys_eq :
    Gen.Labels.criTargetImageURLsLabelPrefix_chars = Labels.kURLsPrefix ∧
    Gen.Labels.criTargetURLsLabel_chars = Labels.kURLs := ⟨rfl, rfl⟩

-- sanity: the String form and the character-list form of a generated constant agree
example : Gen.Labels.targetURLsLabel.toList = Gen.Labels.targetURLsLabel_chars := by decide
example : Gen.Labels.targetRefLabel_chars.length = 46 := rfl

end SV.Props.C20gen2
