/-
C07 — regenerated tie.  `SV/Gen/Fs.lean` (constants of fs/layer/node.go and
`fileModeToSystemMode`) and `SV/Gen/Estargz.lean` (reserved names) are produced from the CURRENT
Go sources by `tools/go2lean` on every run.  The theorems state that they are what the
hand-written overlay model (`SV.Overlay`) and the TOC model's `sysMode` (`SV.Toc`) use.
`os.FileMode`/`uint32` are translated to `Nat` with `&&&`/`|||` (neither can overflow).
-/
import SV.Gen.Fs
import SV.Gen.Estargz
import SV.Model.Overlay
import SV.Model.Toc

namespace SV.Props.C07gen2
open SV

theorem whiteoutPrefix_eq : Gen.Fs.whiteoutPrefix_chars = Overlay.whiteoutPrefix := by decide
theorem whiteoutOpaqueDir_eq : Gen.Fs.whiteoutOpaqueDir_chars = Overlay.opaqueMarker := by decide
theorem opaqueXattrValue_eq : Gen.Fs.opaqueXattrValue_chars = Overlay.opaqueXattrValue := by decide
theorem stateDirName_eq : Gen.Fs.stateDirName_chars = Overlay.stateDirName := by decide
theorem statFileMode_eq : Gen.Fs.statFileMode = (Overlay.statFileMode : Int) := by decide
theorem stateDirMode_eq : Gen.Fs.stateDirMode = (Overlay.stateDirMode : Int) := by decide
theorem tocTarName_eq : Gen.Estargz.TOCTarName_chars = Overlay.tocTarName := by decide
theorem prefetchLandmark_eq : Gen.Estargz.PrefetchLandmark_chars = Overlay.prefetchLandmark := by decide
theorem noPrefetchLandmark_eq : Gen.Estargz.NoPrefetchLandmark_chars = Overlay.noPrefetchLandmark := by decide
/-- `out.Blocks` of `entryToAttr` counts 512-byte units per 4096-byte block -/
theorem block_ratio : Gen.Fs.physicalBlockRatio = 8 ∧ Gen.Fs.blockSize = 4096 ∧
    Gen.Fs.blockSize = Gen.Fs.physicalBlockRatio * Gen.Fs.physicalBlockSize := by decide

/-- FULL statement (not proved here): the translated `fileModeToSystemMode` is `Toc.sysMode` on every 32-bit mode. -/
def fileModeToSystemMode_eq_full : Prop :=
  ∀ fm : Nat, fm < 2 ^ 32 → Gen.Fs.fileModeToSystemMode fm = Toc.sysMode fm

/-- the `os.FileMode` type parts `TOCEntry.Stat().Mode()` can produce (`Toc.goFileMode`) plus socket -/
def typeParts : List Nat :=
  [0, Toc.modeDir, Toc.modeSymlink, Toc.modeDevice + Toc.modeCharDevice, Toc.modeDevice, Toc.modeNamedPipe, Toc.modeSocket]

/-- permission parts the proved part enumerates -/
def permParts : List Nat := [0, 0o111, 0o400, 0o644, 0o755, 0o777]

/-- Proved part (finite, by evaluation): equality on every mode made of one of `permParts`, any
combination of setuid/setgid/sticky and one type part a TOC entry can have (6·8·7 modes; every branch
of the Go switch and every flag test is exercised).  Missing for the full statement: arbitrary
permission bits and modes with several/unknown type bits; needs bit-level lemmas about `&&&`/`|||`
on `Nat` (an exhaustive `decide` over all 512 permission values exceeded the time budget). -/
theorem fileModeToSystemMode_eq_partial :
    ∀ ty ∈ typeParts, ∀ su sg st : Bool, ∀ p ∈ permParts,
      let fm := p + (if su then Toc.modeSetuid else 0) + (if sg then Toc.modeSetgid else 0)
                  + (if st then Toc.modeSticky else 0) + ty
      Gen.Fs.fileModeToSystemMode fm = Toc.sysMode fm := by
  decide

example : Gen.Fs.fileModeToSystemMode (Toc.modeDir + 0o755) = 0o40755 := by decide

end SV.Props.C07gen2
